(* Lemmas about Model/GridIntrinsic.v: step 11.5 of the grid track sizing algorithm (C09, stage 2).

   Part A (any number structure): 11.5 is a composition of PER-TRACK primitives (the list of tracks is only ever mapped,
   updated at one index, or updated on an item's sub-slice; global quantities -- the increase of an iteration, an item's
   contribution -- enter the primitives as parameters).  `pw_lift` turns facts about the ten primitives into facts about
   the whole step.  Instances: length and sizing functions are preserved; termination of the batching loop.
   Part B (exact instance XQ): base sizes never decrease, growth limits end >= base sizes -- for EVERY oracle, NaN and
   infinite contributions included; tracks with fixed sizing functions (every gutter) keep their size exactly unless an
   item spanning several tracks covers them, and when one does they can only move through the THRESHOLD acceptance test
   of distribute_space_up_to_limits (refutation witnesses at the end). *)
From Coq Require Import ZArith NArith QArith Qminmax Bool List Lia Lqa Arith.
From TV Require Import Num.Num Num.QNum Gen.GridTracksGen Model.GridTracks Model.GridIntrinsic Proofs.GridTracksProofs.
Import ListNotations.

(* ==================================================================================================================
   Part A: pointwise structure *)
Section Pointwise.
  Context {T : Type} `{Num T}.
  Local Open Scope num_scope.
  Notation trk := (track T).
  Notation itm := (item T).

  (* ---- the primitives *)
  Definition bump (aff : trk -> bool) (p prop limit : trk -> T) (inc : T) (t : trk) : trk :=
    if aff t then
      let increase := inc * p t in
      if (zero <? increase) && (prop t + increase <=? limit t + threshold)
      then set_incurred t (incurred t + increase) else t
    else t.
  Definition plan_base (t : trk) : trk :=
    let t' := if base_planned t <? incurred t then set_base_planned t (incurred t) else t in set_incurred t' zero.
  Definition plan_limit (t : trk) : trk :=
    let t' := if limit_planned t <? incurred t then set_limit_planned t (incurred t) else t in set_incurred t' zero.
  Definition flush_base1 (t : trk) : trk := set_base_planned (set_base t (base_size t + base_planned t)) zero.
  Definition assign_inc (g : trk -> bool) (x : T) (k : nat) (t : trk) : trk :=
    if g t then set_incurred t (fmax zero x / of_Z (Z.of_nat (S k))) else t.
  Definition span1_finish1 (t : trk) : trk :=
    let t1 := if zero <? limit_planned t
              then set_limit t (if growth_limit t =? infinity then limit_planned t else fmax (growth_limit t) (limit_planned t))
              else t in
    let t2 := set_limit_planned (set_inf_growable t1 false) zero in
    if growth_limit t2 <? base_size t2 then set_limit t2 (base_size t2) else t2.
  Definition fix1 (t : trk) : trk := if growth_limit t <? base_size t then set_limit t (base_size t) else t.
  Definition flush_gl1 (b : bool) (t : trk) : trk :=
    let t1 := if zero <? limit_planned t
              then set_inf_growable
                     (set_limit t (if growth_limit t =? infinity then base_size t + limit_planned t
                                   else growth_limit t + limit_planned t)) b
              else set_inf_growable t false in
    set_limit_planned t1 zero.
  Definition finish1 (t : trk) : trk := if growth_limit t =? infinity then set_limit t (base_size t) else t.

  (* `side = true`: only the primitives of the growth-limit steps (5 and 6), which never touch a base size *)
  Section Side.
  Variable side : bool.
  Inductive Prim : (trk -> trk) -> Prop :=
  | pr_bump aff p prop limit inc : Prim (bump aff p prop limit inc)
  | pr_plan_base : side = false -> Prim plan_base
  | pr_plan_limit : Prim plan_limit
  | pr_flush_base : side = false -> Prim flush_base1
  | pr_assign g x k : Prim (assign_inc g x k)
  | pr_span1_item contrib inner avail it : side = false -> Prim (span1_item contrib inner avail it)
  | pr_span1_finish : side = false -> Prim span1_finish1
  | pr_fix : side = false -> Prim fix1
  | pr_flush_gl b : Prim (flush_gl1 b)
  | pr_finish : side = false -> Prim finish1.

  (* ---- list transformers built from per-track functions *)
  Inductive PW : (list trk -> list trk) -> Prop :=
  | pw_id : PW (fun ts => ts)
  | pw_map g : Prim g -> PW (map g)
  | pw_nth i g : Prim g -> PW (update_nth i g)
  | pw_comp F G : PW F -> PW G -> PW (fun ts => G (F ts))
  | pw_slice a n F : PW F -> PW (fun ts => firstn a ts ++ F (slice ts a n) ++ skipn (a + n) ts)
  | pw_dep (D : list trk -> list trk -> list trk) : (forall ts0, PW (D ts0)) -> PW (fun ts => D ts ts)
  | pw_ext F G : (forall ts, F ts = G ts) -> PW F -> PW G.

  Lemma pw_if (c : list trk -> bool) F G : PW F -> PW G -> PW (fun ts => if c ts then F ts else G ts).
  Proof.
    intros HF HG. apply (pw_dep (fun ts0 ts => if c ts0 then F ts else G ts)). intro ts0. destruct (c ts0); assumption.
  Qed.

  Lemma pw_fold {A} (G : A -> list trk -> list trk) (l : list A) :
    (forall a, PW (G a)) -> PW (fun ts => fold_left (fun ts a => G a ts) l ts).
  Proof.
    intro HG. induction l as [|a l IH]; simpl.
    - apply pw_id.
    - apply (pw_comp (G a) (fun ts => fold_left (fun ts a => G a ts) l ts)); auto.
  Qed.

  (* ---- distribute_space_up_to_limits *)
  Lemma apply_increase_map aff p prop limit inc space ts :
    snd (apply_increase aff p prop limit inc space ts) = map (bump aff p prop limit inc) ts.
  Proof.
    revert space. induction ts as [|t r IH]; intro space; [reflexivity|].
    cbn [apply_increase map]. unfold bump at 1. destruct (aff t).
    - cbv zeta. destruct ((zero <? inc * p t) && (prop t + inc * p t <=? limit t + threshold)).
      + specialize (IH (space - inc * p t)). destruct (apply_increase aff p prop limit inc (space - inc * p t) r).
        simpl in *. rewrite IH. reflexivity.
      + specialize (IH space). destruct (apply_increase aff p prop limit inc space r). simpl in *. rewrite IH. reflexivity.
    - specialize (IH space). destruct (apply_increase aff p prop limit inc space r). simpl in *. rewrite IH. reflexivity.
  Qed.

  Definition loop_body aff p prop limit f space (ts0 ts : list trk) : list trk :=
    if threshold <? space then
      let g := filter (growable aff prop limit) ts0 in
      let psum := fsum (map p g) in
      if psum =? zero then ts
      else
        let inc := fmin (min_by_first (map (fun t => (limit t - prop t) / p t) g)) (space / psum) in
        snd (distribute_loop aff p prop limit f (fst (apply_increase aff p prop limit inc space ts0))
               (map (bump aff p prop limit inc) ts))
    else ts.

  Lemma loop_S_eq aff p prop limit f space ts :
    snd (distribute_loop aff p prop limit (S f) space ts) = loop_body aff p prop limit f space ts ts.
  Proof.
    cbn [distribute_loop]. unfold distribute_step, loop_body.
    destruct (threshold <? space); [|reflexivity]. cbv zeta.
    destruct (fsum (map p (filter (growable aff prop limit) ts)) =? zero); [reflexivity|].
    match goal with |- context [apply_increase aff p prop limit ?i space ts] =>
      rewrite <- (apply_increase_map aff p prop limit i space ts);
      destruct (apply_increase aff p prop limit i space ts) end.
    reflexivity.
  Qed.

  Lemma pw_distribute_loop aff p prop limit fuel :
    forall space, PW (fun ts => snd (distribute_loop aff p prop limit fuel space ts)).
  Proof.
    induction fuel as [|f IH]; intro space.
    - simpl. apply pw_id.
    - eapply pw_ext; [intro ts; symmetry; apply loop_S_eq|].
      apply (pw_dep (loop_body aff p prop limit f space)). intro ts0. unfold loop_body.
      destruct (threshold <? space); [|apply pw_id]. cbv zeta.
      destruct (fsum (map p (filter (growable aff prop limit) ts0)) =? zero); [apply pw_id|].
      match goal with |- PW (fun ts => snd (distribute_loop _ _ _ _ _ ?s (map ?g ts))) =>
        apply (pw_comp (map g) (fun ts => snd (distribute_loop aff p prop limit f s ts))) end.
      + apply pw_map. apply pr_bump.
      + apply IH.
  Qed.

  Lemma pw_distribute space0 aff p prop limit :
    PW (fun ts => snd (distribute_space_up_to_limits space0 ts aff p prop limit)).
  Proof.
    unfold distribute_space_up_to_limits.
    apply (pw_dep (fun ts0 ts => snd (distribute_loop aff p prop limit (distribute_fuel ts0) space0 ts))).
    intro ts0. apply pw_distribute_loop.
  Qed.

  Lemma pw_on_slice (it : itm) F : PW F -> PW (on_slice it F).
  Proof. intro HF. unfold on_slice, item_slice. apply (pw_slice (range_start it) (range_len it) F HF). Qed.

  (* ---- distribute_item_space_to_growth_limit *)
  Definition grows_of inner (aff : trk -> bool) : trk -> bool :=
    fun t => aff t && (infinitely_growable t || (fit_content_limited_growth_limit inner t =? infinity)).

  Lemma growth_limit_eq inner space ts aff :
    distribute_item_space_to_growth_limit inner space ts aff =
    if (space =? zero) || Nat.eqb (length (filter aff ts)) 0 then ts
    else map plan_limit
           match length (filter (grows_of inner aff) ts) with
           | S k => map (assign_inc (grows_of inner aff) (space - fsum (map limit_or_base ts)) k) ts
           | O => snd (distribute_space_up_to_limits (fmax zero (space - fsum (map limit_or_base ts))) ts aff (fun _ => one)
                         limit_or_base (fit_content_limit inner))
           end.
  Proof.
    unfold distribute_item_space_to_growth_limit. destruct ((space =? zero) || Nat.eqb (length (filter aff ts)) 0); [reflexivity|].
    cbv zeta. fold (grows_of inner aff). destruct (length (filter (grows_of inner aff) ts)); reflexivity.
  Qed.

  Lemma pw_to_growth_limit inner space aff :
    PW (fun ts => distribute_item_space_to_growth_limit inner space ts aff).
  Proof.
    eapply pw_ext; [intro ts; symmetry; apply growth_limit_eq|].
    apply pw_if; [apply pw_id|].
    apply (pw_dep (fun ts0 ts =>
      map plan_limit
        match length (filter (grows_of inner aff) ts0) with
        | S k => map (assign_inc (grows_of inner aff) (space - fsum (map (limit_or_base) ts0)) k) ts
        | O => snd (distribute_space_up_to_limits (fmax zero (space - fsum (map limit_or_base ts0))) ts aff (fun _ => one)
                      limit_or_base (fit_content_limit inner))
        end)).
    intro ts0. destruct (length (filter (grows_of inner aff) ts0)) as [|k].
    - apply (pw_comp (fun ts => snd (distribute_space_up_to_limits (fmax zero (space - fsum (map limit_or_base ts0))) ts aff
                                       (fun _ => one) limit_or_base (fit_content_limit inner))) (map plan_limit));
        [apply pw_distribute|apply pw_map; apply pr_plan_limit].
    - apply (pw_comp (map (assign_inc (grows_of inner aff) (space - fsum (map limit_or_base ts0)) k)) (map plan_limit));
        apply pw_map; [apply pr_assign|apply pr_plan_limit].
  Qed.

  Lemma pw_to_limit inner (it : itm) space aff : PW (to_limit inner it space aff).
  Proof.
    unfold to_limit. destruct (zero <? space); [|apply pw_id].
    apply pw_on_slice. apply pw_to_growth_limit.
  Qed.

  Lemma pw_flush_gl b : PW (flush_planned_growth_limit_increases b).
  Proof. unfold flush_planned_growth_limit_increases. apply (pw_map (flush_gl1 b)). apply pr_flush_gl. Qed.

  End Side.

  (* ---- distribute_item_space_to_base_size *)
  Lemma inner_eq space ts aff p limit ct :
    distribute_item_space_to_base_size_inner space ts aff p limit ct =
    if (space =? zero) || negb (existsb aff ts) then ts
    else
      let extra := fmax zero (space - fsum (map base_size ts)) in
      let r1 := distribute_space_up_to_limits extra ts aff p base_size limit in
      map plan_base
          (if base_threshold <? fst r1 then
             let filter1 := match ct with
                            | CMinimum => fun t => is_intrinsic (maxf t)
                            | CMaximum => fun t => is_max_content (minf t) || is_max_or_fit_content (maxf t)
                            end in
             let number := length (filter (fun t => aff t && filter1 t) (snd r1)) in
             let filter2 := match number with O => fun _ => true | _ => filter1 end in
             snd (distribute_space_up_to_limits (fst r1) (snd r1) filter2 p base_size limit)
           else snd r1).
  Proof.
    unfold distribute_item_space_to_base_size_inner.
    destruct ((space =? zero) || negb (existsb aff ts)); [reflexivity|]. cbv zeta.
    destruct (distribute_space_up_to_limits (fmax zero (space - fsum (map base_size ts))) ts aff p base_size limit).
    reflexivity.
  Qed.

  Lemma pw_inner space aff p limit ct :
    PW false (fun ts => distribute_item_space_to_base_size_inner space ts aff p limit ct).
  Proof.
    eapply pw_ext; [intro ts; symmetry; apply inner_eq|].
    apply pw_if; [apply pw_id|]. cbv zeta.
    apply (pw_dep false (fun ts0 ts =>
      let extra := fmax zero (space - fsum (map base_size ts0)) in
      let r1 := distribute_space_up_to_limits extra ts0 aff p base_size limit in
      map plan_base
          (if base_threshold <? fst r1 then
             let filter1 := match ct with
                            | CMinimum => fun t => is_intrinsic (maxf t)
                            | CMaximum => fun t => is_max_content (minf t) || is_max_or_fit_content (maxf t)
                            end in
             let number := length (filter (fun t => aff t && filter1 t) (snd r1)) in
             let filter2 := match number with O => fun _ => true | _ => filter1 end in
             snd (distribute_space_up_to_limits (fst r1)
                    (snd (distribute_space_up_to_limits extra ts aff p base_size limit)) filter2 p base_size limit)
           else snd (distribute_space_up_to_limits extra ts aff p base_size limit)))).
    intro ts0. cbv zeta.
    set (extra := fmax zero (space - fsum (map base_size ts0))).
    set (r1 := distribute_space_up_to_limits extra ts0 aff p base_size limit).
    destruct (base_threshold <? fst r1).
    - match goal with |- PW _ (fun ts => map plan_base (snd (distribute_space_up_to_limits ?s (snd (distribute_space_up_to_limits ?e ts ?a ?pp ?pr ?l)) ?f2 _ _ _))) =>
        apply (pw_comp false (fun ts => snd (distribute_space_up_to_limits s (snd (distribute_space_up_to_limits e ts a pp pr l)) f2 pp pr l)) (map plan_base));
        [apply (pw_comp false (fun ts => snd (distribute_space_up_to_limits e ts a pp pr l)) (fun ts => snd (distribute_space_up_to_limits s ts f2 pp pr l))); apply pw_distribute
        |apply pw_map; apply pr_plan_base; reflexivity] end.
    - apply (pw_comp false (fun ts => snd (distribute_space_up_to_limits extra ts aff p base_size limit)) (map plan_base));
        [apply pw_distribute|apply pw_map; apply pr_plan_base; reflexivity].
  Qed.

  Lemma pw_to_base_size is_flex use_ff space aff limit ct :
    PW false (fun ts => distribute_item_space_to_base_size is_flex use_ff space ts aff limit ct).
  Proof.
    unfold distribute_item_space_to_base_size. destruct is_flex; [destruct use_ff|]; apply pw_inner.
  Qed.

  Lemma pw_to_base is_flex use_ff (it : itm) space aff limit ct : PW false (to_base is_flex use_ff it space aff limit ct).
  Proof.
    unfold to_base. destruct (zero <? space); [|apply pw_id].
    apply pw_on_slice. apply pw_to_base_size.
  Qed.

  Lemma pw_flush_base : PW false flush_planned_base.
  Proof. unfold flush_planned_base. apply (pw_map false flush_base1). apply pr_flush_base. reflexivity. Qed.

  (* ---- the steps of a batch *)
  Section Steps.
    Variable contrib : itm -> ckind -> T.
    Variable inner : option T.
    Variable avail : avail_space T.

    Lemma pw_step_minimums fl ff batch : PW false (step_minimums contrib inner avail fl ff batch).
    Proof.
      unfold step_minimums.
      apply (pw_comp false (fun ts => fold_left _ batch ts) flush_planned_base); [|apply pw_flush_base].
      apply (pw_fold false (fun it ts => if it_crosses_intrinsic it
                                   then to_base fl ff it (intrinsic_minimum_space contrib avail it (spanned_track_limit inner it ts))
                                                (has_intrinsic_min inner) (scroll_limit inner it) CMinimum ts
                                   else ts)).
      intro it. destruct (it_crosses_intrinsic it); [|apply pw_id].
      apply (pw_dep false (fun ts0 => to_base fl ff it (intrinsic_minimum_space contrib avail it (spanned_track_limit inner it ts0))
                                        (has_intrinsic_min inner) (scroll_limit inner it) CMinimum)).
      intro ts0. apply pw_to_base.
    Qed.

    Lemma pw_step_content_minimums fl ff batch : PW false (step_content_minimums contrib inner fl ff batch).
    Proof.
      unfold step_content_minimums.
      apply (pw_comp false (fun ts => fold_left _ batch ts) flush_planned_base); [|apply pw_flush_base].
      apply (pw_fold false (fun it => to_base fl ff it (min_content_contribution contrib it) (fun t => is_min_or_max_content (minf t))
                                        (scroll_limit inner it) CMinimum)).
      intro it. apply pw_to_base.
    Qed.

    Lemma pw_step_max_content_minimums fl ff batch : PW false (step_max_content_minimums contrib inner avail fl ff batch).
    Proof.
      unfold step_max_content_minimums. destruct avail; try apply pw_id.
      apply (pw_comp false (fun ts => fold_left _ batch ts) flush_planned_base); [|apply pw_flush_base].
      apply (pw_fold false (fun it ts =>
               if existsb has_max_content_min (item_slice it ts)
               then to_base fl ff it (maybe_min (max_content_contribution contrib it) (spanned_track_limit inner it ts))
                            has_max_content_min (fun _ => infinity) CMaximum ts
               else to_base fl ff it (maybe_min (max_content_contribution contrib it) (spanned_track_limit inner it ts))
                            has_auto_min (fit_content_limited_growth_limit inner) CMaximum ts)).
      intro it.
      apply (pw_dep false (fun ts0 ts =>
               if existsb has_max_content_min (item_slice it ts0)
               then to_base fl ff it (maybe_min (max_content_contribution contrib it) (spanned_track_limit inner it ts0))
                            has_max_content_min (fun _ => infinity) CMaximum ts
               else to_base fl ff it (maybe_min (max_content_contribution contrib it) (spanned_track_limit inner it ts0))
                            has_auto_min (fit_content_limited_growth_limit inner) CMaximum ts)).
      intro ts0. destruct (existsb has_max_content_min (item_slice it ts0)); apply pw_to_base.
    Qed.

    Lemma pw_step_max_content_all fl ff batch : PW false (step_max_content_all contrib fl ff batch).
    Proof.
      unfold step_max_content_all.
      apply (pw_comp false (fun ts => fold_left _ batch ts) flush_planned_base); [|apply pw_flush_base].
      apply (pw_fold false (fun it => to_base fl ff it (max_content_contribution contrib it) has_max_content_min growth_limit CMaximum)).
      intro it. apply pw_to_base.
    Qed.

    Lemma pw_fix : PW false fix_growth_limits.
    Proof. unfold fix_growth_limits. apply (pw_map false fix1). apply pr_fix. reflexivity. Qed.

    Lemma pw_step_intrinsic_maximums side batch : PW side (step_intrinsic_maximums contrib inner batch).
    Proof.
      unfold step_intrinsic_maximums.
      apply (pw_comp side (fun ts => fold_left _ batch ts) (flush_planned_growth_limit_increases true)); [|apply pw_flush_gl].
      apply (pw_fold side (fun it => to_limit inner it (min_content_contribution contrib it)
                                         (fun t => negb (has_definite_value inner (maxf t))))).
      intro it. apply pw_to_limit.
    Qed.

    Lemma pw_step_max_content_maximums side batch : PW side (step_max_content_maximums contrib inner batch).
    Proof.
      unfold step_max_content_maximums.
      apply (pw_comp side (fun ts => fold_left _ batch ts) (flush_planned_growth_limit_increases false)); [|apply pw_flush_gl].
      apply (pw_fold side (fun it => to_limit inner it (max_content_contribution contrib it) (has_max_content_max inner))).
      intro it. apply pw_to_limit.
    Qed.

    Lemma pw_general_batch fl ff batch : PW false (general_batch contrib inner avail fl ff batch).
    Proof.
      unfold general_batch. cbv zeta.
      assert (H5 : PW false (fun ts => fix_growth_limits (step_max_content_all contrib fl ff batch
                         (step_max_content_minimums contrib inner avail fl ff batch
                            (step_content_minimums contrib inner fl ff batch (step_minimums contrib inner avail fl ff batch ts)))))).
      { apply (pw_comp false (fun ts => step_max_content_all contrib fl ff batch _) fix_growth_limits); [|apply pw_fix].
        apply (pw_comp false (fun ts => step_max_content_minimums contrib inner avail fl ff batch _) (step_max_content_all contrib fl ff batch));
          [|apply pw_step_max_content_all].
        apply (pw_comp false (fun ts => step_content_minimums contrib inner fl ff batch _) (step_max_content_minimums contrib inner avail fl ff batch));
          [|apply pw_step_max_content_minimums].
        apply (pw_comp false (step_minimums contrib inner avail fl ff batch) (step_content_minimums contrib inner fl ff batch));
          [apply pw_step_minimums|apply pw_step_content_minimums]. }
      destruct fl; [exact H5|].
      apply (pw_comp false (fun ts => step_intrinsic_maximums contrib inner batch _) (step_max_content_maximums contrib inner batch));
        [|apply pw_step_max_content_maximums].
      apply (pw_comp false (fun ts => fix_growth_limits _) (step_intrinsic_maximums contrib inner batch));
        [exact H5|apply pw_step_intrinsic_maximums].
    Qed.

    Lemma pw_span1_batch batch : PW false (span1_batch contrib inner avail batch).
    Proof.
      unfold span1_batch.
      apply (pw_comp false (fun ts => fold_left _ batch ts) span1_finish).
      - apply (pw_fold false (fun it => update_nth (S (it_start it)) (span1_item contrib inner avail it))).
        intro it. apply pw_nth. apply pr_span1_item. reflexivity.
      - unfold span1_finish. apply (pw_map false span1_finish1). apply pr_span1_finish. reflexivity.
    Qed.

    Lemma pw_process_batch ffs batch fl : PW false (process_batch contrib inner avail ffs batch fl).
    Proof.
      unfold process_batch. cbv zeta. destruct (negb fl && _); [apply pw_span1_batch|apply pw_general_batch].
    Qed.

    Lemma pw_batch_loop ffs items fuel : forall off, PW false (batch_loop contrib inner avail fuel ffs off items).
    Proof.
      induction fuel as [|f IH]; intro off; cbn [batch_loop].
      - apply pw_id.
      - destruct (next_batch off items) as [[next fl]|]; [|apply pw_id].
        cbv zeta. destruct fl.
        + apply pw_process_batch.
        + apply (pw_comp false (process_batch contrib inner avail ffs _ false) (batch_loop contrib inner avail f ffs next items));
            [apply pw_process_batch|apply IH].
    Qed.

    Theorem pw_resolve fuel items : PW false (resolve_intrinsic_fuelled contrib inner avail fuel items).
    Proof.
      unfold resolve_intrinsic_fuelled. cbv zeta.
      apply (pw_dep false (fun ts0 ts => finish_infinite_limits
                                     (batch_loop contrib inner avail fuel (fsum (map flex_factor ts0)) 0 (sort_items items) ts))).
      intro ts0.
      apply (pw_comp false (batch_loop contrib inner avail fuel _ 0 (sort_items items)) finish_infinite_limits);
        [apply pw_batch_loop|].
      unfold finish_infinite_limits. apply (pw_map false finish1). apply pr_finish. reflexivity.
    Qed.
  End Steps.
End Pointwise.

(* ---- lifting facts about the primitives to the whole step *)
Lemma Forall2_trans_gen {A} (R : A -> A -> Prop) (Rt : forall a b c, R a b -> R b c -> R a c) l1 l2 l3 :
  Forall2 R l1 l2 -> Forall2 R l2 l3 -> Forall2 R l1 l3.
Proof.
  intro H12. revert l3. induction H12 as [|a b l1 l2 Hab Hl IH]; intros l3 H23; inversion H23; subst; constructor; eauto.
Qed.

Lemma skipn_skipn_add {A} (n a : nat) (l : list A) : skipn n (skipn a l) = skipn (a + n) l.
Proof.
  revert l. induction a as [|a IH]; intro l; simpl; [reflexivity|].
  destruct l as [|x l]; [destruct n; reflexivity|apply IH].
Qed.

Lemma split3 {T} (l : list (track T)) a n : l = firstn a l ++ slice l a n ++ skipn (a + n) l.
Proof.
  unfold slice. rewrite <- (firstn_skipn a l) at 1. f_equal.
  rewrite <- (firstn_skipn n (skipn a l)) at 1. f_equal. apply skipn_skipn_add.
Qed.

Section Lift.
  Context {T : Type} `{Num T}.
  Variable side : bool.
  Variable inv : track T -> Prop.
  Variable R : track T -> track T -> Prop.
  Hypothesis R_refl : forall t, inv t -> R t t.
  Hypothesis R_trans : forall a b c, R a b -> R b c -> R a c.
  Hypothesis prim_ok : forall g, Prim side g -> forall t, inv t -> inv (g t) /\ R t (g t).

  Lemma Forall2_refl_inv ts : Forall inv ts -> Forall2 R ts ts.
  Proof. induction 1; constructor; auto. Qed.

  Theorem pw_lift F : PW side F -> forall ts, Forall inv ts -> Forall inv (F ts) /\ Forall2 R ts (F ts).
  Proof.
    induction 1 as [|g Hg|i g Hg|F G HF IHF HG IHG|a n F HF IHF|D HD IHD|F G HE HF IHF]; intros ts Hi.
    - split; [exact Hi|apply Forall2_refl_inv; exact Hi].
    - split.
      + apply Forall_map. eapply Forall_impl; [|exact Hi]. intros t Ht. apply (prim_ok g Hg t Ht).
      + induction Hi as [|t l Ht Hl IH]; simpl; constructor; auto. apply (prim_ok g Hg t Ht).
    - revert i. induction Hi as [|t l Ht Hl IH]; intro i.
      + destruct i; simpl; split; constructor.
      + destruct i as [|i]; simpl.
        * destruct (prim_ok g Hg t Ht) as [I1 R1]. split; constructor; auto. apply Forall2_refl_inv; exact Hl.
        * destruct (IH i) as [I1 R1]. split; constructor; auto.
    - destruct (IHF ts Hi) as [I1 R1]. destruct (IHG (F ts) I1) as [I2 R2]. split; [exact I2|].
      eapply Forall2_trans_gen; eauto.
    - rewrite (split3 ts a n) in Hi. apply Forall_app in Hi. destruct Hi as [H1 H23].
      apply Forall_app in H23. destruct H23 as [H2 H3].
      destruct (IHF (slice ts a n) H2) as [I2 R2]. split.
      + apply Forall_app. split; [exact H1|]. apply Forall_app. split; assumption.
      + rewrite (split3 ts a n) at 1. apply Forall2_app; [apply Forall2_refl_inv; exact H1|].
        apply Forall2_app; [exact R2|apply Forall2_refl_inv; exact H3].
    - apply (IHD ts ts Hi).
    - rewrite <- HE. apply IHF. exact Hi.
  Qed.
End Lift.

(* ---- instance: 11.5 preserves the length of the track vector and every track's kind and sizing functions *)
Section Static.
  Context {T : Type} `{Num T}.
  Definition static_eq (t t' : track T) : Prop :=
    kind t' = kind t /\ is_collapsed t' = is_collapsed t /\ minf t' = minf t /\ maxf t' = maxf t /\ offset t' = offset t.

  Lemma static_refl t : static_eq t t.
  Proof. repeat split. Qed.
  Lemma static_trans a b c : static_eq a b -> static_eq b c -> static_eq a c.
  Proof. unfold static_eq. intros [? [? [? [? ?]]]] [? [? [? [? ?]]]]. repeat split; congruence. Qed.

  Ltac static_crush :=
    repeat match goal with
           | |- context [if ?c then _ else _] => destruct c
           | |- context [match ?x with _ => _ end] => destruct x
           end; cbn; repeat split; reflexivity.

  Lemma prim_static g : Prim false g -> forall t, True -> True /\ static_eq t (g t).
  Proof.
    intros Hg t _. split; [exact I|]. destruct Hg; destruct t as [tk tc mn mx off tb gl ic bp lp ig]; unfold static_eq.
    - unfold bump. static_crush.
    - unfold plan_base. static_crush.
    - unfold plan_limit. static_crush.
    - unfold flush_base1. static_crush.
    - unfold assign_inc. static_crush.
    - unfold span1_item. cbn [minf maxf set_base set_limit_planned base_size limit_planned].
      destruct mn; static_crush.
    - unfold span1_finish1. static_crush.
    - unfold fix1. static_crush.
    - unfold flush_gl1. static_crush.
    - unfold finish1. static_crush.
  Qed.

  Theorem intrinsic_static contrib inner avail fuel items (ts : list (track T)) :
    Forall2 static_eq ts (resolve_intrinsic_fuelled contrib inner avail fuel items ts).
  Proof.
    apply (pw_lift false (fun _ => True) static_eq (fun t _ => static_refl t) static_trans prim_static _
                   (pw_resolve contrib inner avail fuel items)).
    apply Forall_forall. auto.
  Qed.

  Lemma Forall2_length_eq {A B} (P : A -> B -> Prop) l l' : Forall2 P l l' -> length l = length l'.
  Proof. induction 1; simpl; congruence. Qed.

  Theorem intrinsic_length contrib inner avail fuel items (ts : list (track T)) :
    length (resolve_intrinsic_fuelled contrib inner avail fuel items ts) = length ts.
  Proof. symmetry. eapply Forall2_length_eq. apply intrinsic_static. Qed.
End Static.

(* ---- termination of the batching loop: every batch consumes at least one item, so `length items + 1` iterations
   are enough -- more fuel changes nothing (any number structure, any oracle) *)
Section Termination.
  Context {T : Type} `{Num T}.

  Lemma insert_length (x : item T) l : length (insert_item x l) = S (length l).
  Proof. induction l as [|y r IH]; simpl; [reflexivity|]. destruct (item_lt x y); simpl; congruence. Qed.

  Lemma sort_items_length (items : list (item T)) : length (sort_items items) = length items.
  Proof.
    unfold sort_items.
    assert (Hg : forall acc, length (fold_left (fun acc x => insert_item x acc) items acc) = (length items + length acc)%nat).
    { induction items as [|x r IH]; intro acc; simpl; [reflexivity|]. rewrite IH, insert_length. lia. }
    rewrite Hg. simpl. lia.
  Qed.

  Lemma next_batch_bounds off (items : list (item T)) next fl :
    next_batch off items = Some (next, fl) -> (off < next /\ off < length items)%nat.
  Proof.
    unfold next_batch. destruct (nth_error items off) as [it|] eqn:E; [|discriminate].
    assert (Hlt : (off < length items)%nat) by (apply nth_error_Some; congruence).
    cbv zeta. destruct (Nat.leb _ off) eqn:El; [discriminate|]. intro Hx. inversion Hx; subst.
    apply Nat.leb_gt in El. split; assumption.
  Qed.

  Lemma batch_loop_fuel contrib inner avail ffs (items : list (item T)) fuel :
    forall k off ts, (length items - off < fuel)%nat ->
    batch_loop contrib inner avail (fuel + k) ffs off items ts = batch_loop contrib inner avail fuel ffs off items ts.
  Proof.
    induction fuel as [|f IH]; intros k off ts Hf; [lia|].
    cbn [Nat.add batch_loop]. destruct (next_batch off items) as [[next fl]|] eqn:En; [|reflexivity].
    destruct (next_batch_bounds _ _ _ _ En) as [H1 H2]. cbv zeta. destruct fl; [reflexivity|].
    apply IH. lia.
  Qed.

  Theorem intrinsic_terminates contrib inner avail (items : list (item T)) ts k :
    resolve_intrinsic_fuelled contrib inner avail (intrinsic_fuel items + k) items ts
    = resolve_intrinsic_track_sizes contrib inner avail items ts.
  Proof.
    unfold resolve_intrinsic_track_sizes, resolve_intrinsic_fuelled. cbv zeta. f_equal.
    apply batch_loop_fuel. rewrite sort_items_length. unfold intrinsic_fuel. lia.
  Qed.
End Termination.

(* ==================================================================================================================
   Part B: the exact instance XQ *)
Local Open Scope Q_scope.

(* neither NaN nor -infinity / additionally not negative *)
Definition lb (x : XQ) : Prop := match x with Fin _ | PInf => True | _ => False end.
Definition nn (x : XQ) : Prop := match x with Fin q => 0 <= q | PInf => True | _ => False end.

Lemma nn_lb x : nn x -> lb x.
Proof. destruct x; simpl; auto. Qed.
Lemma x_leb_refl_lb x : lb x -> x_leb x x = true.
Proof. destruct x; simpl; try contradiction; auto. intros _. apply Qle_bool_iff. lra. Qed.
Lemma x_leb_trans a b c : x_leb a b = true -> x_leb b c = true -> x_leb a c = true.
Proof.
  destruct a, b, c; simpl; try discriminate; auto.
  intros H1 H2. apply Qle_bool_iff in H1. apply Qle_bool_iff in H2. apply Qle_bool_iff. lra.
Qed.
Lemma pos_nn b : x_ltb (Fin 0) b = true -> nn b.
Proof. destruct b; simpl; try discriminate; auto. intro Hx. destruct (Qle_bool q 0) eqn:E; [discriminate|]. apply Qle_bool_false in E. lra. Qed.
Lemma nn_add a b : nn a -> nn b -> nn (x_add a b).
Proof. destruct a, b; simpl; try contradiction; auto. intros; lra. Qed.
Lemma lb_add_nn a b : lb a -> nn b -> lb (x_add a b) /\ x_leb a (x_add a b) = true.
Proof.
  destruct a, b; simpl; try contradiction; auto. intros _ Hb. split; [exact I|]. apply Qle_bool_iff. lra.
Qed.
Lemma max_lb a b : lb a -> lb (x_max a b) /\ x_leb a (x_max a b) = true.
Proof.
  intro Ha. unfold x_max. destruct a; simpl in Ha; try contradiction; cbn [x_is_nan].
  - destruct b; cbn [x_is_nan]; try (split; [exact I|apply Qle_bool_iff; lra]).
    + destruct (x_ltb (Fin q) (Fin q0)) eqn:E.
      * apply x_ltb_fin in E. split; [exact I|]. apply Qle_bool_iff. lra.
      * split; [exact I|]. apply Qle_bool_iff. lra.
    + simpl. split; auto.
  - destruct b; cbn [x_is_nan x_ltb]; split; simpl; auto.
Qed.
Lemma max_nn a b : nn a -> nn (x_max a b).
Proof.
  intro Ha. unfold x_max. destruct a; simpl in Ha; try contradiction; cbn [x_is_nan].
  - destruct b; cbn [x_is_nan]; simpl; auto.
    destruct (negb (Qle_bool q0 q)) eqn:E; simpl; auto.
    apply negb_true_iff in E. apply Qle_bool_false in E. lra.
  - destruct b; cbn [x_is_nan x_ltb]; simpl; auto.
Qed.
Lemma max0_nn x : nn (x_max (Fin 0) x).
Proof. apply max_nn. simpl. lra. Qed.
Lemma nn_div_pos a (k : nat) : nn a -> nn (x_div a (Fin (inject_Z (Z.of_nat (S k))))).
Proof.
  assert (Hs : q_sign (inject_Z (Z.of_nat (S k))) = Gt).
  { unfold q_sign, inject_Z. simpl Qnum. apply Z.compare_gt_iff. lia. }
  assert (Hp : 0 < inject_Z (Z.of_nat (S k))).
  { change 0 with (inject_Z 0). rewrite <- Zlt_Qlt. lia. }
  destruct a; cbn [nn x_div]; try contradiction; rewrite Hs; cbn [nn]; auto.
  intro Hq. apply Qle_shift_div_l; [exact Hp|lra].
Qed.

Definition inv (t : track XQ) : Prop :=
  lb (base_size t) /\ lb (growth_limit t) /\ nn (incurred t) /\ nn (base_planned t) /\ nn (limit_planned t).
Definition mono (t t' : track XQ) : Prop := x_leb (base_size t) (base_size t') = true.

Lemma mono_refl t : inv t -> mono t t.
Proof. intros [Hb _]. apply x_leb_refl_lb. exact Hb. Qed.
Lemma mono_trans a b c : mono a b -> mono b c -> mono a c.
Proof. unfold mono. apply x_leb_trans. Qed.

Lemma nn_zero : nn (Fin 0).
Proof. simpl. lra. Qed.

Ltac inv_intro t Hb Hg Hi Hp Hl :=
  destruct t as [tk tc mn mx off tb gl ic bp lp ig]; unfold inv, mono;
  cbn [base_size growth_limit incurred base_planned limit_planned]; intros [Hb [Hg [Hi [Hp Hl]]]].

Lemma prim_mono g : Prim false g -> forall t, inv t -> inv (g t) /\ mono t (g t).
Proof.
  intros Hg0 t. destruct Hg0.
  - (* bump *) unfold bump. destruct (aff t); [|intro Hi; split; [exact Hi|apply mono_refl; exact Hi]].
    cbv zeta. destruct (_ && _) eqn:E; [|intro Hi; split; [exact Hi|apply mono_refl; exact Hi]].
    apply andb_true_iff in E. destruct E as [E1 _]. xq0.
    set (y := x_mul inc (p t)) in *. clearbody y. inv_intro t Hb Hg Hi Hp Hl.
    cbn [set_incurred base_size growth_limit incurred base_planned limit_planned].
    repeat split; auto. + apply nn_add; [exact Hi|apply pos_nn; exact E1]. + apply x_leb_refl_lb; exact Hb.
  - (* plan_base *) unfold plan_base. inv_intro t Hb Hg Hi Hp Hl. xq0. cbv zeta.
    destruct (x_ltb bp ic); cbn; repeat split; auto using nn_zero, x_leb_refl_lb; try lra.
  - (* plan_limit *) unfold plan_limit. inv_intro t Hb Hg Hi Hp Hl. xq0. cbv zeta.
    destruct (x_ltb lp ic); cbn; repeat split; auto using nn_zero, x_leb_refl_lb; try lra.
  - (* flush_base1 *) unfold flush_base1. inv_intro t Hb Hg Hi Hp Hl. xq0. cbn.
    destruct (lb_add_nn tb bp Hb Hp) as [L1 L2]. repeat split; auto using nn_zero; try lra.
  - (* assign_inc *) unfold assign_inc. destruct (g t); [|intro Hi; split; [exact Hi|apply mono_refl; exact Hi]].
    inv_intro t Hb Hg Hi Hp Hl. xq0. cbn. repeat split; auto using x_leb_refl_lb; try lra.
    apply nn_div_pos. apply max0_nn.
  - (* span1_item *) unfold span1_item. inv_intro t Hb Hg Hi Hp Hl. xq0.
    cbn [minf maxf set_base set_limit_planned base_size limit_planned growth_limit incurred base_planned].
    assert (Hmax : forall c, lb (x_max tb c) /\ x_leb tb (x_max tb c) = true) by (intro c; apply max_lb; exact Hb).
    assert (Hself : x_leb tb tb = true) by (apply x_leb_refl_lb; exact Hb).
    assert (Hlp : forall c, nn (x_max lp c)) by (intro c; apply max_nn; exact Hl).
    destruct mn;
      repeat match goal with
             | |- context [if ?c then _ else _] => destruct c
             end;
      cbn [base_size growth_limit incurred base_planned limit_planned set_limit_planned set_base];
      repeat split; auto; try apply Hmax; try apply Hlp; try (apply max_nn; apply Hlp).
  - (* span1_finish1 *) unfold span1_finish1. inv_intro t Hb Hg Hi Hp Hl. xq0. cbv zeta.
    repeat match goal with
           | |- context [if ?c then _ else _] => destruct c eqn:?
           end;
      cbn [base_size growth_limit incurred base_planned limit_planned set_limit_planned set_limit set_inf_growable] in *;
      repeat split; auto using nn_zero, x_leb_refl_lb, nn_lb; try (apply max_lb; exact Hg); try (simpl; lra).
  - (* fix1 *) unfold fix1. inv_intro t Hb Hg Hi Hp Hl. xq0.
    destruct (x_ltb gl tb); cbn; repeat split; auto using x_leb_refl_lb; try lra.
  - (* flush_gl1 *) unfold flush_gl1. inv_intro t Hb Hg Hi Hp Hl. xq0. cbv zeta.
    repeat match goal with
           | |- context [if ?c then _ else _] => destruct c eqn:?
           end;
      cbn [base_size growth_limit incurred base_planned limit_planned set_limit_planned set_limit set_inf_growable] in *;
      repeat split; auto using nn_zero, x_leb_refl_lb; try (apply lb_add_nn; assumption); try (simpl; lra).
  - (* finish1 *) unfold finish1. inv_intro t Hb Hg Hi Hp Hl. xq0.
    destruct (x_eqb gl PInf); cbn; repeat split; auto using x_leb_refl_lb; try lra.
Qed.

(* 11.5 never decreases a base size -- whatever the oracle returns (NaN and infinite contributions included) *)
Theorem intrinsic_monotone contrib inner avail fuel items (ts : list (track XQ)) :
  Forall inv ts ->
  Forall inv (resolve_intrinsic_fuelled contrib inner avail fuel items ts) /\
  Forall2 mono ts (resolve_intrinsic_fuelled contrib inner avail fuel items ts).
Proof.
  apply (pw_lift false inv mono mono_refl mono_trans prim_mono _ (pw_resolve contrib inner avail fuel items)).
Qed.

(* ---- growth limits end up >= base sizes.  invJ: the invariant plus base <= growth limit *)
Definition invJ (t : track XQ) : Prop := inv t /\ x_leb (base_size t) (growth_limit t) = true.

Lemma x_ltb_false_leb a b : lb a -> lb b -> x_ltb a b = false -> x_leb b a = true.
Proof.
  destruct a, b; simpl; try contradiction; auto; try discriminate.
  intros _ _ Hx. apply negb_false_iff in Hx. exact Hx.
Qed.

(* the primitives of the growth-limit steps keep base <= growth limit *)
Lemma prim_limit_side g : Prim true g -> forall t, invJ t -> invJ (g t) /\ True.
Proof.
  intros Hg0 t [Hi HJ]. split; [|exact I]. remember true as sd eqn:Es.
  destruct Hg0 as [aff p prop limit inc|Hc| |Hc|g0 x k|? ? ? ? Hc|Hc|Hc|b|Hc]; subst sd; try discriminate Hc.
  - (* bump *) split; [apply (prim_mono _ (pr_bump false aff p prop limit inc) t Hi)|].
    unfold bump. destruct (aff t); [|exact HJ]. cbv zeta. destruct (_ && _); [|exact HJ]. destruct t; exact HJ.
  - (* plan_limit *) split; [apply (prim_mono _ (pr_plan_limit false) t Hi)|].
    unfold plan_limit. destruct t. cbn in *. destruct (x_ltb _ _); exact HJ.
  - (* assign_inc *) split; [apply (prim_mono _ (pr_assign false g0 x k) t Hi)|].
    unfold assign_inc. destruct (g0 t); [|exact HJ]. destruct t; exact HJ.
  - (* flush_gl1 *) split; [apply (prim_mono _ (pr_flush_gl false b) t Hi)|].
    revert Hi HJ. unfold flush_gl1. inv_intro t Hb Hg Hi Hp Hl. xq0. cbv zeta. intro HJ.
    cbn [base_size growth_limit] in HJ.
    destruct (x_ltb (Fin 0) lp) eqn:E0; cbn [base_size growth_limit set_limit_planned set_limit set_inf_growable]; [|exact HJ].
    destruct (x_eqb gl PInf).
    + apply lb_add_nn; assumption.
    + eapply x_leb_trans; [exact HJ|]. apply lb_add_nn; assumption.
Qed.

Lemma Forall_map_impl {A B} (P : A -> Prop) (Q : B -> Prop) (g : A -> B) l :
  (forall x, P x -> Q (g x)) -> Forall P l -> Forall Q (map g l).
Proof. intros Hpq Hl. apply Forall_map. eapply Forall_impl; [|exact Hl]. exact Hpq. Qed.

Lemma fix1_J t : inv t -> invJ (fix1 t).
Proof.
  intro Hi. split; [apply (prim_mono _ (pr_fix false eq_refl) t Hi)|].
  revert Hi. unfold fix1. inv_intro t Hb Hg Hi Hp Hl. xq0.
  destruct (x_ltb gl tb) eqn:E; cbn [base_size growth_limit set_limit].
  - apply x_leb_refl_lb. exact Hb.
  - apply x_ltb_false_leb; assumption.
Qed.

Lemma span1_finish1_J t : inv t -> invJ (span1_finish1 t).
Proof.
  intro Hi. split; [apply (prim_mono _ (pr_span1_finish false eq_refl) t Hi)|].
  revert Hi. unfold span1_finish1. inv_intro t Hb Hg Hi Hp Hl. xq0. cbv zeta.
  assert (Hlp : x_ltb (Fin 0) lp = true -> lb lp) by (intro E; apply nn_lb; exact Hl).
  destruct (x_ltb (Fin 0) lp) eqn:E0;
    cbn [base_size growth_limit set_limit_planned set_limit set_inf_growable].
  - set (g' := if x_eqb gl PInf then lp else x_max gl lp).
    assert (Hg' : lb g').
    { unfold g'. destruct (x_eqb gl PInf); [apply nn_lb; exact Hl|apply max_lb; exact Hg]. }
    destruct (x_ltb g' tb) eqn:E; cbn [base_size growth_limit set_limit].
    + apply x_leb_refl_lb. exact Hb.
    + apply x_ltb_false_leb; assumption.
  - destruct (x_ltb gl tb) eqn:E; cbn [base_size growth_limit set_limit].
    + apply x_leb_refl_lb. exact Hb.
    + apply x_ltb_false_leb; assumption.
Qed.

Lemma finish1_J t : invJ t -> invJ (finish1 t).
Proof.
  intros [Hi HJ]. split; [apply (prim_mono _ (pr_finish false eq_refl) t Hi)|].
  revert Hi HJ. unfold finish1. inv_intro t Hb Hg Hi Hp Hl. xq0. intro HJ.
  destruct (x_eqb gl PInf); cbn [base_size growth_limit set_limit] in *; [apply x_leb_refl_lb; exact Hb|exact HJ].
Qed.

Lemma invJ_inv ts : Forall invJ ts -> Forall inv ts.
Proof. apply Forall_impl. intros t [Hi _]. exact Hi. Qed.

Section LimitsGeBase.
  Variable contrib : item XQ -> ckind -> XQ.
  Variable inner : option XQ.
  Variable avail : avail_space XQ.

  Lemma pw_before_fix fl ff batch :
    PW false (fun ts => step_max_content_all contrib fl ff batch
                          (step_max_content_minimums contrib inner avail fl ff batch
                             (step_content_minimums contrib inner fl ff batch (step_minimums contrib inner avail fl ff batch ts)))).
  Proof.
    apply (pw_comp false (fun ts => step_max_content_minimums contrib inner avail fl ff batch _) (step_max_content_all contrib fl ff batch));
      [|apply pw_step_max_content_all].
    apply (pw_comp false (fun ts => step_content_minimums contrib inner fl ff batch _) (step_max_content_minimums contrib inner avail fl ff batch));
      [|apply pw_step_max_content_minimums].
    apply (pw_comp false (step_minimums contrib inner avail fl ff batch) (step_content_minimums contrib inner fl ff batch));
      [apply pw_step_minimums|apply pw_step_content_minimums].
  Qed.

  Lemma general_batch_J fl ff batch ts : Forall inv ts -> Forall invJ (general_batch contrib inner avail fl ff batch ts).
  Proof.
    intro Hi. unfold general_batch. cbv zeta.
    destruct (pw_lift false inv mono mono_refl mono_trans prim_mono _ (pw_before_fix fl ff batch) ts Hi) as [H4 _].
    assert (H5 : Forall invJ (fix_growth_limits (step_max_content_all contrib fl ff batch
                    (step_max_content_minimums contrib inner avail fl ff batch
                       (step_content_minimums contrib inner fl ff batch (step_minimums contrib inner avail fl ff batch ts)))))).
    { unfold fix_growth_limits. apply (Forall_map_impl inv invJ fix1); [apply fix1_J|exact H4]. }
    destruct fl; [exact H5|].
    assert (Hrefl : forall t, invJ t -> True) by auto.
    destruct (pw_lift true invJ (fun _ _ => True) (fun _ _ => I) (fun _ _ _ _ _ => I) prim_limit_side _
                      (pw_step_intrinsic_maximums contrib inner true batch) _ H5) as [H6 _].
    destruct (pw_lift true invJ (fun _ _ => True) (fun _ _ => I) (fun _ _ _ _ _ => I) prim_limit_side _
                      (pw_step_max_content_maximums contrib inner true batch) _ H6) as [H7 _].
    exact H7.
  Qed.

  Lemma pw_span1_fold batch :
    PW false (fun ts => fold_left (fun ts it => update_nth (S (it_start it)) (span1_item contrib inner avail it) ts) batch ts).
  Proof.
    apply (pw_fold false (fun it => update_nth (S (it_start it)) (span1_item contrib inner avail it))).
    intro it. apply pw_nth. apply pr_span1_item. reflexivity.
  Qed.

  Lemma span1_batch_J batch ts : Forall inv ts -> Forall invJ (span1_batch contrib inner avail batch ts).
  Proof.
    intro Hi. unfold span1_batch, span1_finish.
    destruct (pw_lift false inv mono mono_refl mono_trans prim_mono _ (pw_span1_fold batch) ts Hi) as [H1 _].
    apply (Forall_map_impl inv invJ span1_finish1); [apply span1_finish1_J|exact H1].
  Qed.

  Lemma process_batch_J ffs batch fl ts : Forall inv ts -> Forall invJ (process_batch contrib inner avail ffs batch fl ts).
  Proof.
    intro Hi. unfold process_batch. cbv zeta. destruct (negb fl && _); [apply span1_batch_J|apply general_batch_J]; exact Hi.
  Qed.

  Lemma batch_loop_J ffs items fuel : forall off ts, Forall invJ ts -> Forall invJ (batch_loop contrib inner avail fuel ffs off items ts).
  Proof.
    induction fuel as [|f IH]; intros off ts HJ; cbn [batch_loop]; [exact HJ|].
    destruct (next_batch off items) as [[next fl]|]; [|exact HJ]. cbv zeta.
    assert (HP : Forall invJ (process_batch contrib inner avail ffs (firstn (next - off) (skipn off items)) fl ts))
      by (apply process_batch_J; apply invJ_inv; exact HJ).
    destruct fl; [exact HP|]. apply IH. exact HP.
  Qed.

  (* after 11.5 every growth limit is at least the base size, given that this held after 11.4 *)
  Theorem intrinsic_limits_ge_base fuel items ts :
    Forall invJ ts -> Forall invJ (resolve_intrinsic_fuelled contrib inner avail fuel items ts).
  Proof.
    intro HJ. unfold resolve_intrinsic_fuelled, finish_infinite_limits. cbv zeta.
    apply (Forall_map_impl invJ invJ finish1); [apply finish1_J|]. apply batch_loop_J. exact HJ.
  Qed.
End LimitsGeBase.

(* ==================================================================================================================
   Tracks with fixed sizing functions.  `rigid`: min and max track sizing function are definite (every gutter; every
   `<length>`, `minmax(<length>, <length>)`, percentages under a definite container size).  Such a track is never an
   "affected" track of 11.5: its base size can only change in the "distribute beyond limits" call with
   `filter = |_| true` of an item spanning it together with other tracks. *)
Section Rigid.
  Context {T : Type} `{Num T}.
  Variable inner : option T.

  Definition is_definite_sf (f : sfn T) : bool := match definite_value inner f with Some _ => true | None => false end.
  Definition rigid (t : track T) : Prop := is_definite_sf (minf t) = true /\ is_definite_sf (maxf t) = true.

  Lemma rigid_static t t' : static_eq t t' -> rigid t -> rigid t'.
  Proof. intros [_ [_ [E1 [E2 _]]]] [R1 R2]. unfold rigid. rewrite E1, E2. auto. Qed.

  Lemma definite_cases f : is_definite_sf f = true ->
    (exists v, f = SLength v) \/ (exists v s, f = SPercent v /\ inner = Some s).
  Proof.
    unfold is_definite_sf, definite_value. destruct f; try discriminate; [left; eauto|].
    destruct inner as [s|]; [|discriminate]. right. eauto.
  Qed.

  (* none of the "affected track" predicates of 11.5 selects a rigid track *)
  Lemma rigid_unaffected t : rigid t ->
    has_intrinsic_min inner t = false /\ is_min_or_max_content (minf t) = false /\ has_max_content_min t = false /\
    has_auto_min t = false /\ negb (has_definite_value inner (maxf t)) = false /\ has_max_content_max inner t = false /\
    is_flexible t = false.
  Proof.
    intros [R1 R2]. unfold has_intrinsic_min, has_max_content_min, has_auto_min, has_max_content_max, has_definite_value, is_flexible.
    destruct (definite_cases _ R1) as [[v E]|[v [s [E Ei]]]]; destruct (definite_cases _ R2) as [[w E']|[w [s' [E' Ei']]]];
      rewrite E, E'; try rewrite Ei; try rewrite Ei'; simpl; auto 10.
  Qed.

  (* ---- list plumbing *)
  Definition in_range (it : item T) (i : nat) : Prop := (range_start it <= i < range_start it + range_len it)%nat.

  Lemma nth_update_nth (g : track T -> track T) j : forall (ts : list (track T)) i,
    nth_error (update_nth j g ts) i = if Nat.eqb i j then option_map g (nth_error ts i) else nth_error ts i.
  Proof.
    induction j as [|j IH]; intros ts i.
    - destruct ts as [|t r]; destruct i; simpl; auto.
    - destruct ts as [|t r].
      + simpl. destruct i as [|i]; [reflexivity|]. simpl. destruct (Nat.eqb i j); destruct i; reflexivity.
      + destruct i as [|i]; simpl; [reflexivity|]. apply IH.
  Qed.

  Lemma splice_nth (l1 m m' l3 : list (track T)) i : length m = length m' ->
    (i < length l1 \/ length l1 + length m <= i)%nat -> nth_error (l1 ++ m' ++ l3) i = nth_error (l1 ++ m ++ l3) i.
  Proof.
    intros Hl [Hi|Hi].
    - rewrite !nth_error_app1; auto.
    - rewrite !(nth_error_app2 l1); try lia. rewrite !nth_error_app2; try lia. rewrite Hl. reflexivity.
  Qed.

  Lemma slice_length (ts : list (track T)) a n : length (slice ts a n) = Nat.min n (length ts - a).
  Proof. unfold slice. rewrite firstn_length, skipn_length. reflexivity. Qed.

  Lemma on_slice_out (it : item T) F (ts : list (track T)) i :
    length (F (item_slice it ts)) = length (item_slice it ts) -> ~ in_range it i ->
    nth_error (on_slice it F ts) i = nth_error ts i.
  Proof.
    intros Hl Hout. unfold on_slice. rewrite (split3 ts (range_start it) (range_len it)) at 4.
    unfold item_slice in *. apply splice_nth; [symmetry; exact Hl|].
    unfold in_range in Hout. rewrite firstn_length, slice_length. lia.
  Qed.

  Lemma slice_single (ts : list (track T)) a t : nth_error ts a = Some t -> slice ts a 1 = [t].
  Proof.
    unfold slice. revert ts. induction a as [|a IH]; intros ts E; destruct ts as [|x r]; try discriminate; simpl in *.
    - inversion E. reflexivity.
    - apply IH. exact E.
  Qed.

  Lemma on_slice_single (it : item T) F (ts : list (track T)) t :
    range_len it = 1%nat -> nth_error ts (range_start it) = Some t -> F [t] = [t] -> on_slice it F ts = ts.
  Proof.
    intros Hn Ht HF. unfold on_slice, item_slice. rewrite Hn, (slice_single ts _ t Ht), HF.
    rewrite <- (slice_single ts _ t Ht). symmetry. apply split3.
  Qed.

  (* ---- a distribution over tracks none of which is affected changes nothing *)
  Lemma inner_noaff space (sl : list (track T)) aff p limit ct :
    existsb aff sl = false -> distribute_item_space_to_base_size_inner space sl aff p limit ct = sl.
  Proof. intro E. unfold distribute_item_space_to_base_size_inner. rewrite E. simpl. rewrite orb_true_r. reflexivity. Qed.

  Lemma base_size_noaff fl ff space (sl : list (track T)) aff limit ct :
    existsb aff sl = false -> distribute_item_space_to_base_size fl ff space sl aff limit ct = sl.
  Proof.
    intro E. unfold distribute_item_space_to_base_size.
    assert (E' : existsb (fun t => is_flexible t && aff t) sl = false).
    { clear -E. induction sl as [|t r IH]; simpl in *; [reflexivity|]. apply orb_false_iff in E. destruct E as [E1 E2].
      rewrite E1, andb_false_r. simpl. apply IH. exact E2. }
    destruct fl; [destruct ff|]; apply inner_noaff; assumption.
  Qed.

  Lemma growth_noaff space (sl : list (track T)) aff :
    existsb aff sl = false -> distribute_item_space_to_growth_limit inner space sl aff = sl.
  Proof.
    intro E. unfold distribute_item_space_to_growth_limit.
    assert (E' : filter aff sl = []).
    { clear -E. induction sl as [|t r IH]; simpl in *; [reflexivity|]. apply orb_false_iff in E. destruct E as [E1 E2].
      rewrite E1. apply IH. exact E2. }
    rewrite E'. simpl. rewrite orb_true_r. reflexivity.
  Qed.

  Lemma to_base_size_length fl ff space (sl : list (track T)) aff limit ct :
    length (distribute_item_space_to_base_size fl ff space sl aff limit ct) = length sl.
  Proof.
    symmetry. apply (Forall2_length_eq static_eq).
    apply (pw_lift false (fun _ => True) static_eq (fun t _ => static_refl t) static_trans prim_static _
                   (pw_to_base_size fl ff space aff limit ct)).
    apply Forall_forall. auto.
  Qed.

  Lemma to_growth_limit_length space (sl : list (track T)) aff :
    length (distribute_item_space_to_growth_limit inner space sl aff) = length sl.
  Proof.
    symmetry. apply (Forall2_length_eq static_eq).
    apply (pw_lift false (fun _ => True) static_eq (fun t _ => static_refl t) static_trans prim_static _
                   (pw_to_growth_limit false inner space aff)).
    apply Forall_forall. auto.
  Qed.

  (* `uncovered`: an item whose range contains the index covers nothing else *)
  Definition alone (it : item T) (i : nat) : Prop := in_range it i -> range_start it = i /\ range_len it = 1%nat.

  Lemma in_range_dec (it : item T) i : {in_range it i} + {~ in_range it i}.
  Proof.
    unfold in_range. destruct (le_lt_dec (range_start it) i); [|right; lia].
    destruct (le_lt_dec (range_start it + range_len it) i); [right; lia|left; lia].
  Qed.

  Lemma to_base_keep fl ff (it : item T) space aff limit ct (ts : list (track T)) i t :
    nth_error ts i = Some t -> alone it i -> aff t = false ->
    nth_error (to_base fl ff it space aff limit ct ts) i = Some t.
  Proof.
    intros Ht Ha Hf. unfold to_base. destruct (ltb zero space); [|exact Ht].
    destruct (in_range_dec it i) as [Hin|Hout].
    - destruct (Ha Hin) as [Es En]. subst i. rewrite (on_slice_single it _ ts t En Ht); [exact Ht|].
      apply base_size_noaff. simpl. rewrite Hf. reflexivity.
    - rewrite on_slice_out; [exact Ht|apply to_base_size_length|exact Hout].
  Qed.

  Lemma to_limit_keep (it : item T) space aff (ts : list (track T)) i t :
    nth_error ts i = Some t -> alone it i -> aff t = false ->
    nth_error (to_limit inner it space aff ts) i = Some t.
  Proof.
    intros Ht Ha Hf. unfold to_limit. destruct (ltb zero space); [|exact Ht].
    destruct (in_range_dec it i) as [Hin|Hout].
    - destruct (Ha Hin) as [Es En]. subst i. rewrite (on_slice_single it _ ts t En Ht); [exact Ht|].
      apply growth_noaff. simpl. rewrite Hf. reflexivity.
    - rewrite on_slice_out; [exact Ht|apply to_growth_limit_length|exact Hout].
  Qed.

  Lemma fold_keep {A} (G : A -> list (track T) -> list (track T)) (l : list A) i t :
    (forall a ts, In a l -> nth_error ts i = Some t -> nth_error (G a ts) i = Some t) ->
    forall ts, nth_error ts i = Some t -> nth_error (fold_left (fun ts a => G a ts) l ts) i = Some t.
  Proof.
    induction l as [|a l IH]; intros HG ts Ht; simpl; [exact Ht|].
    apply IH; [intros; apply HG; [right|]; assumption|]. apply HG; [left; reflexivity|exact Ht].
  Qed.
End Rigid.

(* ---- exactness: a rigid track that no item covers together with other tracks keeps its base size (and growth limit)
   through 11.5 (exact arithmetic; `calm v`: base size and growth limit equal v, nothing planned or incurred) *)
Definition calm (v : Q) (t : track XQ) : Prop :=
  (exists b, base_size t = Fin b /\ b == v) /\ (exists g, growth_limit t = Fin g /\ g == v) /\ incurred t = Fin 0 /\
  (exists p, base_planned t = Fin p /\ p == 0) /\ (exists l, limit_planned t = Fin l /\ l == 0).

Lemma In_firstn_sub {A} (x : A) n l : In x (firstn n l) -> In x l.
Proof. revert l. induction n as [|n IH]; intros l Hx; destruct l as [|y r]; simpl in *; try contradiction. destruct Hx; [left|right]; auto. Qed.
Lemma In_skipn_sub {A} (x : A) n l : In x (skipn n l) -> In x l.
Proof. revert l. induction n as [|n IH]; intros l Hx; destruct l as [|y r]; simpl in *; auto. Qed.
Lemma In_insert_item {T} (x y : item T) l : In x (insert_item y l) -> x = y \/ In x l.
Proof.
  induction l as [|z r IH]; simpl; [intros [E|[]]; auto|].
  destruct (item_lt y z); simpl; intros [E|Hx]; auto. destruct (IH Hx); auto.
Qed.
Lemma In_sort_items {T} (x : item T) items : In x (sort_items items) -> In x items.
Proof.
  unfold sort_items.
  assert (Hg : forall acc, In x (fold_left (fun acc y => insert_item y acc) items acc) -> In x items \/ In x acc).
  { induction items as [|y r IH]; intros acc Hx; simpl in *; [right; exact Hx|].
    destruct (IH _ Hx) as [Hr|Ha]; [left; right; exact Hr|]. destruct (In_insert_item _ _ _ Ha); [left; left; auto|right; auto]. }
  intro Hx. destruct (Hg [] Hx) as [Hi|[]]. exact Hi.
Qed.

Section Exact.
  Variable contrib : item XQ -> ckind -> XQ.
  Variable inner : option XQ.
  Variable avail : avail_space XQ.
  Variable i : nat.
  Variable v : Q.

  Definition keeps (F : list (track XQ) -> list (track XQ)) : Prop :=
    forall ts t, nth_error ts i = Some t -> rigid inner t -> calm v t ->
                 exists t', nth_error (F ts) i = Some t' /\ rigid inner t' /\ calm v t'.

  Lemma keeps_comp F G : keeps F -> keeps G -> keeps (fun ts => G (F ts)).
  Proof. intros HF HG ts t Ht Hr Hc. destruct (HF ts t Ht Hr Hc) as [t1 [E1 [R1 C1]]]. apply (HG (F ts) t1 E1 R1 C1). Qed.

  Lemma keeps_map g : Prim false g -> (forall t, rigid inner t -> calm v t -> calm v (g t)) -> keeps (map g).
  Proof.
    intros Hg Hc ts t Ht Hr Hca. exists (g t). split; [apply map_nth_error; exact Ht|]. split; [|apply Hc; assumption].
    eapply rigid_static; [|exact Hr]. apply (prim_static g Hg t I).
  Qed.

  (* a fold of per-item updates each of which leaves track i alone, followed by a map *)
  Lemma keeps_fold_map {A} (G : A -> list (track XQ) -> list (track XQ)) (l : list A) g :
    (forall a ts t, In a l -> nth_error ts i = Some t -> rigid inner t -> nth_error (G a ts) i = Some t) ->
    Prim false g -> (forall t, rigid inner t -> calm v t -> calm v (g t)) ->
    keeps (fun ts => map g (fold_left (fun ts a => G a ts) l ts)).
  Proof.
    intros HG Hg Hc. apply (keeps_comp (fun ts => fold_left (fun ts a => G a ts) l ts) (map g)); [|apply keeps_map; assumption].
    intros ts t Ht Hr Hca. exists t. split; [|split; assumption].
    apply fold_keep; [|exact Ht]. intros a ts' Ha Ht'. apply HG; assumption.
  Qed.

  (* the six primitives that reach an uncovered rigid track *)
  Ltac calm_intro t :=
    destruct t as [tk tc mn mx off tb gl ic bp lp ig]; unfold calm;
    cbn [base_size growth_limit incurred base_planned limit_planned];
    intros _ [[b [Eb Hb]] [[g [Eg Hg]] [Ei [[p [Ep Hp]] [l [El Hl]]]]]]; subst tb gl ic bp lp.

  Lemma calm_flush_base1 t : rigid inner t -> calm v t -> calm v (flush_base1 t).
  Proof.
    unfold flush_base1. calm_intro t. cbn. repeat split; eauto.
    - exists (b + p). split; [reflexivity|lra].
    - exists 0. split; reflexivity.
  Qed.
  Lemma calm_fix1 t : rigid inner t -> calm v t -> calm v (fix1 t).
  Proof.
    unfold fix1. calm_intro t. cbn.
    assert (E : Qle_bool b g = true) by (apply Qle_bool_iff; lra). rewrite E. cbn. repeat split; eauto.
  Qed.
  Lemma calm_flush_gl1 b0 t : rigid inner t -> calm v t -> calm v (flush_gl1 b0 t).
  Proof.
    unfold flush_gl1. calm_intro t. cbn.
    assert (E : Qle_bool l 0 = true) by (apply Qle_bool_iff; lra). rewrite E. cbn. repeat split; eauto.
    exists 0. split; reflexivity.
  Qed.
  Lemma calm_span1_finish1 t : rigid inner t -> calm v t -> calm v (span1_finish1 t).
  Proof.
    unfold span1_finish1. calm_intro t. cbn.
    assert (E : Qle_bool l 0 = true) by (apply Qle_bool_iff; lra). rewrite E. cbn.
    assert (E2 : Qle_bool b g = true) by (apply Qle_bool_iff; lra). rewrite E2. cbn. repeat split; eauto.
    exists 0. split; reflexivity.
  Qed.
  Lemma calm_finish1 t : rigid inner t -> calm v t -> calm v (finish1 t).
  Proof. unfold finish1. calm_intro t. cbn. repeat split; eauto. Qed.
  Lemma calm_span1_item it t : rigid inner t -> calm v t -> calm v (span1_item contrib inner avail it t).
  Proof.
    intros Hr Hc. assert (E : span1_item contrib inner avail it t = set_base t (base_size t)).
    { destruct Hr as [R1 R2]. unfold span1_item.
      destruct (definite_cases _ _ R1) as [[a E]|[a [s [E Ei]]]]; destruct (definite_cases _ _ R2) as [[w E']|[w [s' [E' Ei']]]];
        rewrite E; cbn [maxf set_base]; rewrite E'; try rewrite Ei; try rewrite Ei'; reflexivity. }
    rewrite E. destruct t; exact Hc.
  Qed.

  Variable items : list (item XQ).
  Hypothesis Halone : forall it, In it items -> alone it i.

  Section Batch.
    Variable batch : list (item XQ).
    Hypothesis Hsub : forall it, In it batch -> In it items.
    Variables fl ff : bool.

    Lemma keeps_step_minimums : keeps (step_minimums contrib inner avail fl ff batch).
    Proof.
      unfold step_minimums, flush_planned_base.
      apply (keeps_fold_map (fun it ts => if it_crosses_intrinsic it then _ else ts) batch flush_base1);
        [|apply pr_flush_base; reflexivity|apply calm_flush_base1].
      intros it ts t Hin Ht Hr. destruct (it_crosses_intrinsic it); [|exact Ht].
      apply to_base_keep; [exact Ht|apply Halone; apply Hsub; exact Hin|apply (rigid_unaffected inner t Hr)].
    Qed.
    Lemma keeps_step_content_minimums : keeps (step_content_minimums contrib inner fl ff batch).
    Proof.
      unfold step_content_minimums, flush_planned_base.
      apply (keeps_fold_map (fun it ts => to_base fl ff it _ _ _ CMinimum ts) batch flush_base1);
        [|apply pr_flush_base; reflexivity|apply calm_flush_base1].
      intros it ts t Hin Ht Hr.
      apply to_base_keep; [exact Ht|apply Halone; apply Hsub; exact Hin|apply (rigid_unaffected inner t Hr)].
    Qed.
    Lemma keeps_step_max_content_minimums : keeps (step_max_content_minimums contrib inner avail fl ff batch).
    Proof.
      unfold step_max_content_minimums. destruct avail; try solve [intros ts t Ht Hr Hc; exists t; auto].
      unfold flush_planned_base.
      apply (keeps_fold_map (fun it ts => if existsb has_max_content_min (item_slice it ts) then _ else _) batch flush_base1);
        [|apply pr_flush_base; reflexivity|apply calm_flush_base1].
      intros it ts t Hin Ht Hr. destruct (existsb has_max_content_min (item_slice it ts));
        (apply to_base_keep; [exact Ht|apply Halone; apply Hsub; exact Hin|apply (rigid_unaffected inner t Hr)]).
    Qed.
    Lemma keeps_step_max_content_all : keeps (step_max_content_all contrib fl ff batch).
    Proof.
      unfold step_max_content_all, flush_planned_base.
      apply (keeps_fold_map (fun it ts => to_base fl ff it _ _ _ CMaximum ts) batch flush_base1);
        [|apply pr_flush_base; reflexivity|apply calm_flush_base1].
      intros it ts t Hin Ht Hr.
      apply to_base_keep; [exact Ht|apply Halone; apply Hsub; exact Hin|apply (rigid_unaffected inner t Hr)].
    Qed.
    Lemma keeps_step_intrinsic_maximums : keeps (step_intrinsic_maximums contrib inner batch).
    Proof.
      unfold step_intrinsic_maximums, flush_planned_growth_limit_increases.
      apply (keeps_fold_map (fun it ts => to_limit inner it _ _ ts) batch (flush_gl1 true));
        [|apply pr_flush_gl|apply calm_flush_gl1].
      intros it ts t Hin Ht Hr.
      apply to_limit_keep; [exact Ht|apply Halone; apply Hsub; exact Hin|apply (rigid_unaffected inner t Hr)].
    Qed.
    Lemma keeps_step_max_content_maximums : keeps (step_max_content_maximums contrib inner batch).
    Proof.
      unfold step_max_content_maximums, flush_planned_growth_limit_increases.
      apply (keeps_fold_map (fun it ts => to_limit inner it _ _ ts) batch (flush_gl1 false));
        [|apply pr_flush_gl|apply calm_flush_gl1].
      intros it ts t Hin Ht Hr.
      apply to_limit_keep; [exact Ht|apply Halone; apply Hsub; exact Hin|apply (rigid_unaffected inner t Hr)].
    Qed.

    Lemma keeps_general_batch : keeps (general_batch contrib inner avail fl ff batch).
    Proof.
      unfold general_batch. cbv zeta.
      assert (H5 : keeps (fun ts => fix_growth_limits (step_max_content_all contrib fl ff batch
                         (step_max_content_minimums contrib inner avail fl ff batch
                            (step_content_minimums contrib inner fl ff batch (step_minimums contrib inner avail fl ff batch ts)))))).
      { apply (keeps_comp (fun ts => step_max_content_all contrib fl ff batch _) fix_growth_limits);
          [|unfold fix_growth_limits; apply keeps_map; [apply pr_fix; reflexivity|apply calm_fix1]].
        apply (keeps_comp (fun ts => step_max_content_minimums contrib inner avail fl ff batch _) (step_max_content_all contrib fl ff batch));
          [|apply keeps_step_max_content_all].
        apply (keeps_comp (fun ts => step_content_minimums contrib inner fl ff batch _) (step_max_content_minimums contrib inner avail fl ff batch));
          [|apply keeps_step_max_content_minimums].
        apply (keeps_comp (step_minimums contrib inner avail fl ff batch) (step_content_minimums contrib inner fl ff batch));
          [apply keeps_step_minimums|apply keeps_step_content_minimums]. }
      destruct fl; [exact H5|].
      apply (keeps_comp (fun ts => step_intrinsic_maximums contrib inner batch _) (step_max_content_maximums contrib inner batch));
        [|apply keeps_step_max_content_maximums].
      apply (keeps_comp (fun ts => fix_growth_limits _) (step_intrinsic_maximums contrib inner batch));
        [exact H5|apply keeps_step_intrinsic_maximums].
    Qed.

    Lemma keeps_span1_batch : keeps (span1_batch contrib inner avail batch).
    Proof.
      unfold span1_batch, span1_finish.
      apply (keeps_comp (fun ts => fold_left _ batch ts) (map span1_finish1));
        [|apply keeps_map; [apply pr_span1_finish; reflexivity|apply calm_span1_finish1]].
      clear Hsub. induction batch as [|it r IH]; intros ts t Ht Hr Hc; simpl.
      - exists t. auto.
      - set (ts1 := update_nth (S (it_start it)) (span1_item contrib inner avail it) ts).
        assert (H1 : exists t1, nth_error ts1 i = Some t1 /\ rigid inner t1 /\ calm v t1).
        { unfold ts1. rewrite nth_update_nth, Ht. destruct (Nat.eqb i (S (it_start it))); simpl.
          - eexists. split; [reflexivity|]. split; [|apply calm_span1_item; assumption].
            eapply rigid_static; [|exact Hr]. apply (prim_static _ (pr_span1_item false contrib inner avail it eq_refl) t I).
          - exists t. auto. }
        destruct H1 as [t1 [E1 [R1 C1]]]. apply (IH ts1 t1 E1 R1 C1).
    Qed.
  End Batch.

  Lemma keeps_process_batch ffs batch fl : (forall it, In it batch -> In it items) ->
    keeps (process_batch contrib inner avail ffs batch fl).
  Proof.
    intro Hsub. unfold process_batch. cbv zeta. destruct (negb fl && _); [apply keeps_span1_batch|apply keeps_general_batch; exact Hsub].
  Qed.

  Lemma keeps_batch_loop ffs sorted fuel : (forall it, In it sorted -> In it items) ->
    forall off, keeps (batch_loop contrib inner avail fuel ffs off sorted).
  Proof.
    intro Hs. induction fuel as [|f IH]; intro off; cbn [batch_loop].
    - intros ts t Ht Hr Hc. exists t. auto.
    - destruct (next_batch off sorted) as [[next fl]|]; [|intros ts t Ht Hr Hc; exists t; auto]. cbv zeta.
      assert (Hsub : forall it, In it (firstn (next - off) (skipn off sorted)) -> In it items).
      { intros it Hin. apply Hs. eapply In_skipn_sub. eapply In_firstn_sub. exact Hin. }
      destruct fl; [apply keeps_process_batch; exact Hsub|].
      apply (keeps_comp (process_batch contrib inner avail ffs _ false) (batch_loop contrib inner avail f ffs next sorted));
        [apply keeps_process_batch; exact Hsub|apply IH].
  Qed.

  Theorem intrinsic_keeps_rigid fuel : keeps (resolve_intrinsic_fuelled contrib inner avail fuel items).
  Proof.
    unfold resolve_intrinsic_fuelled. cbv zeta. intros ts.
    apply (keeps_comp (batch_loop contrib inner avail fuel (fsum (map flex_factor ts)) 0 (sort_items items)) finish_infinite_limits).
    - apply keeps_batch_loop. intros it Hin. apply In_sort_items. exact Hin.
    - unfold finish_infinite_limits. apply keeps_map; [apply pr_finish; reflexivity|apply calm_finish1].
  Qed.
End Exact.

(* ---- how a track at its limit takes part in an iteration of distribute_space_up_to_limits: it accepts the increase
   exactly when 0 < increase <= THRESHOLD (any affected-filter, proportion, increase; NaN and infinities included) *)
Lemma bump_at_limit aff p prop limit inc (t : track XQ) b :
  prop t = Fin b -> limit t = Fin b ->
  bump aff p prop limit inc t =
  if aff t && x_ltb (Fin 0) (x_mul inc (p t)) && x_leb (x_mul inc (p t)) (Fin T_q)
  then set_incurred t (x_add (incurred t) (x_mul inc (p t))) else t.
Proof.
  intros Ep El. unfold bump. destruct (aff t); [|reflexivity]. cbv zeta. rewrite Ep, El, threshold_xq. xq0.
  cbn [andb]. destruct (x_mul inc (p t)) as [y| | |]; cbn [x_ltb x_leb x_add andb]; try reflexivity.
  - destruct (negb (Qle_bool y 0)); [|reflexivity]. cbn [andb].
    destruct (Qle_bool (b + y) (b + T_q)) eqn:E1; destruct (Qle_bool y T_q) eqn:E2; try reflexivity; exfalso.
    + apply Qle_bool_iff in E1. apply Qle_bool_false in E2. lra.
    + apply Qle_bool_false in E1. apply Qle_bool_iff in E2. lra.
Qed.

(* ==================================================================================================================
   The whole track_sizing_algorithm on a track whose min and max sizing function are the same definite length *)
Lemma nth_map_some {A B} (f : A -> B) l i x : nth_error l i = Some x -> nth_error (map f l) i = Some (f x).
Proof. apply map_nth_error. Qed.

Lemma free_pos_definite (a : avail_space XQ) u sp :
  compute_free_space a u = Fin sp -> x_ltb (Fin 0) (Fin sp) = true -> exists s, a = Definite s.
Proof.
  destruct a; cbn [compute_free_space]; xq0; eauto; try discriminate.
  intro E. inversion E; subst. simpl. discriminate.
Qed.

Section Whole.
  Variable contrib : item XQ -> ckind -> XQ.
  Variables amin amax : option XQ.
  Variable stretch : bool.
  Variable avail : avail_space XQ.
  Variable inner : option XQ.
  Variable items : list (item XQ).

  Lemma rigid_not_fr t : rigid inner t -> is_fr (maxf t) = false /\ is_auto (maxf t) = false /\ is_fit_content (maxf t) = false.
  Proof.
    intros [_ R2]. destruct (definite_cases _ _ R2) as [[w E]|[w [s [E _]]]]; rewrite E; auto.
  Qed.

  (* 11.7 and 11.8 do not touch it *)
  Lemma expand_stretch_keep ts i t : nth_error ts i = Some t -> rigid inner t -> forall av items',
    nth_error (let ts3 := expand_flexible_tracks amin amax av items' ts in
               if stretch then stretch_auto_tracks amin av ts3 else ts3) i = Some t.
  Proof.
    intros Ht Hr av items'. destruct (rigid_not_fr t Hr) as [Hfr [Hau _]].
    assert (H3 : nth_error (expand_flexible_tracks amin amax av items' ts) i = Some t).
    { unfold expand_flexible_tracks, apply_flex_fraction. rewrite (nth_map_some _ _ _ _ Ht). unfold expand_one. rewrite Hfr. reflexivity. }
    cbv zeta. destruct stretch; [|exact H3].
    unfold stretch_auto_tracks. destruct (length _); [exact H3|]. destruct (ltb _ _); [|exact H3].
    rewrite (nth_map_some _ _ _ _ H3). rewrite Hau. reflexivity.
  Qed.

  Definition after_intrinsic (tracks : list (track XQ)) : list (track XQ) :=
    resolve_intrinsic_track_sizes contrib inner avail items (initialize_track_sizes inner tracks).

  Theorem fixed_exact_whole tracks i t v :
    nth_error tracks i = Some t ->
    minf t = maxf t -> definite_value inner (minf t) = Some (Fin v) ->
    incurred t = Fin 0 -> base_planned t = Fin 0 -> limit_planned t = Fin 0 ->
    (forall it, In it items -> alone it i) ->
    exists t' b, nth_error (track_sizing_algorithm_full contrib amin amax stretch avail inner items tracks) i = Some t' /\
      base_size t' = Fin b /\
      v <= b <= v + inject_Z (Z.of_nat (distribute_fuel tracks)) * T_q /\
      ((forall s, avail <> Definite s) -> b == v) /\
      (G inner (after_intrinsic tracks) = 0%nat -> b == v).
  Proof.
    intros Ht Hmm Hv Hinc Hbp Hlp Hal.
    assert (Hfuel : 0 <= inject_Z (Z.of_nat (distribute_fuel tracks)) * T_q).
    { pose proof T_q_pos. assert (0 <= inject_Z (Z.of_nat (distribute_fuel tracks))) by (change 0 with (inject_Z 0); rewrite <- Zle_Qle; lia). nra. }
    (* 11.4 *)
    set (ts0 := initialize_track_sizes inner tracks).
    assert (H0 : exists t0, nth_error ts0 i = Some t0 /\ rigid inner t0 /\ calm v t0 /\ base_size t0 = Fin v).
    { exists (set_limit (set_base t (Fin v)) (Fin v)). split.
      - unfold ts0, initialize_track_sizes. rewrite (nth_map_some _ _ _ _ Ht). rewrite <- Hmm, Hv. xq0.
        destruct (x_ltb (Fin v) (Fin v)); reflexivity.
      - split; [|split; [|reflexivity]].
        + unfold rigid, is_definite_sf. destruct t; cbn in *. rewrite <- Hmm, Hv. auto.
        + unfold calm. destruct t; cbn in *. subst. repeat split; eexists; split; reflexivity. }
    destruct H0 as [t0 [E0 [R0 [C0 B0]]]].
    unfold track_sizing_algorithm_full, track_sizing_algorithm. fold ts0. cbv zeta.
    destruct (forallb _ ts0).
    { exists t0, v. split; [exact E0|]. split; [exact B0|]. repeat split; try lra; intros; reflexivity. }
    (* 11.5 *)
    fold (after_intrinsic tracks). set (ts1 := after_intrinsic tracks).
    destruct (intrinsic_keeps_rigid contrib inner avail i v items Hal (intrinsic_fuel items) ts0 t0 E0 R0 C0) as [t1 [E1 [R1 C1]]].
    change (resolve_intrinsic_fuelled contrib inner avail (intrinsic_fuel items) items ts0) with ts1 in E1.
    destruct C1 as [[b1 [Eb1 Hb1]] [[g1 [Eg1 Hg1]] [Ei1 _]]].
    destruct (rigid_not_fr t1 R1) as [_ [_ Hfc]].
    assert (Hlen : length ts1 = length tracks).
    { unfold ts1, after_intrinsic, resolve_intrinsic_track_sizes. rewrite intrinsic_length. unfold initialize_track_sizes. apply map_length. }
    (* 11.6 *)
    assert (H2 : exists t2 b2, nth_error (maximise_tracks inner avail ts1) i = Some t2 /\ rigid inner t2 /\ base_size t2 = Fin b2 /\
                   v <= b2 <= v + inject_Z (Z.of_nat (distribute_fuel tracks)) * T_q /\
                   ((forall s, avail <> Definite s) -> b2 == v) /\ (G inner ts1 = 0%nat -> b2 == v)).
    { rewrite maximise_unfold. cbv zeta.
      assert (Hml : mlim inner t1 = Fin g1).
      { unfold mlim, fit_content_limited_growth_limit, fit_content_limit. rewrite Eg1.
        destruct (maxf t1); try discriminate Hfc; reflexivity. }
      destruct (x_eqb _ PInf) eqn:Einf.
      - exists (set_base t1 (growth_limit t1)), g1. split; [apply (nth_map_some (fun t => set_base t (growth_limit t)) _ _ _ E1)|].
        split; [destruct t1; exact R1|]. split; [destruct t1; exact Eg1|]. repeat split; try lra; intros; lra.
      - destruct (x_ltb (Fin 0) _) eqn:Epos.
        + destruct (compute_free_space avail (fsum (map base_size ts1))) as [sp| | |] eqn:Efree; try discriminate.
          assert (Hdef : exists s, avail = Definite s) by (eapply free_pos_definite; [exact Efree|exact Epos]).
          destruct (Forall2_nth _ _ _ i t1 (mloop_bounded inner (distribute_fuel ts1) (Fin sp) ts1) E1) as [t' [E' [Hu Hbd]]].
          assert (Htf : tfin inner t1) by (unfold tfin; rewrite Eb1, Hml, Ei1; simpl; auto).
          destruct (Hbd Htf) as [F1 F2]. destruct (fin_inv _ F1) as [i' Ei'].
          assert (Hsl : slack inner t1 == T_q).
          { unfold slack. rewrite Eb1, Hml. simpl. pose proof T_q_pos. rewrite Q.max_r; lra. }
          exists (set_incurred (set_base t' (x_add (base_size t') (incurred t'))) (Fin 0)), (b1 + i').
          split; [unfold flush_incurred_to_base;
                  exact (nth_map_some (fun t : track XQ => set_incurred (set_base t (add (base_size t) (incurred t))) zero) _ _ _ E')|].
          split; [rewrite Hu; destruct t1; exact R1|].
          split; [cbn [base_size set_incurred set_base]; rewrite (upd_base _ _ Hu), Eb1, Ei'; reflexivity|].
          rewrite Ei1, Ei', Hsl in F2. simpl in F2.
          assert (Hfl : distribute_fuel ts1 = distribute_fuel tracks) by (unfold distribute_fuel; rewrite Hlen; reflexivity).
          rewrite Hfl in F2.
          split; [lra|]. split.
          * intro Hnd. destruct Hdef as [s Es]. exfalso. apply (Hnd s Es).
          * intro Hg0. assert (El : mloop inner (distribute_fuel ts1) (Fin sp) ts1 = (Fin sp, ts1)).
            { unfold distribute_fuel. destruct (2 * length ts1 + 8)%nat as [|f] eqn:Ef; [reflexivity|].
              unfold mloop. cbn [distribute_loop]. fold (mstep inner). rewrite (mstep_none_G0 inner _ _ Hg0). reflexivity. }
            rewrite El in E'. simpl in E'. rewrite E1 in E'. inversion E'; subst t'. rewrite Ei1 in Ei'. inversion Ei'. lra.
        + exists t1, b1. split; [exact E1|]. split; [exact R1|]. split; [exact Eb1|]. repeat split; try lra; intros; lra. }
    destruct H2 as [t2 [b2 [E2 [R2 [Eb2 Hrest]]]]].
    exists t2, b2. split; [|split; [exact Eb2|exact Hrest]].
    apply (expand_stretch_keep _ i t2 E2 R2).
  Qed.
End Whole.

(* ==================================================================================================================
   Witnesses (exact arithmetic) through the whole pipeline with the full step 11.5: initialize_grid_tracks, 11.4,
   11.5 with leaves of a fixed size as items, 11.6, 11.7, 11.8.  leaves: (first track, span, size). *)
Definition q_leaf_items (tracks0 : list (track XQ)) (leaves : list (nat * nat * XQ)) : list (item XQ) :=
  map (fun p => let '(id, (first, span, _)) := p in mk_axis_item id (Z.of_nat first) first span false (Fin 0) tracks0)
      (combine (seq 0 (length leaves)) leaves).
Definition q_tracks0 (template : list (tsf XQ)) (gap : sfn XQ) (inner : option XQ) : list (track XQ) :=
  initialize_grid_tracks (mk_counts 0 (explicit_grid_size template inner gap true) 0) template [] gap (fun _ => true).
Definition q_axis_full (template : list (tsf XQ)) (gap : sfn XQ) (avail : avail_space XQ) (inner : option XQ)
           (leaves : list (nat * nat * XQ)) : list (track XQ) :=
  let tracks0 := q_tracks0 template gap inner in
  track_sizing_algorithm_full (leaf_contrib inner tracks0 (map snd leaves)) None None true avail inner
    (q_leaf_items tracks0 leaves) tracks0.
Definition mm_track (a b : sfn XQ) : tsf XQ := TSingle (a, b).

(* (c) `minmax(min-content, 50px) minmax(10px, 10.008px) 100px`, gap 5, in a 100px grid (no free space for 11.6); one
   item of width 200 spanning the three columns *)
Definition witness_c_template : list (tsf XQ) :=
  [mm_track SMinContent (SLength (Fin 50)); minmax_px 10 (10008 # 1000); px_track 100].
Definition witness_c_leaves : list (nat * nat * XQ) := [(0%nat, 3%nat, Fin 200)].
Definition witness_c_inner : option XQ := Some (Fin 100).
Definition witness_c_tracks0 := q_tracks0 witness_c_template (SLength (Fin 5)) witness_c_inner.
Definition witness_c_before := initialize_track_sizes witness_c_inner witness_c_tracks0.
Definition witness_c_contrib := leaf_contrib witness_c_inner witness_c_tracks0 (map snd witness_c_leaves).
Definition witness_c_items := q_leaf_items witness_c_tracks0 witness_c_leaves.
Definition witness_c_after :=
  resolve_intrinsic_track_sizes witness_c_contrib witness_c_inner (Definite (Fin 100)) witness_c_items witness_c_before.
Definition witness_c := q_axis_full witness_c_template (SLength (Fin 5)) (Definite (Fin 100)) witness_c_inner witness_c_leaves.

Definition base_at (ts : list (track XQ)) (i : nat) : XQ := match nth_error ts i with Some t => base_size t | None => XNaN end.

(* a well-behaved grid with intrinsic tracks: `100px auto min-content 30px`, gap 10, in 400px; a 50px item in the first
   column, an item of width 120 spanning the two intrinsic columns, a 20px item in the last one *)
Definition example_intrinsic : list (track XQ) :=
  q_axis_full [px_track 100; mm_track SAuto SAuto; mm_track SMinContent SMinContent; px_track 30] (SLength (Fin 10))
    (Definite (Fin 400)) (Some (Fin 400)) [(0%nat, 1%nat, Fin 50); (1%nat, 2%nat, Fin 120); (3%nat, 1%nat, Fin 20)].

(* ==================================================================================================================
   Termination of distribute_space_up_to_limits in general (exact arithmetic): any affected-filter, non-negative
   finite proportions (1 or flex factors), finite affected property, finite or +infinite limits.  Every iteration
   that does not end the loop removes a growable track or exhausts the space: G + 1 iterations suffice. *)
Section GenDistribute.
  Variable aff : track XQ -> bool.
  Variables p prop limit : track XQ -> XQ.
  Hypothesis aff_inc : forall t x, aff (set_incurred t x) = aff t.
  Hypothesis p_inc : forall t x, p (set_incurred t x) = p t.
  Hypothesis prop_inc : forall t x, prop (set_incurred t x) = prop t.
  Hypothesis limit_inc : forall t x, limit (set_incurred t x) = limit t.

  Definition wt (t : track XQ) : Prop :=
    (exists b, prop t = Fin b) /\ (exists i, incurred t = Fin i /\ 0 <= i) /\ (exists f, p t = Fin f /\ 0 <= f) /\
    (limit t = PInf \/ exists l, limit t = Fin l).

  Definition grow : track XQ -> bool := growable aff prop limit.
  Definition GG (l : list (track XQ)) : nat := length (filter grow l).
  Definition gstep := distribute_step aff p prop limit.
  Definition gloop := distribute_loop aff p prop limit.
  Definition room (t : track XQ) : XQ := x_div (x_sub (limit t) (prop t)) (p t).
  Definition qf_of (t : track XQ) : Q := val (p t).
  Fixpoint fsumq (l : list (track XQ)) : Q := match l with [] => 0 | t :: r => qf_of t + fsumq r end.

  Lemma psum_fin (g : list (track XQ)) : Forall wt g -> exists s, @fsum XQ _ (map p g) = Fin s /\ s == fsumq g /\ 0 <= s.
  Proof.
    intro Hw. destruct (fsum_fin (map p g)) as [s [E1 E2]].
    - apply Forall_map. eapply Forall_impl; [|exact Hw]. intros t [_ [_ [[f [Ef _]] _]]]. rewrite Ef. exact I.
    - exists s. split; [exact E1|]. assert (Hq : qsum (map val (map p g)) == fsumq g /\ 0 <= fsumq g).
      { clear E1 E2. induction Hw as [|t r Ht Hr IH]; simpl; [split; lra|]. destruct IH as [I1 I2].
        destruct Ht as [_ [_ [[f [Ef Hf]] _]]]. unfold qf_of. rewrite Ef. simpl. split; lra. }
      destruct Hq. split; lra.
  Qed.

  (* the head-room of a growable track: a positive finite number (then the proportion is positive) or +infinity *)
  Lemma room_cases t : wt t -> grow t = true ->
    room t = PInf \/
    exists r f l b, room t = Fin r /\ 0 < r /\ p t = Fin f /\ 0 < f /\ limit t = Fin l /\ prop t = Fin b /\ r * f == l - b.
  Proof.
    intros [[b Eb] [[i [Ei Hi]] [[f [Ef Hf]] Hl]]] Hg. unfold grow, growable in Hg. apply andb_true_iff in Hg. destruct Hg as [Hg _].
    unfold room. rewrite Eb, Ef, Ei in *. xq0. destruct Hl as [El|[l El]]; rewrite El in *.
    - left. cbn [x_sub x_neg x_add x_div].
      destruct (Qlt_le_dec 0 f) as [Hp|Hz]; [rewrite (q_sign_pos f Hp); reflexivity|].
      assert (Hf0 : f == 0) by lra. rewrite (q_sign_zero f Hf0). reflexivity.
    - cbn [x_add] in Hg. apply x_ltb_fin in Hg. cbn [x_sub x_neg x_add x_div].
      destruct (Qlt_le_dec 0 f) as [Hp|Hz].
      + right. rewrite (q_sign_pos f Hp). exists ((l + - b) / f), f, l, b. repeat split; auto; try reflexivity.
        * apply Qlt_shift_div_l; [exact Hp|lra].
        * field. lra.
      + left. assert (Hf0 : f == 0) by lra. rewrite (q_sign_zero f Hf0). cbn [inf_of_sign].
        assert (Hs : q_sign (l + - b) = Gt) by (apply q_sign_pos; lra). rewrite Hs. reflexivity.
  Qed.

  Lemma lb_min_by_first (xs : list XQ) : xs <> [] -> Forall lb xs ->
    lb (min_by_first xs) /\ In (min_by_first xs) xs /\ forall x, In x xs -> x_leb (min_by_first xs) x = true.
  Proof.
    destruct xs as [|x0 r]; [congruence|]. intros _ Hl. inversion Hl as [|? ? H0 Hr]; subst. unfold min_by_first.
    assert (Hgen : forall acc, lb acc -> Forall lb r ->
              let m := fold_left (fun acc y => if ltb y acc then y else acc) r acc in
              lb m /\ (m = acc \/ In m r) /\ x_leb m acc = true /\ forall x, In x r -> x_leb m x = true).
    { clear. induction r as [|y r IH]; intros acc Ha Hr; cbn [fold_left].
      - repeat split; auto; try (apply x_leb_refl_lb; exact Ha); try (intros x []).
      - inversion Hr as [|? ? Hy Hr']; subst. xq0. destruct (x_ltb y acc) eqn:E.
        + destruct (IH y Hy Hr') as [I1 [I2 [I3 I4]]]. split; [exact I1|]. split; [destruct I2; [right; left; auto|right; right; auto]|].
          assert (Hya : x_leb y acc = true) by (destruct y, acc; simpl in *; try contradiction; try discriminate; auto;
                                                  apply negb_true_iff in E; apply Qle_bool_false in E; apply Qle_bool_iff; lra).
          split; [eapply x_leb_trans; eauto|]. intros x [Ex|Hx]; [subst; exact I3|apply I4; exact Hx].
        + destruct (IH acc Ha Hr') as [I1 [I2 [I3 I4]]]. split; [exact I1|]. split; [destruct I2; [left; auto|right; right; auto]|].
          split; [exact I3|]. intros x [Ex|Hx]; [|apply I4; exact Hx]. subst x.
          eapply x_leb_trans; [exact I3|]. apply x_ltb_false_leb; assumption. }
    destruct (Hgen x0 H0 Hr) as [G1 [G2 [G3 G4]]]. split; [exact G1|]. split.
    - destruct G2 as [G2|G2]; [left; symmetry; exact G2|right; exact G2].
    - intros x [Ex|Hx]; [subst; exact G3|apply G4; exact Hx].
  Qed.

  (* what one iteration does to one track *)
  Definition gacc (y : Q) (t : track XQ) : bool :=
    aff t && x_ltb (Fin 0) (x_mul (Fin y) (p t)) && x_leb (x_add (prop t) (x_mul (Fin y) (p t))) (x_add (limit t) (Fin T_q)).

  Lemma bump_gacc y t : bump aff p prop limit (Fin y) t =
    if gacc y t then set_incurred t (x_add (incurred t) (x_mul (Fin y) (p t))) else t.
  Proof. unfold bump, gacc. destruct (aff t); [|reflexivity]. cbv zeta. rewrite threshold_xq. xq0. cbn [andb]. reflexivity. Qed.

  Lemma wt_bump y t : wt t -> 0 < y -> wt (bump aff p prop limit (Fin y) t).
  Proof.
    intros Hw Hy. rewrite bump_gacc. destruct (gacc y t) eqn:Ea; [|exact Hw].
    destruct Hw as [[b Eb] [[i [Ei Hi]] [[f [Ef Hf]] Hl]]]. unfold wt. rewrite prop_inc, p_inc, limit_inc.
    split; [eauto|]. split; [|split; [eauto|exact Hl]].
    cbn [incurred set_incurred]. rewrite Ei, Ef. cbn [x_mul x_add]. exists (i + y * f). split; [reflexivity|]. nra.
  Qed.

  Lemma grow_bump_mono y t : wt t -> 0 < y -> grow (bump aff p prop limit (Fin y) t) = true -> grow t = true.
  Proof.
    intros Hw Hy. rewrite bump_gacc. destruct (gacc y t) eqn:Ea; [|auto].
    destruct Hw as [[b Eb] [[i [Ei Hi]] [[f [Ef Hf]] Hl]]].
    unfold grow, growable. rewrite prop_inc, limit_inc, aff_inc. cbn [incurred set_incurred]. rewrite Eb, Ei, Ef. xq0.
    cbn [x_mul x_add]. intro Hx. apply andb_true_iff in Hx. destruct Hx as [H1 H2]. rewrite H2, andb_true_r.
    destruct Hl as [El|[l El]]; rewrite El in *; [reflexivity|]. apply x_ltb_fin in H1. apply x_ltb_fin. nra.
  Qed.

  Lemma gapply_fst y sp ts : Forall wt ts ->
    exists sp', fst (apply_increase aff p prop limit (Fin y) (Fin sp) ts) = Fin sp'
                /\ sp' == sp - y * fsumq (filter (gacc y) ts).
  Proof.
    revert sp. induction ts as [|t r IH]; intros sp Hw.
    - exists sp. split; [reflexivity|]. simpl. lra.
    - inversion Hw as [|? ? Ht Hr]; subst. cbn [apply_increase filter]. unfold gacc at 1. rewrite threshold_xq. xq0.
      destruct (aff t); cbn [andb].
      + destruct Ht as [_ [_ [[f [Ef Hf]] _]]].
        destruct (x_ltb (Fin 0) (x_mul (Fin y) (p t)) && x_leb (x_add (prop t) (x_mul (Fin y) (p t))) (x_add (limit t) (Fin T_q))) eqn:E.
        * rewrite Ef. cbn [x_mul x_sub x_neg x_add]. destruct (IH (sp + - (y * f)) Hr) as [sp' [E1 E2]].
          destruct (apply_increase aff p prop limit (Fin y) (Fin (sp + - (y * f))) r) as [s0 r0]. simpl in E1. subst s0.
          exists sp'. split; [reflexivity|]. rewrite E2. cbn [fsumq]. unfold qf_of. rewrite Ef. simpl. lra.
        * destruct (IH sp Hr) as [sp' [E1 E2]]. destruct (apply_increase aff p prop limit (Fin y) (Fin sp) r) as [s0 r0].
          simpl in E1. subst s0. exists sp'. split; [reflexivity|exact E2].
      + destruct (IH sp Hr) as [sp' [E1 E2]]. destruct (apply_increase aff p prop limit (Fin y) (Fin sp) r) as [s0 r0].
        simpl in E1. subst s0. exists sp'. split; [reflexivity|exact E2].
  Qed.

  Lemma fsumq_filter_le (a b : track XQ -> bool) ts : Forall wt ts ->
    (forall t, In t ts -> a t = true -> 0 < qf_of t -> b t = true) -> fsumq (filter a ts) <= fsumq (filter b ts).
  Proof.
    induction ts as [|t r IH]; intros Hw Hab; simpl; [lra|]. inversion Hw as [|? ? Ht Hr]; subst.
    assert (Hrec : fsumq (filter a r) <= fsumq (filter b r)) by (apply IH; [exact Hr|intros; apply Hab; [right|..]; assumption]).
    assert (Hf : 0 <= qf_of t) by (destruct Ht as [_ [_ [[f [Ef Hf]] _]]]; unfold qf_of; rewrite Ef; exact Hf).
    destruct (a t) eqn:Ea; destruct (b t) eqn:Eb; cbn [fsumq]; try lra.
    destruct (Qlt_le_dec 0 (qf_of t)) as [Hp|Hz]; [|lra].
    rewrite (Hab t (or_introl eq_refl) Ea Hp) in Eb. discriminate.
  Qed.

  Lemma gstep_progress sp ts s' ts' : Forall wt ts -> gstep (Fin sp) ts = Some (s', ts') ->
    Forall wt ts' /\ exists sp', s' = Fin sp' /\ ((GG ts' < GG ts)%nat \/ sp' <= 0).
  Proof.
    intros Hw Hstep. unfold gstep, distribute_step in Hstep. rewrite threshold_xq in Hstep. xq0.
    destruct (x_ltb (Fin T_q) (Fin sp)) eqn:Esp; [|discriminate]. apply x_ltb_fin in Esp.
    fold grow in Hstep. set (g := filter grow ts) in *.
    assert (Hgin : forall t, In t g -> In t ts /\ grow t = true) by (intro t; unfold g; apply filter_In).
    assert (Hwg : Forall wt g).
    { apply Forall_forall. intros t Ht. rewrite Forall_forall in Hw. apply Hw. apply (Hgin t Ht). }
    destruct (psum_fin g Hwg) as [ps [Eps [Hps Hps0]]]. rewrite Eps in Hstep.
    destruct (x_eqb (Fin ps) (Fin 0)) eqn:Ez; [discriminate|].
    assert (Hpsp : 0 < ps).
    { destruct (Qlt_le_dec 0 ps); [assumption|]. exfalso. assert (ps == 0) by lra.
      assert (x_eqb (Fin ps) (Fin 0) = true) by (apply x_eqb_fin; assumption). congruence. }
    assert (Hgne : g <> []).
    { intro Hn. rewrite Hn in Hps. simpl in Hps. lra. }
    change (fun t : track XQ => x_div (x_sub (limit t) (prop t)) (p t)) with room in Hstep.
    assert (Hrl : Forall lb (map room g)).
    { apply Forall_map. apply Forall_forall. intros t Ht. destruct (Hgin t Ht) as [Hin Hg]. rewrite Forall_forall in Hw.
      destruct (room_cases t (Hw t Hin) Hg) as [E|[r [f [l [b [E _]]]]]]; rewrite E; exact I. }
    assert (Hmne : map room g <> []) by (destruct g; [congruence|discriminate]).
    destruct (lb_min_by_first (map room g) Hmne Hrl) as [Mlb [Min Mle]].
    assert (Hdiv : x_div (Fin sp) (Fin ps) = Fin (sp / ps)) by (simpl; rewrite (q_sign_pos ps Hpsp); reflexivity).
    rewrite Hdiv in Hstep.
    assert (Hdivpos : 0 < sp / ps) by (apply Qlt_shift_div_l; [exact Hpsp|pose proof T_q_pos; lra]).
    (* the increase of the iteration *)
    assert (Hy : exists y, x_min (min_by_first (map room g)) (Fin (sp / ps)) = Fin y /\ 0 < y /\ y <= sp / ps /\
                           x_leb (Fin y) (min_by_first (map room g)) = true /\
                           (y == sp / ps \/ min_by_first (map room g) = Fin y)).
    { destruct (min_by_first (map room g)) as [m| | |] eqn:Em; try contradiction.
      - assert (Hmpos : 0 < m).
        { apply in_map_iff in Min. destruct Min as [t [Et Ht]]. destruct (Hgin t Ht) as [Hin Hg]. rewrite Forall_forall in Hw.
          destruct (room_cases t (Hw t Hin) Hg) as [E|[r [f [l [b [E [Hr _]]]]]]]; rewrite E in Et; [discriminate|]. inversion Et; subst. exact Hr. }
        unfold x_min. cbn [x_is_nan]. destruct (x_ltb (Fin (sp / ps)) (Fin m)) eqn:E.
        + apply x_ltb_fin in E. exists (sp / ps). split; [reflexivity|]. split; [exact Hdivpos|]. split; [lra|].
          split; [apply x_leb_fin; lra|left; reflexivity].
        + apply x_ltb_fin_false in E. exists m. split; [reflexivity|]. split; [exact Hmpos|]. split; [lra|].
          split; [apply x_leb_fin; lra|right; reflexivity].
      - exists (sp / ps). unfold x_min. cbn [x_is_nan x_ltb]. split; [reflexivity|]. split; [exact Hdivpos|]. split; [lra|].
        split; [reflexivity|left; reflexivity]. }
    destruct Hy as [y [Ey [Hypos [Hyle [Hym Hycase]]]]]. rewrite Ey in Hstep.
    inversion Hstep as [Hres]. clear Hstep.
    assert (Ets : ts' = map (bump aff p prop limit (Fin y)) ts).
    { rewrite <- (apply_increase_map aff p prop limit (Fin y) (Fin sp) ts). rewrite Hres. reflexivity. }
    destruct (gapply_fst y sp ts Hw) as [sp' [Es1 Es2]]. rewrite Hres in Es1. simpl in Es1.
    split.
    - subst ts'. apply Forall_forall. intros t' Hin'. apply in_map_iff in Hin'. destruct Hin' as [t [Et Hin]]. subst t'.
      rewrite Forall_forall in Hw. apply wt_bump; auto.
    - exists sp'. split; [exact Es1|].
      (* every growable track with a positive proportion accepts *)
      assert (Hacc : forall t, In t ts -> grow t = true -> 0 < qf_of t -> gacc y t = true).
      { intros t Hin Hg Hfp. rewrite Forall_forall in Hw. pose proof (Hw t Hin) as Hwt.
        assert (Hroom : x_leb (Fin y) (room t) = true).
        { eapply x_leb_trans; [exact Hym|]. apply Mle. apply in_map. unfold g. apply filter_In. auto. }
        destruct Hwt as [[b Eb] [[i [Ei Hi]] [[f [Ef Hf]] Hl]]]. unfold qf_of in Hfp. rewrite Ef in Hfp. simpl in Hfp.
        unfold gacc. unfold grow, growable in Hg. apply andb_true_iff in Hg. destruct Hg as [_ Ha]. rewrite Ha, Eb, Ef. cbn [x_mul x_add andb].
        assert (H1 : x_ltb (Fin 0) (Fin (y * f)) = true) by (apply x_ltb_fin; nra). rewrite H1. cbn [andb].
        destruct Hl as [El|[l El]]; rewrite El; [reflexivity|]. cbn [x_add]. apply x_leb_fin.
        unfold room in Hroom. rewrite El, Eb, Ef in Hroom. cbn [x_sub x_neg x_add x_div] in Hroom. rewrite (q_sign_pos f Hfp) in Hroom.
        apply x_leb_fin in Hroom. assert (y * f <= l - b).
        { apply (Qmult_le_r _ _ f Hfp) in Hroom. assert ((l + - b) / f * f == l - b) by (field; lra). lra. }
        pose proof T_q_pos. lra. }
      destruct Hycase as [Hyeq|Hmeq].
      + (* the space is exhausted *)
        right. assert (Hle : fsumq g <= fsumq (filter (gacc y) ts)).
        { unfold g. apply fsumq_filter_le; [exact Hw|]. intros t Hin Hg Hfp. apply Hacc; assumption. }
        rewrite Es2. assert (y * ps == sp) by (rewrite Hyeq; field; lra). nra.
      + (* the track with the least head-room stops being growable *)
        left. rewrite Hmeq in Min. apply in_map_iff in Min. destruct Min as [tm [Etm Htm]]. destruct (Hgin tm Htm) as [Htm_in Htm_g].
        rewrite Forall_forall in Hw. pose proof (Hw tm Htm_in) as Hwm.
        destruct (room_cases tm Hwm Htm_g) as [E|[r [f [l [b [E [Hr [Ef [Hf [El [Eb Hrf]]]]]]]]]]]; rewrite E in Etm; [discriminate|].
        inversion Etm; subst r. subst ts'. unfold GG. apply filter_map_count_lt.
        * intros t Hin Hgt. apply (grow_bump_mono y t (Hw t Hin) Hypos Hgt).
        * exists tm. split; [exact Htm_in|]. split; [exact Htm_g|].
          assert (Ea : gacc y tm = true) by (apply Hacc; auto; unfold qf_of; rewrite Ef; exact Hf).
          rewrite bump_gacc, Ea. unfold grow, growable. rewrite prop_inc, limit_inc. cbn [incurred set_incurred].
          destruct Hwm as [_ [[i [Ei Hi]] _]]. rewrite Eb, El, Ei, Ef. xq0. cbn [x_mul x_add].
          assert (Hx : x_ltb (Fin (b + (i + y * f))) (Fin l) = false) by (apply x_ltb_fin_false; lra). rewrite Hx. reflexivity.
  Qed.

  Lemma gstep_none_nonpos sp ts : sp <= 0 -> gstep (Fin sp) ts = None.
  Proof.
    intro Hsp. unfold gstep, distribute_step. rewrite threshold_xq. xq0.
    destruct (x_ltb (Fin T_q) (Fin sp)) eqn:E; [|reflexivity]. apply x_ltb_fin in E. pose proof T_q_pos. lra.
  Qed.
  Lemma gstep_none_G0 space ts : GG ts = 0%nat -> gstep space ts = None.
  Proof.
    intro Hg. unfold gstep, distribute_step. destruct (ltb threshold space); [|reflexivity].
    fold grow. unfold GG in Hg. apply length_zero_iff_nil in Hg. rewrite Hg. reflexivity.
  Qed.

  Theorem gloop_terminates n : forall sp ts fuel, Forall wt ts -> (GG ts <= n)%nat -> (n + 1 <= fuel)%nat ->
    gloop fuel (Fin sp) ts = gloop (n + 1) (Fin sp) ts.
  Proof.
    induction n as [|n IH]; intros sp ts fuel Hok Hg Hfuel.
    - assert (GG ts = 0%nat) by lia. destruct fuel as [|f]; [lia|].
      unfold gloop. simpl. fold gstep. rewrite (gstep_none_G0 _ _ H). reflexivity.
    - destruct fuel as [|f]; [lia|]. replace (S n + 1)%nat with (S (n + 1)) by lia.
      unfold gloop. cbn [distribute_loop]. fold gstep. fold gloop.
      destruct (gstep (Fin sp) ts) as [[s' ts']|] eqn:Es; [|reflexivity].
      destruct (gstep_progress _ _ _ _ Hok Es) as [Hok' [sp' [E' Hd]]]. subst s'.
      destruct Hd as [Hd|Hd].
      + rewrite (IH sp' ts' f Hok'); [|lia|lia]. reflexivity.
      + destruct f as [|f]; [lia|]. replace (n + 1)%nat with (S n) by lia.
        unfold gloop. cbn [distribute_loop]. fold gstep. rewrite (gstep_none_nonpos _ _ Hd). reflexivity.
  Qed.
End GenDistribute.

(* the parameters with which 11.5 (and 11.6) call distribute_space_up_to_limits do not look at item_incurred_increase *)
Lemma frame_params (inner : option XQ) :
  (forall (t : track XQ) x, base_size (set_incurred t x) = base_size t) /\
  (forall (t : track XQ) x, limit_or_base (set_incurred t x) = limit_or_base t) /\
  (forall (t : track XQ) x, growth_limit (set_incurred t x) = growth_limit t) /\
  (forall (t : track XQ) x, fit_content_limited_growth_limit inner (set_incurred t x) = fit_content_limited_growth_limit inner t) /\
  (forall (t : track XQ) x, fit_content_limit inner (set_incurred t x) = fit_content_limit inner t) /\
  (forall (t : track XQ) x, flex_factor (set_incurred t x) = flex_factor t) /\
  (forall (t : track XQ) x, is_flexible (set_incurred t x) = is_flexible t) /\
  (forall (t : track XQ) x, minf (set_incurred t x) = minf t /\ maxf (set_incurred t x) = maxf t).
Proof. repeat split; intros t x; destruct t; reflexivity. Qed.

Theorem distribute_fuel_enough aff p prop limit
  (aff_inc : forall t x, aff (set_incurred t x) = aff t) (p_inc : forall t x, p (set_incurred t x) = p t)
  (prop_inc : forall t x, prop (set_incurred t x) = prop t) (limit_inc : forall t x, limit (set_incurred t x) = limit t)
  sp (ts : list (track XQ)) k :
  Forall (wt p prop limit) ts ->
  distribute_loop aff p prop limit (distribute_fuel ts + k) (Fin sp) ts = distribute_loop aff p prop limit (distribute_fuel ts) (Fin sp) ts.
Proof.
  intro Hw.
  assert (Hg : (GG aff prop limit ts <= length ts)%nat).
  { unfold GG. clear. induction ts as [|a l IH]; simpl; [lia|]. destruct (grow aff prop limit a); simpl; lia. }
  pose proof (gloop_terminates aff p prop limit aff_inc p_inc prop_inc limit_inc (length ts) sp ts) as HT. unfold gloop in HT.
  rewrite (HT (distribute_fuel ts + k)%nat Hw Hg); [|unfold distribute_fuel; lia].
  rewrite (HT (distribute_fuel ts) Hw Hg); [|unfold distribute_fuel; lia]. reflexivity.
Qed.
