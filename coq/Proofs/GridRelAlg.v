(* compute_grid_layout in lockstep, composed (Model/GridAlg.v grid_alg = grid_core . grid_main):
     front (Proofs/GridRelFront.v)  ->  sizing program (premise `SizingRel k`, Model/GridSizingRel.v; discharged in Proofs/GridRelSizing*.v as far as
     proved)  ->  run (Proofs/GridRelKit.v run_rel)  ->  final phase (Proofs/GridRelFinal.v grid_final_rel). *)
From Coq Require Import QArith Bool List ZArith Lia.
From TV Require Import Num.Num Num.QNum Model.Common Model.Leaf Gen.GridTracksGen Model.GridTracks Model.GridIntrinsic.
From TV Require Import Model.FiltersBase Gen.FiltersGen Model.ItemFilters Model.GridAlgBase Model.GridAlg Model.FlexAlgBase Model.FlexAlgRel Model.GridAlgRel.
From TV Require Import Model.Scale Model.ScaleGrid Model.Engine Model.EngineRel Model.GridSizingRel Model.BoxSizing.
From TV Require Import Proofs.ScalePrim Proofs.ScaleKit Proofs.ScaleProofs Proofs.ScaleGrid Proofs.GridRelKit Proofs.GridStyleRel Proofs.GridRelFront
     Proofs.GridRelFinal.
Import ListNotations.
Close Scope Z_scope.

Section Alg.
  Variable k : Q.
  Hypothesis Hk : (0 < k)%Q.
  Hypothesis HS : SizingRel k.
  Notation L := (sc k).
  Notation O := (op_rel (sc k)).
  Notation W := (gstyle_wrel k).
  Notation AR := (GAlgRel k).

  Lemma grid_main_rel st st' P P' est inflow inflow' flags oof oof' i i' :
    W st st' -> pre_rel k P P' -> Forall2 (inflow_rel k) inflow inflow' -> Forall2 (oof_rel k) oof oof' -> fin_rel k i i' ->
    AR (grid_main st P est inflow flags oof i) (grid_main st' P' est inflow' flags oof' i').
  Proof.
    intros Hst HP Hin Hoof Hi. unfold grid_main.
    rewrite (explicit_counts_wrel k Hk _ _ _ _ Hst HP). destruct (explicit_counts st P) as [ec er].
    rewrite (place_wrel k _ _ ec er est _ _ Hst Hin). destruct (place st ec er est inflow) as [[m placed]|e]; [|apply AR_ret; apply rel_panic_out].
    cbv zeta. pose proof Hst as Hst0. wopen Hst0.
    pose proof (initialize_grid_tracks_homog k (tc_of (PL.track_counts m PB.Horizontal)) _ _ _ _ _ _ (column_is_occupied m) Wtc Wac
                  (rel_lp_sfn k _ _ (proj1 Wgap))) as Hcols.
    pose proof (initialize_grid_tracks_homog k (tc_of (PL.track_counts m PB.Vertical)) _ _ _ _ _ _ (row_is_occupied m) Wtr Warow
                  (rel_lp_sfn k _ _ (proj2 Wgap))) as Hrows.
    set (cols0 := initialize_grid_tracks _ (gs_template_columns st) _ _ _) in *.
    set (cols0' := initialize_grid_tracks _ (gs_template_columns st') _ _ _) in *.
    set (rows0 := initialize_grid_tracks _ (gs_template_rows st) _ _ _) in *.
    set (rows0' := initialize_grid_tracks _ (gs_template_rows st') _ _ _) in *.
    pose proof (rel_mapM (gitem_rel k) _ _ placed
                  (fun it => rel_make_item k Hk st st' inflow inflow' (PL.track_counts m PB.Horizontal) (PL.track_counts m PB.Vertical)
                                           cols0 cols0' rows0 rows0' it Hst Hin Hcols Hrows)) as Hitems.
    destruct (PL.mapM (make_item st inflow _ _ cols0 rows0) placed) as [items0|], (PL.mapM (make_item st' inflow' _ _ cols0' rows0') placed) as [items0'|];
      cbn [res_rel] in Hitems; try contradiction; [|apply AR_ret; apply rel_panic_out].
    apply (run_rel k (sized_flag_rel k)).
    - apply HS; try assumption. repeat split; try assumption; apply sc_zero.
    - intros [z c] [z' c'] [Hz Hc]. cbn [fst snd] in Hz, Hc.
      change (AR (grid_final st P (PL.track_counts m PB.Horizontal) (PL.track_counts m PB.Vertical) oof (z, c))
                 (grid_final st' P' (PL.track_counts m PB.Horizontal) (PL.track_counts m PB.Vertical) oof' (z', c'))).
      apply (grid_final_rel k Hk); try assumption. cbn [snd]. symmetry. exact Hc.
  Qed.

  Lemma grid_core_rel st st' est inflow inflow' flags oof oof' i i' :
    W st st' -> Forall2 (inflow_rel k) inflow inflow' -> Forall2 (oof_rel k) oof oof' -> fin_rel k i i' ->
    AR (grid_core st est inflow flags oof i) (grid_core st' est inflow' flags oof' i').
  Proof.
    intros Hst Hin Hoof Hi. unfold grid_core. cbv zeta. pose proof Hst as Hst0. wopen Hst0. pose proof (Wpre i i' Hi) as HP.
    pose proof HP as (_ & _ & _ & _ & _ & _ & _ & _ & _ & [How Hoh] & _). pose proof Hi as (Emode & _). rewrite Emode.
    destruct (gi_mode i); try (apply grid_main_rel; assumption).
    destruct (width (p_outer (grid_pre st i))) as [w|], (width (p_outer (grid_pre st' i'))) as [w'|]; cbn [op_rel] in How; try contradiction;
      [|apply grid_main_rel; assumption].
    destruct (height (p_outer (grid_pre st i))) as [h|], (height (p_outer (grid_pre st' i'))) as [h'|]; cbn [op_rel] in Hoh; try contradiction;
      [|apply grid_main_rel; assumption].
    apply AR_ret. apply rel_g_from_outer_size. split; assumption.
  Qed.

  (* compute_grid_layout, any style relation that implies the weak one *)
  Theorem grid_alg_rel s s' st st' i i' : W s s' -> Forall2 W st st' -> fin_rel k i i' -> AR (grid_alg s st i) (grid_alg s' st' i').
  Proof.
    intros Hs Hst Hi. unfold grid_alg. rewrite (estimate_styles_wrel k _ _ Hst), (flags_wrel k _ _ Hst).
    apply grid_core_rel; [exact Hs|apply in_flow_styles_wrel; exact Hst|apply oof_wrel; exact Hst|exact Hi].
  Qed.
End Alg.

(* ------------------------------------------------------------------------------------------------ the two readings *)
Theorem grid_alg_homogeneous_given_sizing k : (0 < k)%Q -> SizingRel k ->
  AlgoRel (GStyle XQ) (GIn XQ) (LayoutOutput XQ) (GLay XQ) (gstyle_rel k) (fin_rel k) (output_rel k) (flay_rel k) grid_alg grid_alg.
Proof.
  intros Hk HS s s' st st' i i' Hs Hst Hi. apply (grid_alg_rel k Hk HS); [apply (gwrel_of_rel k Hk); exact Hs| |exact Hi].
  eapply Forall2_impl; [|exact Hst]. intros x y. apply (gwrel_of_rel k Hk).
Qed.

Theorem grid_alg_box_sizing_blind_given_sizing s s' st st' i i' : SizingRel 1 ->
  gbb_rel s s' -> Forall2 gbb_rel st st' -> fin_rel 1 i i' -> GAlgRel 1 (grid_alg s st i) (grid_alg s' st' i').
Proof.
  intros HS Hs Hst Hi. apply (grid_alg_rel 1 Q01 HS); [apply gbb_weak; exact Hs| |exact Hi].
  eapply Forall2_impl; [|exact Hst]. intros x y. apply gbb_weak.
Qed.
