(* C05, block containers: `generate_item_list` (pipeline GENERATED from the source, Gen/FiltersGen.v) drops the display:none
   children and numbers the others; normal form, blindness, and the tie to the hand-written Model/Block.v.  Kept apart from
   Proofs/ItemFiltersHidden.v (flex, grid) because Proofs/BlockAlgBlind.v -- hence C06's block theorems -- needs exactly this
   file: a source change in the flex or grid display:none filters must not break C06's proofs. *)
From Coq Require Import ZArith Bool List Lia.
From TV Require Import Num.Num Gen.BlockGen Model.Block Model.FiltersBase Gen.FiltersGen Model.ItemFilters Proofs.ItemFiltersBase.
Import ListNotations.

Section HiddenBlock.
  Context {C S I : Type}.
  Variable position : S -> GPosition.
  Variable bgm : S -> GBoxGenerationMode.
  Notation hidden := (s_hidden bgm).

  (* ---------------------------------------------------------------- block: normal form (only the display:none filter) *)

  Definition block_nf (style_of : C -> S) (build : nat -> C -> S -> I) (n : nat) (cs : list C) : list I :=
    map (fun oc => build (fst oc) (snd oc) (style_of (snd oc)))
        (g_enumerate_from n (filter (fun c => negb (hidden (style_of c))) cs)).

  Lemma block_generate_items_nf style_of build cs :
    block_generate_items style_of position bgm build cs = block_nf style_of build 0 cs.
  Proof.
    unfold block_generate_items, block_nf, g_enumerate, s_hidden, g_is_none. generalize 0.
    induction cs as [|c cs IH]; intros n; [reflexivity|].
    cbn [map filter].
    destruct (bgm (style_of c)) eqn:Eb; repeat (progress (cbn; rewrite ?Eb)); first [apply IH | f_equal; apply IH].
  Qed.

  Lemma block_nf_hidden_blind (f f' : C -> S) build cs : agree_except hidden f f' cs -> forall n, block_nf f build n cs = block_nf f' build n cs.
  Proof.
    intros Ha. unfold block_nf. induction Ha as [|c cs Hc Hl IH]; intros n; [reflexivity|].
    cbn [filter]. destruct Hc as [E|[A B]].
    - rewrite <- E. destruct (hidden (f c)); cbn [negb g_enumerate_from map fst snd]; [apply IH|]. rewrite <- E, IH. reflexivity.
    - rewrite A, B. cbn [negb]. apply IH.
  Qed.

  (* deleting the display:none children changes nothing at all (`order` counts box-generating children only) *)
  Lemma block_nf_delete_hidden (f : C -> S) build cs n :
    block_nf f build n (filter (fun c => negb (hidden (f c))) cs) = block_nf f build n cs.
  Proof.
    unfold block_nf. f_equal. f_equal. induction cs as [|c cs IH]; [reflexivity|].
    cbn [filter]. destruct (hidden (f c)) eqn:E; cbn [negb filter]; [exact IH|]. rewrite E. cbn [negb]. rewrite IH. reflexivity.
  Qed.
End HiddenBlock.

(* ------------------------------------------------------------------ Model/Block.v: its filter IS the generated one *)

Section BlockTie.
  Context {T : Type} `{Num T}.

  Lemma generate_items_from_nf (sts : list (BStyle T)) nis : forall n,
    generate_items_from sts nis (Z.of_nat n) =
    block_nf bs_bgm (fun st => st) (fun order _ st => generate_item st nis (Z.of_nat order)) n sts.
  Proof.
    unfold block_nf. induction sts as [|st sts IH]; intros n; [reflexivity|].
    cbn [generate_items_from filter]. rewrite bs_hidden_display.
    destruct (st_display st); cbn [negb g_enumerate_from map fst snd]; try apply IH;
      (f_equal; replace (Z.of_nat n + 1)%Z with (Z.of_nat (Datatypes.S n)) by lia; apply IH).
  Qed.

  (* the hand-written generate_item_list of Model/Block.v (what K1 / K2 of C10 run) = the generated pipeline *)
  Lemma generate_item_list_is_generated (sts : list (BStyle T)) nis : generate_item_list sts nis = block_items_gen sts nis.
  Proof.
    unfold generate_item_list, block_items_gen. rewrite (block_generate_items_nf bs_position bs_bgm).
    exact (generate_items_from_nf sts nis 0).
  Qed.

  (* Model/BlockAlg.v: which children the hidden pass (step 5 of compute_inner) visits *)
  Lemma hidden_pass_is_generated (s : BStyle T) p : s_hidden bs_bgm s = block_hidden_pass_visits (bs_bgm s) p.
  Proof. unfold s_hidden, g_is_none. destruct (bs_bgm s); reflexivity. Qed.
End BlockTie.
