(* Non-vacuity of AbsBlind (C06): a toy container algorithm over outputs (size, content size) and layouts
   (position, content size / order).  In-flow children are stacked (each is queried with the container's input, its
   position is the sum of the sizes before it); an out-of-flow child is queried too and positioned from ITS OWN style,
   and only contributes to the content size the container reports.  The algorithm is AbsBlind for
   oeq / leq = "equal first components"; a two-pass example shows the conclusion of memo_asim on concrete trees. *)
From Coq Require Import List Bool Arith NArith Lia.
From TV Require Import Model.Engine Model.EngineToy Proofs.EngineMemo Proofs.EngineBlind Proofs.EngineAbs.
Import ListNotations.

Definition AS : Type := (N * bool)%type.          (* own size, position:absolute *)
Definition AOut : Type := (N * N)%type.           (* size, content size *)
Definition ALay : Type := (N * N)%type.           (* position, content size / order *)
Definition a_ab (s : AS) : bool := snd s.
Definition a_oeq (o o' : AOut) : Prop := fst o = fst o'.
Definition a_leq (l l' : ALay) : Prop := fst l = fst l'.

Fixpoint aq (st : list AS) (k : nat) (i : TIn) (size content : N) : Alg TIn AOut ALay :=
  match st with
  | [] => Ret _ _ _ (size, content)
  | c :: st' =>
      if snd c
      then Query _ _ _ k i (fun o => SetLayout _ _ _ k (fst c + fst o, N.of_nat k)%N
                                      (aq st' (S k) i size (content + fst c + fst o + snd o)%N))
      else Query _ _ _ k i (fun o => SetLayout _ _ _ k (size, snd o)
                                      (aq st' (S k) i (size + fst o)%N (content + snd o)%N))
  end.
Definition a_algo (s : AS) (st : list AS) (i : TIn) : Alg TIn AOut ALay := aq st 0 i (fst s) 0%N.

Lemma aq_bis (m : nat -> bool) : forall st st', Forall2 (arel AS a_ab) st st' ->
  forall k i size content content',
    (forall j x, nth_error st j = Some x -> m (k + j) = a_ab x) ->
    ABis TIn AOut ALay a_oeq a_leq m (aq st k i size content) (aq st' k i size content').
Proof.
  intros st st' H. induction H as [|a b l l' Hab Hl IH]; intros k i size content content' Hm.
  - cbn. apply AB_ret. reflexivity.
  - assert (Hk : m k = a_ab a) by (rewrite <- (Nat.add_0_r k); apply Hm; reflexivity).
    assert (Hm' : forall j x, nth_error l j = Some x -> m (S k + j) = a_ab x).
    { intros j x Hj. replace (S k + j) with (k + S j) by lia. apply (Hm (S j)). exact Hj. }
    assert (Hbb : a_ab a = a_ab b) by (destruct Hab as [->|[E1 E2]]; congruence).
    cbn [aq]. unfold a_ab in Hk, Hbb. rewrite <- Hbb. destruct (snd a) eqn:Ea.
    + (* out of flow on both sides: each side talks to it on its own *)
      apply AB_query_l; [exact Hk|]. intros o. apply AB_set_l; [exact Hk|].
      apply AB_query_r; [exact Hk|]. intros o'. apply AB_set_r; [exact Hk|].
      apply IH. exact Hm'.
    + (* in flow: then the styles are equal *)
      apply AB_query; [exact Hk|]. intros o o' Ho. apply AB_set; [exact Hk|reflexivity|].
      unfold a_oeq in Ho. rewrite Ho. apply IH. exact Hm'.
Qed.

Lemma a_algo_blind : AbsBlind AS TIn AOut ALay a_algo a_ab a_oeq a_leq.
Proof.
  intros s st st' i H. unfold a_algo. apply aq_bis; [exact H|].
  intros j x Hj. unfold abmask. cbn. rewrite Hj. reflexivity.
Qed.

(* ---- a concrete pair of trees: container(1) with an in-flow leaf(10), an absolute child, an in-flow leaf(20);
   left: the absolute child is a container(5) with a leaf(7) below it; right: neutralised to a bare absolute leaf(0) *)
Definition a_memo := memo AS TIn AOut ALay t_mode t_in_eqb (fun _ => false) (0%N, 0%N) (0%N, 0%N) a_algo.
Definition a_left : tree AS TIn AOut ALay :=
  fresh AS TIn AOut ALay (0%N, 0%N)
    (SNode AS (1%N, false) [SNode AS (10%N, false) []; SNode AS (5%N, true) [SNode AS (7%N, false) []]; SNode AS (20%N, false) []]).
Definition a_right : tree AS TIn AOut ALay :=
  fresh AS TIn AOut ALay (0%N, 0%N)
    (SNode AS (1%N, false) [SNode AS (10%N, false) []; SNode AS (0%N, true) []; SNode AS (20%N, false) []]).

Lemma a_trees_related : asim AS TIn AOut ALay a_ab a_oeq a_leq a_left a_right.
Proof.
  unfold a_left, a_right. cbn. apply asim_node.
  - apply crel_refl. intros o; reflexivity.
  - reflexivity.
  - constructor; [apply asim_refl; intros; reflexivity|].
    constructor; [apply asim_abs; reflexivity|].
    constructor; [apply asim_refl; intros; reflexivity|constructor].
Qed.

(* the two evaluations: same size (31), different content size; the in-flow leaves get the same positions (1 and 11) *)
Example a_run :
  exists o t o' t', a_memo 6 a_left (PerformLayout, 3%N) = Some (o, t) /\ a_memo 6 a_right (PerformLayout, 3%N) = Some (o', t') /\
    fst o = 31%N /\ fst o' = 31%N /\ snd o <> snd o' /\
    map (fun u => fst (lay_of AS TIn AOut ALay u)) (kids_of AS TIn AOut ALay t) = [1%N; 17%N; 11%N] /\
    map (fun u => fst (lay_of AS TIn AOut ALay u)) (kids_of AS TIn AOut ALay t') = [1%N; 0%N; 11%N].
Proof.
  eexists. eexists. eexists. eexists. split; [vm_compute; reflexivity|]. split; [vm_compute; reflexivity|].
  vm_compute. repeat split; try reflexivity. discriminate.
Qed.
