(* An ENGINE of block containers and leaves: the instance of the engine skeleton (Model/Engine.v) whose nodes carry a block
   style (Model/Block.v `BStyle`) and a measure function, whose containers run the block algorithm as a resumption
   (Model/BlockAlg.v `block_alg`) and whose childless nodes run compute_leaf_layout (Model/Leaf.v, ALL of leaf.rs: the
   kernel C19 / C04_leaf / C12_leaf are about) through an adapter between the two vocabularies.  `Num`-generic, definitions
   only.  Used by the whole-tree theorems of C04 (Proofs/EngineHomog.v) and C12 (Proofs/EngineBoxSizing.v).

     cv_style / cv_input / bk_output    BStyle -> Leaf.Style, BIn -> Leaf.LayoutInput, Leaf.LayoutOutput -> ChildOut
                                        (field by field; a padding / border `Auto` does not exist in taffy -- LengthPercentage --
                                        and is read as the length 0, which is what Model/Block.v's resolve_or_zero gives it)
     leaf_out                           compute_leaf_layout behind the adapter
     block_pre                          compute_block_layout's preprocessing of the known dimensions (block.rs l.64-122:
                                        min/max-definite size, clamped style size in InherentSize mode, floor at padding+border);
                                        for InherentSize it is Model/BlockTree.v `block_styled_known` (block_pre_inherent)
     bl_algo                            TaffyView::compute_child_layout's dispatch on has_children: no child -> leaf, else block
     b_to_border_box / b_eligibleb      the content-box -> border-box rewrite of C12 on a BStyle and its class of nodes
   Not modelled here: flex and grid containers (every container is laid out by the block algorithm whatever its display),
   the absolute pass beyond the parameter `abs_child` (Model/BlockAlg.v). *)
From Coq Require Import ZArith Bool List.
From TV Require Import Num.Num.
From TV Require Model.Types Model.Common Model.Leaf Model.Root Model.BoxSizing Model.BlockTree.
From TV Require Import Gen.BlockGen Model.Block Model.Engine Model.FiltersBase Gen.FiltersGen Model.ItemFilters Model.BlockAlg.
Import ListNotations.

(* a node: its style and its measure function (TaffyTree: node context + the measure closure) *)
Record BNode (T : Type) := mkBNode { bn_style : BStyle T; bn_measure : Leaf.MeasureFn T }.
Arguments mkBNode {T}. Arguments bn_style {T}. Arguments bn_measure {T}.

Section BlockEngine.
  Context {T : Type} `{Num T}.

  (* ---- the adapter between Model/Block.v's and Model/Leaf.v's vocabularies *)
  Definition cv_display (d : BDisplay) : Leaf.Display :=
    match d with DBlock => Leaf.DBlock | DFlex => Leaf.DFlex | DGrid => Leaf.DGrid | DNone => Leaf.DNone end.
  Definition cv_position (p : BPosition) : Leaf.Position := match p with PRelative => Leaf.Relative | PAbsolute => Leaf.Absolute end.
  Definition cv_overflow (o : BOverflow) : Leaf.Overflow :=
    match o with OVisible => Leaf.Visible | OClip => Leaf.Clip | OHidden => Leaf.Hidden | OScroll => Leaf.Scroll end.
  Definition cv_dim (d : LPA T) : Types.Dimension T :=
    match d with Len v => Types.Length v | Pct v => Types.Percent v | Auto => Types.Auto end.
  Definition cv_lp (d : LPA T) : Types.LengthPercentage T :=
    match d with Len v => Types.LpLength v | Pct v => Types.LpPercent v | Auto => Types.LpLength zero end.
  Definition cv_size {A B} (f : A -> B) (s : BSize A) : Types.Size B := Types.mkSize (f (s_w s)) (f (s_h s)).
  Definition cv_rect {A B} (f : A -> B) (r : BRect A) : Types.Rect B :=
    Types.mkRect (f (r_left r)) (f (r_right r)) (f (r_top r)) (f (r_bottom r)).
  Definition cv_box (content_box : bool) : Leaf.BoxSizing := if content_box then Leaf.ContentBox else Leaf.BorderBox.

  Definition cv_style (s : BStyle T) : Leaf.Style T :=
    Leaf.mkStyle (cv_display (st_display s)) (cv_position (st_position s)) (cv_box (st_content_box s))
                 (Types.mkPoint (cv_overflow (st_overflow_x s)) (cv_overflow (st_overflow_y s))) (st_scrollbar_width s)
                 (cv_size cv_dim (st_size s)) (cv_size cv_dim (st_min_size s)) (cv_size cv_dim (st_max_size s))
                 (st_aspect_ratio s)
                 (cv_rect cv_dim (st_margin s)) (cv_rect cv_lp (st_padding s)) (cv_rect cv_lp (st_border s)).

  Definition cv_mode (m : Engine.RunMode) : Leaf.RunMode :=
    match m with
    | Engine.PerformLayout => Leaf.PerformLayout
    | Engine.ComputeSize => Leaf.ComputeSize
    | Engine.PerformHiddenLayout => Leaf.PerformHiddenLayout
    end.
  Definition cv_avail (a : Avail T) : Types.AvailableSpace T :=
    match a with Definite v => Types.Definite v | MinContent => Types.MinContent | MaxContent => Types.MaxContent end.
  Definition cv_sizing (inherent : bool) : Leaf.SizingMode := if inherent then Leaf.InherentSize else Leaf.ContentSize.
  Definition cv_input (i : BIn T) : Leaf.LayoutInput T :=
    Leaf.mkInput (cv_mode (bi_mode i)) (cv_sizing (bi_inherent i)) (cv_size (fun x => x) (bi_known i))
                 (cv_size (fun x => x) (bi_parent i)) (cv_size cv_avail (bi_avail i)).

  Definition bk_size (s : Types.Size T) : BSize T := mkSize (Types.width s) (Types.height s).
  Definition bk_mset (m : Leaf.MarginSet T) : MarginSet T := mkMS (Leaf.ms_positive m) (Leaf.ms_negative m).
  Definition bk_output (o : Leaf.LayoutOutput T) : ChildOut T :=
    mkOut (bk_size (Leaf.out_size o)) (bk_size (Leaf.out_content_size o)) (bk_mset (Leaf.top_margin o))
          (bk_mset (Leaf.bottom_margin o)) (Leaf.margins_can_collapse_through o).

  (* LayoutOutput::HIDDEN *)
  Definition hidden_child_out : ChildOut T := mkOut sz_zero sz_zero ms_ZERO ms_ZERO false.

  (* compute_leaf_layout of the node; its `unreachable!()` (hidden run mode) never happens below the engine, which answers
     hidden-mode inputs itself *)
  Definition leaf_out (s : BStyle T) (m : Leaf.MeasureFn T) (i : BIn T) : ChildOut T :=
    match Leaf.compute_leaf_layout (cv_input i) (cv_style s) m with
    | Some (o, _) => bk_output o
    | None => hidden_child_out
    end.

  (* ---- compute_block_layout before compute_inner *)
  Definition block_pre (st : BStyle T) (i : BIn T) : BIn T :=
    let R := block_resolve st (mkInput (bi_known i) (bi_parent i) (bi_collapsible i)) in
    let clamped := if bi_inherent i then sz_maybe_clamp (rs_size R) (rs_min R) (rs_max R) else sz_none in
    let mmd := mkSize (BlockTree.min_max_definite (s_w (rs_min R)) (s_w (rs_max R)))
                      (BlockTree.min_max_definite (s_h (rs_min R)) (s_h (rs_max R))) in
    mkBIn (bi_mode i) (bi_inherent i)
          (BlockTree.sz_maybe_max_f (BlockTree.sz_or (BlockTree.sz_or (bi_known i) mmd) clamped) (rs_pb_size R))
          (bi_parent i) (bi_avail i) (bi_collapsible i).

  (* ---- the engine's parameters *)
  Definition bn_is_none (n : BNode T) : bool := bs_is_none (bn_style n).
  Definition zero_blay : BLayout T := with_order 0.

  Definition mode_eqb (a b : Engine.RunMode) : bool :=
    match a, b with
    | Engine.PerformLayout, Engine.PerformLayout | Engine.ComputeSize, Engine.ComputeSize
    | Engine.PerformHiddenLayout, Engine.PerformHiddenLayout => true
    | _, _ => false
    end.
  Definition o_eqb (a b : option T) : bool :=
    match a, b with Some x, Some y => eqb x y | None, None => true | _, _ => false end.
  Definition av_eqb (a b : Avail T) : bool :=
    match a, b with
    | Definite x, Definite y => eqb x y
    | MinContent, MinContent | MaxContent, MaxContent => true
    | _, _ => false
    end.
  (* the exact memo key: every field of the LayoutInput, numbers compared as numbers *)
  Definition bin_eqb (a b : BIn T) : bool :=
    mode_eqb (bi_mode a) (bi_mode b) && Bool.eqb (bi_inherent a) (bi_inherent b)
    && o_eqb (s_w (bi_known a)) (s_w (bi_known b)) && o_eqb (s_h (bi_known a)) (s_h (bi_known b))
    && o_eqb (s_w (bi_parent a)) (s_w (bi_parent b)) && o_eqb (s_h (bi_parent a)) (s_h (bi_parent b))
    && av_eqb (s_w (bi_avail a)) (s_w (bi_avail b)) && av_eqb (s_h (bi_avail a)) (s_h (bi_avail b))
    && Bool.eqb (l_start (bi_collapsible a)) (l_start (bi_collapsible b))
    && Bool.eqb (l_end (bi_collapsible a)) (l_end (bi_collapsible b)).

  (* the same key with the eight numbers compared by `teq`: with `eqb` of the Num instance it IS bin_eqb (numbers compared as numbers:
     +0 = -0, NaN <> NaN), with a representation equality (Model/TaffyKey.v f32_seqb / xq_seqb) it is an EXACT key: equal keys are
     equal inputs (Proofs/BlockEngineReal.v bin_eqb_with_eq) *)
  Definition o_eqb_with (teq : T -> T -> bool) (a b : option T) : bool :=
    match a, b with Some x, Some y => teq x y | None, None => true | _, _ => false end.
  Definition av_eqb_with (teq : T -> T -> bool) (a b : Avail T) : bool :=
    match a, b with
    | Definite x, Definite y => teq x y
    | MinContent, MinContent | MaxContent, MaxContent => true
    | _, _ => false
    end.
  Definition bin_eqb_with (teq : T -> T -> bool) (a b : BIn T) : bool :=
    mode_eqb (bi_mode a) (bi_mode b) && Bool.eqb (bi_inherent a) (bi_inherent b)
    && o_eqb_with teq (s_w (bi_known a)) (s_w (bi_known b)) && o_eqb_with teq (s_h (bi_known a)) (s_h (bi_known b))
    && o_eqb_with teq (s_w (bi_parent a)) (s_w (bi_parent b)) && o_eqb_with teq (s_h (bi_parent a)) (s_h (bi_parent b))
    && av_eqb_with teq (s_w (bi_avail a)) (s_w (bi_avail b)) && av_eqb_with teq (s_h (bi_avail a)) (s_h (bi_avail b))
    && Bool.eqb (l_start (bi_collapsible a)) (l_start (bi_collapsible b))
    && Bool.eqb (l_end (bi_collapsible a)) (l_end (bi_collapsible b)).

  (* dispatch: a node without children is a leaf, every other node a block container *)
  Definition bl_algo (pre : BStyle T -> BIn T -> BIn T) (abs_child : @AbsChild T)
             (n : BNode T) (kids : list (BNode T)) (i : BIn T) : Engine.Alg (BIn T) (ChildOut T) (BLayout T) :=
    match kids with
    | [] => Engine.Ret (BIn T) (ChildOut T) (BLayout T) (leaf_out (bn_style n) (bn_measure n) i)
    | _ => block_alg pre abs_child (bn_style n) (map bn_style kids) i
    end.

  Definition bl_memo pre abs_child :=
    Engine.memo (BNode T) (BIn T) (ChildOut T) (BLayout T) bi_mode bin_eqb bn_is_none hidden_child_out zero_blay (bl_algo pre abs_child).
  Definition bl_plain pre abs_child :=
    Engine.plain (BNode T) (BIn T) (ChildOut T) (BLayout T) bi_mode bn_is_none hidden_child_out (bl_algo pre abs_child).
  Definition bl_fresh := Engine.fresh (BNode T) (BIn T) (ChildOut T) (BLayout T) zero_blay.

  (* the input compute_root_layout hands to the root: PerformLayout, InherentSize, parent size = available space *)
  Definition root_bin (known : BSize (option T)) (avail : BSize (Avail T)) : BIn T :=
    mkBIn Engine.PerformLayout true known (mkSize (avail_into_option (s_w avail)) (avail_into_option (s_h avail))) avail
          (mkLine false false).

  (* ---- C12: the rewrite content-box -> border-box on a BStyle *)
  Definition b_grow (pb : T) (d : LPA T) : LPA T := match d with Len l => Len (add l pb) | o => o end.
  Definition b_grow_size (pb : BSize T) (s : BSize (LPA T)) : BSize (LPA T) :=
    mkSize (b_grow (s_w pb) (s_w s)) (b_grow (s_h pb) (s_h s)).
  (* (padding + border).sum_axes(); the percentage basis is irrelevant for lengths *)
  Definition b_style_pb (s : BStyle T) : BSize T :=
    sum_axes (rect_add (rect_resolve_or_zero (st_padding s) None) (rect_resolve_or_zero (st_border s) None)).
  Definition b_to_border_box (s : BStyle T) : BStyle T :=
    mkStyle (st_display s) (st_is_table s) false (st_overflow_x s) (st_overflow_y s) (st_scrollbar_width s) (st_position s)
            (st_inset s) (b_grow_size (b_style_pb s) (st_size s)) (b_grow_size (b_style_pb s) (st_min_size s))
            (b_grow_size (b_style_pb s) (st_max_size s)) (st_aspect_ratio s) (st_margin s) (st_padding s) (st_border s)
            (st_text_align s).

  Definition lpa_is_len (d : LPA T) : bool := match d with Len _ => true | _ => false end.
  Definition lpa_not_pct (d : LPA T) : bool := match d with Pct _ => false | _ => true end.
  Definition brect_forallb {A} (p : A -> bool) (r : BRect A) : bool := p (r_left r) && p (r_right r) && p (r_top r) && p (r_bottom r).
  Definition bsize_forallb {A} (p : A -> bool) (s : BSize A) : bool := p (s_w s) && p (s_h s).
  Definition b_eligibleb (s : BStyle T) : bool :=
    st_content_box s
    && brect_forallb lpa_is_len (st_padding s) && brect_forallb lpa_is_len (st_border s)
    && (match st_aspect_ratio s with None => true | Some _ => false end)
    && bsize_forallb lpa_not_pct (st_size s) && bsize_forallb lpa_not_pct (st_min_size s)
    && bsize_forallb lpa_not_pct (st_max_size s).

  (* rewrite the node if it is eligible *)
  Definition bn_to_border_box (n : BNode T) : BNode T :=
    if b_eligibleb (bn_style n) then mkBNode (b_to_border_box (bn_style n)) (bn_measure n) else n.
End BlockEngine.
