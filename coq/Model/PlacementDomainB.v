(* The placement domain with the bound as a PARAMETER B (Model/..: definitions only).
   The pinned domain of C08 / C03 (`in_domain`, Proofs/PlacementProofs.v) is the instance B = 64, <= 64 children. *)
From Coq Require Import ZArith Bool List.
From TV Require Import Model.PlacementBase Gen.PlacementGen Model.Placement.
Import ListNotations.
Open Scope Z_scope.

(* one placement value: line indices in [-B, B] (0 included: treated as auto), spans in [1, B] *)
Definition gp_okB (B : Z) (p : GP) : Prop :=
  match p with Auto => True | Line l => - B <= l <= B | Span s => 1 <= s <= B end.
Definition ln_okB (B : Z) (ln : Ln GP) : Prop := gp_okB B (l_start ln) /\ gp_okB B (l_end ln).
Definition child_okB (B : Z) (c : child) : Prop := ln_okB B (c_row c) /\ ln_okB B (c_col c).

(* explicit track counts 0..B per axis, every child (in flow, hidden, absolute) within the bound; the NUMBER of children is
   constrained separately by [bound_ok] *)
Definition in_domain_B (B ec er : Z) (children : list (child_kind * child)) : Prop :=
  0 <= ec <= B /\ 0 <= er <= B /\ Forall (fun kc => child_okB B (snd kc)) children.

(* the side condition under which the checked i16 / u16 arithmetic of placement provably cannot overflow:
   the estimate has at most 6B tracks per axis, every placed item grows an axis by at most 2B, the search cursors and the
   probed areas stay within 10B of the last line:  2 B n + 16 B <= i16::MAX  (n = number of children) *)
Definition bound_ok (B : Z) (n : nat) : Prop :=
  2 <= B /\ 2 * B * Z.of_nat n + 16 * B <= 32767.

(* the side condition of the clause theorems (every child placed once, area in range, explicit lines honoured, auto items do
   not overlap -- all GIVEN that the run returned Ok): only the estimate has to stay in range, for ANY number of children *)
Definition clause_bound_ok (B : Z) : Prop := 2 <= B /\ 16 * B <= 32767.
