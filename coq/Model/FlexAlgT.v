(* C04 -- the FLOOR-PARAMETRISED form of the flexbox algorithm (Model/FlexAlg.v), generic in `Num`.  Definitions only.

   determine_container_main_size (flexbox.rs, min-/max-content branch) floors the scaled shrink factor of an item at the constant 1:

       let scaled_shrink_factor = f32_max(1.0, item.flex_shrink * item.inner_flex_basis);       // a LENGTH compared with 1

   `flex_alg_t tau` is `flex_alg` with that one constant replaced by the parameter `tau`:  `flex_alg_t one` IS `flex_alg` (by
   `reflexivity`: Proofs/FlexAlgRel.v flex_alg_t_one).  Nothing else differs: the definitions below are the definitions of
   Model/FlexFraction.v / Model/FlexAlg.v with `tau` threaded to the one place where the constant occurs.  The floor is the only
   absolute length in the whole of compute_flexbox_layout; with it treated as a length, the algorithm is homogeneous
   (Proofs/FlexAlgRel.v: scaling every length of the container by k AND the floor by k scales every query, every stored layout and
   the result by k).  (The second constant of the same function, `f32_max(1.0, item.flex_shrink)`, is dimensionless.) *)
From Coq Require Import ZArith Bool List.
From TV Require Import Model.Common Model.Leaf Gen.FlexGen Model.Flex Model.FlexLines Model.FlexBase Model.FlexContainer Model.FlexFraction.
From TV Require Import Model.FiltersBase Gen.FiltersGen Model.ItemFilters Model.FlexAlgBase Model.FlexAlgAbs Model.FlexAlg.
From TV Require Model.Engine.
Import ListNotations.
Close Scope Z_scope.

Section FlexAlgT.
  Context {T : Type} `{Num T}.
  Local Open Scope num_scope.
  Variable tau : T.                          (* the floor of the scaled shrink factor: 1.0 in the source *)

  Notation Out := (LayoutOutput T).
  Notation Alg := (Engine.Alg (FIn T) Out (FLay T)).

  (* Model/FlexFraction.v fraction_of_diff / content_flex_fraction *)
  Definition fraction_of_diff_t (diff inner_flex_basis flex_grow flex_shrink : T) : T :=
    if gtb diff zero then div diff (fmax one flex_grow)
    else if ltb diff zero then div diff (fmax tau (mul flex_shrink inner_flex_basis))
    else zero.
  Definition content_flex_fraction_t (content_contribution flex_basis inner_flex_basis flex_grow flex_shrink : T) : T :=
    fraction_of_diff_t (sub content_contribution flex_basis) inner_flex_basis flex_grow flex_shrink.
  Definition item_target_size_t (content_contribution flex_basis inner_flex_basis flex_grow flex_shrink : T) : T :=
    add flex_basis
        (flex_contribution inner_flex_basis flex_grow flex_shrink
           (content_flex_fraction_t content_contribution flex_basis inner_flex_basis flex_grow flex_shrink)).

  (* Model/FlexAlg.v intrinsic_upd *)
  Definition intrinsic_upd_t (k : Constants T) (w : WItem) (answers : list Ans) : WItem :=
    let row := k_row k in
    let ci := w_ci w in
    let it := w_fi w in
    let main_content_box_inset := main_axis_sum row (k_inset k) in
    let content_contribution :=
      match intrinsic_shortcut k w, answers with
      | Some c, _ => c
      | None, a :: _ =>
          let content_main_size := ans_main row a + main_axis_sum row (ci_margin ci) in
          let style_min := s_main row (ci_min ci) in
          let style_max := s_main row (ci_max ci) in
          if row then fmax (maybe_clamp_fo content_main_size style_min style_max) main_content_box_inset
          else fmax (maybe_clamp_fo (fmax content_main_size (fi_basis it)) style_min style_max) main_content_box_inset
      | None, [] => zero
      end in
    set_cff w (content_flex_fraction_t content_contribution (fi_basis it) (fi_inner_basis it) (fi_grow it) (fi_shrink it)).

  (* Model/FlexAlg.v flex_core *)
  Definition flex_core_t (s : FStyle T) (inp : FIn T) (k : Constants T) (items : list WItem) (absl : list (nat * FStyle T))
             (flags : list bool) : Alg :=
    let known_dimensions := qi_known inp in
    let row := k_row k in
    let gutter := scrollbar_gutter s in
    let available_space := determine_available_space known_dimensions (qi_avail inp) k in
    qmap w_node (base_asks k available_space) (base_upd k available_space) items (fun ws =>
    let lens := map (@length WItem)
                    (collect_flex_lines (fun w => fi_hyp_outer (w_fi w)) (k_wrap k) (s_main row (k_max k)) (s_main row (k_min k))
                                        (s_main row available_space) (s_main row (k_gap k)) ws) in
    match s_main row (k_inner k) with
    | Some inner_main_size =>
        let outer_main_size := inner_main_size + main_axis_sum row (k_inset k) in
        flex_after_main_size s absl flags inp k available_space lens outer_main_size inner_main_size ws
    | None =>
        let main_content_box_inset := main_axis_sum row (k_inset k) in
        let continue_with (ws : list WItem) (outer_unclamped : T) : Alg :=
          let '(outer_main, inner_main) := finish_main_size k gutter outer_unclamped in
          flex_after_main_size s absl flags inp (with_main_size s k outer_main inner_main) available_space lens outer_main inner_main ws in
        match main_branch k available_space with
        | MB_Definite a =>
            let lines := regroup lens ws in
            let size := longest_line_length k lines + main_content_box_inset in
            continue_with ws (if Nat.ltb 1 (length lines) then fmax size a else size)
        | MB_WrapMinContent =>
            continue_with ws (longest_line_length k (regroup lens ws) + main_content_box_inset)
        | MB_Intrinsic =>
            qmap w_node (intrinsic_asks k available_space) (intrinsic_upd_t k) ws (fun ws =>
            continue_with ws (intrinsic_main_size k (regroup lens ws) + main_content_box_inset))
        end
    end).

  Definition flex_preliminary_t (s : FStyle T) (children : list (FStyle T)) (inp : FIn T) : Alg :=
    let k := flex_constants s (qi_known inp) (qi_parent inp) in
    flex_core_t s inp k (flex_items k (container_align_items s) children) (abs_children children) (hidden_flags children).

  Definition flex_alg_t (s : FStyle T) (children : list (FStyle T)) (inp : FIn T) : Alg :=
    let kd := styled_known_dimensions (to_cstyle s) (qi_known inp) (qi_parent inp) (qi_sizing inp) in
    match is_compute_size (qi_mode inp), width kd, height kd with
    | true, Some w, Some h => Engine.Ret (FIn T) Out (FLay T) (from_outer_size (mkSize w h))
    | _, _, _ =>
        flex_preliminary_t s children
          (mkFIn (qi_mode inp) (qi_sizing inp) (qi_axis inp) kd (qi_parent inp) (qi_avail inp) (qi_collapsible inp))
    end.

  (* the static class in which the floor cannot be reached: the container's main size is not computed from its items' content
     contributions -- its inner main size is known, or the main-axis available space is definite, or it is a wrapping container under
     a min-content constraint.  A function of the container's style and input only (no answer, no child style). *)
  Definition flex_main_not_intrinsic (s : FStyle T) (inp : FIn T) : bool :=
    let kd := styled_known_dimensions (to_cstyle s) (qi_known inp) (qi_parent inp) (qi_sizing inp) in
    let k := flex_constants s kd (qi_parent inp) in
    match s_main (k_row k) (k_inner k) with
    | Some _ => true
    | None => match main_branch k (determine_available_space kd (qi_avail inp) k) with MB_Intrinsic => false | _ => true end
    end.
End FlexAlgT.
