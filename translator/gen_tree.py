"""TaffyTree structural methods (src/tree/taffy_tree.rs).

Gen/TreeMethodsGen.v: fingerprints of the methods that coq/Model/Tree.v transcribes by hand (a changed fingerprint
escalates the correspondence check of C14 to its thorough budget; the translator refuses if a method disappears).

Gen/TreeBodiesGen.v: the BODIES of the structural methods named in BODIES below, translated statement by statement
into the small imperative target language of coq/Model/TreeImp.v (`st_set_parent`, `st_push_child`, `st_insert_child`,
`st_vec_remove`, `st_vec_replace`, `st_vec_drain`, `st_for`, `st_mark_dirty`, ...), the whole `tree` state threaded in
source order.  Proofs/TreeBodiesProofs.v proves each `gen_<method>` equal to the hand-written `Tree.<method>`, so the C14
theorems are statements about what the source says now.  Every statement form is matched explicitly; anything else
raises Refuse (then the committed snapshot of the pinned tree is installed, see lib/common.py FALLBACK_TARGETS).
`mark_dirty(x)?` is recognised (st_mark_dirty), never dropped.  Reductions shared with Model/Tree.v: NodeId/DefaultKey
conversions (`into`, `NodeId::from`, `*x`, `&x`) are the identity; `usize` is N; the generic `range: R` of
remove_children_range is a half-open `lo..hi`; `NodeData::new(style)` is `has_context = false`."""
from rustparse import *

SRC = 'src/tree/taffy_tree.rs'

METHODS = ['new', 'with_capacity', 'new_leaf', 'new_leaf_with_context', 'new_with_children', 'clear', 'remove',
           'set_node_context', 'get_node_context', 'add_child', 'insert_child_at_index', 'set_children', 'remove_child',
           'remove_child_at_index', 'remove_children_range', 'replace_child_at_index', 'child_at_index',
           'total_node_count', 'parent', 'children', 'mark_dirty']


class Refuse(Exception):
    pass


def generate(repo):
    src = open(repo + '/' + SRC).read()
    toks = tokenize(src)
    # the inherent impl block: `impl < NodeContext > TaffyTree < NodeContext > {`
    idxs = [i for i in range(len(toks)) if seq_at(toks, i, ['impl', '<', 'NodeContext', '>', 'TaffyTree', '<', 'NodeContext', '>', '{'])]
    if len(idxs) != 1:
        raise Refuse('expected exactly one inherent `impl<NodeContext> TaffyTree<NodeContext>` block, found %d' % len(idxs))
    b = idxs[0] + 8
    e = match_brace(toks, b)
    body = toks[b:e + 1]
    fps = {}
    for m in METHODS:
        params, fb, _ = find_fn(body, m)
        fps['TaffyTree::' + m] = norm_tokens(params) + ' => ' + norm_tokens(fb)
    # child_count lives in the TraversePartialTree impl
    ti = [i for i in range(len(toks)) if seq_at(toks, i, ['TraversePartialTree', 'for', 'TaffyTree', '<', 'NodeContext', '>'])]
    if len(ti) != 1:
        raise Refuse('TraversePartialTree impl for TaffyTree not found')
    params, fb, _ = find_fn(toks, 'child_count', ti[0])
    fps['TaffyTree::child_count'] = norm_tokens(fb)
    # the struct fields the model mirrors
    si = [i for i in range(len(toks)) if seq_at(toks, i, ['pub', 'struct', 'TaffyTree'])]
    if len(si) != 1:
        raise Refuse('struct TaffyTree not found')
    j = si[0]
    while toks[j][1] != '{':
        j += 1
    fps['TaffyTree::struct'] = norm_tokens([t for t in toks[j:match_brace(toks, j) + 1] if not t[1].startswith('///')])
    out = ['(* GENERATED on every run by /verif/translator/gen_tree.py from %s -- do not edit. *)' % SRC,
           '(* The methods of TaffyTree that Model/Tree.v transcribes (found in the source; fingerprinted). *)',
           'From Coq Require Import String List.', 'Import ListNotations.', 'Open Scope string_scope.',
           'Definition taffy_tree_methods : list string := [%s].' % '; '.join('"%s"' % k for k in sorted(fps))]
    return '\n'.join(out) + '\n', fps



# ----------------------------------------------------------------------------- bodies -> Gen/TreeBodiesGen.v

# method -> (kind, expected return type text).  kind 'mut': &mut self, result `res (tree * ret)`;
# 'q_ret' / 'q_usize' / 'q_opt' / 'q_vec': &self queries with result `res ret` / `res N` / `res (option key)` / `res (list key)`
BODIES = [
    ('child_count', 'q_usize', '-> usize'),
    ('child_at_index', 'q_ret', '-> TaffyResult < NodeId >'),
    ('parent', 'q_opt', '-> Option < NodeId >'),
    ('children', 'q_vec', '-> TaffyResult < Vec < NodeId >>'),
    ('add_child', 'mut', '-> TaffyResult < ( ) >'),
    ('insert_child_at_index', 'mut', '-> TaffyResult < ( ) >'),
    ('remove_child_at_index', 'mut', '-> TaffyResult < NodeId >'),
    ('remove_child', 'mut', '-> TaffyResult < NodeId >'),
    ('replace_child_at_index', 'mut', '-> TaffyResult < NodeId >'),
    ('remove_children_range', 'mut', '-> TaffyResult < ( ) > where R : core :: ops :: RangeBounds < usize > ,'),
    ('set_children', 'mut', '-> TaffyResult < ( ) >'),
    ('remove', 'mut', '-> TaffyResult < NodeId >'),
    ('new_leaf', 'mut', '-> TaffyResult < NodeId >'),
    ('new_with_children', 'mut', '-> TaffyResult < NodeId >'),
]
RESULT_TYPE = {'mut': 'res (tree * ret)', 'q_ret': 'res ret', 'q_usize': 'res N', 'q_opt': 'res (option key)',
               'q_vec': 'res (list key)'}
PARAM_TYPES = {'NodeId': ('key', 'key'), 'usize': ('N', 'N'), '& [ NodeId ]': ('vec', 'list key'), 'Style': ('style', None),
               'R': ('range', None)}
COQ_TYPE = {'key': 'key', 'N': 'N', 'vec': 'list key'}


def fn_signature(toks, name, start=0):
    """(self_kind, [(name, type_text)], return_text) of the first `fn name` after start"""
    i = start
    while i < len(toks) - 1 and not (toks[i] == ('id', 'fn') and toks[i + 1] == ('id', name)):
        i += 1
    if i >= len(toks) - 1:
        raise Refuse('fn %s not found' % name)
    j = i + 2
    if toks[j][1] == '<':          # generics: `<R>` only
        if [t[1] for t in toks[j:j + 3]] != ['<', 'R', '>']:
            raise Refuse('fn %s: unexpected generics' % name)
        j += 3
    k = match_brace(toks, j)
    params, cur, depth = [], [], 0
    for t in toks[j + 1:k]:
        if t[1] in '<([':
            depth += 1
        elif t[1] in '>)]':
            depth -= 1
        if t[1] == ',' and depth == 0:
            params.append(cur)
            cur = []
        else:
            cur.append(t)
    if cur:
        params.append(cur)
    b = k + 1
    while toks[b][1] != '{':
        b += 1
    ret = norm_tokens(toks[k + 1:b])
    selfk = norm_tokens(params[0])
    if selfk not in ('& self', '& mut self'):
        raise Refuse('fn %s: receiver %r' % (name, selfk))
    ps = []
    for p in params[1:]:
        if p[1][1] != ':' or p[0][0] != 'id':
            raise Refuse('fn %s: parameter %r' % (name, norm_tokens(p)))
        ps.append((p[0][1], norm_tokens(p[2:])))
    return selfk, ps, ret


def self_field(e, field=None):
    """e is `self.<field>` -> field name"""
    if e[0] == 'field' and e[1] == ('path', ['self']) and (field is None or e[2] == field):
        return e[2]
    return None


def self_index(e, field):
    """e is `self.<field>[k]` -> k"""
    if e[0] == 'index' and self_field(e[1], field):
        return e[2]
    return None


class Body:
    """translation of one method body; every unrecognised form raises Refuse"""

    def __init__(self, name, kind, done):
        self.name, self.kind, self.done = name, kind, done
        self.nstate = 0
        self.ntmp = 0

    def refuse(self, what, e=None):
        raise Refuse('%s: unrecognised %s%s' % (self.name, what, '' if e is None else ': %r' % (e,)))

    def new_state(self):
        if self.kind != 'mut':
            self.refuse('state change in a &self method')
        self.nstate += 1
        return 't%d' % self.nstate

    def tmp(self, base):
        self.ntmp += 1
        return '%s%d' % (base, self.ntmp)

    # ---- pure expressions
    def var(self, e, env, ty):
        if e[0] == 'path' and len(e[1]) == 1 and e[1][0] in env and env[e[1][0]][1] == ty:
            return env[e[1][0]][0]
        return None

    def key(self, e, env):
        """NodeId / DefaultKey valued: x, x.into(), (*x).into(), *x, NodeId::from(x)"""
        if e[0] == 'mcall' and e[2] == 'into' and e[3] == []:
            return self.key(e[1], env)
        if e[0] == 'un' and e[1] == '*':
            return self.key(e[2], env)
        if e[0] == 'call' and e[1] == ('path', ['NodeId', 'from']) and len(e[2]) == 1:
            return self.key(e[2][0], env)
        v = self.var(e, env, 'key')
        if v is None:
            self.refuse('NodeId expression', e)
        return v

    def usize(self, e, env):
        v = self.var(e, env, 'N')
        if v is None:
            self.refuse('usize expression', e)
        return v

    def optkey(self, e, env):
        if e == ('path', ['None']):
            return 'None'
        if e[0] == 'call' and e[1] == ('path', ['Some']) and len(e[2]) == 1:
            return '(Some %s)' % self.key(e[2][0], env)
        self.refuse('Option<NodeId> expression', e)

    def vec(self, e, env):
        """slice / Vec valued: xs, xs.iter().copied(), xs.iter().copied().collect()"""
        if e[0] == 'mcall' and e[2] == 'collect' and e[3] == []:
            return self.vec(e[1], env)
        if e[0] == 'mcall' and e[2] == 'copied' and e[3] == [] and e[1][0] == 'mcall' and e[1][2] == 'iter' and e[1][3] == []:
            return self.vec(e[1][1], env)
        if e[0] == 'call' and e[1] == ('path', ['new_vec_with_capacity']) and e[2] == [('lit', '0')]:
            return '[]'
        v = self.var(e, env, 'vec')
        if v is None:
            self.refuse('Vec<NodeId> expression', e)
        return v

    def children_place(self, e, env):
        """`self.children[k]` or a `&mut self.children[k]` alias -> k"""
        k = self_index(e, 'children')
        if k is not None:
            return self.key(k, env)
        v = self.var(e, env, 'place')
        if v is None:
            self.refuse('place expression', e)
        return v

    def ret(self, s, r):
        return 'Ok (%s, %s)' % (s, r) if self.kind == 'mut' else 'Ok %s' % r

    # ---- results (tail expression / return)
    def result(self, e, env, s):
        if e[0] == 'call' and e[1] == ('path', ['Err']) and len(e[2]) == 1:
            st = e[2][0]
            if st[0] == 'struct' and st[1] == ['TaffyError', 'ChildIndexOutOfBounds'] and st[3] is None \
                    and [f for f, _ in st[2]] == ['parent', 'child_index', 'child_count']:
                a = dict(st[2])
                return self.ret(s, '(RErr %s %s %s)' % (self.key(a['parent'], env), self.usize(a['child_index'], env),
                                                        self.usize(a['child_count'], env)))
            self.refuse('error value', e)
        if e[0] == 'call' and e[1] == ('path', ['Ok']) and len(e[2]) == 1:
            x = e[2][0]
            if x == ('tuple', []):
                return self.ret(s, 'RUnit')
            if self.kind == 'q_vec' and x[0] == 'mcall' and x[2] == 'clone' and x[3] == [] and self_index(x[1], 'children') is not None:
                l = self.tmp('l')
                return '%s <- sm_index (t_children %s) %s ;;\nOk %s' % (l, s, self.key(self_index(x[1], 'children'), env), l)
            if x[0] == 'index' and self_index(x[1], 'children') is not None:      # self.children[k][i]
                l, c = self.tmp('l'), self.tmp('c')
                return '%s <- sm_index (t_children %s) %s ;;\n%s <- of_opt (nth_error %s (N.to_nat %s)) ;;\n%s' % (
                    l, s, self.key(self_index(x[1], 'children'), env), c, l, self.usize(x[2], env), self.ret(s, '(RKey %s)' % c))
            return self.ret(s, '(RKey %s)' % self.key(x, env))
        if self.kind == 'q_opt' and self_index(e, 'parents') is not None:
            return 'sm_index (t_parents %s) %s' % (s, self.key(self_index(e, 'parents'), env))
        if self.kind == 'q_usize' and e[0] == 'mcall' and e[2] == 'len' and e[3] == [] and self_index(e[1], 'children') is not None:
            l = self.tmp('l')
            return '%s <- sm_index (t_children %s) %s ;;\nOk (N.of_nat (length %s))' % (l, s, self.key(self_index(e[1], 'children'), env), l)
        if self.kind == 'mut' and e[0] == 'mcall' and e[1] == ('path', ['self']) and e[2] == 'remove_child_at_index' \
                and 'remove_child_at_index' in self.done and len(e[3]) == 2:
            return 'gen_remove_child_at_index %s %s %s' % (s, self.key(e[3][0], env), self.usize(e[3][1], env))
        self.refuse('result expression', e)

    # ---- statements
    def seq(self, stmts, tail, env, s, end, top):
        """stmts then tail; `end(env, s)` gives the text that follows.  top: the method's own block (its tail is the result and
        `return Err(..)` is allowed)"""
        if not stmts:
            if top:
                if tail is None:
                    self.refuse('method without a result expression')
                return self.result(tail, env, s)
            if tail is not None:
                return self.stmt(('expr', tail, []), env, s, end, False)
            return end(env, s)
        return self.stmt(stmts[0], env, s, lambda env2, s2: self.seq(stmts[1:], tail, env2, s2, end, top), top)

    def nested(self, block, env, s0):
        """a block as a function body `res tree` starting in state s0"""
        if block[0] != 'block' or block[3] != []:
            self.refuse('block', block)
        return self.seq(block[1], block[2], env, s0, lambda env2, s2: 'Ok %s' % s2, False)

    def loop(self, var_pat, items, block, env, s, k):
        if var_pat[0] != 'pident':
            self.refuse('loop pattern', var_pat)
        x = 'v_' + var_pat[1]
        env2 = dict(env)
        env2[var_pat[1]] = (x, 'key')
        self.nstate += 1
        sb = 't%d' % self.nstate
        body = self.nested(block, env2, sb)
        s2 = self.new_state()
        return '%s <- st_for %s (fun %s %s =>\n%s) %s ;;\n%s' % (s2, items, sb, x, indent(body), s, k(env, s2))

    def stmt(self, st, env, s, k, top):
        if st[0] == 'let' and st[3] == []:
            return self.let(st[1], st[2], env, s, k)
        if st[0] != 'expr' or st[2] != []:
            self.refuse('statement', st)
        e = st[1]
        # if a > b { return Err(..); }
        if e[0] == 'if' and e[3] is None:
            if not top:
                self.refuse('early return inside a nested block', e)
            c, blk = e[1], e[2]
            if not (blk[0] == 'block' and blk[2] is None and len(blk[1]) == 1 and blk[1][0][0] == 'expr' and blk[1][0][1][0] == 'return'
                    and blk[1][0][1][1] is not None):
                self.refuse('if statement', e)
            if c[0] != 'bin' or c[1] not in ('>', '>='):
                self.refuse('condition', c)
            a, b = self.usize(c[2], env), self.usize(c[3], env)
            cond = 'N.ltb %s %s' % (b, a) if c[1] == '>' else 'N.leb %s %s' % (b, a)
            return 'if %s then %s\nelse\n%s' % (cond, self.result(blk[1][0][1][1], env, s), k(env, s))
        # self.parents[k] = v
        if e[0] == 'assign' and e[1] == '=' and self_index(e[2], 'parents') is not None:
            s2 = self.new_state()
            return '%s <- st_set_parent %s %s %s ;;\n%s' % (s2, s, self.key(self_index(e[2], 'parents'), env), self.optkey(e[3], env), k(env, s2))
        # self.mark_dirty(n)?
        if e[0] == 'try' and e[1][0] == 'mcall' and e[1][1] == ('path', ['self']) and e[1][2] == 'mark_dirty' and len(e[1][3]) == 1:
            s2 = self.new_state()
            return '%s <- st_mark_dirty %s %s ;;\n%s' % (s2, s, self.key(e[1][3][0], env), k(env, s2))
        # self.remove_child(p, c).unwrap()
        if e[0] == 'mcall' and e[2] == 'unwrap' and e[3] == [] and e[1][0] == 'mcall' and e[1][1] == ('path', ['self']) \
                and e[1][2] == 'remove_child' and 'remove_child' in self.done and len(e[1][3]) == 2:
            x, s2 = self.tmp('x'), self.new_state()
            return '%s <- gen_remove_child %s %s %s ;;\n%s <- unwrap_ret %s ;;\n%s' % (
                x, s, self.key(e[1][3][0], env), self.key(e[1][3][1], env), s2, x, k(env, s2))
        # Vec methods on self.children[k] / an alias of it
        if e[0] == 'mcall' and e[2] in ('push', 'insert', 'clear'):
            p = self.children_place(e[1], env)
            s2 = self.new_state()
            if e[2] == 'push' and len(e[3]) == 1:
                return '%s <- st_push_child %s %s %s ;;\n%s' % (s2, s, p, self.key(e[3][0], env), k(env, s2))
            if e[2] == 'insert' and len(e[3]) == 2:
                return '%s <- st_insert_child %s %s %s %s ;;\n%s' % (s2, s, p, self.usize(e[3][0], env), self.key(e[3][1], env), k(env, s2))
            if e[2] == 'clear' and e[3] == []:
                return '%s <- st_vec_clear %s %s ;;\n%s' % (s2, s, p, k(env, s2))
            self.refuse('Vec method call', e)
        # xs.iter().for_each(|x| body)
        if e[0] == 'mcall' and e[2] == 'for_each' and len(e[3]) == 1 and e[3][0][0] == 'closure' and len(e[3][0][1]) == 1 \
                and e[1][0] == 'mcall' and e[1][2] == 'iter' and e[1][3] == []:
            cl = e[3][0]
            return self.loop(cl[1][0], self.vec(e[1][1], env), ('block', [('expr', cl[2], [])], None, []), env, s, k)
        # for x in <items> { body }
        if e[0] == 'for':
            it = e[2]
            if it[0] == 'mcall' and it[2] == 'drain' and len(it[3]) == 1:        # self.children[k].drain(range)
                p = self.children_place(it[1], env)
                r = self.var(it[3][0], env, 'range')
                if r is None:
                    self.refuse('drain argument', it)
                d, s2 = self.tmp('d'), self.new_state()
                return '%s <- st_vec_drain %s %s %s_lo %s_hi ;;\nlet %s := fst %s in\n%s' % (
                    d, s, p, r, r, s2, d, self.loop(e[1], '(snd %s)' % d, e[3], env, s2, k))
            if it[0] == 'un' and it[1] == '&' and self_index(it[2], 'children') is not None:     # for x in &self.children[k]
                l = self.tmp('l')
                return '%s <- sm_index (t_children %s) %s ;;\n%s' % (l, s, self.key(self_index(it[2], 'children'), env),
                                                                     self.loop(e[1], l, e[3], env, s, k))
            return self.loop(e[1], self.vec(it, env), e[3], env, s, k)
        # if let Some(x) = ... { body }   (no else)
        if e[0] == 'iflet' and e[4] is None and e[1][0] == 'pts' and e[1][1] == ['Some'] and len(e[1][2]) == 1 and e[1][2][0][0] == 'pident':
            x = e[1][2][0][1]
            scrut, blk = e[2], e[3]
            if self_index(scrut, 'parents') is not None:                           # self.parents[k] : Option<NodeId>
                o = self.tmp('o')
                env2 = dict(env)
                env2[x] = ('v_' + x, 'key')
                body = self.nested(blk, env2, s)
                s2 = self.new_state()
                return '%s <- sm_index (t_parents %s) %s ;;\n%s <- match %s with\n  | Some v_%s =>\n%s\n  | None => Ok %s\n  end ;;\n%s' % (
                    o, s, self.key(self_index(scrut, 'parents'), env), s2, o, x, indent(body, 6), s, k(env, s2))
            if scrut[0] == 'mcall' and self_field(scrut[1], 'children') and scrut[2] == 'get_mut' and len(scrut[3]) == 1:
                # { x.retain(|f| *f != n); }
                b = blk[1]
                if blk[2] is None and len(b) == 1 and b[0][0] == 'expr' and b[0][1][0] == 'mcall' and b[0][1][1] == ('path', [x]) \
                        and b[0][1][2] == 'retain' and len(b[0][1][3]) == 1 and b[0][1][3][0][0] == 'closure':
                    cl = b[0][1][3][0]
                    if len(cl[1]) == 1 and cl[1][0][0] == 'pident' and cl[2][0] == 'bin' and cl[2][1] == '!=' \
                            and cl[2][2] == ('un', '*', ('path', [cl[1][0][1]])):
                        s2 = self.new_state()
                        return '%s <- st_get_mut_retain_ne %s %s %s ;;\n%s' % (s2, s, self.key(scrut[3][0], env), self.key(cl[2][3], env), k(env, s2))
                self.refuse('get_mut body', blk)
            if scrut[0] == 'mcall' and self_field(scrut[1], 'children') and scrut[2] == 'get' and len(scrut[3]) == 1:
                env2 = dict(env)
                env2[x] = ('v_' + x, 'vec')
                body = self.nested(blk, env2, s)
                s2 = self.new_state()
                return '%s <- match sm_get (t_children %s) %s with\n  | Some v_%s =>\n%s\n  | None => Ok %s\n  end ;;\n%s' % (
                    s2, s, self.key(scrut[3][0], env), x, indent(body, 6), s, k(env, s2))
            self.refuse('if-let scrutinee', scrut)
        self.refuse('statement', st)

    def let(self, pat, e, env, s, k):
        if pat == ('pwild',):
            # let _ = self.<map>.remove(key) / self.<map>.insert(v)
            if e[0] == 'mcall' and self_field(e[1]) in ('children', 'parents', 'nodes') and len(e[3]) == 1:
                f = self_field(e[1])
                s2 = self.new_state()
                if e[2] == 'remove':
                    return 'let %s := st_remove_%s %s %s in\n%s' % (s2, f, s, self.key(e[3][0], env), k(env, s2))
                if e[2] == 'insert' and f == 'children':
                    return 'let %s := st_insert_children %s %s in\n%s' % (s2, s, self.vec(e[3][0], env), k(env, s2))
                if e[2] == 'insert' and f == 'parents':
                    return 'let %s := st_insert_parents %s %s in\n%s' % (s2, s, self.optkey(e[3][0], env), k(env, s2))
            self.refuse('let _', e)
        if pat[0] != 'pident':
            self.refuse('let pattern', pat)
        x = pat[1]
        v = 'v_' + x
        env2 = dict(env)
        # let x = self.children[k].len()   (or through a `&mut self.children[k]` alias)
        if e[0] == 'mcall' and e[2] == 'len' and e[3] == [] and (self_index(e[1], 'children') is not None or self.var(e[1], env, 'place')):
            l = self.tmp('l')
            env2[x] = (v, 'N')
            return '%s <- sm_index (t_children %s) %s ;;\nlet %s := N.of_nat (length %s) in\n%s' % (
                l, s, self.children_place(e[1], env), v, l, k(env2, s))
        # let x = self.children[k].remove(i)
        if e[0] == 'mcall' and e[2] == 'remove' and len(e[3]) == 1 and self_index(e[1], 'children') is not None:
            r, s2 = self.tmp('r'), self.new_state()
            env2[x] = (v, 'key')
            return '%s <- st_vec_remove %s %s %s ;;\nlet %s := fst %s in\nlet %s := snd %s in\n%s' % (
                r, s, self.key(self_index(e[1], 'children'), env), self.usize(e[3][0], env), s2, r, v, r, k(env2, s2))
        # let x = core::mem::replace(&mut self.children[k][i], c)
        if e[0] == 'call' and e[1] == ('path', ['core', 'mem', 'replace']) and len(e[2]) == 2 and e[2][0][0] == 'un' and e[2][0][1] == '&' \
                and e[2][0][2][0] == 'index' and self_index(e[2][0][2][1], 'children') is not None:
            r, s2 = self.tmp('r'), self.new_state()
            env2[x] = (v, 'key')
            return '%s <- st_vec_replace %s %s %s %s ;;\nlet %s := fst %s in\nlet %s := snd %s in\n%s' % (
                r, s, self.key(self_index(e[2][0][2][1], 'children'), env), self.usize(e[2][0][2][2], env), self.key(e[2][1], env),
                s2, r, v, r, k(env2, s2))
        # let x = self.children[k].iter().position(|n| *n == c).unwrap()
        if e[0] == 'mcall' and e[2] == 'unwrap' and e[3] == [] and e[1][0] == 'mcall' and e[1][2] == 'position' and len(e[1][3]) == 1 \
                and e[1][1][0] == 'mcall' and e[1][1][2] == 'iter' and e[1][1][3] == [] and self_index(e[1][1][1], 'children') is not None:
            cl = e[1][3][0]
            if cl[0] == 'closure' and len(cl[1]) == 1 and cl[1][0][0] == 'pident' and cl[2][0] == 'bin' and cl[2][1] == '==' \
                    and cl[2][2] == ('un', '*', ('path', [cl[1][0][1]])):
                l = self.tmp('l')
                env2[x] = (v, 'N')
                return '%s <- sm_index (t_children %s) %s ;;\n%s <- of_opt (position_N %s %s) ;;\n%s' % (
                    l, s, self.key(self_index(e[1][1][1], 'children'), env), v, self.key(cl[2][3], env), l, k(env2, s))
            self.refuse('position closure', cl)
        # let x = &mut self.children[k]     (alias of the place; IndexMut panics on a dead key)
        if e[0] == 'un' and e[1] == '&' and self_index(e[2], 'children') is not None:
            kk = self.key(self_index(e[2], 'children'), env)
            env2[x] = (kk, 'place')
            return '_ <- sm_index (t_children %s) %s ;;\n%s' % (s, kk, k(env2, s))
        # let x = self.nodes.insert(NodeData::new(style))   (possibly wrapped in NodeId::from)
        ins = e
        if ins[0] == 'call' and ins[1] == ('path', ['NodeId', 'from']) and len(ins[2]) == 1:
            ins = ins[2][0]
        if ins[0] == 'mcall' and self_field(ins[1], 'nodes') and ins[2] == 'insert' and len(ins[3]) == 1:
            a = ins[3][0]
            if a[0] == 'call' and a[1] == ('path', ['NodeData', 'new']) and len(a[2]) == 1 and self.var(a[2][0], env, 'style') is not None:
                r, s2 = self.tmp('r'), self.new_state()
                env2[x] = (v, 'key')
                return 'let %s := st_insert_nodes %s false in\nlet %s := fst %s in\nlet %s := snd %s in\n%s' % (r, s, s2, r, v, r, k(env2, s2))
            self.refuse('nodes.insert argument', a)
        # let x = y.into()
        env2[x] = (v, 'key')
        return 'let %s := %s in\n%s' % (v, self.key(e, env), k(env2, s))


def indent(text, n=2):
    return '\n'.join(' ' * n + l for l in text.split('\n'))


def translate_method(name, kind, want_ret, toks, start, done):
    selfk, ps, ret = fn_signature(toks, name, start)
    if (selfk == '& mut self') != (kind == 'mut'):
        raise Refuse('%s: receiver %r' % (name, selfk))
    if ret != want_ret:
        raise Refuse('%s: return type %r (expected %r)' % (name, ret, want_ret))
    _, fb, _ = find_fn(toks, name, start)
    blk = parse_block(fb)
    if blk[0] != 'block' or blk[3] != []:
        raise Refuse('%s: body' % name)
    env, binders = {}, []
    for p, ty in ps:
        if ty not in PARAM_TYPES:
            raise Refuse('%s: parameter type %r' % (name, ty))
        t, ct = PARAM_TYPES[ty]
        env[p] = ('v_' + p, t)
        if t == 'range':
            binders.append('(v_%s_lo v_%s_hi : N)' % (p, p))
        elif ct is not None:
            binders.append('(v_%s : %s)' % (p, ct))
    b = Body(name, kind, done)
    text = b.seq(blk[1], blk[2], env, 't0', None, True)
    return 'Definition gen_%s (t0 : tree) %s: %s :=\n%s.' % (name, ''.join(x + ' ' for x in binders), RESULT_TYPE[kind], indent(text))


def generate_bodies(repo):
    src = open(repo + '/' + SRC).read()
    toks = tokenize(src)
    idxs = [i for i in range(len(toks)) if seq_at(toks, i, ['impl', '<', 'NodeContext', '>', 'TaffyTree', '<', 'NodeContext', '>', '{'])]
    ti = [i for i in range(len(toks)) if seq_at(toks, i, ['TraversePartialTree', 'for', 'TaffyTree', '<', 'NodeContext', '>'])]
    if len(idxs) != 1 or len(ti) != 1:
        raise Refuse('impl blocks of TaffyTree not found')
    b = idxs[0] + 8
    inherent = toks[b:match_brace(toks, b) + 1]
    out = ['(* GENERATED on every run by /verif/translator/gen_tree.py from %s -- do not edit. *)' % SRC,
           '(* The bodies of the structural methods of TaffyTree in the target language of Model/TreeImp.v;',
           '   proved equal to the hand-written Model/Tree.v in Proofs/TreeBodiesProofs.v. *)',
           'From Coq Require Import NArith List Bool Arith.', 'From TV Require Import Model.Tree Model.TreeImp.',
           'Import ListNotations.', '']
    done = []
    for name, kind, ret in BODIES:
        if name == 'child_count':
            out.append(translate_method(name, kind, ret, toks, ti[0], done))
        else:
            out.append(translate_method(name, kind, ret, inherent, 0, done))
        out.append('')
        done.append(name)
    return '\n'.join(out), {}


TARGETS = {'TreeMethodsGen.v': generate, 'TreeBodiesGen.v': generate_bodies}
