#!/usr/bin/env python3
"""seed_store.py <PID> <newid>: after confirm_seed.sh and the check run, store under /verif/seeded/<newid>/"""
import json, os, re, shutil, sys
pid, newid = sys.argv[1], sys.argv[2]
O = '/tmp/seed/%s/_out' % pid; L = '/root/w/seedlog-%s' % pid
D = '/verif/seeded/%s' % newid
os.makedirs(D, exist_ok=True)
shutil.copy(O + '/patch.diff', D + '/patch.diff'); shutil.copy(O + '/demo.rs', D + '/demo.rs')
orig = json.load(open(O + '/meta.json'))
res = open(L + '/result.txt').read().strip()
chk = open(L + '/check.log').read()
vl = [re.sub(r'replay=\S*/replay/', 'replay=<evidence>/replay/', l) for l in chk.splitlines() if l.startswith('VIOLATION')]
m = re.search(r'suite=\[(\d+) (\d+)\]', res)
rc = int(open(L + '/check.rc').read().strip())
meta = {
 'property': pid, 'round': 11,
 'seeded_by': 'fresh sub-agent given only the property text and a scratch worktree of /repo; asked for a change that needs something specific to manifest (multi-step sequence, unusual legal input, cooperating sites) and differs from the earlier seeded ideas',
 'summary': orig.get('summary'), 'needs_to_manifest': orig.get('needs_to_manifest'),
 'confirmed_by_me': {
  'what_i_ran': 'git apply patch in a scratch worktree of /repo; cargo test --workspace --no-fail-fast --offline; cp demo.rs tests/seed_demo.rs && cargo test --offline --test seed_demo (with and without the patch); VERIF_REPO=<worktree> ./check %s --tier quick' % pid,
  'result_line': res, 'suite_with_patch': '%s passed, %s failed' % (m.group(1), m.group(2)),
  'demo_with_patch': 'fails' if 'demo_with_rc=101' in res else 'PASSES?', 'demo_without_patch': 'passes' if 'demo_without_rc=0' in res else 'FAILS?'},
 'check_result': {'check': './check %s' % pid, 'exit': rc, 'violation_lines': vl, 'detected': bool(vl),
                  'concrete_replay': any('no-failing-input-found' not in l for l in vl)},
 'original_meta': orig}
if len(sys.argv) > 3: meta['check_result']['after_strengthening'] = sys.argv[3]
json.dump(meta, open(D + '/meta.json', 'w'), indent=1)
print(newid, res, 'check_rc', rc, 'violations', len(vl), 'concrete', meta['check_result']['concrete_replay'])
