(* A small concrete instance of the REAL-cache engine (Model/EngineReal.v `memo_real`) for the non-vacuity examples and the model
   witness of the lossy-cache-key finding at the engine level.  Definitions only.
   Styles / inputs / outputs as in Model/EngineToy.v (node id + display:none; run mode + a number; a number), but
     * the algorithm's result DEPENDS on the input number (own id + input number + the children's results), and
     * the cache key forgets the lowest bit of the input number: `available_space.width = Definite (n / 2)`, nothing known --
       inputs 2k and 2k+1 are different complete inputs with the same (known_dimensions, available_space), exactly like two
       LayoutInputs differing in parent_size / sizing_mode only. *)
From Coq Require Import List Bool Arith NArith ZArith QArith.
From TV Require Import Num.Num Num.QNum Model.Cache Model.Engine Model.EngineToy Model.EngineReal.
Import ListNotations.

Definition tr_algo (s : TS) (st : list TS) (i : TIn) : Alg TIn TOut TLay := qall st 0 i (fst s + snd i)%N.
Definition tr_mcalls (s : TS) (st : list TS) (i : TIn) : N := match st with [] => 1%N | _ => 0%N end.

Definition xq_of_N (n : N) : XQ := Fin (inject_Z (Z.of_N n)).
Definition tr_key (i : TIn) : Cache.key XQ :=
  {| kd_w := None; kd_h := None; av_w := Cache.Definite (xq_of_N (N.div2 (snd i))); av_h := Cache.MaxContent |}.
Definition tr_osize (o : TOut) : Cache.size XQ := {| width := xq_of_N o; height := xq_of_N 0 |}.
Definition tr_from_outer (s : Cache.size XQ) : TOut :=
  match width s with Fin q => Z.to_N (Qnum q / Zpos (Qden q)) | _ => 0%N end.
Definition tr_is_outer (o : TOut) : bool := true.

Notation trtree := (rtree TS TIn TOut TLay).
Definition tr_memo : nat -> trtree -> TIn -> option (TOut * trtree) :=
  memo_real TS TIn TOut TLay t_mode t_is_none 0%N 0%N tr_algo tr_mcalls tr_key tr_osize tr_from_outer t_in_eqb tr_is_outer.
Definition tr_fresh : sk TS -> trtree := fresh_real TS TIn TOut TLay 0%N.
(* the exact-key memo of Model/Engine.v for the same algorithm *)
Definition tx_memo := memo TS TIn TOut TLay t_mode t_in_eqb t_is_none 0%N 0%N tr_algo.

Definition tr_k : sk TS :=
  SNode TS (0%N, false)
    [SNode TS (1%N, false) [SNode TS (2%N, false) []; SNode TS (3%N, true) [SNode TS (4%N, false) []]]; SNode TS (5%N, false) []].

Definition tr_lossy (t : trtree) : N := sum_stats TS TLay (rcache TIn TOut) n_lossy t.

(* layout passes with the given root inputs, one after the other, on the fresh tree: the outputs and lossy-hit totals *)
Fixpoint tr_passes (t : trtree) (is : list TIn) : list (option (TOut * N)) :=
  match is with
  | [] => []
  | i :: r => match tr_memo 8 t i with
              | Some (o, t') => Some (o, tr_lossy t') :: tr_passes t' r
              | None => [None]
              end
  end.
Definition tx_fresh_out (i : TIn) : option TOut := option_map fst (tx_memo 8 (fresh TS TIn TOut TLay 0%N tr_k) i).
