"""C08 -- grid placement honours explicit lines, areas are in range, auto-placed items never overlap.
T (Gen/PlacementGen.v) + proofs (Props/C08.v) + whole-API K (vh c08 cases, release + debug, vs Model/PlacementRun.v) +
search (vh c08 oracle: the three clauses directly on detailed_layout_info, in a sandboxed subprocess)."""
from ..common import *
from ..stages import *
from . import _placement as P

THEOREMS = [
    'C08_every_child_placed : in_domain ec er children -> grid_placement_run ec er flow children = Ok o -> '
    'map p_index (o_items o) = map fst (in_flow_children children)',
    'C08_area_in_range : in_domain -> grid_placement_run ec er flow children = Ok o -> forall p in o_items o, '
    '1 <= p_row_start p < p_row_end p <= tlen (o_rows o) + 1 /\\ 1 <= p_col_start p < p_col_end p <= tlen (o_cols o) + 1',
    'C08_explicit_honoured : ... nth_error children (p_index p) = Some (k, c) -> expected (c_row c) er = Some (a, b) -> '
    'p_row_start p = a + tc_neg (o_rows o) + 1 /\\ p_row_end p = b + tc_neg (o_rows o) + 1 (same for columns)',
    'C08_auto_no_overlap : ... is_definite (c_row c) && is_definite (c_col c) = false -> p_index p <> p_index q -> ~ overlap p q',
    'C08_placement_succeeds_with_all_clauses : in_domain ec er children -> exists o, grid_placement_run ec er flow children = Ok o /\\ (all clauses)',
    'C08_area_in_range_refuted_for_span_zero : exists o p, grid_placement_run 3 1 FRow span_zero_children = Ok o /\\ In p (o_items o) /\\ '
    'p_col_start p = 1 /\\ p_col_end p = 1   (span 0 is outside in_domain; the witness is replayed on the implementation on every run)',
]

# the witness of C08_area_in_range_refuted_for_span_zero (Props/C08.v): 3 x 1 grid, row flow, child 0 `grid_column: span 0`, child 1 auto
SPAN_ZERO_WITNESS = [3, 1, 0, 2, 0, 0, 0, 0, 0, 2, 0, 0, 0, 0, 0, 0, 0, 0, 0, 0, 0, 0]


def replay_span_zero_witness(rep, binp):
    """The `_refuted` witness on the implementation: the model's result must be the implementation's (K on exactly this input) and the
    implementation must show the empty column area the theorem exhibits.  `span 0` is outside the domain of the positive theorems (and
    of the generators), so this is the recorded known finding `span-zero-empty-area` (KNOWN-FINDING line); if the implementation stops producing the empty
    area the theorem's comment is stale and the entry says so."""
    try:
        r, msg = P.run_one(binp, SPAN_ZERO_WITNESS)
        model = P.model_eval('C08w', [SPAN_ZERO_WITNESS])[0]
    except RuntimeError as ex:
        rep.add_broken('correspondence', 'span-0 witness replay', str(ex)[-800:])
        return
    ent = {'case': SPAN_ZERO_WITNESS, 'described': P.describe(SPAN_ZERO_WITNESS), 'impl': r, 'model': model, 'oracle_says': msg,
           'reproduces_on_implementation': bool(msg and 'not a non-empty range' in msg)}
    rep.cov['span_zero_witness'] = ent
    if r != model:
        rep.add_broken('correspondence', 'span-0 witness of C08_area_in_range_refuted_for_span_zero: model vs implementation',
                       {'case': SPAN_ZERO_WITNESS, 'impl': r, 'model': model})
    elif ent['reproduces_on_implementation']:
        kf = [k for k in known_findings('C08') if k.get('id') == 'span-zero-empty-area' and k.get('status') == 'known']
        if kf:
            rep.known.append(kf[0]['line'].replace('known: property=C08 ', '') + '  [witness replayed: %s]' % (msg or '')[:160])
        else:
            rep.add_violation('a `span 0` item receives an empty grid area: %s' % msg, {'case': SPAN_ZERO_WITNESS, 'cmd': 'vh c08 one ' + ' '.join(map(str, SPAN_ZERO_WITNESS))})
    else:
        log('[C08] the span-0 witness no longer gives an empty area on the implementation: C08_area_in_range_refuted_for_span_zero is stale')


def run(rep, tier, seed, replay=None):
    res, changed = proof_stage(rep, 'C08', extra_trusted=[
        'modelled by hand (tied by K + fingerprints): placement.rs loops, CellOccupancyMatrix, compute_grid_size_estimate, the child filter of grid/mod.rs',
        'grid::Grid (crate grid 0.16) get/get_mut/iter_row/iter_col/new/from_vec semantics as transcribed in Model/Placement.v',
        'track sizing / alignment after placement do not alter DetailedGridInfo.items (observed through the public API)'])
    binp, bad, deaths = P.correspondence(rep, 'C08', tier, seed, changed, replay)
    if binp is None:
        return
    for t in THEOREMS:
        rep.cov['samples'].append({'theorem': t})
    if not replay:
        replay_span_zero_witness(rep, binp)
    # ---- search: the three clauses directly on the implementation
    big = bool(rep.broken) or tier == 'thorough'
    n = 400000 if big else 60000
    fails = []
    try:
        if replay and 'case' in replay:
            r, msg = P.run_one(binp, replay['case'])
            rep.cov['oracle_evaluations'] = 1
            if msg:
                fails.append({'idx': 0, 'case': replay['case'], 'msg': msg})
        else:
            done, fails = P.run_oracle(binp, seed, n)
            rep.cov['oracle_evaluations'] = done
    except RuntimeError as ex:
        rep.add_broken('search', 'vh c08 oracle', str(ex)[-800:])
    for f in fails[:4]:
        rep.add_violation('%s -- %s' % (f['msg'], P.describe(f['case'])),
                          {'case': f['case'], 'cmd': 'vh c08 one %s' % ' '.join(str(x) for x in f['case'])})
    if not fails:
        # a disagreement between model and implementation on a concrete input: decide on the implementation alone
        for c, a, b in bad[:3]:
            r, msg = P.run_one(binp, c)
            if msg:
                rep.add_violation('%s -- %s' % (msg, P.describe(c)), {'case': c, 'impl': a, 'model': b,
                                                                      'cmd': 'vh c08 one %s' % ' '.join(str(x) for x in c)})
