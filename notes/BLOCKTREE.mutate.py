#!/usr/bin/env python3
"""Mutation experiments for the whole-tree block engine correspondence (notes/BLOCKTREE.md).  Never touches /repo: every mutant is
applied to a scratch worktree /tmp/w5b-mut-repo which is removed afterwards; `VERIF_REPO=<scratch> ./check C10` is run and the part
of the check that reported is printed (K4 = `vh blocktree cases` vs Model/BlockEngineRun.v).
usage: python3 notes/BLOCKTREE.mutate.py [name ...]"""
import json
import os
import subprocess
import sys
import time

ROOT = os.path.dirname(os.path.dirname(os.path.abspath(__file__)))
WT = '/tmp/w5b-mut-repo'

MUT = {
    # ---- must be reported (each changes layouts of trees in the generated class)
    'M1_abs_query_available_space_unclamped': ('src/compute/block.rs', [(
        "width: AvailableSpace::Definite(area_width.maybe_clamp(min_size.width, max_size.width)),",
        "width: AvailableSpace::Definite(area_width),")]),
    'M2_abs_query_parent_size_none': ('src/compute/block.rs', [(
        "            known_dimensions,\n            area_size.map(Some),\n",
        "            known_dimensions,\n            Size::NONE,\n")]),
    'M3_root_stretch_fit_subtracts_left_margin_only': ('src/compute/mod.rs', [(
        "width: available_space.width.into_option().maybe_sub(margin.horizontal_axis_sum()),",
        "width: available_space.width.into_option().maybe_sub(margin.left),")]),
    'M5_abs_stored_padding_from_item': ('src/compute/block.rs', [(
        "                location,\n                padding,\n                border,\n                margin: resolved_margin,",
        "                location,\n                padding: item.padding,\n                border: item.border,\n                margin: resolved_margin,")]),
    'M6_hidden_child_order_zero': ('src/compute/block.rs', [(
        "tree.set_unrounded_layout(child, &Layout::with_order(order as u32));",
        "tree.set_unrounded_layout(child, &Layout::with_order(0));")]),
    'M7_abs_pass_skipped_for_zero_area': ('src/compute/block.rs', [(
        "    for item in items.iter().filter(|item| item.position == Position::Absolute) {\n        let child_style = tree.get_block_child_style(item.node_id);",
        "    for item in items.iter().filter(|item| item.position == Position::Absolute && area_width > 0.0) {\n        let child_style = tree.get_block_child_style(item.node_id);")]),
    # ---- must stay silent
    # semantically equal: when max <= min the clamped style size IS min (min wins in maybe_clamp), otherwise min_max_definite is None
    'H3_block_known_dimensions_or_order': ('src/compute/block.rs', [(
        "known_dimensions.or(min_max_definite_size).or(clamped_style_size).maybe_max(padding_border_size);",
        "known_dimensions.or(clamped_style_size).or(min_max_definite_size).maybe_max(padding_border_size);")]),
    'H1_measuring_query_not_collapsible': ('src/compute/block.rs', [(
        "                available_space.map_width(|w| w.maybe_sub(item_x_margin_sum)),\n                SizingMode::InherentSize,\n                Line::TRUE,",
        "                available_space.map_width(|w| w.maybe_sub(item_x_margin_sum)),\n                SizingMode::InherentSize,\n                Line::FALSE,")]),
    'H2_abs_lets_reordered': ('src/compute/block.rs', [(
        "        let padding = child_style.padding().resolve_or_zero(Some(area_width), |val, basis| tree.calc(val, basis));\n"
        "        let border = child_style.border().resolve_or_zero(Some(area_width), |val, basis| tree.calc(val, basis));\n",
        "        let border = child_style.border().resolve_or_zero(Some(area_width), |val, basis| tree.calc(val, basis));\n"
        "        let padding = child_style.padding().resolve_or_zero(Some(area_width), |val, basis| tree.calc(val, basis));\n")]),
}


def sh(cmd, **kw):
    return subprocess.run(cmd, shell=True, stdout=subprocess.PIPE, stderr=subprocess.STDOUT, text=True, **kw)


def main():
    names = sys.argv[1:] or list(MUT)
    for name in names:
        rel, edits = MUT[name]
        sh('git -C /repo worktree remove --force %s' % WT)
        r = sh('git -C /repo worktree add --detach %s HEAD' % WT)
        if r.returncode != 0:
            print(r.stdout)
            sys.exit(1)
        try:
            p = os.path.join(WT, rel)
            s = open(p).read()
            for old, new in edits:
                assert s.count(old) == 1, (name, 'pattern not unique / not found', s.count(old))
                s = s.replace(old, new)
            open(p, 'w').write(s)
            t0 = time.time()
            env = dict(os.environ, VERIF_REPO=WT)
            r = sh('timeout 1500 ./check C10', cwd=ROOT, env=env)
            lines = [l for l in r.stdout.split('\n') if l.startswith('VIOLATION')]
            ev = json.load(open(os.path.join(ROOT, '.work', 'evidence-alt', 'C10.json')))
            cov = ev['coverage']
            bt = cov.get('blocktree', {})
            kinds = sorted(set('%s:%s' % (b['kind'], b['name'][:40]) for b in cov.get('broken', [])))
            print('== %s: exit %d, %.0fs, %d VIOLATION; K4 trees %s disagreements %s first %s' % (
                name, r.returncode, time.time() - t0, len(lines), bt.get('trees'), bt.get('disagreements'),
                (bt.get('first_disagreements') or [''])[0]))
            print('    broken: %s' % kinds)
            for l in lines[:3]:
                print('    %s' % l[:200])
        finally:
            sh('git -C /repo worktree remove --force %s' % WT)


if __name__ == '__main__':
    main()
