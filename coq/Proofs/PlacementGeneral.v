(* The placement theorems for a PARAMETER B (glue over Proofs/PlacementB.v): statements in terms of the model, of
   Model/PlacementDomainB.v (in_domain_B, bound_ok, clause_bound_ok) and of the SAME auxiliary notions as the pinned B = 64
   theorems (expected: Proofs/PlacementTables.v; tlen: Proofs/PlacementMatrix.v; overlap: Proofs/PlacementProofs.v). *)
From Coq Require Import ZArith Bool List Lia.
From TV Require Import Model.PlacementBase Gen.PlacementGen Model.Placement Model.PlacementDomainB
  Proofs.PlacementTables Proofs.PlacementMatrix Proofs.PlacementProofs Proofs.PlacementTotal.
From TV Require Proofs.PlacementB.
Import ListNotations.
Open Scope Z_scope.
Module PB := TV.Proofs.PlacementB.

Lemma bound_ok_clause : forall B n, bound_ok B n -> clause_bound_ok B.
Proof.
  intros B n [H1 H2]. split; [exact H1|].
  assert (0 <= B * Z.of_nat n) by (apply Z.mul_nonneg_nonneg; lia). lia.
Qed.

Lemma in_domain_B_PB : forall B ec er children, in_domain_B B ec er children ->
  PB.in_domain_b B (Z.of_nat (length children)) ec er children.
Proof. intros B ec er children (H1 & H2 & H3). unfold PB.in_domain_b. repeat split; try tauto; lia. Qed.

(* the pinned domain is the instance B = 64 with at most 64 children *)
Lemma in_domain_is_instance : forall ec er children, in_domain ec er children <->
  (in_domain_B 64 ec er children /\ (length children <= 64)%nat).
Proof. intros. unfold in_domain, in_domain_B. change (child_okB 64) with child_ok. tauto. Qed.

Lemma bound_ok_64_64 : forall n, (n <= 64)%nat -> bound_ok 64 n.
Proof. intros n H. unfold bound_ok. lia. Qed.

(* ---------------------------------------------------------------- totality *)
Theorem placement_total_general : forall B ec er fl children,
  bound_ok B (length children) -> in_domain_B B ec er children ->
  exists o, grid_placement_run ec er fl children = Ok o.
Proof.
  intros B ec er fl children Hb Hd. pose proof Hb as [H1 H2].
  assert (0 <= B * Z.of_nat (length children)) by (apply Z.mul_nonneg_nonneg; lia).
  apply (PB.placement_total B (Z.of_nat (length children)) (6 * B + 2 * B * Z.of_nat (length children))); try lia.
  apply in_domain_B_PB; exact Hd.
Qed.

(* the pinned theorem re-derived from the general one *)
Theorem placement_total_from_general : forall ec er fl children, in_domain ec er children ->
  exists o, grid_placement_run ec er fl children = Ok o.
Proof.
  intros ec er fl children Hd. apply in_domain_is_instance in Hd. destruct Hd as [Hd Hn].
  apply (placement_total_general 64); [apply bound_ok_64_64; exact Hn|exact Hd].
Qed.

Theorem estimate_covers_general : forall B ec er children, clause_bound_ok B ->
  0 <= ec <= B -> 0 <= er <= B -> Forall (child_okB B) children ->
  exists cc rc, compute_grid_size_estimate ec er children = Ok (cc, rc) /\
    tc_nonneg cc /\ tc_neg cc <= 2 * B - 1 /\ tc_explicit cc = ec /\ tlen cc <= 6 * B /\
    tc_nonneg rc /\ tc_neg rc <= 2 * B - 1 /\ tc_explicit rc = er /\ tlen rc <= 6 * B /\
    Forall (fun c => axis_fits (c_col c) ec cc /\ axis_fits (c_row c) er rc) children.
Proof. intros B ec er children [H1 H2]. apply (PB.estimate_covers B (6 * B)); lia. Qed.

(* ---------------------------------------------------------------- the C08 clauses: any number of children *)
Section Clauses.
  Variables (B ec er : Z) (fl : flow) (children : list (child_kind * child)) (o : outcome).
  Hypothesis Hb : clause_bound_ok B.
  Hypothesis Hd : in_domain_B B ec er children.
  Hypothesis Hrun : grid_placement_run ec er fl children = Ok o.

  Let HB : 2 <= B := proj1 Hb.
  Let HP : 6 * B <= 6 * B := Z.le_refl _.
  Let HL : 6 * B + 10 * B <= 32767. Proof. destruct Hb. lia. Qed.
  Let HD := in_domain_B_PB B ec er children Hd.

  Theorem every_child_placed_general : map p_index (o_items o) = map fst (in_flow_children children).
  Proof. exact (PB.every_child_placed B _ (6 * B) HB HP HL ec er fl children o HD Hrun). Qed.

  Theorem area_in_range_general : forall p, In p (o_items o) ->
    1 <= p_row_start p /\ p_row_start p < p_row_end p /\ p_row_end p <= tlen (o_rows o) + 1 /\
    1 <= p_col_start p /\ p_col_start p < p_col_end p /\ p_col_end p <= tlen (o_cols o) + 1.
  Proof. exact (PB.area_in_range B _ (6 * B) HB HP HL ec er fl children o HD Hrun). Qed.

  Theorem explicit_honoured_general : forall p k c, In p (o_items o) ->
    nth_error children (Z.to_nat (p_index p)) = Some (k, c) ->
    (forall a b, expected (c_row c) er = Some (a, b) ->
       p_row_start p = a + tc_neg (o_rows o) + 1 /\ p_row_end p = b + tc_neg (o_rows o) + 1) /\
    (forall a b, expected (c_col c) ec = Some (a, b) ->
       p_col_start p = a + tc_neg (o_cols o) + 1 /\ p_col_end p = b + tc_neg (o_cols o) + 1).
  Proof. exact (PB.explicit_honoured B _ (6 * B) HB HP HL ec er fl children o HD Hrun). Qed.

  Theorem auto_no_overlap_general : forall p q k c, In p (o_items o) -> In q (o_items o) -> p_index p <> p_index q ->
    nth_error children (Z.to_nat (p_index p)) = Some (k, c) ->
    is_definite (c_row c) && is_definite (c_col c) = false ->
    ~ overlap p q.
  Proof. exact (PB.auto_no_overlap B _ (6 * B) HB HP HL ec er fl children o HD Hrun). Qed.
End Clauses.
