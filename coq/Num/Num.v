(* The number structure every numeric model is generic over.  Two instances:
   Num/QNum.v  (exact rationals extended with +-infinity and NaN: proofs)
   Num/F32.v   (Flocq binary32, bit-exact: correspondence with the Rust code). *)
From Coq Require Import ZArith QArith Bool List.

Class Num (T : Type) := {
  zero : T;
  one : T;
  add : T -> T -> T;
  sub : T -> T -> T;
  mul : T -> T -> T;
  div : T -> T -> T;
  neg : T -> T;
  eqb : T -> T -> bool;     (* IEEE ==  : NaN unequal to everything, +0 == -0 *)
  ltb : T -> T -> bool;     (* IEEE <   : false when either side is NaN *)
  leb : T -> T -> bool;     (* IEEE <= *)
  fmax : T -> T -> T;       (* Rust f32::max: the other operand when one is NaN *)
  fmin : T -> T -> T;       (* Rust f32::min *)
  fabs : T -> T;
  fround : T -> T;          (* Rust f32::round: to nearest integer, ties away from zero *)
  ffloor : T -> T;
  fceil : T -> T;
  infinity : T;
  of_Z : Z -> T;            (* `n as f32` for integer counts *)
  of_Q : Q -> T;            (* decimal literal (correctly rounded in F32) *)
  is_nan : T -> bool;
  is_normal : T -> bool;    (* Rust f32::is_normal: neither zero, subnormal, infinite nor NaN *)
}.

Declare Scope num_scope.
Delimit Scope num_scope with num.
Infix "+" := add : num_scope.
Infix "-" := sub : num_scope.
Infix "*" := mul : num_scope.
Infix "/" := div : num_scope.
Infix "<?" := ltb : num_scope.
Infix "<=?" := leb : num_scope.
Infix "=?" := eqb : num_scope.

Section Derived.
  Context {T : Type} `{Num T}.
  Definition gtb (a b : T) : bool := ltb b a.
  Definition geb (a b : T) : bool := leb b a.
  Definition neb (a b : T) : bool := negb (eqb a b).   (* Rust != *)
  Definition two : T := of_Z 2.
  Definition epsilon : T := of_Q (1 # 8388608).        (* f32::EPSILON = 2^-23 *)
  (* Iterator::sum::<f32>() folds from -0.0 in this toolchain *)
  Definition neg_zero : T := neg zero.
  Definition fsum (xs : list T) : T := fold_left add xs neg_zero.
  (* Option<f32> equality as derived PartialEq *)
  Definition opt_eqb (a b : option T) : bool :=
    match a, b with
    | None, None => true
    | Some x, Some y => eqb x y
    | _, _ => false
    end.
End Derived.
