"""C14 -- tree structure stays consistent under structural edits.
proofs (Props/C14.v: refinement of a forest spec by the slot-map model of TaffyTree, lifted to all histories)
+ K (vh c14 cases: random histories on the real TaffyTree vs Model/TreeRun.v, compared inside Coq, raw NodeIds included)
+ search (vh c14 oracle: the same histories against an independent Rust reference forest, with minimisation)."""
from ..common import *
from ..stages import *

OPS = ['new_leaf', 'new_leaf_with_context', 'new_with_children', 'add_child', 'insert_child_at_index', 'set_children',
       'remove_child', 'remove_child_at_index', 'remove_children_range', 'replace_child_at_index', 'remove', 'clear',
       'set_node_context', 'get_node_context', 'child_at_index', 'parent', 'child_count']
ATTACH = {2, 3, 4, 5, 9}
DETACH = {5, 6, 7, 8, 9, 10, 11}
FP_PREFIX = 'gen_tree:'


def split_ops(c):
    """C line -> [(code, flag, a, b, c, xs)]"""
    ops = []
    i = 1
    for _ in range(c[0]):
        code, flag, a, b, cc, k = c[i:i + 6]
        ops.append((code, flag, a, b, cc, c[i + 6:i + 6 + k]))
        i += 6 + k
    return ops


def nid(raw):
    return '%dv%d' % (raw & 0xffffffff, raw >> 32)


def show_op(o):
    code, flag, a, b, c, xs = o
    name = OPS[code] if code < len(OPS) else '?%d' % code
    if code in (0, 11):
        args = ''
    elif code == 1:
        args = 'ctx=%d' % a
    elif code == 2:
        args = '[%s]' % ','.join(nid(x) for x in xs)
    elif code in (3, 6):
        args = '%s, %s' % (nid(a), nid(b))
    elif code in (4, 9):
        args = '%s, %d, %s' % (nid(a), b, nid(c))
    elif code == 5:
        args = '%s, [%s]' % (nid(a), ','.join(nid(x) for x in xs))
    elif code in (7, 14):
        args = '%s, %d' % (nid(a), b)
    elif code == 8:
        args = '%s, %d..%d' % (nid(a), b, c)
    elif code == 12:
        args = '%s, %s' % (nid(a), 'None' if b == 0 else 'Some(%d)' % (b - 1))
    else:
        args = nid(a)
    return '%s(%s)%s' % (name, args, {0: '', 1: ' !pre', 2: ' ~'}[flag])


def nontrivial(ops, r):
    """>= 6 operations inside the precondition, among them an attach and a detach/removal"""
    inside = [o for o in ops if o[1] == 0]
    return (len(inside) >= 6 and any(o[0] in ATTACH for o in inside) and any(o[0] in DETACH for o in inside))


def model_check(rep, cases, impl, tag='C14'):
    """evaluate Model.TreeRun.check_case on every (C, R) pair; returns list of (index, verdict) with non-empty verdict"""
    packed = [[len(c)] + c + r for c, r in zip(cases, impl)]
    verdicts = run_model(tag, 'From TV Require Import Model.TreeRun.', 'check_case', packed, shards=16)
    return [(i, v) for i, v in enumerate(verdicts) if v]


def run(rep, tier, seed, replay=None):
    res, changed = proof_stage(rep, 'C14', extra_trusted=[
        'Model/Tree.v is a hand transcription of src/tree/taffy_tree.rs (structural methods) and of slotmap basic.rs / secondary.rs '
        '(LIFO free list, version bump, (idx, version) keys); 14 of its methods are proved equal (C14_translated_*_is_model) to the bodies '
        'translator/gen_tree.py translates from the source on every run (Gen/TreeBodiesGen.v, statement semantics Model/TreeImp.v); the slotmap '
        'semantics, new_leaf_with_context, set_node_context and clear are tied to the code only by the correspondence check',
        'NodeData reduced to has_context; mark_dirty reduced to its `nodes[key]` index (all caches are empty while no layout is computed)',
        'u32 version wrap-around is modelled (wrap32) but C14_slot_reuse / C14_ctx_inv_preserved assume it has not happened (premise no_wrap); '
        'not modelled: "SlotMap is full" panic (2^32 slots), allocation failure, the cache part of mark_dirty',
        'harness/src/c14.rs reference forest (used by the search only)'])
    changed = [k for k in changed if k.startswith(FP_PREFIX)]
    rep.assumptions = [
        'precondition of the property (Model.Tree.pre): keys live; a node is attached (add_child / insert_child_at_index / '
        'replace_child_at_index / new_with_children) only while detached; set_children gets distinct live children; remove_child names a child; '
        'remove_children_range gets a valid range',
        'no layout is computed between the edits (caches empty), so mark_dirty never walks up the parent chain',
        'slot versions do not wrap (2^31 remove/insert cycles of one slot) -- premise of the slot-reuse theorems only',
    ]
    rep.cov['fingerprints_changed'] = changed
    rc, out, binp, dt = build_harness('release')
    if rc != 0:
        rep.add_broken('build', 'harness', out[-1500:])
        return
    n = 480 if tier == 'quick' else 6000
    if changed and tier == 'quick':
        n = 2400
    # ---- K: correspondence
    if replay:
        if replay.get('ops'):
            rc, out = vh(binp, ['c14', 'replay'] + replay['ops'].split())
        else:
            rc, out = vh(binp, ['c14', 'one', replay['seed'], replay['index']])
    else:
        rc, out = vh(binp, ['c14', 'cases', seed, n], timeout=900)
    try:
        cases, impl = parse_cr(out)
    except RuntimeError as ex:
        cases, impl = [], []
        out += '\n' + str(ex)
    if rc != 0 or not cases:
        rep.add_broken('correspondence', 'vh c14 cases', 'harness failed: ' + out[-500:])
        return
    bad = []
    try:
        with Lock('coq'):
            rcm, outm, _ = coq_make(['Model/TreeRun.vo'])
        if rcm != 0:
            raise RuntimeError(outm[-1500:])
        bad = model_check(rep, cases, impl)
        rep.cov['evaluations'] = rep.cov.get('evaluations', 0) + len(cases)
        if bad:
            rep.cov['disagreements'] = len(bad)
            # the model's own output for the first few, in full
            full = run_model('C14f', 'From TV Require Import Model.TreeRun.', 'run_case', [cases[i] for i, _ in bad[:3]], shards=3)
            for (i, v), m in zip(bad[:3], full):
                ops = split_ops(cases[i])
                pos = v[0]
                rep.add_broken('correspondence', 'TaffyTree structural methods vs Model.Tree.step',
                               {'history_index': i, 'ops': [show_op(o) for o in ops], 'first_difference_at_R_position': pos,
                                'impl_R_window': impl[i][max(0, pos - 4):pos + 8], 'model_R_window': m[max(0, pos - 4):pos + 8],
                                'C': cases[i]})
    except RuntimeError as ex:
        rep.add_broken('correspondence', 'model evaluation', str(ex)[-1500:])
    # ---- coverage
    hist = {}
    flags = {'inside_precondition': 0, 'violates_precondition': 0, 'after_violation': 0}
    ends_in_panic = 0
    reuse = 0
    distinct = set()
    lens = []
    for c, r in zip(cases, impl):
        ops = split_ops(c)
        lens.append(len(ops))
        seen_idx = set()
        reused = False
        for o in ops:
            hist[OPS[o[0]]] = hist.get(OPS[o[0]], 0) + 1
            flags[['inside_precondition', 'violates_precondition', 'after_violation'][o[1]]] += 1
        # slot reuse: some creation returned an index used by an earlier, different key
        keys = set()
        for o in ops:
            for x in [o[2], o[4]] + list(o[5]):
                if x >= 2 ** 32 and x < 2 ** 63:
                    if (x & 0xffffffff) in seen_idx and x not in keys:
                        reused = True
                    keys.add(x)
                    seen_idx.add(x & 0xffffffff)
        reuse += reused
        if r[-4:] == [3, 0, 0, 0]:
            ends_in_panic += 1
        if nontrivial(ops, r):
            distinct.add(tuple(c))
    rep.cov['distinct_nontrivial'] = len(distinct)
    rep.cov['rule'] = ('history = 4..40 operations drawn by vh c14 (one PRNG stream per (seed, index); arguments chosen from an '
                       'independent reference forest: pool <= 10 live nodes, boundary / out-of-range / usize::MAX indices, empty lists, '
                       'remove-then-create slot reuse, set_children permutations / stealing / emptying, self-attachment, ~2% operations '
                       'that violate the precondition (flagged; judged by K only), rare expected panics). Non-trivial = at least 6 operations '
                       'inside the precondition including an attach and a detach/remove; distinct = distinct encoded histories (raw NodeIds included)')
    rep.cov['input_distribution'] = {'operations': hist, 'flags': flags, 'histories': len(cases), 'histories_with_slot_reuse': reuse,
                                     'histories_ending_in_panic': ends_in_panic,
                                     'ops_per_history': {'min': min(lens), 'max': max(lens), 'mean': round(sum(lens) / len(lens), 1)},
                                     'R_ints_compared': sum(len(r) for r in impl)}
    samples = []
    for c, r in list(zip(cases, impl))[:2] + list(zip(cases, impl))[-1:]:
        samples.append({'ops': [show_op(o) for o in split_ops(c)], 'C': c, 'impl_R_first_60': r[:60], 'impl_R_len': len(r)})
    samples.append({'theorem': 'C14_refines : forall t o, WF t -> pre (abs t) o -> exists t\' out, step t o = Ok (t\', out) /\\ WF t\' /\\ '
                               '~ In (next_key t) (live (abs t)) /\\ spec_equiv (abs t\') (fst (spec_step (abs t) o (next_key t))) /\\ '
                               'out = snd (spec_step (abs t) o (next_key t))'})
    samples.append({'theorem': 'C14_history_spec : forall os t, WF t -> spec_pre_run (abs t) os (run_keys t os) -> exists t\' outs, '
                               'run t os = Ok (t\', outs) /\\ WF t\' /\\ spec_equiv (abs t\') (fst (spec_run (abs t) os (run_keys t os))) /\\ '
                               'outs = snd (spec_run (abs t) os (run_keys t os))'})
    rep.cov['samples'] = samples
    # ---- search: the property stated directly on the implementation against the reference forest
    big = tier == 'thorough' or bool(rep.broken) or bool(changed)
    budget = 200000 if big else 20000
    if replay:
        fails, mins, summary = parse_oracle(out)
    else:
        rc, out = vh(binp, ['c14', 'oracle', seed, budget], timeout=900)
        fails, mins, summary = parse_oracle(out)
        if rc != 0 and not fails:
            rep.add_broken('search', 'vh c14 oracle', out[-500:])
        if not fails and bad:
            # judge the histories on which model and implementation disagree
            for i, _ in bad[:5]:
                rc, o1 = vh(binp, ['c14', 'one', seed, i])
                f1, m1, _ = parse_oracle(o1)
                fails += f1
                mins.update(m1)
    rep.cov['oracle'] = summary
    known = [k for k in known_findings('C14') if k.get('status') == 'known']
    reported = 0
    for idx, at, msg in fails:
        mn = mins.get(idx, ('', ''))
        kf = [k for k in known if k.get('match') and re.search(k['match'], msg + ' ' + mn[1])]
        if kf:
            line = kf[0].get('line', kf[0].get('id'))
            if line not in rep.known:
                rep.known.append(line)
            continue
        if reported >= 3:
            continue
        reported += 1
        what = 'history #%d (seed %d): operation %d: %s' % (idx, seed, at, msg)
        rp = {'seed': seed, 'index': idx, 'failing_op': at, 'message': msg, 'cmd': 'vh c14 one %d %d' % (seed, idx)}
        if mn[0]:
            rp['ops'] = mn[0]
            rp['minimised_message'] = mn[1]
            rp['cmd_minimised'] = 'vh c14 replay ' + mn[0]
        if replay:
            rp.update({k: v for k, v in replay.items() if k not in rp})
        rep.add_violation(what, rp)


def parse_oracle(out):
    fails, mins, summary = [], {}, {}
    for l in out.split('\n'):
        if l.startswith('FAIL '):
            f = l.split(' ', 3)
            fails.append((int(f[1]), int(f[2]), f[3] if len(f) > 3 else ''))
        elif l.startswith('MIN '):
            f = l[4:].split(' | ')
            mins[int(f[0])] = (f[1].strip(), f[2].strip() if len(f) > 2 else '')
        elif l.startswith('ORACLE '):
            w = l.split()
            summary = {w[i]: int(w[i + 1]) for i in range(1, len(w) - 1, 2)}
    return fails, mins, summary
