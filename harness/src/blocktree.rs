//! Whole-tree correspondence of the BLOCK ENGINE model (coq/Model/BlockEngine.v + BlockAbs.v + BlockRoot.v, runner
//! coq/Model/BlockEngineRun.v): random trees of display:block containers and leaves laid out through the public API
//! (`TaffyTree::compute_layout_with_measure`, rounding disabled) in exact-key mode (hook `set_exact_key`), every node's
//! unrounded layout printed as bit patterns.
//!
//! `vh blocktree cases <seed> <n> [start]`   per case: `C` = number of passes (1 or 2), the available space of each + the tree
//!                                 (pre-order; per node 54 style ints as `vh c10` encodes them, 3 ints of measure data, child
//!                                 count), `R` = after EVERY pass, 21 ints per node in pre-order
//!                                 (order, location, size, content_size, scrollbar_size, border, padding, margin),
//!                                 `L <d>` = number of Layout fields that differ when the same tree is laid out with the REAL cache
//!                                 key (the recorded lossy-cache-key finding; 0 = identical).  Last line: `SUMMARY ...`.
//! `vh blocktree case <seed> <idx>`           one case again, with the tree printed
//!
//! Generator (what the model covers): every node with children is display:block (or display:none); leaves are display
//! block / flex / grid / none; sizes, min/max sizes (lengths, percentages, auto), padding / border (lengths, percentages),
//! margins (lengths, percentages, negative, auto), insets on relative and absolute nodes, aspect ratio, both box-sizing values,
//! overflow + scrollbar width, text-align, item_is_table, position:absolute nodes, measure data None / Fixed / Text / Echo;
//! dyadic lengths for 3/4 of the cases, tenths for 1/4; available space definite / min-content / max-content per axis.
//! Excluded: flex and grid CONTAINERS (a flex / grid node with children), calc() values.
use crate::c10::{describe_tree, enc_style_core};
use crate::f32ops::canon;
use crate::rng::Rng;
use crate::treegen::{self, Ctx, GenCfg, NodeSpec};
use taffy::prelude::*;

pub fn bcase(seed: u64, idx: u64) -> (NodeSpec, Vec<Size<AvailableSpace>>) {
    let mut rng = Rng::new(seed.wrapping_mul(0x2545_F491).wrapping_add(idx).wrapping_add(0x0B10_C000));
    let mut cfg = GenCfg::default();
    cfg.displays = vec![Display::Block, Display::Block, Display::Block, Display::Flex, Display::Grid];
    cfg.max_nodes = 12;
    cfg.max_depth = 4;
    cfg.max_children = 4;
    cfg.fractional = idx % 4 == 3;
    cfg.p_absolute = if idx % 3 == 0 { 200 } else { 80 };
    cfg.p_hidden = if idx % 5 == 0 { 150 } else { 60 };
    cfg.grid_lines = false;
    cfg.grid_templates = false;
    cfg.gaps = false;
    cfg.wrap = false;
    let mut t = treegen::tree(&mut rng, &cfg);
    fn fix(rng: &mut Rng, cfg: &GenCfg, n: &mut NodeSpec, depth: usize) {
        if !n.children.is_empty() && n.style.display != Display::None {
            n.style.display = Display::Block;
        }
        // fields of the block algorithm treegen leaves at their defaults
        if rng.chance(1, 16) {
            n.style.item_is_table = true;
        }
        // margins are generated for a third of the nodes only: make vertical margins common below the root
        if depth > 0 && rng.chance(1, 3) {
            n.style.margin.top = treegen::lpa(rng, cfg, 20, true, true);
            n.style.margin.bottom = treegen::lpa(rng, cfg, 20, true, true);
        }
        // empty boxes (collapse-through)
        if depth > 0 && rng.chance(1, 8) {
            n.style.size.height = if rng.chance(1, 2) { Dimension::length(0.0) } else { Dimension::auto() };
            n.style.padding = Rect::zero();
            n.style.border = Rect::zero();
            n.style.min_size.height = Dimension::auto();
            if n.children.is_empty() && rng.chance(1, 2) {
                n.ctx = None;
            }
        }
        for c in n.children.iter_mut() {
            fix(rng, cfg, c, depth + 1);
        }
    }
    fix(&mut rng, &cfg, &mut t, 0);
    // the root: occasionally display:none or position:absolute (treegen never does that)
    if rng.chance(1, 40) {
        t.style.display = Display::None;
    }
    if rng.chance(1, 40) {
        t.style.position = Position::Absolute;
    }
    // one pass, or two passes over the same tree (the second under the same or another available space: cache hits across passes)
    let a = treegen::avail(&mut rng, &cfg);
    let mut passes = vec![a];
    if idx % 2 == 1 {
        let b = treegen::avail(&mut rng, &cfg);
        passes.push(if rng.chance(1, 4) { a } else if rng.chance(1, 3) { Size { width: a.width, height: b.height } } else { b });
    }
    (t, passes)
}

fn enc_avail(a: AvailableSpace, out: &mut Vec<u64>) {
    match a {
        AvailableSpace::Definite(v) => out.extend([0, canon(v)]),
        AvailableSpace::MinContent => out.extend([1, 0]),
        AvailableSpace::MaxContent => out.extend([2, 0]),
    }
}

fn enc_node(n: &NodeSpec, out: &mut Vec<u64>) {
    enc_style_core(&n.style, out);
    match &n.ctx {
        None => out.extend([0, 0, 0]),
        Some(Ctx::Fixed(w, h)) => out.extend([1, canon(*w), canon(*h)]),
        Some(Ctx::Text(k, unit)) => out.extend([2, *k as u64, canon(*unit)]),
        Some(Ctx::Echo(b)) => out.extend([3, canon(*b), 0]),
    }
    out.push(n.children.len() as u64);
    for c in &n.children {
        enc_node(c, out);
    }
}

/// all layouts in pre-order after every pass, 21 ints per node
fn lay_out(spec: &NodeSpec, passes: &[Size<AvailableSpace>], exact: bool) -> Vec<u64> {
    taffy::verif_hooks::set_exact_key(exact);
    let mut t: TaffyTree<Ctx> = TaffyTree::new();
    t.disable_rounding();
    let mut ids = vec![];
    let root = treegen::build(&mut t, spec, &mut ids);
    let mut r = vec![];
    for avail in passes {
        treegen::compute(&mut t, root, *avail);
        for id in &ids {
            let l = t.unrounded_layout(*id);
            let b = treegen::layout_bits(l);
            r.push(b[0] as u64);
            r.extend(b[1..].iter().map(|x| canon(f32::from_bits(*x))));
        }
    }
    taffy::verif_hooks::set_exact_key(false);
    r
}

pub fn lines(spec: &NodeSpec, passes: &[Size<AvailableSpace>]) -> (String, String, usize) {
    let mut c: Vec<u64> = vec![passes.len() as u64];
    for avail in passes {
        enc_avail(avail.width, &mut c);
        enc_avail(avail.height, &mut c);
    }
    enc_node(spec, &mut c);
    let exact = lay_out(spec, passes, true);
    let real = lay_out(spec, passes, false);
    let differ = exact.iter().zip(real.iter()).filter(|(a, b)| a != b).count();
    let j = |v: &Vec<u64>| v.iter().map(|x| x.to_string()).collect::<Vec<_>>().join(" ");
    (format!("C {}", j(&c)), format!("R {}", j(&exact)), differ)
}

fn features(n: &NodeSpec, depth: usize, f: &mut [u64; 12]) {
    f[0] += 1;
    if !n.children.is_empty() {
        f[1] += 1;
    }
    if n.style.display == Display::None {
        f[2] += 1;
    }
    if n.style.position == Position::Absolute && depth > 0 {
        f[3] += 1;
    }
    if n.ctx.is_some() {
        f[4] += 1;
    }
    f[5] = f[5].max(depth as u64);
    for c in &n.children {
        features(c, depth + 1, f);
    }
}

pub fn main(args: &[String]) {
    let cmd = args.first().map(|s| s.as_str()).unwrap_or("");
    let num = |i: usize, d: u64| args.get(i).and_then(|s| s.parse::<u64>().ok()).unwrap_or(d);
    match cmd {
        "cases" => {
            let (seed, n, start) = (num(1, 1), num(2, 100), num(3, 0));
            let mut lossy = 0;
            let mut f = [0u64; 12];
            for idx in start..start + n {
                let (spec, passes) = bcase(seed, idx);
                let (c, r, d) = lines(&spec, &passes);
                println!("{c}\n{r}\nL {d}");
                if d > 0 {
                    lossy += 1;
                }
                features(&spec, 0, &mut f);
            }
            println!(
                "SUMMARY cases={} real_key_differs={} nodes={} containers={} hidden={} absolute={} measured={}",
                n, lossy, f[0], f[1], f[2], f[3], f[4]
            );
        }
        "case" => {
            let (seed, idx) = (num(1, 1), num(2, 0));
            let (spec, passes) = bcase(seed, idx);
            let mut s = String::new();
            let mut k = 0;
            describe_tree(&spec, 0, &mut k, &mut s);
            for a in &passes {
                eprintln!("avail {}", treegen::avail_str(*a));
            }
            eprintln!("{}", s);
            let (c, r, d) = lines(&spec, &passes);
            println!("{c}\n{r}\nL {d}");
            let vals: Vec<u64> = r.split(' ').skip(1).map(|x| x.parse().unwrap()).collect();
            let k = spec.count();
            for (i, ch) in vals.chunks(21).enumerate() {
                let fl: Vec<f32> = ch[1..].iter().map(|b| f32::from_bits(*b as u32)).collect();
                eprintln!("pass {} node {}: order {} loc ({}, {}) size {}x{} content {}x{} sb {}x{} border {:?} padding {:?} margin {:?}",
                    i / k, i % k, ch[0], fl[0], fl[1], fl[2], fl[3], fl[4], fl[5], fl[6], fl[7], &fl[8..12], &fl[12..16], &fl[16..20]);
            }
        }
        _ => {
            eprintln!("usage: vh blocktree cases <seed> <n> [start] | case <seed> <idx>");
            std::process::exit(2);
        }
    }
}
