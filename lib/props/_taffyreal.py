"""Shared by C16 and C01: the whole-tree correspondence of the COMPLETE engine WITH THE REAL CACHE (wave 7a, notes/REALCACHE.md section 8).

`vh taffytree cases <seed> <n> <start> <family> <maxnodes> real` lays the random mixed trees of the exact-key correspondence
(lib/props/_taffytree.py: block + flex + grid containers and leaves in any nesting) out through `TaffyTree::compute_layout_with_measure`
WITHOUT the exact-key hook -- the cache users get: one final-layout entry, nine measure slots, the lossy compatibility test -- and prints,
after every pass and for every node, the 21 layout integers, the number of compute_cached_layout calls on the node, how many of them the
cache answered (event-trace hook) and the number of measure-function calls for the node (counted by the measure closure per NodeId).
`Model/TaffyEngineRealRun.run_case_real` decodes the same case and runs compute_root_layout + `memo_real` (Model/EngineReal.v) over
`real_algo` (Model/TaffyRoot.v) over F32 and must reproduce ALL of it: bit-exact layouts, count-exact queries / hits / measure calls.
In flex / grid containers the nine measure slots get traffic: `Cache.slot_of_key`, displacement, ComputeSize answers `from_outer_size`.

`vh taffytree chains <start> <n> [step]`: deterministic single-child chains over one measured leaf with the styles of C16's typical
corpus (part A: all 3^d kind mixes of depth d = 1..6, part B: the 6561 typical chains of corpus/C16-typical-baseline.json cut at depth 1..6).

Debugging: `python3 -m lib.props._taffyreal <seed> <n> [start] [family] [maxnodes]` / `python3 -m lib.props._taffyreal chains <start> <n> [step]`."""
import sys

from ..common import *
from ..stages import *
from . import _taffytree as tt

REC = tt.LAY_LEN + 3
CNT = ['queries', 'cache_hits', 'measure_calls']
CHAINS_A = 1092
MODULE = 'Model.TaffyEngineRealRun'


def describe_diff(c, a, b):
    if len(b) == 1 and b[0] in tt.MARKERS:
        return tt.MARKERS[b[0]]
    if len(a) != len(b):
        return 'lengths differ: impl %d model %d ints (model head %s)' % (len(a), len(b), b[:3])
    nodes = tt.decode_nodes(c)
    nn = len(nodes)
    ks = tt.kinds(nodes)
    for i, (x, y) in enumerate(zip(a, b)):
        if x != y:
            node, fld = divmod(i, REC)
            k, pk = ks[node % nn]
            nd = sum(1 for p, q in zip(a, b) if p != q)
            if fld >= tt.LAY_LEN:
                return 'pass %d node %d (%s in %s) COUNT %s: impl %d model %d (%d ints differ)' % (
                    node // nn, node % nn, k, pk, CNT[fld - tt.LAY_LEN], x, y, nd)
            fx = x if fld == 0 else tt._f(x)
            fy = y if fld == 0 else tt._f(y)
            return 'pass %d node %d (%s in %s) field %s: impl %r model %r (%d ints differ)' % (
                node // nn, node % nn, k, pk, tt.FIELDS[fld], fx, fy, nd)
    return 'equal'


def generate(binp, seed, n, start=0, family=0, maxnodes=12):
    rc, out = vh(binp, ['taffytree', 'cases', seed, n, start, family, maxnodes, 'real'], timeout=300)
    cases, impl = parse_cr(out)
    differ = [int(l.split()[1]) for l in out.split('\n') if l.startswith('L ')]
    skipped = [int(l.split()[1]) for l in out.split('\n') if l.startswith('SKIP ')]
    m = re.search(r'SUMMARY (.*)', out)
    if rc != 0 or not cases or len(differ) != len(cases) or not m:
        raise RuntimeError('vh taffytree cases .. real failed: ' + out[-600:])
    summary = {k: int(v) for k, v in (kv.split('=') for kv in m.group(1).split())}
    idxs = [i for i in range(start, start + n) if i not in set(skipped)]
    return cases, impl, differ, summary, idxs


def generate_chains(binp, spans):
    """spans = [(start, n, step)]; returns cases, impl, [(idx, total queries, description)], skipped"""
    cases, impl, qs, skipped = [], [], [], []
    for start, n, step in spans:
        rc, out = vh(binp, ['taffytree', 'chains', start, n, step], timeout=300)
        c, r = parse_cr(out)
        q = [l.split(' ', 3) for l in out.split('\n') if l.startswith('Q ')]
        skipped += [int(l.split()[1]) for l in out.split('\n') if l.startswith('SKIP ')]
        if rc != 0 or 'DONE' not in out or len(q) != len(c):
            raise RuntimeError('vh taffytree chains failed: ' + out[-600:])
        cases += c
        impl += r
        qs += [(int(x[1]), int(x[2]), x[3]) for x in q]
    return cases, impl, qs, skipped


def evaluate(tag, cases, timeout=900):
    model, secs = tt.evaluate(tag, cases, timeout=timeout, module=MODULE, fn='run_case_real')
    # the two leading integers (lossy hits, evaluations) are the model's own
    return ([m[2:] if len(m) >= 2 else m for m in model], [m[0] if len(m) >= 2 else -1 for m in model],
            [m[1] if len(m) >= 2 else -1 for m in model], secs)


def _hist(vals):
    h = {}
    for v in vals:
        h[v] = h.get(v, 0) + 1
    return {str(k): h[k] for k in sorted(h)}


def real_tree_k(rep, pid, binp, seed, n, family=0, maxnodes=12, timeout=900):
    """random mixed trees, real cache: layouts + counts.  Returns the disagreements."""
    t0 = time.time()
    try:
        cases, impl, differ, summary, idxs = generate(binp, seed, n, 0, family, maxnodes)
        model, lossy, evals, secs = evaluate(pid + 'tr', cases, timeout=timeout)
    except RuntimeError as ex:
        rep.add_broken('correspondence', 'complete engine with the REAL cache, whole-tree K (vh taffytree cases .. real)', str(ex)[-1500:])
        return []
    bad = diff_results(rep, 'whole tree mixing block / flex / grid containers and leaves through TaffyTree::compute_layout_with_measure with '
                            'the REAL cache (no exact-key hook): unrounded layouts of every node + per node the numbers of '
                            'compute_cached_layout calls, cache hits and measure-function calls of every pass, vs '
                            'Model.TaffyEngineRealRun.run_case_real = compute_root_layout + memo_real (Model/EngineReal.v) over real_algo, F32',
                       cases, impl, model, max_report=3)
    nq = nh = nm = 0
    leafc = []
    per_kind = {}
    for c, a in zip(cases, impl):
        nodes = tt.decode_nodes(c)
        ks = tt.kinds(nodes)
        nn = len(nodes)
        for r in range(len(a) // REC):
            q, h, m = a[r * REC + tt.LAY_LEN: r * REC + REC]
            nq += q
            nh += h
            nm += m
            k = ks[r % nn][0]
            e = per_kind.setdefault(k, [0, 0, 0])
            e[0] += q
            e[1] += h
            e[2] += m
            if k == 'leaf' and nodes[r % nn][3][8] != 0:
                leafc.append(m)
    markers = {}
    for m in model:
        if len(m) == 1 and m[0] in tt.MARKERS:
            markers[tt.MARKERS[m[0]]] = markers.get(tt.MARKERS[m[0]], 0) + 1
    no_lossy = [i for i in range(len(cases)) if lossy[i] == 0]
    rep.cov['taffytree_real_cache'] = {
        'trees': len(cases), 'family': tt.FAMILY[family], 'disagreements': len(bad), 'seconds': round(time.time() - t0, 1),
        'model_seconds_per_shard': secs, 'implementation_panicked_skipped': summary.get('skipped'), 'model_markers': markers,
        'nodes': summary.get('nodes'), 'block_containers': summary.get('block'), 'flex_containers': summary.get('flex'),
        'grid_containers': summary.get('grid'), 'containers_nested_in_another_kind': summary.get('mixed_nesting'),
        'two_pass_cases': summary.get('two_pass'),
        'layout_fields_compared': sum(len(a) // REC * tt.LAY_LEN for a in impl),
        'counters_compared': sum(len(a) // REC * 3 for a in impl),
        'queries': nq, 'cache_hits': nh, 'measure_calls': nm, 'model_evaluations': sum(e for e in evals if e >= 0),
        'queries_hits_measure_calls_by_node_kind': per_kind,
        'measure_calls_per_measured_leaf_per_pass_distribution': _hist(leafc),
        'lossy_hits_total': sum(l for l in lossy if l >= 0),
        'trees_without_lossy_hit': len(no_lossy),
        'trees_whose_layout_differs_from_the_exact_key_run': sum(1 for d in differ if d),
        'of_which_without_lossy_hit': sum(1 for i in no_lossy if differ[i]),
        'first_disagreements': ['idx %d: %s (python3 -m lib.props._taffyreal %d 1 %d %d %d)' % (
            idxs[cases.index(c)], describe_diff(c, a, b), seed, idxs[cases.index(c)], family, maxnodes) for c, a, b in bad[:5]],
    }
    return bad


def quick_chain_spans():
    """part A depth 1..5 (all 363 kind mixes) + every 9th of depth 6; part B: ~190 typical chains at varying depths (step 211 is coprime to 6)"""
    return [(0, 363, 1), (363, 81, 9), (CHAINS_A, 190, 211)]


def real_chain_k(rep, pid, binp, spans=None, timeout=900):
    """deterministic mixed chains, real cache.  Returns the disagreements."""
    t0 = time.time()
    spans = spans or quick_chain_spans()
    try:
        cases, impl, qs, skipped = generate_chains(binp, spans)
        model, lossy, evals, secs = evaluate(pid + 'tc', cases, timeout=timeout)
    except RuntimeError as ex:
        rep.add_broken('correspondence', 'complete engine with the REAL cache, chain K (vh taffytree chains)', str(ex)[-1500:])
        return []
    bad = diff_results(rep, 'single-child chains mixing flex / grid / block containers (depth 1..6, typical styles of the C16 corpus) over a '
                            'measured leaf, REAL cache: layouts + query / hit / measure counts vs Model.TaffyEngineRealRun.run_case_real',
                       cases, impl, model, max_report=3)
    by_depth = {}
    over = []
    for c, a, q in zip(cases, impl, qs):
        depth = len(tt.decode_nodes(c)) - 1
        by_depth.setdefault(depth, []).append(a[-1])
        if a[-1] > 64 * (depth + 1):
            over.append('%s: %d' % (q[2], a[-1]))
    rep.cov['taffy_chains_real_cache'] = {
        'chains': len(cases), 'skipped_over_query_limit': skipped, 'disagreements': len(bad), 'seconds': round(time.time() - t0, 1),
        'model_seconds_per_shard': secs,
        'leaf_measure_calls_by_depth': {str(d): _hist(v) for d, v in sorted(by_depth.items())},
        'max_leaf_measure_calls': max(a[-1] for a in impl),
        'chains_over_64_x_nodes': over[:10], 'chains_over_64_x_nodes_count': len(over),
        'total_queries_by_depth_max': {str(d): max(q[1] for c, q in zip(cases, qs) if len(tt.decode_nodes(c)) - 1 == d) for d in sorted(by_depth)},
        'lossy_hits_total': sum(l for l in lossy if l >= 0),
        'first_disagreements': ['chain %d (%s): %s' % (qs[cases.index(c)][0], qs[cases.index(c)][2], describe_diff(c, a, b)) for c, a, b in bad[:5]],
    }
    return bad


if __name__ == '__main__':
    rc, out, binp, dt = build_harness('release')
    if rc != 0:
        print(out[-2000:])
        sys.exit(1)
    t0 = time.time()
    if sys.argv[1] == 'chains':
        start, n = int(sys.argv[2]), int(sys.argv[3])
        step = int(sys.argv[4]) if len(sys.argv) > 4 else 1
        cases, impl, qs, skipped = generate_chains(binp, [(start, n, step)])
        names = ['chain %d %s' % (q[0], q[2]) for q in qs]
        differ = [0] * len(cases)
        print('skipped', skipped)
    else:
        seed, n = int(sys.argv[1]), int(sys.argv[2])
        start = int(sys.argv[3]) if len(sys.argv) > 3 else 0
        family = int(sys.argv[4]) if len(sys.argv) > 4 else 0
        maxnodes = int(sys.argv[5]) if len(sys.argv) > 5 else 12
        cases, impl, differ, summary, idxs = generate(binp, seed, n, start, family, maxnodes)
        names = ['idx %d' % i for i in idxs]
    model, lossy, evals, secs = evaluate('trdbg', cases, timeout=3000)
    print('model evaluated in %.1fs (shards %s)' % (time.time() - t0, secs))
    nbad = 0
    for i, (c, a, b) in enumerate(zip(cases, impl, model)):
        if a != b:
            nbad += 1
            if nbad <= 40:
                print('%s (%d nodes, lossy %d, differs-from-exact %d): %s' % (names[i], len(tt.decode_nodes(c)), lossy[i], differ[i], describe_diff(c, a, b)))
    print('%d / %d disagree; leaf measure calls (last node) %s; trees without lossy hit %d, differing from exact %d' % (
        nbad, len(cases), _hist([a[-1] for a in impl]), sum(1 for l in lossy if l == 0), sum(1 for d in differ if d)))
