"""Engine correspondence shared by C01 / C15 / C16: histories of TaffyTree API calls replayed on the Coq engine model
(Model/EngineRun.v), TaffyTree::dirty compared after every call; plus the trace validation of the interface hypotheses
(WF, H1) the engine theorems assume about the layout algorithms."""
from .common import *
from .stages import *


def engine_correspondence(rep, binp, seed, n):
    rc, out = vh(binp, ['eng', 'cases', seed, n], timeout=300)
    if rc != 0:
        rep.add_broken('correspondence', 'vh eng cases', out[-800:])
        return
    cases, impl = parse_cr(out)
    hyp = [l for l in out.split('\n') if l.startswith('HYP ')]
    m = re.search(r'TRACES (\d+) (\d+)', out)
    rep.cov['traces_validated_against_impl'] = int(m.group(1)) if m else 0
    ms = re.search(r'SCRIBBLES (\d+)', out)
    rep.cov['layouts_written_under_a_ComputeSize_query_in_those_traces'] = int(ms.group(1)) if ms else 0
    for h in hyp[:5]:
        rep.add_broken('interface-hypothesis', h.split()[2] if len(h.split()) > 2 else 'H', h)
    try:
        with Lock('coq'):
            rcm, outm, _ = coq_make(['Model/EngineRun.vo'])
        if rcm != 0:
            raise RuntimeError(outm[-1500:])
        model = run_model(rep.pid + 'E', 'From TV Require Import Model.EngineRun.', 'run_case', cases, scope='Z', elem='list Z')
        bad = diff_results(rep, 'dirty flags after every API call: TaffyTree vs Model/Engine.v (mutate/mark_dirty/memo/hide)', cases, impl, model)
    except RuntimeError as ex:
        rep.add_broken('correspondence', 'engine model evaluation', str(ex)[-1500:])
        bad = []
    ops = {}
    names = ['set_style', 'add_child', 'insert_child_at_index', 'remove_child_at_index', 'replace_child_at_index', 'set_children',
             'remove_child+add_child', 'remove', 'set_node_context', 'mark_dirty', 'compute_layout', 'rounding']
    for c in cases:
        n0 = c[0]
        rest = c[1 + 2 * n0:]
        i = 0
        while i < len(rest):
            ln = rest[i]
            ops[names[rest[i + 1]]] = ops.get(names[rest[i + 1]], 0) + 1
            i += ln + 1
    rep.cov['op_histogram'] = ops
    rep.cov['distinct_nontrivial'] = len(set(tuple(c) for c in cases if len(c) > 12))
    rep.cov['samples'] = [{'history_ints': cases[0][:60], 'dirty_flags_after_each_call': impl[0][:60]}]
    return bad


def _decode_event(e):
    if e == -1:
        return 'next API call'
    if e == -2:
        return 'end of pass'
    if e == -99:
        return 'MODEL: evaluation failed (no fuel / child index out of range)'
    if e < 0:
        return str(e)
    kind, p = e % 4, e // 4
    if kind == 0:
        hit, q = p % 2, p // 2
        node, inp = q % 1024, q // 1024
        return 'Query(node %d, input #%d %s, %s)' % (node, inp // 3, ['PerformLayout', 'ComputeSize', 'PerformHiddenLayout'][inp % 3], 'hit' if hit else 'miss')
    return '%s(node %d)' % ({1: 'Return', 2: 'Hidden', 3: 'SetLayout'}[kind], p)


def _first_difference(impl, model):
    """Position of the first differing integer and a readable window around it (dirty flags are 0/1 after the last -2 / -1)."""
    n = min(len(impl), len(model))
    j = next((i for i in range(n) if impl[i] != model[i]), n)
    call = impl[:j].count(-1)

    def in_events(seq):
        # inside the event list of a layout call: after a -1 with a -2 still ahead before the next -1
        k = j
        while k < len(seq) and seq[k] not in (-1, -2):
            k += 1
        return k < len(seq) and seq[k] == -2

    def show(seq):
        if j >= len(seq):
            return 'end of output'
        if in_events(seq) or seq[j] in (-1, -2, -99):
            return _decode_event(seq[j])
        return 'dirty flag %d' % seq[j]
    start = max([i + 1 for i in range(j) if impl[i] == -1] or [0])
    before = [_decode_event(e) for e in impl[max(start, j - 6):j]] if in_events(impl) else []
    return {'api_call_index': call, 'position': j, 'implementation_logged': show(impl), 'model_predicted': show(model),
            'events_before_in_this_pass': before}


def engine_event_correspondence(rep, binp, seed, n, real=False):
    """EVENT-LEVEL correspondence between Model/Engine.v and TaffyTree in exact-key mode: on random API histories the traced memo
    (Model/EngineReplay.v, proved to be Engine.memo plus a log) with the real algorithms' recorded behaviour replayed must predict
    every compute_cached_layout call (node, input, hit/miss), every compute_hidden_layout and set_unrounded_layout, in order,
    and the dirty flag of every node after every API call.
    real=True (notes/REALHIST.md): the same histories WITHOUT the exact-key hook against the engine over the REAL cache
    (Model/EngineReal.v memo_real / gmark_dirty over rcache = src/tree/cache.rs, forest layer Model/EngineForestG.v): hit/miss is decided
    by the lossy Cache.compat on the key projection of the inputs and the cached sizes, over binary32."""
    name = ('cache events of every layout pass (compute_cached_layout node/input/hit-or-miss, compute_hidden_layout, set_unrounded_layout) '
            '+ dirty flags after every API call: TaffyTree in exact-key mode vs Model/Engine.v memo/cget/cstore/hide/mutate with the real '
            'algorithms replayed (Model/EngineReplay.v)')
    if real:
        name = ('REAL CACHE (no exact-key hook): cache events of every layout pass (compute_cached_layout node/input/hit-or-miss by the lossy '
                'compatibility test, compute_hidden_layout, set_unrounded_layout) + dirty flags after every API call: TaffyTree vs '
                'Model/EngineReal.v memo_real/rget/rstore/rclear/rdirty/gmark_dirty with the real algorithms replayed (Model/EngineReplayReal.v)')
    rc, out = vh(binp, ['engev', 'cases', seed, n] + ([0, 'real'] if real else []), timeout=300)
    if rc != 0:
        rep.add_broken('correspondence', 'vh engev cases' + (' real' if real else ''), out[-800:])
        return
    cases, impl = parse_cr(out)
    st = re.search(r'EVSTATS passes (\d+) events (\d+) hits (\d+) misses (\d+) hidden (\d+) entries (\d+) outputs (\d+) anomalies (\d+)', out)
    for a in [l for l in out.split('\n') if l.startswith('ANOM ')][:5]:
        # the recorded scripts are not a function of (node, styles, children, input, outputs so far), or the trace is not well nested
        rep.add_broken('correspondence', 'event trace recording', a)
    try:
        with Lock('coq'):
            rcm, outm, _ = coq_make(['Model/EngineReplayRealRun.vo', 'Proofs/EngineReplayReal.vo'] if real else
                                    ['Model/EngineReplayRun.vo', 'Proofs/EngineReplay.vo'])
        if rcm != 0:
            raise RuntimeError(outm[-1500:])
        t0 = time.time()
        if real:
            model = run_model(rep.pid + 'EVR', 'From TV Require Import Model.EngineReplayRealRun.', 'run_case_real', cases, scope='Z', elem='list Z')
            # one model-only integer per pass: -(1000 + lossy hits of the pass) (ghost counter)
            lossy_per_history = [sum(-x - 1000 for x in m if x <= -1000) for m in model]
            model = [[x for x in m if x > -1000] for m in model]
        else:
            model = run_model(rep.pid + 'EV', 'From TV Require Import Model.EngineReplayRun.', 'run_case', cases, scope='Z', elem='list Z')
        # report through diff_results; for a disagreeing history only a window around the first difference is kept as integers
        # (key = [seed, index]: `vh engev cases <seed> 1 <index>` regenerates it) and the difference is decoded once
        keys, iw, mw, first = [], [], [], None
        for k, (a, b) in enumerate(zip(impl, model)):
            if a == b:
                keys.append([seed, k]); iw.append([]); mw.append([])
                continue
            d = _first_difference(a, b)
            j = d['position']
            keys.append([seed, k]); iw.append(a[max(0, j - 12):j + 12]); mw.append(b[max(0, j - 12):j + 12])
            if first is None:
                first = dict(d, seed=seed, history_index=k, replay='vh engev cases %s 1 %d%s' % (seed, k, ' real' if real else ''))
        bad = diff_results(rep, name, keys, iw, mw, max_report=3)
        if first is not None:
            rep.add_broken('correspondence', 'first event-level disagreement (decoded)', first)
    except RuntimeError as ex:
        rep.add_broken('correspondence', 'engine replay model evaluation' + (' (real cache)' if real else ''), str(ex)[-1500:])
        bad, t0, lossy_per_history = [], time.time(), []
    ev = {'histories': len(cases), 'disagreements': len(bad), 'model_seconds': round(time.time() - t0, 1)}
    if real:
        ev['histories_skipped (a key that does not match itself cannot be probed)'] = len([l for l in out.split('\n') if l.startswith('SKIPPED ')])
        ev['lossy_hits_in_the_model (ghost counter: answered by an entry stored for another complete input)'] = sum(lossy_per_history)
        ev['histories_with_a_lossy_hit'] = sum(1 for x in lossy_per_history if x > 0)
        ev['distinct_inputs'] = sum(c[1 + 2 * c[0]] for c in cases)
    if st:
        ev.update(dict(zip(['layout_passes', 'events_compared', 'cache_hits', 'cache_misses', 'hidden_layouts', 'script_table_entries',
                            'distinct_evaluation_records', 'recording_anomalies'], map(int, st.groups()))))
    rep.cov['event_level_correspondence_real_cache' if real else 'event_level_correspondence'] = ev
    return bad
