(* C12 -- vocabulary of the generated site table Gen/BoxSizingSites.v (translator/gen_boxsizing.py) and the boolean
   checks the theorems of Props/C12.v evaluate over it.  Definitions only. *)
From Coq Require Import String List Bool.
Import ListNotations.
Open Scope string_scope.

(* how a style length (size / min_size / max_size / flex_basis of a node) is used at one place of the source *)
Inductive UseKind :=
  | Adjusted      (* resolved, then exactly one `.maybe_add(box_sizing_adjustment)` on the same expression chain *)
  | Unadjusted    (* resolved and used without the adjustment (or with two) *)
  | TestOnly      (* the chain ends in is_auto() / is_some() / is_none(): only definiteness is observed *)
  | RawCopy.      (* stored / passed on unresolved *)

(* one `let box_sizing_adjustment = if <style>.box_sizing() == BoxSizing::ContentBox { <pb> } else { Size::ZERO } [.proj(dir)]` *)
Record Adjustment := mkAdj {
  adj_cond_ok : bool;      (* the condition is `== ContentBox` and the else branch is Size::ZERO *)
  adj_pb_ok : bool;        (* <pb> is padding + border, summed per axis *)
  adj_proj : string }.     (* "" = a Size; otherwise the axis projection applied to it *)

(* a function containing at least one adjustment, with every style-length use in it (in source order) *)
Record SiteFn := mkSite { s_file : string; s_fn : string; s_adjs : list Adjustment; s_uses : list (string * UseKind) }.
Record Use := mkUse { u_file : string; u_fn : string; u_field : string; u_kind : UseKind }.

Definition kind_eqb (a b : UseKind) : bool :=
  match a, b with
  | Adjusted, Adjusted | Unadjusted, Unadjusted | TestOnly, TestOnly | RawCopy, RawCopy => true
  | _, _ => false
  end.
Definition use_eqb (a b : Use) : bool :=
  (u_file a =? u_file b) && (u_fn a =? u_fn b) && (u_field a =? u_field b) && kind_eqb (u_kind a) (u_kind b).

(* flex_basis is a scalar along the main axis of the parent flex container; size / min_size / max_size are Sizes *)
Definition proj_for (field : string) : string := if field =? "flex_basis" then "main" else "".

(* a site function is well formed when it has exactly one adjustment, of the right shape *)
Definition site_wellformed (s : SiteFn) : bool :=
  match s_adjs s with
  | [a] => adj_cond_ok a && adj_pb_ok a
  | _ => false
  end.
(* one use inside a site function: fine when only definiteness is observed, or when adjusted with the projection that
   fits the field *)
Definition site_use_ok (s : SiteFn) (fk : string * UseKind) : bool :=
  match snd fk with
  | TestOnly => true
  | Adjusted => match s_adjs s with [a] => adj_proj a =? proj_for (fst fk) | _ => false end
  | Unadjusted | RawCopy => false
  end.
(* the uses of a site function that are NOT fine *)
Definition site_omissions (s : SiteFn) : list Use :=
  map (fun fk => mkUse (s_file s) (s_fn s) (fst fk) (snd fk)) (filter (fun fk => negb (site_use_ok s fk)) (s_uses s)).
Definition all_omissions (sites : list SiteFn) : list Use := flat_map site_omissions sites.
Definition site_names (sites : list SiteFn) : list (string * string) := map (fun s => (s_file s, s_fn s)) sites.

(* multiset inclusion: every use of `xs` is matched by its own entry of `allowed` (a repaired omission leaves an unused entry,
   a second copy of an omission is not covered by the first one's entry) *)
Fixpoint remove_first (u : Use) (l : list Use) : option (list Use) :=
  match l with
  | [] => None
  | x :: r => if use_eqb u x then Some r else option_map (cons x) (remove_first u r)
  end.
Fixpoint submultiset (xs allowed : list Use) : bool :=
  match xs with
  | [] => true
  | x :: r => match remove_first x allowed with Some rest => submultiset r rest | None => false end
  end.
