(* Runner of the dirty-flag correspondence (C01 / C15): replays a history of TaffyTree API calls, given as integers by
   the harness, on a forest of engine-skeleton trees (Model/Engine.v definitions: mutate = edit + mark_dirty with its
   early exit, memo with compute_hidden_layout) and reports TaffyTree::dirty of every live node after every call. *)
From Coq Require Import List Bool Arith NArith ZArith Lia.
From TV Require Import Model.Engine Model.EngineToy.
Import ListNotations.

Definition forest := list ttree.
Notation TNode := (Node TS TIn TOut TLay).
Definition leaf (id : N) (none : bool) : ttree := TNode (id, none) (cempty TIn TOut) 0%N [].

Fixpoint find (t : ttree) (id : N) {struct t} : option (list nat) :=
  match t with
  | Node _ _ _ _ s _ _ kids =>
      if N.eqb (fst s) id then Some []
      else (fix go (ks : list ttree) (k : nat) : option (list nat) :=
              match ks with
              | [] => None
              | c :: r => match find c id with Some p => Some (k :: p) | None => go r (S k) end
              end) kids 0
  end.

(* locate a node: index of its root in the forest and path below it *)
Fixpoint locate (f : forest) (id : N) (k : nat) : option (nat * list nat) :=
  match f with
  | [] => None
  | t :: r => match find t id with Some p => Some (k, p) | None => locate r id (S k) end
  end.

Definition set_root (f : forest) (k : nat) (t : ttree) : forest := replace_nth k t f.
Fixpoint remove_at {A} (l : list A) (k : nat) : list A :=
  match l, k with
  | [], _ => []
  | _ :: r, O => r
  | a :: r, S k' => a :: remove_at r k'
  end.
Fixpoint insert_at {A} (l : list A) (k : nat) (x : A) : list A :=
  match k, l with
  | O, _ => x :: l
  | S k', a :: r => a :: insert_at r k' x
  | S _, [] => [x]
  end.

Definition subtree_at (f : forest) (id : N) : option ttree :=
  match locate f id 0 with
  | Some (k, p) => match nth_error f k with Some t => subtree TS TIn TOut TLay t p | None => None end
  | None => None
  end.

(* "edit the node, then mark_dirty it" at the node with this id *)
Definition mutate_id (f : forest) (id : N) (e : edit TS TIn TOut TLay) : forest :=
  match locate f id 0 with
  | Some (k, p) => match nth_error f k with Some t => set_root f k (t_mutate t p e) | None => f end
  | None => f
  end.

Definition kids_of_id (f : forest) (id : N) : list ttree :=
  match subtree_at f id with Some t => kids_of TS TIn TOut TLay t | None => [] end.

Definition parent_of (f : forest) (id : N) : option N :=
  match locate f id 0 with
  | Some (k, p) =>
      match p with
      | [] => None
      | _ => match nth_error f k with
             | Some t => match subtree TS TIn TOut TLay t (removelast p) with
                         | Some par => Some (fst (style_of TS TIn TOut TLay par))
                         | None => None end
             | None => None end
      end
  | None => None
  end.

Definition rot {A} (l : list A) : list A := match l with [] => [] | a :: r => r ++ [a] end.

(* detach the child at index idx of parent (it becomes a root and keeps its caches); parent is marked dirty *)
Definition detach_idx (f : forest) (par : N) (idx : nat) : forest :=
  let ks := kids_of_id f par in
  match nth_error ks idx with
  | Some ch => mutate_id f par (ESetKids _ _ _ _ (remove_at ks idx)) ++ [ch]
  | None => f
  end.

Definition index_of (ks : list ttree) (id : N) : option nat :=
  (fix go (l : list ttree) (k : nat) := match l with [] => None | c :: r => if N.eqb (fst (style_of TS TIn TOut TLay c)) id then Some k else go r (S k) end) ks 0.

Definition fuel_of (t : ttree) : nat := 64.

Definition step_op (f : forest) (o : list Z) : forest :=
  match o with
  | [0; n; none]%Z =>                                     (* set_style *)
      mutate_id f (Z.to_N n) (ESetStyle _ _ _ _ (Z.to_N n, Z.eqb none 1))
  | [1; p; nid; none]%Z =>                                (* add_child(p, new leaf) *)
      mutate_id f (Z.to_N p) (ESetKids _ _ _ _ (kids_of_id f (Z.to_N p) ++ [leaf (Z.to_N nid) (Z.eqb none 1)]))
  | [2; p; idx; nid; none]%Z =>                           (* insert_child_at_index *)
      mutate_id f (Z.to_N p) (ESetKids _ _ _ _ (insert_at (kids_of_id f (Z.to_N p)) (Z.to_nat idx) (leaf (Z.to_N nid) (Z.eqb none 1))))
  | [3; p; idx]%Z => detach_idx f (Z.to_N p) (Z.to_nat idx)   (* remove_child_at_index *)
  | [4; p; idx; nid; none]%Z =>                           (* replace_child_at_index: old child becomes a root *)
      let ks := kids_of_id f (Z.to_N p) in
      match nth_error ks (Z.to_nat idx) with
      | Some old => mutate_id f (Z.to_N p) (ESetKids _ _ _ _ (replace_nth (Z.to_nat idx) (leaf (Z.to_N nid) (Z.eqb none 1)) ks)) ++ [old]
      | None => f
      end
  | [5; p]%Z => mutate_id f (Z.to_N p) (ESetKids _ _ _ _ (rot (kids_of_id f (Z.to_N p))))   (* set_children, rotated *)
  | [6; n; p]%Z =>                                        (* remove_child(old parent, n) then add_child(p, n) *)
      let f1 := match parent_of f (Z.to_N n) with
                | Some par => match index_of (kids_of_id f par) (Z.to_N n) with Some idx => detach_idx f par idx | None => f end
                | None => f end in
      match locate f1 (Z.to_N n) 0 with
      | Some (k, []) =>
          match nth_error f1 k with
          | Some sub => let f2 := remove_at f1 k in
                        mutate_id f2 (Z.to_N p) (ESetKids _ _ _ _ (kids_of_id f2 (Z.to_N p) ++ [sub]))
          | None => f1 end
      | _ => f1
      end
  | [7; n]%Z =>                                           (* remove(n): parent marked dirty, children become roots *)
      let f1 := match parent_of f (Z.to_N n) with
                | Some par => match index_of (kids_of_id f par) (Z.to_N n) with Some idx => detach_idx f par idx | None => f end
                | None => f end in
      match locate f1 (Z.to_N n) 0 with
      | Some (k, []) => match nth_error f1 k with
                        | Some sub => remove_at f1 k ++ kids_of TS TIn TOut TLay sub
                        | None => f1 end
      | _ => f1
      end
  | [8; n]%Z | [9; n]%Z => mutate_id f (Z.to_N n) (ENone _ _ _ _)     (* set_node_context / mark_dirty *)
  | [10; r; tag]%Z =>                                     (* compute_layout(root r) *)
      match locate f (Z.to_N r) 0 with
      | Some (k, []) => match nth_error f k with
                        | Some t => match t_memo (fuel_of t) t (PerformLayout, Z.to_N tag) with
                                    | Some (_, t') => set_root f k t'
                                    | None => f end
                        | None => f end
      | _ => f
      end
  | _ => f
  end.

(* dirty flags of all live nodes, sorted by id *)
Fixpoint flags (t : ttree) : list (N * bool) :=
  match t with Node _ _ _ _ s c _ kids => (fst s, is_empty TIn TOut c) :: flat_map flags kids end.
Fixpoint insert_sorted (x : N * bool) (l : list (N * bool)) : list (N * bool) :=
  match l with [] => [x] | y :: r => if N.leb (fst x) (fst y) then x :: l else y :: insert_sorted x r end.
Definition all_flags (f : forest) : list Z :=
  map (fun p : N * bool => if snd p then 1%Z else 0%Z) (fold_right insert_sorted [] (flat_map flags f)).

(* decode: [nnodes; (parent or -1, none)*nnodes; then ops each prefixed by its length] *)
Fixpoint take_ops (fuel : nat) (l : list Z) : list (list Z) :=
  match fuel with
  | O => []
  | S f' => match l with
            | [] => []
            | len :: r => firstn (Z.to_nat len) r :: take_ops f' (skipn (Z.to_nat len) r)
            end
  end.

(* initial forest from (parent, none) pairs: nodes are numbered in pre-order, so children attach in order *)
Fixpoint build_nodes (k : nat) (l : list Z) (id : N) (f : forest) : forest * list Z :=
  match k with
  | O => (f, l)
  | S k' =>
      match l with
      | par :: none :: r =>
          let nd := leaf id (Z.eqb none 1) in
          let f' := if (par <? 0)%Z then f ++ [nd]
                    else match locate f (Z.to_N par) 0 with
                         | Some (j, p) => match nth_error f j with
                                          | Some t => set_root f j (update TS TIn TOut TLay t p (fun u => match u with Node _ _ _ _ s c l0 ks => TNode s c l0 (ks ++ [nd]) end))
                                          | None => f end
                         | None => f end in
          build_nodes k' r (id + 1)%N f'
      | _ => (f, l)
      end
  end.

Definition run_case (c : list Z) : list Z :=
  match c with
  | n :: rest =>
      let '(f0, ops) := build_nodes (Z.to_nat n) rest 0%N [] in
      let opl := take_ops (length ops) ops in
      snd (fold_left (fun (st : forest * list Z) o => let f' := step_op (fst st) o in (f', snd st ++ (-1)%Z :: all_flags f')) opl (f0, all_flags f0))
  | [] => []
  end.
