(* C16 -- layout cost.  Level `other`: NO theorem of this file states a count or a bound.  The three statements below are the
   accounting identities a bound would be built from (engine skeleton, every algorithm): a hit evaluates nothing; an evaluated
   query is answered from the cache afterwards; in the EXACT-KEY memo a size entry stays retrievable whatever is stored later
   (some entry answers it: the conclusion is `exists o2`, not "the same o"; a final-layout entry IS displaced by any later
   PerformLayout store).  There is no evaluation counter in the model and no theorem "each (node, input) is evaluated at most
   once" (audit, wave 5c: earlier comments suggested one).  The numeric bound of the property (64 x node count; no growth with
   chain depth) is a fact about the query sequences of the real flex/grid/block algorithms interacting with the 9 lossy cache
   slots -- NOT the exact-key memo these identities are about; it is explored on the implementation, not proved, and it does not
   hold on the pinned tree (known finding chain-measure-growth). *)
From Coq Require Import List Bool Arith.
From Coq Require Import NArith.
From TV Require Import Model.Engine Proofs.EngineCount Model.EngineToy Proofs.EngineToyProofs.
Import ListNotations.

(* a cache hit evaluates nothing: the subtree (caches, layouts) is returned as it is *)
Theorem C16_hit_is_free :
  forall (S In Out Lay : Type) (mode : In -> RunMode) (in_eqb : In -> In -> bool) (is_none : S -> bool)
         (hidden_out : Out) (zero_lay : Lay) (algo : S -> list S -> In -> Alg In Out Lay) f s c l kids i o,
    mode i <> PerformHiddenLayout -> cget In Out mode in_eqb c i = Some o ->
    memo S In Out Lay mode in_eqb is_none hidden_out zero_lay algo (Datatypes.S f) (Node S In Out Lay s c l kids) i
      = Some (o, Node S In Out Lay s c l kids).
Proof. intros. apply hit_is_free; assumption. Qed.

(* once a query has been evaluated, the same query is answered from the cache *)
Theorem C16_evaluated_then_hit :
  forall (S In Out Lay : Type) (mode : In -> RunMode) (in_eqb : In -> In -> bool) (is_none : S -> bool)
         (hidden_out : Out) (zero_lay : Lay) (algo : S -> list S -> In -> Alg In Out Lay),
    (forall a, in_eqb a a = true) ->
    forall f t i o t', mode i <> PerformHiddenLayout ->
      memo S In Out Lay mode in_eqb is_none hidden_out zero_lay algo f t i = Some (o, t') ->
      cget In Out mode in_eqb (cache_of S In Out Lay t') i = Some o.
Proof. intros until algo. intros Hr. intros. eapply evaluated_then_hit; eauto. Qed.

(* with an exact memo a size query stays answered (by SOME entry) whatever is stored later: size entries are never displaced.
   ComputeSize only; a final-layout entry is displaced by any later PerformLayout store *)
Theorem C16_exact_memo_no_clobber :
  forall (In Out : Type) (mode : In -> RunMode) (in_eqb : In -> In -> bool),
    (forall a, in_eqb a a = true) ->
    forall c i o j o', mode i = ComputeSize -> cget In Out mode in_eqb c i = Some o ->
      exists o2, cget In Out mode in_eqb (cstore In Out mode c j o') i = Some o2.
Proof. intros In Out mode in_eqb Hr. intros. eapply compute_size_hit_persists; eauto. Qed.

(* computed instance of the three identities on a 6-node toy tree: the first pass succeeds (output 15) and fills the root cache;
   the same query is then a hit that returns the tree unchanged; two size queries and a final-layout query with another input
   later, the first size query is still answered from the cache (57) *)
Definition c16_k : sk TS :=
  SNode TS (0%N, false)
    [SNode TS (1%N, false) [SNode TS (2%N, false) [SNode TS (3%N, false) []]; SNode TS (4%N, false) []]; SNode TS (5%N, false) []].
Example C16_accounting_example :
  (forall a, t_in_eqb a a = true) /\
  exists o t1,
    t_memo 8 (fresh TS TIn TOut TLay 0%N c16_k) (PerformLayout, 5%N) = Some (o, t1) /\ o = 15%N /\
    cget TIn TOut t_mode t_in_eqb (cache_of TS TIn TOut TLay t1) (PerformLayout, 5%N) = Some o /\
    t_memo 8 t1 (PerformLayout, 5%N) = Some (o, t1) /\
    exists o2 t2 o3 t3 o4 t4,
      t_memo 8 t1 (ComputeSize, 1%N) = Some (o2, t2) /\ t_memo 8 t2 (ComputeSize, 2%N) = Some (o3, t3) /\
      t_memo 8 t3 (PerformLayout, 6%N) = Some (o4, t4) /\
      cget TIn TOut t_mode t_in_eqb (cache_of TS TIn TOut TLay t4) (ComputeSize, 1%N) = Some o2 /\ o2 = 57%N.
Proof.
  split; [exact t_in_eqb_refl|].
  eexists. eexists. split; [vm_compute; reflexivity|]. split; [reflexivity|]. split; [vm_compute; reflexivity|].
  split; [vm_compute; reflexivity|].
  do 6 eexists. split; [vm_compute; reflexivity|]. split; [vm_compute; reflexivity|]. split; [vm_compute; reflexivity|].
  split; vm_compute; reflexivity.
Qed.

Print Assumptions C16_hit_is_free.
Print Assumptions C16_evaluated_then_hit.
Print Assumptions C16_exact_memo_no_clobber.
