(* compute_root_layout (src/compute/mod.rs) for a root without children, generic over `Num`: the block stretch-fit
   known_dimensions, perform_child_layout of the node through TaffyView::compute_child_layout's dispatch
   (`(Display::None, _)` -> hidden layout, `(_, false)` -> compute_leaf_layout with the node's measure function) on an
   empty cache, and the assembly of the final Layout.  Definitions only. *)
From Coq Require Import List Bool NArith.
From TV Require Import Model.Common Model.Leaf.
Import ListNotations.

Record Layout (T : Type) := mkLayout {
  l_order : N;
  l_location : Point T;
  l_size : Size T;
  l_content_size : Size T;
  l_scrollbar_size : Size T;
  l_border : Rect T;
  l_padding : Rect T;
  l_margin : Rect T;
}.
Arguments mkLayout {T}. Arguments l_order {T}. Arguments l_location {T}. Arguments l_size {T}.
Arguments l_content_size {T}. Arguments l_scrollbar_size {T}. Arguments l_border {T}. Arguments l_padding {T}.
Arguments l_margin {T}.

Section Root.
  Context {T : Type} `{Num T}.

  (* mod.rs l.60-123: known dimensions of a display:block root (NONE for every other display) *)
  Definition root_known_dimensions (style : Style T) (available_space : Size (AvailableSpace T)) : Size (option T) :=
    let known_dimensions := @size_NONE T in
    if is_block style then
      let parent_size := size_into_options available_space in
      let aspect_ratio := aspect_ratio style in
      let margin := rect_resolve_or_zero_lpa (margin style) (width parent_size) in
      let padding := rect_resolve_or_zero_lp (padding style) (width parent_size) in
      let border := rect_resolve_or_zero_lp (border style) (width parent_size) in
      let padding_border_size := sum_axes (rect_add padding border) in
      let box_sizing_adjustment :=
        match box_sizing style with ContentBox => padding_border_size | BorderBox => size_ZERO end in
      let min_size :=
        size_maybe_add_of
          (maybe_apply_aspect_ratio (size_maybe_resolve_dim (min_size style) parent_size) aspect_ratio)
          box_sizing_adjustment in
      let max_size :=
        size_maybe_add_of
          (maybe_apply_aspect_ratio (size_maybe_resolve_dim (max_size style) parent_size) aspect_ratio)
          box_sizing_adjustment in
      let clamped_style_size :=
        size_maybe_clamp_oo
          (size_maybe_add_of
             (maybe_apply_aspect_ratio (size_maybe_resolve_dim (size style) parent_size) aspect_ratio)
             box_sizing_adjustment)
          min_size max_size in
      (* both min and max set and max <= min: min is the size *)
      let min_max_definite_size :=
        size_zip_map (fun mn mx => match mn, mx with
                                   | Some mn, Some mx => if leb mx mn then Some mn else None
                                   | _, _ => None
                                   end) min_size max_size in
      (* block nodes stretch-fit their width when the available width is definite *)
      let available_space_based_size :=
        mkSize (maybe_sub_of (avail_into_option (width available_space)) (horizontal_axis_sum margin)) None in
      size_maybe_max_of
        (size_or (size_or (size_or known_dimensions min_max_definite_size) clamped_style_size) available_space_based_size)
        padding_border_size
    else known_dimensions.

  (* LayoutPartialTreeExt::perform_child_layout(root, known, available.into_options(), available, InherentSize, FALSE) *)
  Definition root_input (style : Style T) (available_space : Size (AvailableSpace T)) : LayoutInput T :=
    mkInput PerformLayout InherentSize (root_known_dimensions style available_space)
            (size_into_options available_space) available_space.

  (* TaffyView::compute_child_layout for a node without children and an empty cache *)
  Definition childless_child_layout (inputs : LayoutInput T) (style : Style T) (measure : MeasureFn T)
    : option (LayoutOutput T * list (MeasureCall T)) :=
    match run_mode inputs with
    | PerformHiddenLayout => Some (output_HIDDEN, [])
    | _ =>
        match display style with
        | DNone => Some (output_HIDDEN, [])
        | _ => compute_leaf_layout inputs style measure
        end
    end.

  (* mod.rs l.136-152 *)
  Definition root_assemble (style : Style T) (available_space : Size (AvailableSpace T)) (output : LayoutOutput T) : Layout T :=
    let basis := avail_into_option (width available_space) in
    let padding := rect_resolve_or_zero_lp (padding style) basis in
    let border := rect_resolve_or_zero_lp (border style) basis in
    let margin := rect_resolve_or_zero_lpa (margin style) basis in
    let scrollbar_size :=
      mkSize (if is_scroll (py (overflow style)) then scrollbar_width style else zero)
             (if is_scroll (px (overflow style)) then scrollbar_width style else zero) in
    mkLayout 0%N point_ZERO (out_size output) (out_content_size output) scrollbar_size border padding margin.

  (* the unrounded layout of a one-node tree and the measure calls made while computing it (None = panic) *)
  Definition root_leaf (style : Style T) (measure : MeasureFn T) (available_space : Size (AvailableSpace T))
    : option (Layout T * list (MeasureCall T)) :=
    match childless_child_layout (root_input style available_space) style measure with
    | Some (output, calls) => Some (root_assemble style available_space output, calls)
    | None => None
    end.
End Root.
