(* The two top programs of the grid sizing phase (Model/GridAlg.v: `m_track_sizing` = track_sizing_algorithm, `m_size_grid` = steps 6-7 of
   compute_grid_layout: the two sizing passes, the container size, the percentage re-resolution and the re-runs) are relational (`ProgRel` of
   Model/GridAlgRel.v), GIVEN that step 11.5 (`m_resolve_intrinsic`) is: the premise `Hintr` (proved in Proofs/GridRelBatch.v).  The absolute
   THRESHOLD of maximise_tracks makes the statement depend on `Hthr` (true at k = 1 only: the known finding). *)
From Coq Require Import QArith Bool List ZArith Lia.
From TV Require Import Num.Num Num.QNum Model.Common Model.Leaf Gen.GridTracksGen Model.GridTracks Model.GridIntrinsic.
From TV Require Import Model.GridAlgBase Model.GridAlg Model.FlexAlgBase Model.FlexAlgRel Model.GridAlgRel.
From TV Require Import Model.Scale Model.ScaleGrid Model.Engine Model.EngineRel.
From TV Require Import Proofs.ScalePrim Proofs.ScaleKit Proofs.ScaleProofs Proofs.ScaleGrid Proofs.GridRelKit Proofs.GridRelKernels Proofs.GridRelItems.
Import Model.GridAlg.
Import ListNotations.
Close Scope Z_scope.

Section Sizing.
  Variable k : Q.
  Hypothesis Hk : (0 < k)%Q.
  Hypothesis Hthr : sc k (threshold (T := XQ)) threshold.
  Hypothesis Hthr2 : sc k (base_threshold (T := XQ)) base_threshold.
  Notation L := (sc k).
  Notation O := (op_rel (sc k)).
  Notation VB := (pair_rel (tracks_rel k) (Forall2 (gitem_rel k))).

  (* step 11.5 is relational (Proofs/GridRelBatch.v) *)
  Hypothesis Hintr : forall ax inner inner' avail avail' fp ot ot' oadj oadj' items items' ts ts',
    sz_rel O inner inner' -> gavail_rel k avail avail' -> tracks_rel k ot ot' -> L oadj oadj' ->
    Forall2 (gitem_rel k) items items' -> tracks_rel k ts ts' ->
    ProgRel k VB (m_resolve_intrinsic ax inner avail fp ot oadj items ts) (m_resolve_intrinsic ax inner' avail' fp ot' oadj' items' ts').

  (* ---- the shared state *)
  Lemma rel_ss_tracks s s' ax : sstate_rel k s s' -> tracks_rel k (ss_tracks s ax) (ss_tracks s' ax).
  Proof. intros (Hc & Hr & _). destruct ax; assumption. Qed.
  Lemma rel_ss_adj s s' ax : sstate_rel k s s' -> L (ss_adj s ax) (ss_adj s' ax).
  Proof. intros (_ & _ & Hc & Hr & _). destruct ax; assumption. Qed.
  Lemma rel_ss_items s s' : sstate_rel k s s' -> Forall2 (gitem_rel k) (ss_items s) (ss_items s').
  Proof. intros (_ & _ & _ & _ & Hi). exact Hi. Qed.
  Lemma rel_ss_set s s' ax ts ts' a a' items items' :
    sstate_rel k s s' -> tracks_rel k ts ts' -> L a a' -> Forall2 (gitem_rel k) items items' ->
    sstate_rel k (ss_set s ax ts a items) (ss_set s' ax ts' a' items').
  Proof.
    intros (Hc & Hr & Hac & Har & Hi) Hts Ha Hit. destruct ax; unfold ss_set, sstate_rel; cbn [ss_cols ss_rows ss_adj_cols ss_adj_rows ss_items];
      repeat split; assumption.
  Qed.
  Lemma rel_ss_set_items s s' items items' :
    sstate_rel k s s' -> Forall2 (gitem_rel k) items items' -> sstate_rel k (ss_set_items s items) (ss_set_items s' items').
  Proof.
    intros (Hc & Hr & Hac & Har & Hi) Hit. unfold ss_set_items, sstate_rel; cbn [ss_cols ss_rows ss_adj_cols ss_adj_rows ss_items];
      repeat split; assumption.
  Qed.
  Lemma rel_mkSS c c' r r' ac ac' ar ar' items items' :
    tracks_rel k c c' -> tracks_rel k r r' -> L ac ac' -> L ar ar' -> Forall2 (gitem_rel k) items items' ->
    sstate_rel k (mkSS c r ac ar items) (mkSS c' r' ac' ar' items').
  Proof. intros. unfold sstate_rel; cbn [ss_cols ss_rows ss_adj_cols ss_adj_rows ss_items]. repeat split; assumption. Qed.

  Lemma rel_to_track_avail a a' : av_rel L a a' -> gavail_rel k (to_track_avail a) (to_track_avail a').
  Proof. destruct a, a'; cbn [av_rel to_track_avail gavail_rel]; intros H; try contradiction; exact H. Qed.
  Lemma rel_avail_is_definite a a' : av_rel L a a' -> avail_is_definite a' = avail_is_definite a.
  Proof. destruct a, a'; cbn [av_rel avail_is_definite]; intros H; try contradiction; reflexivity. Qed.
  Lemma rel_all_sized ts ts' : tracks_rel k ts ts' ->
    forallb (fun t => (base_size t =? growth_limit t)%num) ts' = forallb (fun t => (base_size t =? growth_limit t)%num) ts.
  Proof. intros Hts. apply (rel_forallb (track_rel k)); [|exact Hts]. intros t t' Ht. track_open Ht. apply (sc_eqb k); assumption. Qed.
  Lemma rel_has_baseline l l' : Forall2 (gitem_rel k) l l' ->
    existsb (fun g => ai_is_baseline (g_align g)) l' = existsb (fun g => ai_is_baseline (g_align g)) l.
  Proof. intros Hl. apply (rel_existsb (gitem_rel k)); [|exact Hl]. intros g g' Hg. gi_open Hg. rewrite Ega. reflexivity. Qed.
  Lemma rel_has_percentage ts ts' : tracks_rel k ts ts' -> existsb track_uses_percentage ts' = existsb track_uses_percentage ts.
  Proof. intros Hts. apply (rel_existsb (track_rel k)); [|exact Hts]. intros t t' Ht. apply (rel_track_uses_percentage k). exact Ht. Qed.

  (* ---- track_sizing_algorithm *)
  Lemma rel_m_track_sizing ax amin amin' amax amax' al oal ga ga' inner inner' fp hb s s' :
    O amin amin' -> O amax amax' -> sz_rel (av_rel L) ga ga' -> sz_rel O inner inner' -> sstate_rel k s s' ->
    ProgRel k (sstate_rel k) (m_track_sizing ax amin amax al oal ga inner fp hb s) (m_track_sizing ax amin' amax' al oal ga' inner' fp hb s').
  Proof.
    intros Hmn Hmx Hga Hin Hs. unfold m_track_sizing.
    pose proof (rel_get_ax O _ _ ax Hin) as Hai.
    pose proof (rel_to_track_avail _ _ (rel_get_ax (av_rel L) _ _ ax Hga)) as Hav.
    pose proof (initialize_track_sizes_homog k Hk _ _ _ _ Hai (rel_ss_tracks _ _ ax Hs)) as H0.
    set (ts0 := initialize_track_sizes (get_ax inner ax) (ss_tracks s ax)) in *.
    set (ts0' := initialize_track_sizes (get_ax inner' ax) (ss_tracks s' ax)) in *.
    set (avail := to_track_avail (get_ax ga ax)) in *. set (avail' := to_track_avail (get_ax ga' ax)) in *.
    eapply pbind_rel with (RA := Forall2 (gitem_rel k)).
    { destruct hb; [apply rel_m_resolve_item_baselines; [exact Hk|exact Hin|apply rel_ss_items; exact Hs]|constructor; apply rel_ss_items; exact Hs]. }
    intros items1 items1' Hit1. rewrite (rel_all_sized _ _ H0).
    destruct (forallb _ ts0).
    { constructor. apply rel_ss_set; [exact Hs|exact H0|apply rel_ss_adj; exact Hs|exact Hit1]. }
    pose proof (rel_ss_tracks _ _ (other_ax ax) Hs) as Hot.
    assert (Hoadj : L (if Nat.ltb 3 (length (ss_tracks s (other_ax ax)))
                       then compute_alignment_gutter_adjustment oal (get_ax inner (other_ax ax)) fp (ss_tracks s (other_ax ax))
                       else ss_adj s (other_ax ax))
                      (if Nat.ltb 3 (length (ss_tracks s' (other_ax ax)))
                       then compute_alignment_gutter_adjustment oal (get_ax inner' (other_ax ax)) fp (ss_tracks s' (other_ax ax))
                       else ss_adj s' (other_ax ax))).
    { rewrite (rel_length (track_rel k) _ _ Hot). destruct (Nat.ltb 3 _).
      - apply (rel_compute_alignment_gutter_adjustment k Hk); [apply rel_get_ax; exact Hin|exact Hot].
      - apply rel_ss_adj; exact Hs. }
    cbv zeta.
    set (oadj := if Nat.ltb 3 (length (ss_tracks s (other_ax ax))) then _ else _) in *.
    set (oadj' := if Nat.ltb 3 (length (ss_tracks s' (other_ax ax))) then _ else _) in *.
    eapply pbind_rel with (RA := VB).
    { apply Hintr; assumption. }
    intros [ts1 items2] [ts1' items2'] [Hts1 Hit2]. cbn [fst snd] in Hts1, Hit2.
    pose proof (maximise_tracks_homog k Hk _ _ _ _ _ _ _ _ Hthr Hai Hav Hts1) as H2.
    rewrite !maximise_tracks_t_threshold in H2.
    assert (Hae : gavail_rel k (match get_ax inner ax with Some sz => Definite sz | None => match avail with MinContentA => MinContentA | _ => MaxContentA end end)
                               (match get_ax inner' ax with Some sz => Definite sz | None => match avail' with MinContentA => MinContentA | _ => MaxContentA end end)).
    { destruct (get_ax inner ax), (get_ax inner' ax); cbn [op_rel] in Hai; try contradiction; [exact Hai|].
      destruct avail, avail'; cbn [gavail_rel] in Hav; try contradiction; exact I. }
    set (ae := match get_ax inner ax with Some sz => Definite sz | None => _ end) in *.
    set (ae' := match get_ax inner' ax with Some sz => Definite sz | None => _ end) in *.
    eapply pbind_rel with (RA := pair_rel (Forall2 (fitem_rel k)) (Forall2 (gitem_rel k))).
    { apply rel_m_flex_items; assumption. }
    intros [fi items3] [fi' items3'] [Hfi Hit3]. cbn [fst snd] in Hfi, Hit3.
    pose proof (expand_flexible_tracks_homog k Hk _ _ _ _ _ _ _ _ _ _ Hmn Hmx Hae Hfi H2) as H3.
    constructor. apply rel_ss_set; [exact Hs| |exact Hoadj|exact Hit3].
    destruct (is_stretch_content al); [apply (stretch_auto_tracks_homog k Hk); assumption|exact H3].
  Qed.
  (* ---- the container size *)
  Lemma rel_container_size P P' i i' cs cs' rs rs' :
    pre_rel k P P' -> fin_rel k i i' -> L cs cs' -> L rs rs' ->
    pair_rel (sz_rel L) (sz_rel L) (container_size P i cs rs) (container_size P' i' cs' rs').
  Proof.
    intros (Hpad & Hbor & Hpb & Hmin & Hmax & Hpref & Hgut & Hinset & Hga & Hout & Hinn) (_ & _ & _ & Hkn & _) Hcs Hrs.
    unfold container_size, pair_rel. cbn [fst snd]. unfold_lifts. hm k Hk.
  Qed.
End Sizing.
