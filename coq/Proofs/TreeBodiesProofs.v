(* C14 -- the method bodies translated from src/tree/taffy_tree.rs (Gen/TreeBodiesGen.v, target language
   Model/TreeImp.v) are equal to the hand-written methods of Model/Tree.v: every state, every argument. *)
From Coq Require Import NArith List Bool Arith Lia.
From TV Require Import Model.Tree Model.TreeImp Gen.TreeBodiesGen Proofs.TreeSlotMap.
Import ListNotations.

Ltac unf :=
  unfold st_set_parent, st_push_child, st_insert_child, st_vec_remove, st_vec_replace, st_vec_drain,
    st_vec_clear, st_get_mut_retain_ne, st_vec_write, st_mark_dirty, st_remove_children, st_remove_parents, st_remove_nodes,
    st_insert_nodes, st_insert_children, st_insert_parents, unwrap_ret, mark_dirty, of_opt, bind,
    set_parents_map, set_children_map, set_nodes in *.

Ltac red_ := cbn [fst snd t_nodes t_ctx t_children t_parents] in *.

Ltac case1 :=
  match goal with
  | H : ?x = _ |- context [match ?x with _ => _ end] => rewrite H
  | |- context [match ?x with _ => _ end] =>
      lazymatch x with
      | context [match _ with _ => _ end] => fail
      | _ => destruct x eqn:?
      end
  end.

Ltac crush := unf; red_; repeat (case1; red_); try reflexivity; try congruence.

Lemma gen_child_count_eq t p : gen_child_count t p = (n <- child_count t p ;; Ok (N.of_nat n)).
Proof. unfold gen_child_count, child_count. crush. Qed.

Lemma gen_child_at_index_eq t p i : gen_child_at_index t p i = child_at_index t p i.
Proof. unfold gen_child_at_index, child_at_index. crush. Qed.

Lemma gen_parent_eq t c : gen_parent t c = parent t c.
Proof. reflexivity. Qed.

Lemma gen_children_eq t p : gen_children t p = children t p.
Proof. unfold gen_children, children. crush. Qed.

Lemma gen_add_child_eq t p c : gen_add_child t p c = add_child t p c.
Proof. unfold gen_add_child, add_child. crush. Qed.

Lemma gen_insert_child_at_index_eq t p i c : gen_insert_child_at_index t p i c = insert_child_at_index t p i c.
Proof. unfold gen_insert_child_at_index, insert_child_at_index. crush. Qed.

Lemma gen_remove_child_at_index_eq t p i : gen_remove_child_at_index t p i = remove_child_at_index t p i.
Proof. unfold gen_remove_child_at_index, remove_child_at_index. crush. Qed.

Lemma gen_remove_child_eq t p c : gen_remove_child t p c = remove_child t p c.
Proof.
  unfold gen_remove_child, remove_child, position_N.
  unfold bind. destruct (sm_index (t_children t) p); [|reflexivity].
  destruct (position c a); cbn; [apply gen_remove_child_at_index_eq | reflexivity].
Qed.

Lemma gen_replace_child_at_index_eq t p i c : gen_replace_child_at_index t p i c = replace_child_at_index t p i c.
Proof. unfold gen_replace_child_at_index, replace_child_at_index. crush. Qed.

(* ---- loops *)
Lemma tree_eta t : mkTree (t_nodes t) (t_ctx t) (t_children t) (t_parents t) = t.
Proof. destruct t; reflexivity. Qed.

(* for child in l { self.parents[child] = v } *)
Lemma st_for_set_parent v : forall l t,
  st_for l (fun t1 c => t2 <- st_set_parent t1 c v ;; Ok t2) t =
  (p <- sm_set_all (t_parents t) l v ;; Ok (set_parents_map t p)).
Proof.
  induction l as [|c r IH]; intro t; cbn [st_for sm_set_all].
  - cbn. unfold set_parents_map. now rewrite tree_eta.
  - unfold st_set_parent at 1. unfold bind at 1 2 3. unfold bind at 2.
    destruct (sm_set (t_parents t) c v); [|reflexivity].
    rewrite IH. reflexivity.
Qed.

Lemma gen_remove_children_range_eq t p a b : gen_remove_children_range t p a b = remove_children_range t p a b.
Proof.
  unfold gen_remove_children_range, remove_children_range.
  unfold st_vec_drain. unfold bind at 1 2.
  destruct (sm_index (t_children t) p); [|reflexivity]. cbn [bind].
  destruct (N.ltb b a || N.ltb (N.of_nat (length a0)) b); [reflexivity|].
  unfold st_vec_write. unfold bind at 1 2. unfold bind at 4.
  destruct (sm_set (t_children t) p (vec_drain_rest a0 (N.to_nat a) (N.to_nat b))); [|reflexivity].
  cbn [bind fst snd]. rewrite st_for_set_parent. crush.
Qed.

Lemma gen_new_leaf_eq t : gen_new_leaf t = new_leaf t.
Proof. unfold gen_new_leaf, new_leaf. crush. Qed.

Lemma gen_new_with_children_eq t cs : gen_new_with_children t cs = new_with_children t cs.
Proof. unfold gen_new_with_children, new_with_children. cbv zeta. rewrite st_for_set_parent. crush. Qed.

Lemma gen_remove_eq t n : gen_remove t n = remove t n.
Proof.
  unfold gen_remove, remove. cbv zeta.
  destruct (sm_index (t_parents t) n) as [pp|]; cbn [bind]; [|reflexivity].
  destruct pp as [q|].
  - unfold st_get_mut_retain_ne, st_vec_write.
    destruct (sm_get (t_children t) q) eqn:Hq.
    + destruct (sm_set (t_children t) q (retain_ne n l)) eqn:Hs; cbn [bind]; [|reflexivity].
      unfold st_mark_dirty, mark_dirty, set_children_map. cbn [t_nodes bind].
      destruct (sm_contains (t_nodes t) q); cbn [bind t_children]; [|reflexivity].
      destruct (sm_get a n); [rewrite st_for_set_parent|]; crush.
    + unfold st_mark_dirty, mark_dirty. cbn [bind].
      destruct (sm_contains (t_nodes t) q); cbn [bind]; [|reflexivity].
      destruct (sm_get (t_children t) n); [rewrite st_for_set_parent|]; crush.
  - cbn [bind]. destruct (sm_get (t_children t) n); [rewrite st_for_set_parent|]; crush.
Qed.

(* ---- set_children *)
Lemma upd_upd {A} (l : list A) : forall i x y, upd (upd l i x) i y = upd l i y.
Proof. induction l as [|a r IH]; intros [|i] x y; cbn; try reflexivity. now rewrite IH. Qed.

Lemma sm_set_set {V} (m m1 : slotmap V) k a b : sm_set m k a = Ok m1 -> sm_set m1 k b = sm_set m k b.
Proof.
  intro H. pose proof (sm_get_set_same H) as Hg. pose proof (sm_set_live H) as Hl.
  unfold sm_set in *. rewrite Hg. destruct (sm_get m k); [|congruence].
  inversion H; subst. cbn [sm_slots sm_free sm_num]. now rewrite upd_upd.
Qed.

(* the second loop of set_children *)
Lemma st_for_set_children_loop p : forall cs t,
  st_for cs (fun t4 v_child =>
    o2 <- sm_index (t_parents t4) v_child ;;
    t6 <- match o2 with
      | Some v_previous_parent =>
          x3 <- gen_remove_child t4 v_previous_parent v_child ;;
          t5 <- unwrap_ret x3 ;;
          Ok t5
      | None => Ok t4
      end ;;
    t7 <- st_set_parent t6 v_child (Some p) ;;
    Ok t7) t = set_children_loop t p cs.
Proof.
  induction cs as [|c r IH]; intro t; cbn [st_for set_children_loop]; [reflexivity|].
  destruct (sm_index (t_parents t) c) as [pp|]; cbn [bind]; [|reflexivity].
  destruct pp as [q|].
  - rewrite gen_remove_child_eq. destruct (remove_child t q c) as [[t1 r1]|]; cbn [bind]; [|reflexivity].
    unfold unwrap_ret. cbn [fst snd].
    destruct r1; cbn [bind]; try reflexivity;
      unfold st_set_parent; destruct (sm_set (t_parents t1) c (Some p)); cbn [bind]; try reflexivity; apply IH.
  - cbn [bind]. unfold st_set_parent. destruct (sm_set (t_parents t) c (Some p)); cbn [bind]; [apply IH|reflexivity].
Qed.

(* parent_children.clear(); children.iter().for_each(|child| parent_children.push( * child)) *)
Lemma st_for_push k : forall cs t m1 acc,
  sm_set (t_children t) k acc = Ok m1 ->
  st_for cs (fun t10 c => t11 <- st_push_child t10 k c ;; Ok t11) (set_children_map t m1) =
  (c1 <- sm_set (t_children t) k (acc ++ cs) ;; Ok (set_children_map t c1)).
Proof.
  induction cs as [|c r IH]; intros t m1 acc H; cbn [st_for].
  - rewrite app_nil_r, H. reflexivity.
  - unfold st_push_child at 1. unfold st_vec_write, sm_index. unfold set_children_map at 1 2. cbn [t_children].
    rewrite (sm_get_set_same H). cbn [of_opt bind].
    rewrite (sm_set_set _ _ _ _ (acc ++ [c]) H).
    destruct (sm_set (t_children t) k (acc ++ [c])) as [m2|] eqn:H2; cbn [bind].
    + change (set_children_map (set_children_map t m1) m2) with (set_children_map t m2).
      rewrite (IH t m2 (acc ++ [c]) H2). now rewrite <- app_assoc.
    + unfold sm_set in *. destruct (sm_get (t_children t) k); congruence.
Qed.

Lemma gen_set_children_eq t p cs : gen_set_children t p cs = set_children t p cs.
Proof.
  unfold gen_set_children, set_children. cbv zeta.
  destruct (sm_index (t_children t) p) as [old|]; cbn [bind]; [|reflexivity].
  rewrite st_for_set_parent.
  destruct (sm_set_all (t_parents t) old None) as [p1|]; cbn [bind]; [|reflexivity].
  rewrite st_for_set_children_loop.
  destruct (set_children_loop (set_parents_map t p1) p cs) as [t2|]; cbn [bind]; [|reflexivity].
  unfold st_vec_clear, st_vec_write.
  destruct (sm_index (t_children t2) p) as [l0|]; cbn [bind]; [|reflexivity].
  destruct (sm_set (t_children t2) p []) as [m1|] eqn:H1; cbn [bind].
  - rewrite (st_for_push p cs t2 m1 [] H1). cbn [app].
    destruct (sm_set (t_children t2) p cs); cbn [bind]; [|reflexivity].
    unfold st_mark_dirty, mark_dirty, set_children_map. cbn [t_nodes].
    destruct (sm_contains (t_nodes t2) p); reflexivity.
  - unfold sm_set in *. destruct (sm_get (t_children t2) p); [congruence|reflexivity].
Qed.

(* ---- step / run built from the translated bodies *)
From TV Require Import Model.TreeGenStep Proofs.TreeProofs Proofs.TreeExamples.

Lemma gen_step_eq t o : gen_step t o = step t o.
Proof.
  destruct o; cbn [gen_step step];
    first [ reflexivity | apply gen_new_leaf_eq | apply gen_new_with_children_eq | apply gen_add_child_eq
          | apply gen_insert_child_at_index_eq | apply gen_set_children_eq | apply gen_remove_child_eq
          | apply gen_remove_child_at_index_eq | apply gen_remove_children_range_eq | apply gen_replace_child_at_index_eq
          | apply gen_remove_eq ].
Qed.

Lemma gen_run_eq os : forall t, gen_run t os = run t os.
Proof.
  intro t. unfold gen_run, run. generalize (Ok (t, @nil ret)) as acc.
  induction os as [|o r IH]; intro acc; cbn [fold_left]; [reflexivity|].
  rewrite <- IH. f_equal. destruct acc as [x|]; cbn [bind]; [|reflexivity]. now rewrite gen_step_eq.
Qed.

Lemma gen_refines t o : WF t -> pre (abs t) o ->
  exists t' out, gen_step t o = Ok (t', out) /\ WF t' /\
                 ~ In (next_key t) (live (abs t)) /\
                 spec_equiv (abs t') (fst (spec_step (abs t) o (next_key t))) /\
                 out = snd (spec_step (abs t) o (next_key t)).
Proof.
  intros W P. rewrite gen_step_eq. destruct (refines_all t o W P) as [[t' [out [Hs [W' [He Ho]]]]] Hf].
  exists t', out. split; [exact Hs|]. split; [exact W'|]. split; [exact Hf|]. split; [exact He | exact Ho].
Qed.

Lemma gen_history_from_new os : pre_hist tree_new os ->
  exists t' outs, gen_run tree_new os = Ok (t', outs) /\ WF t' /\ length outs = length os.
Proof. intro P. rewrite gen_run_eq. exact (proj2 (history os tree_new [] tree_new_WF P)). Qed.

Lemma gen_good_history_run :
  exists t, gen_run tree_new good_history = Ok (t, [RKey k1; RKey k2; RKey k3; RUnit; RUnit; RKey k2; RKey k2'; RUnit]) /\
            gen_children t k1 = Ok [k3] /\ gen_parent t k2' = Ok (Some k3) /\ gen_child_count t k3 = Ok 1%N /\
            gen_child_at_index t k1 0%N = Ok (RKey k3) /\ gen_child_at_index t k1 1%N = Ok (RErr k1 1%N 1%N).
Proof. eexists. split; [vm_compute; reflexivity|]. vm_compute. repeat split. Qed.
