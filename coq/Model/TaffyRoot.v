(* compute_root_layout (src/compute/mod.rs l.58-153) over the complete engine (Model/TaffyEngine.v): the known dimensions of the root,
   ONE memoised query on the root (perform_child_layout: PerformLayout, InherentSize, RequestedAxis::Both, parent size = available
   space, margins not collapsible) and the root's own stored layout; and the REAL instance of the engine's parameters.
   `Num`-generic, definitions only.

     taffy_root_input      `Root.root_known_dimensions` (the function C19's K and C19_root_* are about; Model/BlockRoot.v uses the same
                           one behind a style adapter) on the node's core style
     taffy_root_layout     l.136-152 = `Root.root_assemble` (order 0, location ZERO, padding / border / margin resolved against the
                           available width, scrollbar_size from the style), as an FLay
     taffy_compute_root    the whole function on an engine tree: None = out of fuel
     taffy_passes          TaffyTree::compute_layout_with_measure, rounding disabled, several calls in a row on the same tree (caches and
                           stored layouts carried over): every node's unrounded layout in pre-order after every pass
     real_*                the instance `vh taffytree` runs against the implementation: taffy_dispatch, block_pre (Model/BlockEngine.v),
                           abs_child_block (Model/BlockAbs.v), taffy_leaf *)
From Coq Require Import ZArith Bool List.
From TV Require Import Num.Num.
From TV Require Import Model.Common Model.Leaf Model.FlexAlgBase Model.BlockFlexEngine Model.TaffyEngine.
From TV Require Model.Root Model.Engine Model.EngineRel Model.EngineLift Model.Block Model.BlockAlg Model.BlockEngine Model.BlockAbs.
Import ListNotations.

Section TaffyRoot.
  Context {T : Type} `{Num T}.

  Notation tree := (Engine.tree (TStyle T) (FIn T) (LayoutOutput T) (FLay T)).

  Definition taffy_root_input (st : TStyle T) (avail : Size (AvailableSpace T)) : FIn T :=
    mkFIn Engine.PerformLayout InherentSize AxBoth (Root.root_known_dimensions (t_core st) avail) (size_into_options avail) avail
          (mkLine false false).

  Definition flay_of_layout (l : Root.Layout T) : FLay T :=
    mkFLay (Z.of_N (Root.l_order l)) (Root.l_location l) (Root.l_size l) (Root.l_content_size l) (Root.l_scrollbar_size l)
           (Root.l_border l) (Root.l_padding l) (Root.l_margin l).

  Definition taffy_root_layout (st : TStyle T) (avail : Size (AvailableSpace T)) (o : LayoutOutput T) : FLay T :=
    flay_of_layout (Root.root_assemble (t_core st) avail o).

  Section Params.
    Variable teq : T -> T -> bool.        (* equality of numbers inside the memo key *)
    Variable disp : TStyle T -> nat -> TKind.
    Variable pre : Block.BStyle T -> BlockAlg.BIn T -> BlockAlg.BIn T.
    Variable abs_child : @BlockAlg.AbsChild T.
    Variable leaf : TStyle T -> FIn T -> LayoutOutput T.

    Definition taffy_compute_root (fuel : nat) (t : tree) (avail : Size (AvailableSpace T)) : option tree :=
      let st := Engine.style_of _ _ _ _ t in
      match taffy_memo teq disp pre abs_child leaf fuel t (taffy_root_input st avail) with
      | Some (o, t') => Some (Engine.set_lay _ _ _ _ t' (taffy_root_layout st avail o))
      | None => None
      end.

    (* a sequence of compute_layout calls on the same tree (no mutation in between): the stored layouts after every pass *)
    Fixpoint taffy_passes (fuel : nat) (t : tree) (avails : list (Size (AvailableSpace T))) : option (list (list (FLay T)) * tree) :=
      match avails with
      | [] => Some ([], t)
      | a :: rest =>
          match taffy_compute_root fuel t a with
          | Some t' =>
              match taffy_passes fuel t' rest with
              | Some (ls, t'') => Some (EngineRel.lays _ _ _ _ t' :: ls, t'')
              | None => None
              end
          | None => None
          end
      end.

    Definition taffy_layout_passes (fuel : nat) (t : Engine.sk (TStyle T)) (avails : list (Size (AvailableSpace T)))
      : option (list (list (FLay T)) * tree) :=
      taffy_passes fuel (taffy_fresh t) avails.
  End Params.

  (* ---- the real instance; `teq` = the equality of numbers inside the memo key *)
  Definition real_algo := taffy_algo taffy_dispatch BlockEngine.block_pre BlockAbs.abs_child_block taffy_leaf.
  Definition real_memo teq := taffy_memo teq taffy_dispatch BlockEngine.block_pre BlockAbs.abs_child_block taffy_leaf.
  Definition real_compute_root teq := taffy_compute_root teq taffy_dispatch BlockEngine.block_pre BlockAbs.abs_child_block taffy_leaf.
  Definition real_layout_passes teq := taffy_layout_passes teq taffy_dispatch BlockEngine.block_pre BlockAbs.abs_child_block taffy_leaf.

  (* ---- the same engine on trees ALL of whose nodes are calm (Model/TaffyEngine.v t_calm): the style type is the subtype, the algorithm
     reads it through the projection -- so an engine tree over `CalmStyle` IS a tree of the complete engine without display:block nodes
     and without baseline alignment, and every mutation of a history stays in the class *)
  Definition CalmStyle : Type := { s : TStyle T | t_calm s = true }.
  Definition calm_style (s : CalmStyle) : TStyle T := proj1_sig s.
  Definition calm_is_none (s : CalmStyle) : bool := t_is_none (calm_style s).
  Definition calm_algo : CalmStyle -> list CalmStyle -> FIn T -> Engine.Alg (FIn T) (LayoutOutput T) (FLay T) :=
    EngineLift.style_comap (TStyle T) CalmStyle (FIn T) (LayoutOutput T) (FLay T) calm_style real_algo.
End TaffyRoot.
