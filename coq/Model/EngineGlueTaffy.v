(* The accessors of the translated TaffyView::compute_child_layout (Gen/EngineGlueGen.v) instantiated with the engine of
   Model/TaffyEngine.v (block, flex, grid containers and leaves): the node's display style, its number of children, and what each
   dispatch target runs.  Definitions only; theorems in Proofs/EngineGlueTaffy.v. *)
From Coq Require Import ZArith Bool List.
From TV Require Import Model.Common Model.Leaf Model.FlexAlgBase Model.BlockFlexEngine Model.TaffyEngine.
From TV Require Import Gen.EngineGlueGen Model.EngineGlue.
From TV Require Model.Engine.
Import ListNotations.
Close Scope Z_scope.
Close Scope N_scope.

Definition glue_display_of (d : Display) : GlueDisplay :=
  match d with DBlock => GD_Block | DFlex => GD_Flex | DGrid => GD_Grid | DNone => GD_None end.

Section GlueTaffy.
  Context {T : Type} `{Num T}.
  Notation ttree := (Engine.tree (TStyle T) (FIn T) (LayoutOutput T) (FLay T)).

  (* what the MODEL selects for a node with style s and n children: `Engine.memo` tests `t_is_none` first (the (Display::None, _) arm),
     then `taffy_algo` dispatches with `taffy_dispatch` *)
  Definition model_kind (s : TStyle T) (n : nat) : GKind :=
    if t_is_none s then GK_hidden
    else match taffy_dispatch s n with TKBlock => GK_block | TKFlex => GK_flex | TKGrid => GK_grid | TKLeaf => GK_leaf end.

  Definition tg_display_of (t : ttree) (_ : unit) : GlueDisplay :=
    glue_display_of (display (t_core (Engine.style_of _ _ _ _ t))).
  Definition tg_child_count (t : ttree) (_ : unit) : nat := length (Engine.kids_of _ _ _ _ t).

  (* the translated compute_child_layout on the node t; `ev` evaluates the children (the recursive calls through the trait) *)
  Definition tg_compute_child_layout (teq : T -> T -> bool) pre abs_child leaf
      (ev : ttree -> FIn T -> option (LayoutOutput T * ttree)) (t : ttree) (i : FIn T) : option (ttree * LayoutOutput T) :=
    glue_compute_child_layout ttree unit (FIn T) (LayoutOutput T)
      (eg_is_hidden (FIn T) qi_mode)
      (eg_hidden _ _ _ _ output_HIDDEN (f_with_order 0))
      (fun t _ i f => eg_cached_layout _ _ _ _ qi_mode (fin_eqb_with teq) t i f)
      tg_display_of tg_child_count
      (eg_run _ _ _ _ (block_alg_t pre abs_child) ev)
      (eg_run _ _ _ _ flex_alg_t ev)
      (eg_run _ _ _ _ grid_alg_t ev)
      (eg_run _ _ _ _ (fun s _ i => Engine.Ret (FIn T) (LayoutOutput T) (FLay T) (leaf s i)) ev)
      t tt i.
End GlueTaffy.
