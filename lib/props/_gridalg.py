"""Shared by C05 / C06: K of the grid RESUMPTION (coq/Model/GridAlg.v `grid_alg`, runner coq/Model/GridAlgRun.v) against the event trace
of `compute_grid_layout` on the implementation (`vh gridalg cases`, harness/src/gridalg.rs).

One case = one evaluation of a root grid container (random treegen tree: children of every kind incl. display:none, position:absolute,
nested containers, measured leaves; random LayoutInput: both run modes, both sizing modes, known / parent sizes, every available space).
The harness records every compute_child_layout (input AND output) and set_unrounded_layout (layout) the root's algorithm issues; the Coq
resumption is walked feeding it the recorded outputs, and the two event sequences are compared

    structurally  (which child, Query/SetLayout, run mode, sizing mode, requested axis, Some/None pattern of known dimensions and parent size,
                   kind of available space per axis, and for SetLayout the `order`)
    bit for bit   (every f32 payload of every input, stored layout and of the container's output).

A STRUCTURAL disagreement is a broken correspondence in every check that runs this K (C05, C06, C09).  A payload-only disagreement is a
broken correspondence in ./check C09 (the owner of the grid arithmetic: there the K runs with payload_is_broken=True) and is counted and
logged by C05 / C06, whose theorems about the resumption use no arithmetic fact -- an arithmetic change must not make them cry wolf.

Run as a script for development:  python3 -m lib.props._gridalg <seed> <n> [family] [show]"""
import struct
from ..common import *
from ..stages import *

IMPORTS = 'From TV Require Import Model.GridAlgRun.'
QLEN, SLEN, RLEN = 19, 23, 9
FIXED = 72


def fl(z):
    return struct.unpack('f', struct.pack('I', z & 0xffffffff))[0]


def events(r):
    """Split an R list into events: ('Q', child, input17) / ('S', child, layout21) / ('R', output8) / ('X', code...)."""
    ev, k = [], 0
    while k < len(r):
        t = r[k]
        if t == 0 and k + QLEN <= len(r):
            ev.append(('Q', r[k + 1], r[k + 2:k + QLEN]))
            k += QLEN
        elif t == 1 and k + SLEN <= len(r):
            ev.append(('S', r[k + 1], r[k + 2:k + SLEN]))
            k += SLEN
        elif t == 2 and k + RLEN <= len(r):
            ev.append(('R', -1, r[k + 1:k + RLEN]))
            k += RLEN
        else:
            ev.append(('X', -1, r[k:]))
            break
    return ev


def skeleton(ev):
    """The structural view of an event."""
    kind, child, p = ev
    if kind == 'Q':
        return ('Q', child, p[0], p[1], p[2], p[3], p[5], p[7], p[9], p[11], p[13], p[15], p[16])
    if kind == 'S':
        return ('S', child, p[0])
    if kind == 'R':
        return ('R', p[4], p[6])
    return ('X',) + tuple(p)


def describe_event(ev):
    kind, child, p = ev
    o = lambda h, v: '-' if h == 0 else repr(fl(v))
    a = lambda t, v: repr(fl(v)) if t == 0 else ('min' if t == 1 else 'max')
    if kind == 'Q':
        return 'Query child %d %s %s axis%d known=(%s,%s) parent=(%s,%s) avail=(%s,%s)' % (
            child, ['PerformLayout', 'ComputeSize', 'Hidden'][p[0]], ['Inherent', 'Content'][p[1]], p[2],
            o(p[3], p[4]), o(p[5], p[6]), o(p[7], p[8]), o(p[9], p[10]), a(p[11], p[12]), a(p[13], p[14]))
    if kind == 'S':
        return 'SetLayout child %d order %d at (%r,%r) size (%r,%r) content (%r,%r) sb (%r,%r) border %s padding %s margin %s' % (
            child, p[0], fl(p[1]), fl(p[2]), fl(p[3]), fl(p[4]), fl(p[5]), fl(p[6]), fl(p[7]), fl(p[8]),
            [fl(x) for x in p[9:13]], [fl(x) for x in p[13:17]], [fl(x) for x in p[17:21]])
    if kind == 'R':
        return 'Ret size (%r,%r) content (%r,%r) baseline_y %s' % (fl(p[0]), fl(p[1]), fl(p[2]), fl(p[3]), o(p[6], p[7]))
    return 'model marker %s' % (p[:3],)


MARKERS = {-2: 'the recorded answers ran out: the resumption asks more than the implementation did',
           -3: 'the model of a Rust panic was evaluated (grid_no_panic fails) on a case the implementation did not panic on',
           -4: 'the case does not decode', -5: 'recorded answers left over: the resumption asks less than the implementation did'}


def marker_of(model):
    """The runner's marker in a model result (Model/GridAlgRun.v: a negative integer where an event tag 0 / 1 / 2 is expected), or None."""
    for e in events(model):
        if e[0] == 'X':
            return e[2][0] if e[2] else -4
    return None if model else -4


def compare(impl, model):
    """-> (structural_ok, exact_ok, message).  A marker of the runner is never a match: it is a STRUCTURAL disagreement."""
    mk = marker_of(model)
    if mk is not None:
        return False, False, 'the runner printed the marker %s (%s); model result %s...' % (mk, MARKERS.get(mk, 'not an event'), model[:6])
    a, b = events(impl), events(model)
    sa, sb = [skeleton(e) for e in a], [skeleton(e) for e in b]
    if sa != sb:
        k = 0
        while k < min(len(sa), len(sb)) and sa[k] == sb[k]:
            k += 1
        ia = describe_event(a[k]) if k < len(a) else '<end>'
        ib = describe_event(b[k]) if k < len(b) else '<end>'
        return False, False, 'event %d of %d/%d: implementation: %s | resumption: %s' % (k, len(a), len(b), ia, ib)
    if impl != model:
        k = 0
        while a[k] == b[k]:
            k += 1
        return True, False, 'event %d of %d (same structure, payload differs): implementation: %s | resumption: %s' % (
            k, len(a), describe_event(a[k]), describe_event(b[k]))
    return True, True, ''


def skip_style(c, k, with_tracks=True):
    """index after the style starting at c[k]"""
    k += FIXED
    for _ in range(2):       # templates
        n = c[k]
        k += 1
        for _ in range(n):
            t = c[k]
            if t == 0:
                k += 5
            elif t == 1:
                k += 3 + 4 * c[k + 2]
            else:
                k += 2 + 4 * c[k + 1]
    for _ in range(2):       # auto tracks
        n = c[k]
        k += 1 + 4 * n
    return k


def case_features(c, r):
    """Coverage features of a case (from the C line and the implementation's events)."""
    k = skip_style(c, 0)
    root, inp = c[:k], c[k:k + 17]
    n = c[k + 17]
    kids, k = [], k + 18
    for _ in range(n):
        k2 = skip_style(c, k)
        kids.append(c[k:k2])
        k = k2
    ev = events(r)
    f = set()
    f.add('mode=%s' % ['PerformLayout', 'ComputeSize'][inp[0]])
    f.add('avail_w=%s' % ['definite', 'min', 'max'][inp[11]])
    f.add('avail_h=%s' % ['definite', 'min', 'max'][inp[13]])
    if any(kd[0] == 3 for kd in kids):
        f.add('hidden-child')
    if any(kd[1] == 1 and kd[0] != 3 for kd in kids):
        f.add('absolute-child')
    if any(kd[1] == 1 and kd[0] != 3 and any(kd[j] != 0 for j in (63, 65, 67, 69)) for kd in kids):
        f.add('absolute-child-with-lines')
    if inp[0] == 1 and any(e[0] == 'Q' and e[2][0] == 0 for e in ev):
        f.add('PerformLayout-query-in-ComputeSize')
    nm = len([e for e in ev if e[0] == 'Q' and e[2][0] == 1])
    if nm:
        f.add('measuring-queries')
    if nm > 4 * max(1, len([kd for kd in kids if kd[0] != 3 and kd[1] == 0])):
        f.add('re-run-of-track-sizing(likely)')
    if root[FIXED] or root[skip_tpl(root, FIXED)]:
        f.add('template')
    return f


def skip_tpl(c, k):
    n = c[k]
    k += 1
    for _ in range(n):
        t = c[k]
        if t == 0:
            k += 5
        elif t == 1:
            k += 3 + 4 * c[k + 2]
        else:
            k += 2 + 4 * c[k + 1]
    return k


def gridalg_k(rep, pid, binp, seed, n, family=0, timeout=600, payload_is_broken=True):
    """Generate n cases, evaluate the resumption, compare.  Returns a dict of counts (also stored in rep.cov).
    family 0: any children; 1: display:none children but no absolute ones (C05); 2: absolute children but no display:none ones (C06)."""
    rc, out = vh(binp, ['gridalg', 'cases', seed, n, family], timeout=300)
    if rc != 0:
        rep.add_broken('correspondence', 'vh gridalg cases', out[-800:])
        return None
    cases, impl = parse_cr(out)
    done = re.search(r'^DONE (\d+) (\d+) (\d+) (\d+) (\d+)$', out, re.M)
    xchk = [l for l in out.split('\n') if l.startswith('XCHK')]
    if not done or xchk:
        rep.add_broken('correspondence', 'gridalg harness: hook trace vs recording', (xchk[:3] or out[-300:]))
        return None
    with Lock('coq'):
        rcm, outm, _ = coq_make(['Model/GridAlgRun.vo'])
    if rcm != 0:
        rep.add_broken('correspondence', 'grid resumption K (building Model/GridAlgRun.v)', outm[-1500:])
        return None
    try:
        model = run_model('gridalg_%s' % pid, IMPORTS, 'run_case', cases, scope='Z', elem='list Z', timeout=timeout)
    except RuntimeError as ex:
        rep.add_broken('correspondence', 'grid resumption K (model evaluation)', str(ex)[-1500:])
        return None
    nstruct = nexact = 0
    feats = {}
    distinct = set()
    reported = 0
    npay_logged = 0
    nev = 0
    nmark = {}
    for c, a, b in zip(cases, impl, model):
        s_ok, e_ok, msg = compare(a, b)
        mk = marker_of(b)
        if mk is not None:
            nmark[str(mk)] = nmark.get(str(mk), 0) + 1
        nstruct += s_ok
        nexact += e_ok
        nev += len(events(a))
        for f in case_features(c, a):
            feats[f] = feats.get(f, 0) + 1
        if len(events(a)) > 1:
            distinct.add(tuple(c))
        if not e_ok and (payload_is_broken or not s_ok) and reported < 4:
            reported += 1
            rep.add_broken('correspondence', 'grid resumption K (%s)' % ('payload' if s_ok else 'event structure'),
                           {'what': msg, 'case': c, 'impl': a, 'model': b})
        elif not e_ok and s_ok and not payload_is_broken and npay_logged < 2:
            npay_logged += 1
            log('[%s] grid resumption K: payload-only disagreement (reported by ./check C09): %s' % (pid, msg[:300]))
    rep.cov['evaluations'] = rep.cov.get('evaluations', 0) + len(cases)
    res = {'cases': len(cases), 'family': family, 'skipped_panics': int(done.group(2)), 'structure_agrees': nstruct, 'bit_exact': nexact,
           'runner_markers': nmark, 'payload_only_disagreements': nstruct - nexact, 'payload_disagreement_fails_this_check': payload_is_broken,
           'events': nev, 'compute_size_cases': int(done.group(4)),
           'compute_size_cases_with_a_PerformLayout_query': int(done.group(5)),
           'features': feats, 'distinct_with_child_traffic': len(distinct)}
    rep.cov['gridalg_k'] = res
    rep.cov.setdefault('samples', []).append({'gridalg_case': cases[0][:20], 'implementation_events': [describe_event(e) for e in events(impl[0])][:8]})
    return res


def witness(rep, pid, binp, name):
    """`vh gridalg witness <name>`: the implementation's events and the resumption's on the deterministic witness trees.
    -> list of (impl events, model events) per variant, or None."""
    rc, out = vh(binp, ['gridalg', 'witness', name], timeout=60)
    try:
        cases, impl = parse_cr(out)
        model = run_model('gridalg_w%s_%s' % (name, pid), IMPORTS, 'run_case', cases, scope='Z', elem='list Z', timeout=120)
    except RuntimeError as ex:
        rep.add_broken('correspondence', 'grid resumption witness `%s`' % name, str(ex)[-800:])
        return None
    if rc != 0 or not impl or impl != model:
        rep.add_broken('correspondence', 'grid resumption witness `%s`: implementation vs resumption' % name, {'impl': impl, 'model': model})
        return None
    return [events(a) for a in impl]


def abs_witness(rep, pid, binp):
    """The witness of C06_grid_algorithm_abs_blind_refuted on the implementation: grid-auto-rows 7px, one absolute child
    (a) on grid_row 4, (b) bare, (c) absent: the container is 28 / 7 / 0 px high; the resumption reproduces the three runs exactly."""
    evs = witness(rep, pid, binp, 'abs')
    if evs is None:
        return
    hs = [fl(e[-1][2][1]) for e in evs]
    ok = hs == [28.0, 7.0, 0.0]
    rep.cov['grid_abs_witness'] = {'container_heights': hs, 'reproduces_on_implementation': ok,
                                   'events': [[describe_event(x) for x in e] for e in evs]}
    if not ok:
        rep.add_broken('correspondence', 'C06_grid_algorithm_abs_blind_refuted witness vs implementation (expected heights 28, 7, 0)', {'heights': hs})


def ns_witness(rep, pid, binp):
    """The witness of C01_grid_algorithm_NS_refuted on the implementation: a grid with two baseline-aligned children in one row,
    evaluated in ComputeSize mode, issues PerformLayout queries (resolve_item_baselines runs before the ComputeSize return)."""
    evs = witness(rep, pid, binp, 'baseline')
    if evs is None:
        return
    lq = [e for e in evs[0] if e[0] == 'Q' and e[2][0] == 0]
    ok = len(lq) >= 2
    rep.cov['grid_ns_witness'] = {'reproduces_on_implementation': ok, 'PerformLayout_queries_in_ComputeSize_evaluation': len(lq),
                                  'events': [describe_event(x) for x in evs[0]]}
    if not ok:
        rep.add_broken('correspondence', 'C01_grid_algorithm_NS_refuted witness vs implementation', {'events': rep.cov['grid_ns_witness']['events']})


if __name__ == '__main__':
    import sys
    seed, n = int(sys.argv[1]), int(sys.argv[2])
    family = int(sys.argv[3]) if len(sys.argv) > 3 else 0
    show = int(sys.argv[4]) if len(sys.argv) > 4 else 6
    rc, out, binp, dt = build_harness('release')
    assert rc == 0, out[-2000:]
    rc, out = vh(binp, ['gridalg', 'cases', seed, n, family], timeout=300)
    cases, impl = parse_cr(out)
    print([l for l in out.split('\n') if l.startswith(('DONE', 'XCHK', 'SKIP'))][:5])
    t0 = time.time()
    model = run_model('gridalg_dev', IMPORTS, 'run_case', cases, scope='Z', elem='list Z')
    print('model evaluated in %.1fs' % (time.time() - t0))
    ns = ne = 0
    shown = 0
    idxs = []
    feats = {}
    for j, (c, a, b) in enumerate(zip(cases, impl, model)):
        s_ok, e_ok, msg = compare(a, b)
        ns += s_ok
        ne += e_ok
        for f in case_features(c, a):
            feats[f] = feats.get(f, 0) + 1
        if not e_ok:
            idxs.append(j)
            if shown < show:
                shown += 1
                print('case %d: %s' % (j, msg))
    print('cases %d structure %d exact %d; failing idx %s' % (len(cases), ns, ne, idxs[:60]))
    print(sorted(feats.items()))
