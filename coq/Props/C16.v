(* C16 -- layout cost.  Only the ACCOUNTING identities are theorems (engine skeleton, every algorithm): why a memo bounds
   the number of evaluations.  The numeric bound of the property (64 x node count; no growth with chain depth) is a fact
   about the query sequences of the real flex/grid/block algorithms interacting with the 9 lossy cache slots; it is
   explored on the implementation, not proved -- and it does not hold on the pinned tree (known findings). *)
From Coq Require Import List Bool Arith.
From TV Require Import Model.Engine Proofs.EngineCount.
Import ListNotations.

(* a cache hit evaluates nothing: the subtree (caches, layouts) is returned as it is *)
Theorem C16_hit_is_free :
  forall (S In Out Lay : Type) (mode : In -> RunMode) (in_eqb : In -> In -> bool) (is_none : S -> bool)
         (hidden_out : Out) (zero_lay : Lay) (algo : S -> list S -> In -> Alg In Out Lay) f s c l kids i o,
    mode i <> PerformHiddenLayout -> cget In Out mode in_eqb c i = Some o ->
    memo S In Out Lay mode in_eqb is_none hidden_out zero_lay algo (Datatypes.S f) (Node S In Out Lay s c l kids) i
      = Some (o, Node S In Out Lay s c l kids).
Proof. intros. apply hit_is_free; assumption. Qed.

(* once a query has been evaluated, the same query is answered from the cache *)
Theorem C16_evaluated_then_hit :
  forall (S In Out Lay : Type) (mode : In -> RunMode) (in_eqb : In -> In -> bool) (is_none : S -> bool)
         (hidden_out : Out) (zero_lay : Lay) (algo : S -> list S -> In -> Alg In Out Lay),
    (forall a, in_eqb a a = true) ->
    forall f t i o t', mode i <> PerformHiddenLayout ->
      memo S In Out Lay mode in_eqb is_none hidden_out zero_lay algo f t i = Some (o, t') ->
      cget In Out mode in_eqb (cache_of S In Out Lay t') i = Some o.
Proof. intros until algo. intros Hr. intros. eapply evaluated_then_hit; eauto. Qed.

(* with an exact memo a size query stays answered whatever is stored later (no clobbering) *)
Theorem C16_exact_memo_no_clobber :
  forall (In Out : Type) (mode : In -> RunMode) (in_eqb : In -> In -> bool),
    (forall a, in_eqb a a = true) ->
    forall c i o j o', mode i = ComputeSize -> cget In Out mode in_eqb c i = Some o ->
      exists o2, cget In Out mode in_eqb (cstore In Out mode c j o') i = Some o2.
Proof. intros In Out mode in_eqb Hr. intros. eapply compute_size_hit_persists; eauto. Qed.

Print Assumptions C16_hit_is_free.
Print Assumptions C16_evaluated_then_hit.
Print Assumptions C16_exact_memo_no_clobber.
