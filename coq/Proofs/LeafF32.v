(* Property C19 over the bit-exact F32 instance: the order-only clause "never below padding + border" holds for
   binary32 arithmetic as well (no rounding analysis needed: the last operation of both return paths is a `max` with
   padding + border).  Uses only the comparison lemmas of Flocq's BinarySingleNaN. *)
From Coq Require Import ZArith Bool List.
From Flocq Require Import IEEE754.BinarySingleNaN.
From TV Require Import Num.Num Num.F32 Model.Common Model.Leaf Model.Root Model.LeafSpec.
Import ListNotations.

Lemma Bcompare_refl32 (p : f32) : f_is_nan p = false -> Bcompare p p = Some Eq.
Proof.
  destruct p as [s | s | | s m e B]; cbn; try discriminate; intros _.
  - reflexivity.
  - destruct s; reflexivity.
  - destruct s; rewrite Z.compare_refl, Pos.compare_cont_refl; reflexivity.
Qed.

Lemma Bcompare_some32 (a p : f32) : f_is_nan a = false -> f_is_nan p = false -> exists c, Bcompare a p = Some c.
Proof.
  destruct a as [s | s | | s m e B], p as [s' | s' | | s' m' e' B']; cbn; try discriminate; intros _ _; eauto.
Qed.

(* Rust's f32::max never returns less than a non-NaN right operand *)
Lemma f_max_ge_r (a p : f32) : f_is_nan p = false -> f_leb p (f_max a p) = true.
Proof.
  intro Np. unfold f_max, f_leb, Bleb, SpecFloat.SFleb. fold (Bcompare p).
  change (SpecFloat.SFcompare (B2SF p)) with (fun x => SpecFloat.SFcompare (B2SF p) x).
  destruct (f_is_nan a) eqn:Na.
  - change (SpecFloat.SFcompare (B2SF p) (B2SF p)) with (Bcompare p p). rewrite (Bcompare_refl32 p Np). reflexivity.
  - rewrite Np. unfold f_ltb, Bltb, SpecFloat.SFltb.
    change (SpecFloat.SFcompare (B2SF a) (B2SF p)) with (Bcompare a p).
    destruct (Bcompare_some32 a p Na Np) as [c Ec]. rewrite Ec.
    destruct c.
    + change (SpecFloat.SFcompare (B2SF p) (B2SF a)) with (Bcompare p a). rewrite (Bcompare_swap _ _ a p), Ec. reflexivity.
    + change (SpecFloat.SFcompare (B2SF p) (B2SF p)) with (Bcompare p p). rewrite (Bcompare_refl32 p Np). reflexivity.
    + change (SpecFloat.SFcompare (B2SF p) (B2SF a)) with (Bcompare p a). rewrite (Bcompare_swap _ _ a p), Ec. reflexivity.
Qed.

(* both return paths of compute_leaf_layout end in `.maybe_max(padding_border.sum_axes().map(Some))`: any Num *)
Section Shape.
  Context {T : Type} `{Num T}.
  Lemma leaf_out_size_shape_gen (inputs : LayoutInput T) (st : Style T) (measure : MeasureFn T) out calls :
    compute_leaf_layout inputs st measure = Some (out, calls) ->
    exists a b, out_size out = mkSize (fmax a (horizontal_axis_sum (le_padding_border (leaf_env inputs st))))
                                      (fmax b (vertical_axis_sum (le_padding_border (leaf_env inputs st)))).
  Proof.
    unfold compute_leaf_layout. destruct (leaf_early inputs (leaf_env inputs st)) as [o|] eqn:E.
    - intro H'; inversion H'; subst; clear H'. unfold leaf_early in E.
      destruct (run_mode inputs); try discriminate.
      destruct (le_prevent_collapse _); try discriminate.
      destruct (width (le_node_size _)); try discriminate. destruct (height (le_node_size _)); try discriminate.
      inversion E; subst; clear E. eexists; eexists; reflexivity.
    - destruct (leaf_measure_known inputs); try discriminate.
      intro H'; inversion H'; subst; clear H'. eexists; eexists; reflexivity.
  Qed.
End Shape.

Lemma leaf_floor_f32 (inputs : LayoutInput f32) (st : Style f32) (measure : MeasureFn f32) out calls :
  compute_leaf_layout inputs st measure = Some (out, calls) ->
  f_is_nan (horizontal_axis_sum (le_padding_border (leaf_env inputs st))) = false ->
  f_is_nan (vertical_axis_sum (le_padding_border (leaf_env inputs st))) = false ->
  f_leb (horizontal_axis_sum (le_padding_border (leaf_env inputs st))) (width (out_size out)) = true /\
  f_leb (vertical_axis_sum (le_padding_border (leaf_env inputs st))) (height (out_size out)) = true.
Proof.
  intros H Nw Nh. destruct (leaf_out_size_shape_gen _ _ _ _ _ H) as (a & b & E). rewrite E. cbn [width height].
  split; apply f_max_ge_r; assumption.
Qed.

(* the root of a one-node tree, binary32: the border-box size is at least the (rounded) sum of padding and border as the
   code computes it, (left + left') + (right + right'), whenever that sum is not NaN *)
Lemma root_floor_f32 (st : Style f32) (measure : MeasureFn f32) (av : Size (AvailableSpace f32)) lay calls :
  display st <> DNone ->
  root_leaf st measure av = Some (lay, calls) ->
  let pb := sum_axes (rect_add (sp_padding st av) (sp_border st av)) in
  f_is_nan (width pb) = false -> f_is_nan (height pb) = false ->
  f_leb (width pb) (width (l_size lay)) = true /\ f_leb (height pb) (height (l_size lay)) = true.
Proof.
  intros D H pb Nw Nh. unfold root_leaf, childless_child_layout in H. cbn [run_mode root_input] in H.
  destruct (compute_leaf_layout (root_input st av) st measure) as [[o c]|] eqn:E;
    [| destruct (display st); try discriminate; congruence].
  assert (Hl : l_size lay = out_size o).
  { destruct (display st); try congruence; inversion H; reflexivity. }
  rewrite Hl.
  assert (P : le_padding_border (leaf_env (root_input st av) st) = rect_add (sp_padding st av) (sp_border st av)).
  { destruct st, display; reflexivity. }
  pose proof (leaf_floor_f32 _ _ _ _ _ E) as F. rewrite P in F. apply F; assumption.
Qed.
