(* The instance of Model/GridRelExample.v at scale k (definitions only): styles and input scaled by k, the oracle answering k times as much;
   `ge_scaled_same k r r'` compares a run with k times another one. *)
From Coq Require Import QArith ZArith Bool List.
From TV Require Import Num.Num Num.QNum Model.Common Model.Leaf Model.Scale Model.GridAlgBase Model.GridAlg Model.FlexAlgBase Model.FlexAlgRel
     Model.GridAlgRel Model.Engine Model.GridRelExample.
Import ListNotations.
Close Scope Z_scope.

Definition ge_oracle_k (k : Q) (c : nat) (i : GIn XQ) : LayoutOutput XQ :=
  from_outer_size (mkSize (opt_unwrap_or (width (gi_known i)) (x_scale k (gq 20))) (opt_unwrap_or (height (gi_known i)) (x_scale k (gq 8)))).
Definition ge_run_k (k : Q) (s : GStyle XQ) (st : list (GStyle XQ)) : option (LayoutOutput XQ * list (nat * GLay XQ)) :=
  alg_run (GIn XQ) (LayoutOutput XQ) (GLay XQ) 64 (ge_oracle_k k) (grid_alg (gstyle_scale k s) (map (gstyle_scale k) st) (fin_scale k ge_input)).
Definition ge_scale_result (k : Q) (r : option (LayoutOutput XQ * list (nat * GLay XQ))) : option (LayoutOutput XQ * list (nat * GLay XQ)) :=
  option_map (fun p => (output_scale k (fst p), map (fun cl => (fst cl, flay_scale k (snd cl))) (snd p))) r.
Definition ge_scaled_same (k : Q) (r r' : option (LayoutOutput XQ * list (nat * GLay XQ))) : bool := ge_same (ge_scale_result k r) r'.
