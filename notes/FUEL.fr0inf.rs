use taffy::prelude::*;
fn main() {
    let zero = std::env::args().nth(1).map(|s| s == "zero").unwrap_or(false);
    let mut t: TaffyTree<()> = TaffyTree::new();
    let child = t.new_leaf(Style { size: Size { width: length(50.0), height: length(20.0) }, ..Default::default() }).unwrap();
    let root = t.new_with_children(Style {
        display: Display::Grid, size: Size { width: length(f32::INFINITY), height: auto() },
        grid_template_columns: vec![fr(if zero { 0.0 } else { 1.0 })],
        ..Default::default()
    }, &[child]).unwrap();
    eprintln!("start");
    t.compute_layout(root, Size { width: AvailableSpace::Definite(f32::INFINITY), height: AvailableSpace::MaxContent }).unwrap();
    eprintln!("done {:?}", t.layout(root).unwrap().size);
}
