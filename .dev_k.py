import sys
sys.path.insert(0,'/verif-wt/w4c')
from lib.common import *
from lib.props import _flexalg as F
rc,out,binp,dt = build_harness('release')
seed, n = int(sys.argv[1]), int(sys.argv[2])
rc,out = vh(binp,['flexalg','cases',seed,n])
cases, impl = parse_cr(out)
model = run_model('flexalg_dev', F.IMPORTS, 'run_case', cases, scope='Z', elem='list Z')
feats={}
lens={}
for c,a,b in zip(cases,impl,model):
    for f in F.case_features(c,a): feats[f]=feats.get(f,0)+1
    l=len(F.events(a)); lens[l]=lens.get(l,0)+1
print(sorted(feats.items()))
print(sorted(lens.items()))
j=int(sys.argv[3])
for e in F.events(model[j]): print(F.describe_event(e))
print(impl[j]==model[j])
