(* Fuel sufficiency of `distribute_loop` (Model/GridTracks.v) for ARBITRARY affected-filters, proportions, affected
   properties and limits: `mstep_progress` (Proofs/GridTracksProofs.v, proportion 1, all tracks affected) generalised.

   Exact instance XQ.  Class `dist_ok p prop lim` (Model/FuelDistDefs.v): affected property finite, limit finite or +inf, incurred
   increase finite and >= 0, proportion finite and >= 0; the four functions do not read `item_incurred_increase` (`inc_inv`);
   finite space.  One round that does not end the loop either
     - uses `inc = min_increase_limit`: the track attaining the minimum has a positive proportion (a zero proportion gives the
       ratio +inf), receives exactly `limit - prop` and stops being growable (incurred >= 0), and no track becomes growable; or
     - uses `inc = space / psum`: every growable track with a positive proportion accepts `inc * proportion`, together `space`:
       the space left is <= 0 and the next test `space > THRESHOLD` ends the loop.
   Hence at most (number of growable tracks) + 1 rounds; the fuel is 2 * length + 8. *)
From Coq Require Import ZArith QArith Qminmax Bool List Lia Lqa.
From TV Require Import Num.Num Num.QNum Gen.GridTracksGen Model.GridTracks Model.GridIntrinsic Model.FuelDistDefs
                       Proofs.GridTracksProofs Proofs.FuelNumProofs.
Import ListNotations.
Local Open Scope Q_scope.

(* ---- values that are finite or +infinity *)
Definition fp (x : XQ) : Prop := match x with Fin _ | PInf => True | _ => False end.

Lemma fp_leb_refl a : fp a -> x_leb a a = true.
Proof. destruct a; simpl; try contradiction; auto. intros _. apply Qle_bool_iff. lra. Qed.

Lemma fp_leb_trans a b c : fp a -> fp b -> fp c -> x_leb a b = true -> x_leb b c = true -> x_leb a c = true.
Proof.
  destruct a as [a| | |], b as [b| | |], c as [c| | |]; simpl; intros Ha Hb Hc H1 H2; try contradiction; try discriminate; auto.
  apply Qle_bool_iff in H1, H2. apply Qle_bool_iff. lra.
Qed.

Lemma fp_ltb_false a b : fp a -> fp b -> x_ltb a b = false -> x_leb b a = true.
Proof.
  destruct a as [a| | |], b as [b| | |]; simpl; intros Ha Hb H1; try contradiction; try discriminate; auto.
  destruct (Qle_bool b a); simpl in *; congruence.
Qed.

Lemma fp_ltb_leb a b : fp a -> fp b -> x_ltb a b = true -> x_leb a b = true.
Proof.
  destruct a as [a| | |], b as [b| | |]; simpl; intros Ha Hb H1; try contradiction; try discriminate; auto.
  destruct (Qle_bool b a) eqn:E; simpl in *; [discriminate|]. apply Qle_bool_false in E. apply Qle_bool_iff. lra.
Qed.

Lemma fold_min_spec (r : list XQ) : forall x, fp x -> Forall fp r ->
  let m := fold_left (fun acc y : XQ => if x_ltb y acc then y else acc) r x in
  In m (x :: r) /\ fp m /\ forall z, In z (x :: r) -> x_leb m z = true.
Proof.
  induction r as [|y r IH]; intros x Hx Hr; cbv zeta; cbn [fold_left].
  - split; [left; reflexivity|]. split; [exact Hx|]. intros z [E|[]]. subst. apply fp_leb_refl. exact Hx.
  - inversion Hr as [|? ? Hy Hr']; subst.
    set (a := if x_ltb y x then y else x).
    assert (Ha : fp a) by (unfold a; destruct (x_ltb y x); assumption).
    assert (Hax : x_leb a x = true).
    { unfold a. destruct (x_ltb y x) eqn:E; [apply fp_ltb_leb; assumption|apply fp_leb_refl; assumption]. }
    assert (Hay : x_leb a y = true).
    { unfold a. destruct (x_ltb y x) eqn:E; [apply fp_leb_refl; assumption|apply fp_ltb_false; assumption]. }
    assert (Hain : a = x \/ a = y) by (unfold a; destruct (x_ltb y x); auto).
    destruct (IH a Ha Hr') as [Hin [Hm Hle]]. cbv zeta in *.
    set (m := fold_left (fun acc y0 : XQ => if x_ltb y0 acc then y0 else acc) r a) in *.
    split; [|split; [exact Hm|]].
    + destruct Hin as [E|Hin]; [|right; right; exact Hin]. rewrite <- E. destruct Hain as [E'|E']; rewrite E'; [left|right; left]; reflexivity.
    + assert (Hma : x_leb m a = true) by (apply Hle; left; reflexivity).
      intros z [E|[E|Hz]].
      * subst z. apply (fp_leb_trans m a x); assumption.
      * subst z. apply (fp_leb_trans m a y); assumption.
      * apply Hle. right. exact Hz.
Qed.

Lemma min_by_first_spec (xs : list XQ) : Forall fp xs -> xs <> [] ->
  let m := @min_by_first XQ _ xs in In m xs /\ fp m /\ forall z, In z xs -> x_leb m z = true.
Proof.
  intros Hf Hne. destruct xs as [|x r]; [congruence|]. inversion Hf as [|? ? Hx Hr]; subst.
  exact (fold_min_spec r x Hx Hr).
Qed.

Lemma x_min_fp m a : fp m -> exists y, x_min m (Fin a) = Fin y /\ y <= a /\ x_leb (Fin y) m = true /\ (y = a \/ m = Fin y).
Proof.
  destruct m as [q| | |]; simpl; try contradiction; intros _.
  - unfold x_min. cbn [x_is_nan]. destruct (x_ltb (Fin a) (Fin q)) eqn:E.
    + apply x_ltb_fin in E. exists a. split; [reflexivity|]. split; [lra|]. split; [apply Qle_bool_iff; lra|left; reflexivity].
    + apply x_ltb_fin_false in E. exists q. split; [reflexivity|]. split; [exact E|]. split; [apply Qle_bool_iff; lra|right; reflexivity].
  - exists a. split; [reflexivity|]. split; [lra|]. split; [reflexivity|left; reflexivity].
Qed.

Lemma q_sign_pos q : 0 < q -> q_sign q = Gt.
Proof. intro Hq. unfold q_sign. apply Z.compare_gt_iff. destruct q as [n d]. unfold Qlt in Hq. simpl in *. lia. Qed.
Lemma q_sign_zero q : q == 0 -> q_sign q = Eq.
Proof. intro Hq. unfold q_sign. apply Z.compare_eq_iff. destruct q as [n d]. unfold Qeq in Hq. simpl in *. lia. Qed.

Lemma qsum_nonneg l : Forall (fun q => 0 <= q) l -> 0 <= qsum l.
Proof. induction 1; simpl; lra. Qed.

Lemma x_div_pos a b : 0 < b -> x_div (Fin a) (Fin b) = Fin (a / b).
Proof. intro Hb. simpl. rewrite (q_sign_pos b Hb). reflexivity. Qed.

(* ------------------------------------------------------------------------------------------------ the loop *)
Section Dist.
  Variable aff : track XQ -> bool.
  Variables p prop lim : track XQ -> XQ.
  Hypothesis Haff : inc_inv aff.
  Hypothesis Hp : inc_inv p.
  Hypothesis Hprop : inc_inv prop.
  Hypothesis Hlim : inc_inv lim.

  Notation dok := (dist_ok p prop lim).
  Definition dgrow : track XQ -> bool := growable aff prop lim.
  Definition dstep := distribute_step aff p prop lim.
  Definition dloop := distribute_loop aff p prop lim.
  Definition dapply := apply_increase aff p prop lim.
  Definition DG (l : list (track XQ)) : nat := length (filter dgrow l).
  Definition ratio (t : track XQ) : XQ := x_div (x_sub (lim t) (prop t)) (p t).

  (* what one iteration does to one track *)
  Definition dacc (inc : XQ) (t : track XQ) : bool :=
    aff t && (x_ltb (Fin 0) (x_mul inc (p t)) && x_leb (x_add (prop t) (x_mul inc (p t))) (x_add (lim t) (Fin T_q))).
  Definition dbump (inc : XQ) (t : track XQ) : track XQ :=
    if dacc inc t then set_incurred t (x_add (incurred t) (x_mul inc (p t))) else t.
  Definition acc_sum (y : Q) (tracks : list (track XQ)) : Q :=
    qsum (map (fun t => if dacc (Fin y) t then y * val (p t) else 0) tracks).

  Lemma dapply_map inc space tracks : snd (dapply inc space tracks) = map (dbump inc) tracks.
  Proof.
    revert space. induction tracks as [|t r IH]; intro space; [reflexivity|].
    unfold dapply. cbn [apply_increase map]. fold dapply. rewrite threshold_xq. xq0.
    unfold dbump at 1. unfold dacc. destruct (aff t); cbn [andb].
    - destruct (x_ltb (Fin 0) (x_mul inc (p t)) && x_leb (x_add (prop t) (x_mul inc (p t))) (x_add (lim t) (Fin T_q))) eqn:E.
      + specialize (IH (x_sub space (x_mul inc (p t)))).
        destruct (dapply inc (x_sub space (x_mul inc (p t))) r). simpl in *. rewrite IH. reflexivity.
      + specialize (IH space). destruct (dapply inc space r). simpl in *. rewrite IH. reflexivity.
    - specialize (IH space). destruct (dapply inc space r). simpl in *. rewrite IH. reflexivity.
  Qed.

  Lemma dok_inv t : dok t -> exists b i pt, prop t = Fin b /\ incurred t = Fin i /\ p t = Fin pt /\ 0 <= i /\ 0 <= pt /\
                                            (lim t = PInf \/ exists l, lim t = Fin l).
  Proof.
    intros [Hb [Hl [Hi [Hi0 [Hpf Hp0]]]]]. destruct (fin_inv _ Hb) as [b Eb]. destruct (fin_inv _ Hi) as [i Ei].
    destruct (fin_inv _ Hpf) as [pt Ept]. exists b, i, pt. rewrite Ei in Hi0. rewrite Ept in Hp0. simpl in *.
    repeat (split; [assumption|]). destruct Hl as [Hl|Hl]; [right; apply fin_inv; exact Hl|left; exact Hl].
  Qed.

  Lemma dgrow_set t v : dgrow (set_incurred t v) = x_ltb (x_add (prop t) v) (lim t) && aff t.
  Proof. unfold dgrow, growable. rewrite (Hprop t v), (Hlim t v), (Haff t v). reflexivity. Qed.

  Lemma dgrow_unfold t : dgrow t = x_ltb (x_add (prop t) (incurred t)) (lim t) && aff t.
  Proof. reflexivity. Qed.

  (* the head-room ratio of a growable track *)
  Lemma ratio_cases t : dok t -> dgrow t = true ->
    exists b i pt, prop t = Fin b /\ incurred t = Fin i /\ p t = Fin pt /\ 0 <= i /\ 0 <= pt /\ aff t = true /\
      ((lim t = PInf /\ ratio t = PInf)
       \/ (exists l, lim t = Fin l /\ b + i < l /\ pt == 0 /\ ratio t = PInf)
       \/ (exists l, lim t = Fin l /\ b + i < l /\ 0 < pt /\ ratio t = Fin ((l + - b) / pt))).
  Proof.
    intros Hok Hg. destruct (dok_inv t Hok) as [b [i [pt [Eb [Ei [Ept [Hi [Hpt Hl]]]]]]]].
    rewrite dgrow_unfold in Hg. apply andb_true_iff in Hg. destruct Hg as [Hlt Ha].
    exists b, i, pt. repeat (split; [assumption|]). unfold ratio. rewrite Eb, Ept. rewrite Eb, Ei in Hlt.
    destruct Hl as [El|[l El]]; rewrite El in *.
    - left. split; [reflexivity|]. simpl. destruct (Qlt_le_dec 0 pt) as [Hc|Hc].
      + rewrite (q_sign_pos pt Hc). reflexivity.
      + rewrite (q_sign_zero pt); [reflexivity|lra].
    - right. cbn [x_add] in Hlt. apply x_ltb_fin in Hlt. destruct (Qlt_le_dec 0 pt) as [Hc|Hc].
      + right. exists l. split; [reflexivity|]. split; [exact Hlt|]. split; [exact Hc|].
        cbn [x_sub x_neg x_add]. apply x_div_pos. exact Hc.
      + left. exists l. split; [reflexivity|]. split; [exact Hlt|]. split; [lra|].
        cbn [x_sub x_neg x_add x_div]. rewrite (q_sign_zero pt); [|lra]. rewrite (q_sign_pos (l + - b)); [reflexivity|lra].
  Qed.

  Lemma ratio_fp t : dok t -> dgrow t = true -> fp (ratio t).
  Proof.
    intros Hok Hg. destruct (ratio_cases t Hok Hg) as [b [i [pt [_ [_ [_ [_ [_ [_ Hc]]]]]]]]].
    destruct Hc as [[_ E]|[[l [_ [_ [_ E]]]]|[l [_ [_ [_ E]]]]]]; rewrite E; exact I.
  Qed.

  Lemma dbump_dok y t : dok t -> 0 < y -> dok (dbump (Fin y) t).
  Proof.
    intros Ht Hy. destruct (dok_inv t Ht) as [b [i [pt [Eb [Ei [Ept [Hi [Hpt Hl]]]]]]]].
    unfold dbump. destruct (dacc (Fin y) t); [|exact Ht].
    destruct Ht as [H1 [H2 [H3 [H4 [H5 H6]]]]].
    unfold dist_ok. rewrite (Hprop t _), (Hlim t _), (Hp t _). cbn [incurred set_incurred]. rewrite Ei, Ept in *.
    cbn [x_mul x_add finite val] in *. repeat (split; [assumption|]). split; [nra|]. split; assumption.
  Qed.

  (* the space left after one iteration *)
  Lemma dapply_fst y sp tracks : Forall dok tracks ->
    exists sp', fst (dapply (Fin y) (Fin sp) tracks) = Fin sp' /\ sp' == sp - acc_sum y tracks.
  Proof.
    revert sp. induction tracks as [|t r IH]; intros sp Hok.
    - exists sp. split; [reflexivity|]. unfold acc_sum. cbn [map qsum]. lra.
    - inversion Hok as [|? ? Ht Hr]; subst.
      destruct (dok_inv t Ht) as [b [i [pt [Eb [Ei [Ept [Hi [Hpt Hl]]]]]]]].
      unfold dapply. cbn [apply_increase]. fold dapply. rewrite threshold_xq. xq0.
      unfold acc_sum. cbn [map qsum]. fold (acc_sum y r).
      assert (Ed : dacc (Fin y) t = aff t && (x_ltb (Fin 0) (x_mul (Fin y) (p t))
                                               && x_leb (x_add (prop t) (x_mul (Fin y) (p t))) (x_add (lim t) (Fin T_q)))) by reflexivity.
      rewrite Ed. clear Ed. destruct (aff t); cbn [andb].
      + destruct (x_ltb (Fin 0) (x_mul (Fin y) (p t)) && x_leb (x_add (prop t) (x_mul (Fin y) (p t))) (x_add (lim t) (Fin T_q))).
        * rewrite Ept. cbn [x_mul x_sub x_add x_neg val].
          destruct (IH (sp + - (y * pt)) Hr) as [sp' [E1 E2]].
          destruct (dapply (Fin y) (Fin (sp + - (y * pt))) r) as [s0 r0]. cbn [fst] in *. subst s0.
          exists sp'. split; [reflexivity|]. rewrite E2. lra.
        * destruct (IH sp Hr) as [sp' [E1 E2]]. destruct (dapply (Fin y) (Fin sp) r) as [s0 r0]. cbn [fst] in *. subst s0.
          exists sp'. split; [reflexivity|]. rewrite E2. lra.
      + destruct (IH sp Hr) as [sp' [E1 E2]]. destruct (dapply (Fin y) (Fin sp) r) as [s0 r0]. cbn [fst] in *. subst s0.
        exists sp'. split; [reflexivity|]. rewrite E2. lra.
  Qed.

  Lemma acc_sum_ge y tracks : 0 < y -> Forall dok tracks ->
    (forall t, In t tracks -> dgrow t = true -> 0 < val (p t) -> dacc (Fin y) t = true) ->
    y * qsum (map (fun t => val (p t)) (filter dgrow tracks)) <= acc_sum y tracks.
  Proof.
    intros Hy Hok Hacc. induction tracks as [|t r IH].
    - unfold acc_sum. cbn [filter map qsum]. lra.
    - inversion Hok as [|? ? Ht Hr]; subst.
      assert (IH' : y * qsum (map (fun t => val (p t)) (filter dgrow r)) <= acc_sum y r).
      { apply IH; [exact Hr|]. intros t' Hin. apply Hacc. right. exact Hin. }
      destruct (dok_inv t Ht) as [b [i [pt [Eb [Ei [Ept [Hi [Hpt Hl]]]]]]]].
      unfold acc_sum. cbn [filter map qsum]. fold (acc_sum y r).
      assert (Hterm : 0 <= (if dacc (Fin y) t then y * val (p t) else 0)).
      { destruct (dacc (Fin y) t); [|lra]. rewrite Ept. simpl. nra. }
      destruct (dgrow t) eqn:Eg; [|lra].
      cbn [map qsum]. rewrite Ept in Hterm |- *. cbn [val] in Hterm |- *.
      destruct (Qlt_le_dec 0 pt) as [Hc|Hc].
      + rewrite (Hacc t (or_introl eq_refl) Eg) by (rewrite Ept; exact Hc). lra.
      + assert (pt == 0) by lra. assert (y * pt == 0) by nra. lra.
  Qed.

  Lemma dstep_progress sp tracks s' ts' : Forall dok tracks -> dstep (Fin sp) tracks = Some (s', ts') ->
    Forall dok ts' /\ exists sp', s' = Fin sp' /\ ((DG ts' < DG tracks)%nat \/ sp' <= 0).
  Proof.
    intros Hok Hstep. unfold dstep, distribute_step in Hstep. rewrite threshold_xq in Hstep. xq0.
    destruct (x_ltb (Fin T_q) (Fin sp)) eqn:Esp; [|discriminate]. apply x_ltb_fin in Esp.
    change (growable aff prop lim) with dgrow in Hstep. set (g := filter dgrow tracks) in *.
    assert (Hgin : forall t, In t g -> In t tracks /\ dgrow t = true) by (intro t; unfold g; apply filter_In).
    pose proof Hok as Hall. rewrite Forall_forall in Hall.
    destruct (fsum_fin (map p g)) as [ps [Eps Hps]].
    { apply Forall_forall. intros x Hx. apply in_map_iff in Hx. destruct Hx as [t [Ex Ht]]. subst x.
      destruct (Hgin t Ht) as [Hin _]. destruct (Hall t Hin) as [_ [_ [_ [_ [Hf _]]]]]. exact Hf. }
    rewrite Eps in Hstep. rewrite map_map in Hps.
    destruct (x_eqb (Fin ps) (Fin 0)) eqn:Ez; [discriminate|].
    assert (Hps0 : 0 <= ps).
    { rewrite Hps. apply qsum_nonneg. apply Forall_forall. intros x Hx. apply in_map_iff in Hx. destruct Hx as [t [Ex Ht]]. subst x.
      destruct (Hgin t Ht) as [Hin _]. destruct (Hall t Hin) as [_ [_ [_ [_ [_ Hf]]]]]. exact Hf. }
    assert (Hpsp : 0 < ps).
    { destruct (Qlt_le_dec 0 ps) as [Hc|Hc]; [exact Hc|]. exfalso. assert (Hz : ps == 0) by lra.
      apply x_eqb_fin in Hz. congruence. }
    assert (Hgne : g <> []).
    { intro Eg. rewrite Eg in Hps. cbn [map qsum] in Hps. lra. }
    change (map (fun t : track XQ => x_div (x_sub (lim t) (prop t)) (p t)) g) with (map ratio g) in Hstep.
    assert (Hrs : Forall fp (map ratio g)).
    { apply Forall_forall. intros x Hx. apply in_map_iff in Hx. destruct Hx as [t [Ex Ht]]. subst x.
      destruct (Hgin t Ht) as [Hin Hgt]. apply ratio_fp; auto. }
    assert (Hrne : map ratio g <> []) by (destruct g; [congruence|discriminate]).
    destruct (min_by_first_spec (map ratio g) Hrs Hrne) as [Hm_in [Hm_fp Hm_le]]. cbv zeta in *.
    set (m := @min_by_first XQ _ (map ratio g)) in *.
    rewrite (x_div_pos sp ps Hpsp) in Hstep.
    destruct (x_min_fp m (sp / ps) Hm_fp) as [y [Ey [Hy1 [Hy2 Hy3]]]]. rewrite Ey in Hstep.
    inversion Hstep as [Hres]. clear Hstep.
    assert (Ets : ts' = map (dbump (Fin y)) tracks).
    { rewrite <- (dapply_map (Fin y) (Fin sp) tracks). unfold dapply. rewrite Hres. reflexivity. }
    destruct (dapply_fst y sp tracks Hok) as [sp' [Es1 Es2]]. unfold dapply in Es1. rewrite Hres in Es1. cbn [fst] in Es1.
    assert (Hdivpos : 0 < sp / ps).
    { apply Qlt_shift_div_l; [exact Hpsp|]. pose proof T_q_pos. lra. }
    (* the track attaining the minimum, when the minimum is the increase *)
    assert (Hmin_track : m = Fin y -> exists tm b i pt l, In tm tracks /\ dgrow tm = true /\ prop tm = Fin b /\ incurred tm = Fin i
                                       /\ p tm = Fin pt /\ lim tm = Fin l /\ 0 <= i /\ 0 < pt /\ b + i < l /\ y = (l + - b) / pt).
    { intro Em. apply in_map_iff in Hm_in. destruct Hm_in as [tm [Etm Htm]]. destruct (Hgin tm Htm) as [Hin Hgt].
      destruct (ratio_cases tm (Hall tm Hin) Hgt) as [b [i [pt [Eb [Ei [Ept [Hi [Hpt [Ha Hc]]]]]]]]].
      rewrite Em in Etm.
      destruct Hc as [[_ E]|[[l [_ [_ [_ E]]]]|[l [El [Hlt [Hpp E]]]]]]; rewrite E in Etm; try discriminate.
      inversion Etm as [Ey']. exists tm, b, i, pt, l. repeat (split; [assumption|]). reflexivity. }
    assert (Hy_pos : 0 < y).
    { destruct Hy3 as [Hy3|Hy3]; [rewrite Hy3; exact Hdivpos|].
      destruct (Hmin_track Hy3) as [tm [b [i [pt [l [_ [_ [_ [_ [_ [_ [Hi [Hpt [Hlt Ey']]]]]]]]]]]]]].
      rewrite Ey'. apply Qlt_shift_div_l; [exact Hpt|]. lra. }
    (* every growable track with a positive proportion accepts *)
    assert (Hacc : forall t, In t tracks -> dgrow t = true -> 0 < val (p t) -> dacc (Fin y) t = true).
    { intros t Hin Hgt Hpos.
      destruct (ratio_cases t (Hall t Hin) Hgt) as [b [i [pt [Eb [Ei [Ept [Hi [Hpt [Ha Hc]]]]]]]]].
      rewrite Ept in Hpos. cbn [val] in Hpos.
      unfold dacc. rewrite Ha, Eb, Ept. cbn [andb x_mul x_add].
      assert (Hlt0 : x_ltb (Fin 0) (Fin (y * pt)) = true) by (apply x_ltb_fin; nra).
      rewrite Hlt0. cbn [andb].
      destruct Hc as [[El _]|[[l [_ [_ [Hz _]]]]|[l [El [Hlt [Hpp E]]]]]].
      - rewrite El. reflexivity.
      - lra.
      - rewrite El. cbn [x_add]. apply x_leb_fin.
        assert (Hle : x_leb (Fin y) (ratio t) = true).
        { apply (fp_leb_trans (Fin y) m (ratio t)); [exact I|exact Hm_fp|rewrite E; exact I|exact Hy2|].
          apply Hm_le. apply in_map_iff. exists t. split; [reflexivity|]. unfold g. apply filter_In. auto. }
        rewrite E in Hle. apply x_leb_fin in Hle.
        assert (Hmul : (l + - b) / pt * pt == l + - b) by (field; lra).
        pose proof T_q_pos. nra. }
    split.
    - subst ts'. apply Forall_forall. intros t' Hin'. apply in_map_iff in Hin'. destruct Hin' as [t [Et Hin]]. subst t'.
      apply dbump_dok; auto.
    - exists sp'. split; [exact Es1|].
      destruct Hy3 as [Hy3|Hy3].
      + (* the space is used up *)
        right. pose proof (acc_sum_ge y tracks Hy_pos Hok Hacc) as Hge. fold g in Hge. rewrite <- Hps in Hge.
        assert (Hprod : y * ps == sp) by (rewrite Hy3; field; lra).
        rewrite Es2. lra.
      + (* the least head-room is used up: that track stops being growable, none becomes growable *)
        left. destruct (Hmin_track Hy3) as [tm [b [i [pt [l [Hin [Hgt [Eb [Ei [Ept [El [Hi [Hpt [Hlt Ey']]]]]]]]]]]]]].
        subst ts'. unfold DG. apply filter_map_count_lt.
        * intros t Hint Hgt'. unfold dbump in Hgt'. destruct (dacc (Fin y) t) eqn:Ea; [|exact Hgt'].
          rewrite dgrow_set in Hgt'. rewrite dgrow_unfold.
          destruct (dok_inv t (Hall t Hint)) as [b0 [i0 [pt0 [Eb0 [Ei0 [Ept0 [Hi0 [Hpt0 Hl0]]]]]]]].
          rewrite Eb0, Ei0, Ept0 in *. cbn [x_mul x_add] in *.
          apply andb_true_iff in Hgt'. destruct Hgt' as [G1 G2]. rewrite G2, andb_true_r.
          destruct Hl0 as [El0|[l0 El0]]; rewrite El0 in *; [reflexivity|].
          apply x_ltb_fin in G1. apply x_ltb_fin. nra.
        * exists tm. split; [exact Hin|]. split; [exact Hgt|].
          assert (Ea : dacc (Fin y) tm = true) by (apply Hacc; auto; rewrite Ept; exact Hpt).
          unfold dbump. rewrite Ea. rewrite dgrow_set. rewrite Eb, Ei, Ept, El. cbn [x_mul x_add].
          assert (Hnl : x_ltb (Fin (b + (i + y * pt))) (Fin l) = false).
          { apply x_ltb_fin_false. assert (Hmul : (l + - b) / pt * pt == l + - b) by (field; lra).
            rewrite Ey'. lra. }
          rewrite Hnl. reflexivity.
  Qed.

  Lemma dstep_none_nonpos sp tracks : sp <= 0 -> dstep (Fin sp) tracks = None.
  Proof.
    intro Hsp. unfold dstep, distribute_step. rewrite threshold_xq. xq0.
    destruct (x_ltb (Fin T_q) (Fin sp)) eqn:E; [|reflexivity]. apply x_ltb_fin in E. pose proof T_q_pos. lra.
  Qed.

  Lemma dstep_none_G0 space tracks : DG tracks = 0%nat -> dstep space tracks = None.
  Proof.
    intro Hg. unfold dstep, distribute_step. destruct (ltb threshold space); [|reflexivity].
    change (growable aff prop lim) with dgrow. unfold DG in Hg. apply length_zero_iff_nil in Hg. rewrite Hg. reflexivity.
  Qed.

  Lemma DG_le_length tracks : (DG tracks <= length tracks)%nat.
  Proof. unfold DG. induction tracks as [|a l IH]; simpl; [lia|]. destruct (dgrow a); simpl; lia. Qed.

  (* the result of the loop is in the class, its space is finite and its exit test holds *)
  Lemma dloop_exits n : forall sp tracks fuel, Forall dok tracks -> (DG tracks <= n)%nat -> (n + 1 <= fuel)%nat ->
    let r := dloop fuel (Fin sp) tracks in
    dstep (fst r) (snd r) = None /\ Forall dok (snd r) /\ finite (fst r) /\ length (snd r) = length tracks.
  Proof.
    induction n as [|n IH]; intros sp tracks fuel Hok Hg Hfuel; cbv zeta.
    - assert (Hg0 : DG tracks = 0%nat) by lia. destruct fuel as [|f]; [lia|].
      unfold dloop. cbn [distribute_loop]. fold dstep. rewrite (dstep_none_G0 _ _ Hg0). cbn [fst snd].
      split; [apply dstep_none_G0; exact Hg0|]. split; [exact Hok|]. split; [exact I|reflexivity].
    - destruct fuel as [|f]; [lia|]. unfold dloop. cbn [distribute_loop]. fold dstep. fold dloop.
      destruct (dstep (Fin sp) tracks) as [[s' ts']|] eqn:Es.
      2: { cbn [fst snd]. split; [exact Es|]. split; [exact Hok|]. split; [exact I|reflexivity]. }
      destruct (dstep_progress _ _ _ _ Hok Es) as [Hok' [sp' [E' Hd]]]. subst s'.
      assert (Hlen : length ts' = length tracks).
      { unfold dstep, distribute_step in Es. destruct (ltb threshold (Fin sp)); [|discriminate].
        destruct (eqb _ zero); [discriminate|]. inversion Es as [E'].
        match type of E' with
        | apply_increase _ _ _ _ ?i _ _ = _ =>
            pose proof (dapply_map i (Fin sp) tracks) as Hm; unfold dapply in Hm; rewrite E' in Hm; cbn [snd] in Hm;
            rewrite Hm; apply map_length
        end. }
      destruct Hd as [Hd|Hd].
      + destruct (IH sp' ts' f Hok') as [R1 [R2 [R3 R4]]]; [lia|lia|]. cbv zeta in *.
        split; [exact R1|]. split; [exact R2|]. split; [exact R3|]. rewrite R4. exact Hlen.
      + destruct f as [|f]; [lia|]. unfold dloop. cbn [distribute_loop]. fold dstep.
        rewrite (dstep_none_nonpos _ _ Hd). cbn [fst snd].
        split; [apply dstep_none_nonpos; exact Hd|]. split; [exact Hok'|]. split; [exact I|exact Hlen].
  Qed.

  (* distribute_space_up_to_limits with the fuel it passes *)
  Theorem dist_fuel_suffices sp tracks : Forall dok tracks ->
    let r := distribute_space_up_to_limits (Fin sp) tracks aff p prop lim in
    distribute_step aff p prop lim (fst r) (snd r) = None /\
    (forall extra, distribute_loop aff p prop lim (distribute_fuel tracks + extra) (Fin sp) tracks = r) /\
    Forall dok (snd r) /\ finite (fst r) /\ length (snd r) = length tracks.
  Proof.
    intro Hok. cbv zeta.
    destruct (dloop_exits (length tracks) sp tracks (distribute_fuel tracks) Hok (DG_le_length tracks)) as [R1 [R2 [R3 R4]]].
    { unfold distribute_fuel. lia. }
    cbv zeta in *. unfold dloop, dstep in *. unfold distribute_space_up_to_limits.
    split; [exact R1|]. split; [|split; [exact R2|split; [exact R3|exact R4]]].
    intro extra. apply distribute_loop_stable. exact R1.
  Qed.
End Dist.

(* ------------------------------------------------------------------------------------------------ the call sites *)
Lemma inc_inv_base_size : inc_inv (@base_size XQ).            Proof. intros t v. reflexivity. Qed.
Lemma inc_inv_growth_limit : inc_inv (@growth_limit XQ).      Proof. intros t v. reflexivity. Qed.
Lemma inc_inv_flex_factor : inc_inv (@flex_factor XQ _).      Proof. intros t v. reflexivity. Qed.
Lemma inc_inv_fcl_growth_limit inner : inc_inv (@fit_content_limited_growth_limit XQ _ inner).
Proof. intros t v. reflexivity. Qed.
Lemma inc_inv_fit_content_limit inner : inc_inv (@fit_content_limit XQ _ inner).
Proof. intros t v. reflexivity. Qed.
Lemma inc_inv_limit_or_base : inc_inv (@limit_or_base XQ _).  Proof. intros t v. reflexivity. Qed.
Lemma inc_inv_const {A} (c : A) : inc_inv (fun _ => c).       Proof. intros t v. reflexivity. Qed.
Lemma inc_inv_filter1 ct : inc_inv (@base_filter1 XQ ct).   Proof. intros t v. destruct ct; reflexivity. Qed.
Lemma inc_inv_filter2 ct aff ts : inc_inv (@base_filter2 XQ ct aff ts).
Proof. intros t v. unfold base_filter2. destruct (length _); [reflexivity|apply inc_inv_filter1]. Qed.
Lemma inc_inv_andb (f g : track XQ -> bool) : inc_inv f -> inc_inv g -> inc_inv (fun t => f t && g t).
Proof. intros Hf Hg t v. rewrite (Hf t v), (Hg t v). reflexivity. Qed.
Lemma inc_inv_is_flexible : inc_inv (@is_flexible XQ).        Proof. intros t v. reflexivity. Qed.

Lemma base_inner_fuelled_0 {T} `{Num T} space tracks aff (p lim : track T -> T) ct :
  base_inner_fuelled 0 0 space tracks aff p lim ct = distribute_item_space_to_base_size_inner space tracks aff p lim ct.
Proof. reflexivity. Qed.
Lemma growth_limit_fuelled_0 {T} `{Num T} inner space tracks (aff : track T -> bool) :
  growth_limit_fuelled inner 0 space tracks aff = distribute_item_space_to_growth_limit inner space tracks aff.
Proof. reflexivity. Qed.

Lemma extra_space_fin (sp : Q) (l : list XQ) : Forall finite l -> exists c, x_max (Fin 0) (x_sub (Fin sp) (@fsum XQ _ l)) = Fin c.
Proof.
  intro Hf. destruct (fsum_fin l Hf) as [s [Es _]]. rewrite Es. cbn [x_sub x_neg x_add].
  destruct (x_max_fin 0 (sp + - s)) as [c [Ec _]]. exists c. exact Ec.
Qed.

(* (b) distribute_item_space_to_base_size_inner: both calls of distribute_space_up_to_limits leave through their exit test, and the
   function does not depend on the fuel *)
Theorem base_inner_fuel_suffices (sp : Q) (tracks : list (track XQ)) (aff : track XQ -> bool) (p lim : track XQ -> XQ)
        (ct : contribution_type) :
  inc_inv aff -> inc_inv p -> inc_inv lim -> Forall (dist_ok p base_size lim) tracks ->
  let extra := fmax zero (sub (Fin sp) (fsum (map base_size tracks))) in
  let r1 := distribute_space_up_to_limits extra tracks aff p base_size lim in
  let f2 := base_filter2 ct aff (snd r1) in
  let r2 := distribute_space_up_to_limits (fst r1) (snd r1) f2 p base_size lim in
  distribute_step aff p base_size lim (fst r1) (snd r1) = None /\
  distribute_step f2 p base_size lim (fst r2) (snd r2) = None /\
  forall e1 e2, base_inner_fuelled e1 e2 (Fin sp) tracks aff p lim ct
                = distribute_item_space_to_base_size_inner (Fin sp) tracks aff p lim ct.
Proof.
  intros Haff Hp Hlim Hok. cbv zeta. xq0.
  destruct (extra_space_fin sp (map base_size tracks)) as [c Ec].
  { apply Forall_map. eapply Forall_impl; [|exact Hok]. intros t [Hb _]. exact Hb. }
  rewrite Ec.
  destruct (dist_fuel_suffices aff p base_size lim Haff Hp inc_inv_base_size Hlim c tracks Hok) as [R1 [R2 [R3 [R4 R5]]]].
  cbv zeta in *.
  set (r1 := distribute_space_up_to_limits (Fin c) tracks aff p base_size lim) in *.
  destruct (fin_inv _ R4) as [c1 Ec1].
  set (f2 := base_filter2 ct aff (snd r1)).
  destruct (dist_fuel_suffices f2 p base_size lim (inc_inv_filter2 ct aff (snd r1)) Hp inc_inv_base_size Hlim c1 (snd r1) R3)
    as [S1 [S2 _]].
  cbv zeta in *. rewrite <- Ec1 in S1, S2.
  split; [exact R1|]. split; [exact S1|].
  intros e1 e2. unfold base_inner_fuelled, distribute_item_space_to_base_size_inner. xq0.
  destruct (x_eqb (Fin sp) (Fin 0) || negb (existsb aff tracks)); [reflexivity|].
  rewrite Ec. rewrite (Nat.add_comm e1), (R2 e1). fold r1.
  destruct r1 as [extra1 ts1] eqn:Er1. cbn [fst snd] in *.
  destruct (x_ltb base_threshold extra1); [|reflexivity].
  f_equal. f_equal. rewrite (Nat.add_comm e2). exact (S2 e2).
Qed.

(* (c) distribute_item_space_to_growth_limit *)
Theorem growth_limit_fuel_suffices (inner : option XQ) (sp : Q) (tracks : list (track XQ)) (aff : track XQ -> bool) :
  inc_inv aff -> Forall (dist_ok (fun _ => one) limit_or_base (fit_content_limit inner)) tracks ->
  let extra := fmax zero (sub (Fin sp) (fsum (map limit_or_base tracks))) in
  let r := distribute_space_up_to_limits extra tracks aff (fun _ => one) limit_or_base (fit_content_limit inner) in
  distribute_step aff (fun _ => one) limit_or_base (fit_content_limit inner) (fst r) (snd r) = None /\
  forall e, growth_limit_fuelled inner e (Fin sp) tracks aff = distribute_item_space_to_growth_limit inner (Fin sp) tracks aff.
Proof.
  intros Haff Hok. cbv zeta. xq0.
  destruct (extra_space_fin sp (map limit_or_base tracks)) as [c Ec].
  { apply Forall_map. eapply Forall_impl; [|exact Hok]. intros t [Hb _]. exact Hb. }
  rewrite Ec.
  destruct (dist_fuel_suffices aff (fun _ => Fin 1) limit_or_base (fit_content_limit inner) Haff (inc_inv_const (Fin 1))
              inc_inv_limit_or_base (inc_inv_fit_content_limit inner) c tracks Hok) as [R1 [R2 _]].
  cbv zeta in *. split; [exact R1|].
  intro e. unfold growth_limit_fuelled, distribute_item_space_to_growth_limit. xq0.
  destruct (x_eqb (Fin sp) (Fin 0) || Nat.eqb (length (filter aff tracks)) 0); [reflexivity|].
  rewrite Ec. destruct (length (filter _ tracks)); [|reflexivity].
  rewrite (Nat.add_comm e), (R2 e). reflexivity.
Qed.

(* (b) as `to_base` calls it: distribute_item_space_to_base_size chooses the filter and the proportion *)
Theorem base_size_fuel_suffices (is_flex uff : bool) (sp : Q) (tracks : list (track XQ)) (aff : track XQ -> bool) (lim : track XQ -> XQ)
        (ct : contribution_type) :
  inc_inv aff -> inc_inv lim -> Forall (dist_ok (base_size_proportion is_flex uff) base_size lim) tracks ->
  forall e1 e2, base_size_fuelled e1 e2 is_flex uff (Fin sp) tracks aff lim ct
                = distribute_item_space_to_base_size is_flex uff (Fin sp) tracks aff lim ct.
Proof.
  intros Haff Hlim Hok e1 e2. unfold base_size_fuelled, distribute_item_space_to_base_size, base_size_proportion in *.
  destruct is_flex; [destruct uff|]; cbn [andb] in Hok.
  - apply base_inner_fuel_suffices; auto using inc_inv_flex_factor, inc_inv_andb, inc_inv_is_flexible.
  - apply (base_inner_fuel_suffices sp tracks _ (fun _ => Fin 1) lim ct); auto using inc_inv_andb, inc_inv_is_flexible. apply inc_inv_const.
  - apply (base_inner_fuel_suffices sp tracks _ (fun _ => Fin 1) lim ct); auto. apply inc_inv_const.
Qed.

(* a boolean test of the class, for the computed examples *)
Definition is_fin (x : XQ) : bool := match x with Fin _ => true | _ => false end.
Definition is_pinf (x : XQ) : bool := match x with PInf => true | _ => false end.
Definition dist_okb (p prop lim : track XQ -> XQ) (t : track XQ) : bool :=
  is_fin (prop t) && (is_fin (lim t) || is_pinf (lim t)) && is_fin (incurred t) && Qle_bool 0 (val (incurred t))
  && is_fin (p t) && Qle_bool 0 (val (p t)).
Lemma is_fin_finite x : is_fin x = true -> finite x.
Proof. destruct x; simpl; auto; discriminate. Qed.
Lemma dist_okb_sound p prop lim l : forallb (dist_okb p prop lim) l = true -> Forall (dist_ok p prop lim) l.
Proof.
  intro Hb. apply Forall_forall. intros t Hin. rewrite forallb_forall in Hb. specialize (Hb t Hin). unfold dist_okb in Hb.
  repeat (apply andb_true_iff in Hb; destruct Hb as [Hb ?]).
  unfold dist_ok. repeat split; try (apply is_fin_finite; assumption); try (apply Qle_bool_iff; assumption).
  match goal with Ho : (_ || _)%bool = true |- _ => apply orb_true_iff in Ho; destruct Ho as [Ho1|Ho2] end.
  - left. apply is_fin_finite. exact Ho1.
  - right. destruct (lim t); simpl in Ho2; try discriminate. reflexivity.
Qed.
