(* compute_root_layout (src/compute/mod.rs l.58-153) over the block engine (Model/BlockEngine.v): the known dimensions of the
   root, ONE memoised query on the root (perform_child_layout: PerformLayout, InherentSize, parent size = available space,
   margins not collapsible), and the root's own stored layout.  `Num`-generic, definitions only.

     block_root_known      the block stretch-fit preprocessing = Model/Root.v `root_known_dimensions` (the function C19's K and
                           C19_root_* / C12_root / C04_root_leaf are about) behind the style adapter of Model/BlockEngine.v
     block_root_layout     l.136-152 = Model/Root.v `root_assemble` (order 0, location ZERO, padding / border / margin resolved
                           against the available width, scrollbar_size from the style), converted to a BLayout
     block_compute_root    the whole function on an engine tree: None = out of fuel
     block_layout_pass     TaffyTree::compute_layout_with_measure on a FRESH tree with rounding disabled: every node's unrounded
                           layout in pre-order
     block_layout_passes   several such calls in a row on the same tree (caches and stored layouts carried over) *)
From Coq Require Import ZArith Bool List.
From TV Require Import Num.Num.
From TV Require Model.Types Model.Common Model.Leaf Model.Root Model.EngineRel.
From TV Require Import Gen.BlockGen Model.Block Model.Engine Model.BlockAlg Model.BlockEngine.
Import ListNotations.

Section BlockRoot.
  Context {T : Type} `{Num T}.

  Notation tree := (Engine.tree (BNode T) (BIn T) (ChildOut T) (BLayout T)).

  Definition bk_avail (a : Avail T) : Types.AvailableSpace T := cv_avail a.
  Definition bk_osize (s : Types.Size (option T)) : BSize (option T) := mkSize (Types.width s) (Types.height s).
  Definition bk_rect (r : Types.Rect T) : BRect T := mkRect (Types.r_left r) (Types.r_right r) (Types.r_top r) (Types.r_bottom r).

  Definition block_root_known (st : BStyle T) (avail : BSize (Avail T)) : BSize (option T) :=
    bk_osize (Root.root_known_dimensions (cv_style st) (cv_size cv_avail avail)).

  (* vocabulary adapters: the ChildOut the root returned as a Leaf.LayoutOutput (size and content size are all root_assemble
     reads), and Model/Root.v's Layout as a BLayout *)
  Definition co_to_output (o : ChildOut T) : Leaf.LayoutOutput T :=
    Leaf.mkOutput (Types.mkSize (s_w (co_size o)) (s_h (co_size o)))
                  (Types.mkSize (s_w (co_content_size o)) (s_h (co_content_size o)))
                  (Types.mkPoint None None) (Leaf.mkMarginSet zero zero) (Leaf.mkMarginSet zero zero) false.
  Definition blay_of_layout (l : Root.Layout T) : BLayout T :=
    mkLay 0 (Types.px (Root.l_location l)) (Types.py (Root.l_location l)) (bk_size (Root.l_size l)) (bk_size (Root.l_content_size l))
          (bk_size (Root.l_scrollbar_size l)) (bk_rect (Root.l_padding l)) (bk_rect (Root.l_border l)) (bk_rect (Root.l_margin l)).

  Definition block_root_layout (st : BStyle T) (avail : BSize (Avail T)) (o : ChildOut T) : BLayout T :=
    blay_of_layout (Root.root_assemble (cv_style st) (cv_size cv_avail avail) (co_to_output o)).

  Definition block_compute_root (pre : BStyle T -> BIn T -> BIn T) (abs_child : @AbsChild T) (fuel : nat) (t : tree)
             (avail : BSize (Avail T)) : option tree :=
    let st := bn_style (Engine.style_of _ _ _ _ t) in
    match bl_memo pre abs_child fuel t (root_bin (block_root_known st avail) avail) with
    | Some (o, t') => Some (Engine.set_lay _ _ _ _ t' (block_root_layout st avail o))
    | None => None
    end.

  (* a sequence of compute_layout calls on the same tree (no mutation in between): the stored layouts after every pass *)
  Fixpoint block_passes (pre : BStyle T -> BIn T -> BIn T) (abs_child : @AbsChild T) (fuel : nat) (t : tree)
           (avails : list (BSize (Avail T))) : option (list (list (BLayout T))) :=
    match avails with
    | [] => Some []
    | a :: rest =>
        match block_compute_root pre abs_child fuel t a with
        | Some t' =>
            match block_passes pre abs_child fuel t' rest with
            | Some ls => Some (EngineRel.lays _ _ _ _ t' :: ls)
            | None => None
            end
        | None => None
        end
    end.

  Definition block_layout_passes (pre : BStyle T -> BIn T -> BIn T) (abs_child : @AbsChild T) (fuel : nat) (t : Engine.sk (BNode T))
             (avails : list (BSize (Avail T))) : option (list (list (BLayout T))) :=
    block_passes pre abs_child fuel (bl_fresh t) avails.

  Definition block_layout_pass (pre : BStyle T -> BIn T -> BIn T) (abs_child : @AbsChild T) (fuel : nat) (t : Engine.sk (BNode T))
             (avail : BSize (Avail T)) : option (list (BLayout T)) :=
    match block_compute_root pre abs_child fuel (bl_fresh t) avail with
    | Some t' => Some (EngineRel.lays _ _ _ _ t')
    | None => None
    end.
End BlockRoot.
