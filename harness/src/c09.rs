//! C09: grid tracks -- fixed sizes exact, gutters equal gaps, explicit count, fr fill.
//!
//! `vh c09 cases <seed> <n>`  whole-API correspondence cases (`C` = container + templates + items as ints / f32 bit patterns,
//!                            `R` = DetailedGridInfo track counts, every track size and gutter bit pattern, container size,
//!                            item locations).  The class is the one `Model/GridTracksRun.v` evaluates exactly (see `gen_k`).
//! `vh c09 one <ints...>`     the same for one explicit case (replay).
//! `vh c09 oracle <seed> <n>` the property's clauses as predicates on DetailedGridInfo for a broad generator;
//!                            `FAIL <idx> <clause> <msg>` / `KNOWN <idx> <class> <msg>`; `ORACLE <n> <checked-clauses...>`.
//! `vh c09 show <seed> <idx>` the oracle case in readable form.
//! `vh c09 witness`           replays the witnesses of the `_refuted` theorems (known findings) on the implementation.
use crate::rng::Rng;
use crate::treegen::{self, Ctx, GenCfg, NodeSpec};
use taffy::prelude::*;
use taffy::{DetailedGridInfo, DetailedGridTracksInfo, DetailedLayoutInfo};

// ------------------------------------------------------------------------------------------------ sizing functions as ints
// kinds (same numbering as C18): 0 length 1 percent 2 fr 3 fit-content(px) 4 fit-content(%) 5 auto 6 min-content 7 max-content
#[derive(Clone, Copy, Debug, PartialEq)]
pub struct Sf(pub u64, pub u32);

impl Sf {
    fn f(self) -> f32 {
        f32::from_bits(self.1)
    }
    fn min(self) -> MinTrackSizingFunction {
        match self.0 {
            0 => MinTrackSizingFunction::length(self.f()),
            1 => MinTrackSizingFunction::percent(self.f()),
            5 => MinTrackSizingFunction::auto(),
            6 => MinTrackSizingFunction::min_content(),
            7 => MinTrackSizingFunction::max_content(),
            _ => panic!("bad min kind"),
        }
    }
    fn max(self) -> MaxTrackSizingFunction {
        match self.0 {
            0 => MaxTrackSizingFunction::length(self.f()),
            1 => MaxTrackSizingFunction::percent(self.f()),
            2 => MaxTrackSizingFunction::fr(self.f()),
            3 => MaxTrackSizingFunction::fit_content_px(self.f()),
            4 => MaxTrackSizingFunction::fit_content_percent(self.f()),
            5 => MaxTrackSizingFunction::auto(),
            6 => MaxTrackSizingFunction::min_content(),
            7 => MaxTrackSizingFunction::max_content(),
            _ => panic!("bad max kind"),
        }
    }
    fn of_compact(c: taffy::CompactLength) -> Sf {
        let v = |c: taffy::CompactLength| c.value().to_bits();
        if c.is_fr() {
            Sf(2, v(c))
        } else if c.is_auto() {
            Sf(5, 0)
        } else if c.is_min_content() {
            Sf(6, 0)
        } else if c.is_max_content() {
            Sf(7, 0)
        } else if c.tag() == taffy::CompactLength::FIT_CONTENT_PX_TAG {
            Sf(3, v(c))
        } else if c.tag() == taffy::CompactLength::FIT_CONTENT_PERCENT_TAG {
            Sf(4, v(c))
        } else if c.tag() == taffy::CompactLength::PERCENT_TAG {
            Sf(1, v(c))
        } else if c.tag() == taffy::CompactLength::LENGTH_TAG {
            Sf(0, v(c))
        } else {
            panic!("calc in template")
        }
    }
}

#[derive(Clone, Copy, Debug, PartialEq)]
pub struct Tr {
    pub min: Sf,
    pub max: Sf,
}
impl Tr {
    fn build(self) -> NonRepeatedTrackSizingFunction {
        minmax(self.min.min(), self.max.max())
    }
    fn of(t: &NonRepeatedTrackSizingFunction) -> Tr {
        Tr { min: Sf::of_compact(t.min.into_raw()), max: Sf::of_compact(t.max.into_raw()) }
    }
    /// min and max are the same fixed length
    fn fixed_px(self) -> Option<f32> {
        if self.min.0 == 0 && self.max.0 == 0 && self.min.1 == self.max.1 {
            Some(self.min.f())
        } else {
            None
        }
    }
}

/// kind: 0 single, 1 repeat(count), 2 auto-fill, 3 auto-fit
#[derive(Clone, Debug, PartialEq)]
pub struct Entry {
    pub kind: u64,
    pub count: u64,
    pub tracks: Vec<Tr>,
}
impl Entry {
    fn build(&self) -> TrackSizingFunction {
        let ts: Vec<_> = self.tracks.iter().map(|t| t.build()).collect();
        match self.kind {
            0 => TrackSizingFunction::Single(ts[0]),
            1 => TrackSizingFunction::Repeat(GridTrackRepetition::Count(self.count as u16), ts),
            2 => TrackSizingFunction::Repeat(GridTrackRepetition::AutoFill, ts),
            3 => TrackSizingFunction::Repeat(GridTrackRepetition::AutoFit, ts),
            _ => panic!("bad entry kind"),
        }
    }
    fn of(t: &TrackSizingFunction) -> Entry {
        match t {
            TrackSizingFunction::Single(s) => Entry { kind: 0, count: 0, tracks: vec![Tr::of(s)] },
            TrackSizingFunction::Repeat(r, ts) => {
                let (kind, count) = match r {
                    GridTrackRepetition::Count(c) => (1, *c as u64),
                    GridTrackRepetition::AutoFill => (2, 0),
                    GridTrackRepetition::AutoFit => (3, 0),
                };
                Entry { kind, count, tracks: ts.iter().map(Tr::of).collect() }
            }
        }
    }
}

#[derive(Clone, Debug)]
pub struct Item {
    /// 0: leaf of fixed size `w` x `h` (bits); 1: "text" leaf without a size style, measured by `Ctx::Text(w, f32::from_bits(h))`:
    /// `w` glyphs of size `h`, min-content width = h, max-content width = w * h
    pub kind: u64,
    pub col: i64, // CSS line number (1-based, negative counts from the end of the explicit grid)
    pub cspan: i64,
    pub row: i64,
    pub rspan: i64,
    pub w: u32,
    pub h: u32,
    pub margin: [u32; 4], // left right top bottom (lengths)
    pub ov: [u64; 2],     // overflow x / y: 0 visible, 1 hidden (a scroll container)
}

impl Item {
    pub fn plain(col: i64, row: i64, w: u32, h: u32) -> Item {
        Item { kind: 0, col, cspan: 1, row, rspan: 1, w, h, margin: [0; 4], ov: [0; 2] }
    }
}

/// (kind 0 length | 1 percent, bits)
type Lp = (u64, u32);

#[derive(Clone, Debug)]
pub struct Case {
    /// 0: the container's size on that axis is the length `w` / `h`; 1: auto
    pub wk: u64,
    pub w: u32,
    pub hk: u64,
    pub h: u32,
    /// available space handed to compute_layout per axis: (0 max-content | 1 min-content | 2 definite, bits)
    pub avail: [(u64, u32); 2],
    pub pad: [u32; 4], // left right top bottom (lengths)
    pub bor: [u32; 4],
    pub gap: [Lp; 2], // width (column gap), height (row gap)
    pub jc: u64,      // 0 = unset, 1.. = AlignContent variant + 1
    pub ac: u64,
    pub cols: Vec<Entry>,
    pub rows: Vec<Entry>,
    pub auto_cols: Vec<Tr>,
    pub auto_rows: Vec<Tr>,
    pub items: Vec<Item>,
}

const ALIGNS: [AlignContent; 9] = [
    AlignContent::Start,
    AlignContent::End,
    AlignContent::FlexStart,
    AlignContent::FlexEnd,
    AlignContent::Center,
    AlignContent::Stretch,
    AlignContent::SpaceBetween,
    AlignContent::SpaceEvenly,
    AlignContent::SpaceAround,
];

fn lp_build(l: Lp) -> LengthPercentage {
    match l.0 {
        0 => LengthPercentage::length(f32::from_bits(l.1)),
        _ => LengthPercentage::percent(f32::from_bits(l.1)),
    }
}

fn push_tr(v: &mut Vec<i64>, t: &Tr) {
    v.extend([t.min.0 as i64, t.min.1 as i64, t.max.0 as i64, t.max.1 as i64]);
}
fn push_template(v: &mut Vec<i64>, t: &[Entry]) {
    v.push(t.len() as i64);
    for e in t {
        v.push(e.kind as i64);
        if e.kind == 1 {
            v.push(e.count as i64);
        }
        if e.kind >= 1 {
            v.push(e.tracks.len() as i64);
        }
        for tr in &e.tracks {
            push_tr(v, tr);
        }
    }
}
fn push_autos(v: &mut Vec<i64>, t: &[Tr]) {
    v.push(t.len() as i64);
    for tr in t {
        push_tr(v, tr);
    }
}

struct Rd<'a>(&'a [i64], usize);
impl Rd<'_> {
    fn i(&mut self) -> i64 {
        let x = self.0[self.1];
        self.1 += 1;
        x
    }
    fn u(&mut self) -> u64 {
        self.i() as u64
    }
    fn b(&mut self) -> u32 {
        self.i() as u32
    }
    fn tr(&mut self) -> Tr {
        Tr { min: Sf(self.u(), self.b()), max: Sf(self.u(), self.b()) }
    }
    fn template(&mut self) -> Vec<Entry> {
        let n = self.u();
        (0..n)
            .map(|_| {
                let kind = self.u();
                let count = if kind == 1 { self.u() } else { 0 };
                let nt = if kind >= 1 { self.u() } else { 1 };
                Entry { kind, count, tracks: (0..nt).map(|_| self.tr()).collect() }
            })
            .collect()
    }
    fn autos(&mut self) -> Vec<Tr> {
        let n = self.u();
        (0..n).map(|_| self.tr()).collect()
    }
}

impl Case {
    pub fn encode(&self) -> Vec<i64> {
        let mut v: Vec<i64> = vec![self.wk as i64, self.w as i64, self.hk as i64, self.h as i64];
        for a in self.avail {
            v.extend([a.0 as i64, a.1 as i64]);
        }
        v.extend(self.pad.iter().map(|x| *x as i64));
        v.extend(self.bor.iter().map(|x| *x as i64));
        for g in self.gap {
            v.extend([g.0 as i64, g.1 as i64]);
        }
        v.extend([self.jc as i64, self.ac as i64]);
        push_template(&mut v, &self.cols);
        push_template(&mut v, &self.rows);
        push_autos(&mut v, &self.auto_cols);
        push_autos(&mut v, &self.auto_rows);
        v.push(self.items.len() as i64);
        for it in &self.items {
            v.extend([it.kind as i64, it.col, it.cspan, it.row, it.rspan, it.w as i64, it.h as i64]);
            v.extend(it.margin.iter().map(|x| *x as i64));
            v.extend(it.ov.iter().map(|x| *x as i64));
        }
        v
    }
    /// The stage-1 class (GridTracksRun.run_case): definite container, max-content available space, span-1 items without
    /// margins and with visible overflow, no min-/max-/fit-content track.  Returns the stage-1 encoding.
    pub fn encode_old(&self) -> Option<Vec<i64>> {
        let old_tr = |t: &Tr| matches!(t.min.0, 0 | 1 | 5) && matches!(t.max.0, 0 | 1 | 2 | 5);
        let ok = self.wk == 0
            && self.hk == 0
            && self.avail == [(0, 0), (0, 0)]
            && self.items.iter().all(|i| i.kind == 0 && i.cspan == 1 && i.rspan == 1 && i.margin == [0; 4] && i.ov == [0; 2])
            && self.cols.iter().chain(self.rows.iter()).all(|e| e.tracks.iter().all(old_tr))
            && self.auto_cols.iter().chain(self.auto_rows.iter()).all(old_tr);
        if !ok {
            return None;
        }
        let mut v: Vec<i64> = vec![self.w as i64, self.h as i64];
        v.extend(self.pad.iter().map(|x| *x as i64));
        v.extend(self.bor.iter().map(|x| *x as i64));
        for g in self.gap {
            v.extend([g.0 as i64, g.1 as i64]);
        }
        v.extend([self.jc as i64, self.ac as i64]);
        push_template(&mut v, &self.cols);
        push_template(&mut v, &self.rows);
        push_autos(&mut v, &self.auto_cols);
        push_autos(&mut v, &self.auto_rows);
        v.push(self.items.len() as i64);
        for it in &self.items {
            v.extend([it.col, it.row, it.w as i64, it.h as i64]);
        }
        Some(v)
    }
    pub fn decode(xs: &[i64]) -> Case {
        let mut r = Rd(xs, 0);
        let wk = r.u();
        let w = r.b();
        let hk = r.u();
        let h = r.b();
        let avail = [(r.u(), r.b()), (r.u(), r.b())];
        let pad = [r.b(), r.b(), r.b(), r.b()];
        let bor = [r.b(), r.b(), r.b(), r.b()];
        let gap = [(r.u(), r.b()), (r.u(), r.b())];
        let jc = r.u();
        let ac = r.u();
        let cols = r.template();
        let rows = r.template();
        let auto_cols = r.autos();
        let auto_rows = r.autos();
        let n = r.u();
        let items = (0..n)
            .map(|_| Item {
                kind: r.u(),
                col: r.i(),
                cspan: r.i(),
                row: r.i(),
                rspan: r.i(),
                w: r.b(),
                h: r.b(),
                margin: [r.b(), r.b(), r.b(), r.b()],
                ov: [r.u(), r.u()],
            })
            .collect();
        assert_eq!(r.1, xs.len(), "trailing ints");
        Case { wk, w, hk, h, avail, pad, bor, gap, jc, ac, cols, rows, auto_cols, auto_rows, items }
    }

    pub fn avail(&self) -> Size<AvailableSpace> {
        let a = |k: (u64, u32)| match k.0 {
            0 => AvailableSpace::MaxContent,
            1 => AvailableSpace::MinContent,
            _ => AvailableSpace::Definite(f32::from_bits(k.1)),
        };
        Size { width: a(self.avail[0]), height: a(self.avail[1]) }
    }

    pub fn spec(&self) -> NodeSpec {
        let f = f32::from_bits;
        let l = |b: u32| LengthPercentage::length(f(b));
        let style = Style {
            display: Display::Grid,
            size: Size {
                width: if self.wk == 0 { Dimension::length(f(self.w)) } else { Dimension::auto() },
                height: if self.hk == 0 { Dimension::length(f(self.h)) } else { Dimension::auto() },
            },
            padding: Rect { left: l(self.pad[0]), right: l(self.pad[1]), top: l(self.pad[2]), bottom: l(self.pad[3]) },
            border: Rect { left: l(self.bor[0]), right: l(self.bor[1]), top: l(self.bor[2]), bottom: l(self.bor[3]) },
            gap: Size { width: lp_build(self.gap[0]), height: lp_build(self.gap[1]) },
            justify_content: if self.jc == 0 { None } else { Some(ALIGNS[self.jc as usize - 1]) },
            align_content: if self.ac == 0 { None } else { Some(ALIGNS[self.ac as usize - 1]) },
            grid_template_columns: self.cols.iter().map(|e| e.build()).collect(),
            grid_template_rows: self.rows.iter().map(|e| e.build()).collect(),
            grid_auto_columns: self.auto_cols.iter().map(|t| t.build()).collect(),
            grid_auto_rows: self.auto_rows.iter().map(|t| t.build()).collect(),
            ..Default::default()
        };
        let children = self
            .items
            .iter()
            .map(|it| {
                let end = |span: i64| if span == 1 { GridPlacement::Auto } else { GridPlacement::from_span(span as u16) };
                let ov = |o: u64| if o == 0 { taffy::Overflow::Visible } else { taffy::Overflow::Hidden };
                let m = |b: u32| LengthPercentageAuto::length(f(b));
                let mut node = NodeSpec::leaf(Style {
                    size: if it.kind == 0 { Size { width: Dimension::length(f(it.w)), height: Dimension::length(f(it.h)) } } else { Size::auto() },
                    margin: Rect { left: m(it.margin[0]), right: m(it.margin[1]), top: m(it.margin[2]), bottom: m(it.margin[3]) },
                    overflow: taffy::Point { x: ov(it.ov[0]), y: ov(it.ov[1]) },
                    grid_column: Line { start: GridPlacement::from_line_index(it.col as i16), end: end(it.cspan) },
                    grid_row: Line { start: GridPlacement::from_line_index(it.row as i16), end: end(it.rspan) },
                    ..Default::default()
                });
                if it.kind == 1 {
                    node.ctx = Some(Ctx::Text(it.w, f(it.h)));
                }
                node
            })
            .collect();
        NodeSpec { style, ctx: None, children }
    }
}

fn cb(x: f32) -> i64 {
    crate::f32ops::canon(x) as i64
}

fn push_axis(v: &mut Vec<i64>, a: &DetailedGridTracksInfo) {
    v.extend([a.negative_implicit_tracks as i64, a.explicit_tracks as i64, a.positive_implicit_tracks as i64]);
    v.push(a.sizes.len() as i64);
    v.extend(a.sizes.iter().map(|x| cb(*x)));
    v.push(a.gutters.len() as i64);
    v.extend(a.gutters.iter().map(|x| cb(*x)));
}

pub struct Run {
    pub info: DetailedGridInfo,
    pub root: taffy::Layout,
    pub kids: Vec<taffy::Layout>,
}

/// Lay `spec` out (rounding disabled) and fetch the root's DetailedGridInfo.
pub fn run_spec(spec: &NodeSpec, avail: Size<AvailableSpace>) -> Option<Run> {
    let mut t: TaffyTree<Ctx> = TaffyTree::new();
    t.disable_rounding();
    let mut ids = vec![];
    let root = treegen::build(&mut t, spec, &mut ids);
    treegen::compute(&mut t, root, avail);
    let info = match t.detailed_layout_info(root) {
        DetailedLayoutInfo::Grid(g) => (**g).clone(),
        _ => return None,
    };
    let kids = t.children(root).unwrap().iter().map(|c| *t.layout(*c).unwrap()).collect();
    Some(Run { info, root: *t.layout(root).unwrap(), kids })
}

fn result_line(c: &Case) -> Vec<i64> {
    let r = run_spec(&c.spec(), c.avail()).expect("grid info");
    let mut v = vec![];
    push_axis(&mut v, &r.info.columns);
    push_axis(&mut v, &r.info.rows);
    v.extend([cb(r.root.size.width), cb(r.root.size.height)]);
    for k in &r.kids {
        v.extend([cb(k.location.x), cb(k.location.y)]);
    }
    v
}

fn print_case(c: &Case) {
    let j = |v: Vec<i64>| v.iter().map(|x| x.to_string()).collect::<Vec<_>>().join(" ");
    // the input first (flushed): if the implementation never returns, the driver still sees which case it was
    use std::io::Write;
    println!("C {}", j(c.encode()));
    std::io::stdout().flush().unwrap();
    println!("R {}", j(result_line(c)));
    // the same case in the stage-1 encoding when it belongs to the stage-1 class (evaluated by GridTracksRun.run_case too)
    if let Some(o) = c.encode_old() {
        println!("O {}", j(o));
    }
}

// ------------------------------------------------------------------------------------------------ K generator
fn b(x: f32) -> u32 {
    x.to_bits()
}

fn k_len(rng: &mut Rng, max: u64) -> f32 {
    match rng.below(4) {
        0 => rng.below(max) as f32,
        1 => rng.below(max * 4) as f32 / 4.0,
        2 => rng.below(max * 10) as f32 / 10.0,
        _ => rng.below(max * 1000) as f32 / 1000.0,
    }
}
fn k_pct(rng: &mut Rng) -> f32 {
    *rng.pick(&[0.0, 0.1, 0.125, 0.25, 0.3, 0.5, 1.0 / 3.0, 0.75, 1.0])
}
fn k_fr(rng: &mut Rng) -> f32 {
    *rng.pick(&[0.0, 0.2, 0.3, 0.5, 0.6, 1.0, 1.0, 1.5, 2.0, 3.0, 0.7])
}
fn k_fixed(rng: &mut Rng) -> Sf {
    if rng.chance(1, 4) {
        Sf(1, b(k_pct(rng)))
    } else {
        Sf(0, b(k_len(rng, 90)))
    }
}
/// K class of track sizing functions: px, %, fr, auto, minmax(px | % | auto, px | % | fr | auto)
fn k_track(rng: &mut Rng) -> Tr {
    match rng.below(9) {
        0 | 1 => {
            let s = Sf(0, b(k_len(rng, 90)));
            Tr { min: s, max: s }
        }
        2 => {
            let s = Sf(1, b(k_pct(rng)));
            Tr { min: s, max: s }
        }
        3 | 4 => Tr { min: Sf(5, 0), max: Sf(2, b(k_fr(rng))) },
        5 => Tr { min: Sf(5, 0), max: Sf(5, 0) },
        6 => Tr { min: k_fixed(rng), max: Sf(2, b(k_fr(rng))) },
        7 => {
            // nearly equal limits: the THRESHOLD region of distribute_space_up_to_limits
            let lo = k_len(rng, 90);
            let hi = lo + *rng.pick(&[0.004, 0.008, 0.009, 0.0125, 0.02, 1.0, 25.0]);
            Tr { min: Sf(0, b(lo)), max: Sf(0, b(hi)) }
        }
        _ => {
            let min = if rng.chance(1, 3) { Sf(5, 0) } else { k_fixed(rng) };
            let max = match rng.below(4) {
                0 => Sf(5, 0),
                1 => Sf(2, b(k_fr(rng))),
                _ => k_fixed(rng),
            };
            Tr { min, max }
        }
    }
}
fn k_template(rng: &mut Rng) -> Vec<Entry> {
    let n = rng.below(5);
    let mut v = vec![];
    let auto_rep = rng.chance(1, 4);
    let auto_at = rng.below(n.max(1));
    for i in 0..n {
        if auto_rep && i == auto_at {
            let cnt = 1 + rng.below(2);
            let tracks = (0..cnt)
                .map(|_| {
                    let s = Sf(0, b(1.0 + k_len(rng, 60)));
                    if rng.chance(1, 4) {
                        Tr { min: s, max: Sf(0, b(s.f() + k_len(rng, 20))) }
                    } else {
                        Tr { min: s, max: s }
                    }
                })
                .collect();
            v.push(Entry { kind: 2 + rng.below(2), count: 0, tracks });
        } else if rng.chance(1, 4) {
            let cnt = 1 + rng.below(2);
            let fixed_only = auto_rep;
            let tracks = (0..cnt).map(|_| if fixed_only { let s = k_fixed(rng); Tr { min: s, max: s } } else { k_track(rng) }).collect();
            v.push(Entry { kind: 1, count: 1 + rng.below(3), tracks });
        } else {
            let t = if auto_rep {
                // a template with an auto-repetition is only valid when every track has a fixed component
                let s = k_fixed(rng);
                if rng.chance(1, 3) { Tr { min: s, max: Sf(2, b(k_fr(rng))) } } else { Tr { min: s, max: s } }
            } else {
                k_track(rng)
            };
            v.push(Entry { kind: 0, count: 0, tracks: vec![t] });
        }
    }
    v
}

/// Number of explicit tracks the implementation reports (used only to keep generated placements near the explicit grid).
fn non_auto_count(t: &[Entry]) -> i64 {
    t.iter().map(|e| match e.kind { 0 => 1, 1 => (e.count as i64) * e.tracks.len() as i64, _ => 0 }).sum()
}

pub fn gen_k(rng: &mut Rng) -> Case {
    let w = 20.0 + k_len(rng, 400);
    let h = 20.0 + k_len(rng, 300);
    let pb = |rng: &mut Rng| if rng.chance(1, 3) { k_len(rng, 12) } else { 0.0 };
    let has_pad = rng.chance(1, 3);
    let has_bor = rng.chance(1, 4);
    let pad = [0; 4].map(|_| if has_pad { b(pb(rng)) } else { 0 });
    let bor = [0; 4].map(|_| if has_bor { b(pb(rng)) } else { 0 });
    let mut gap1 = |rng: &mut Rng| match rng.below(4) {
        0 => (0, b(0.0)),
        1 => (1, b(*rng.pick(&[0.0, 0.05, 0.1, 0.125]))),
        _ => (0, b(k_len(rng, 16))),
    };
    let gap = [gap1(rng), gap1(rng)];
    let al = |rng: &mut Rng| if rng.chance(1, 2) { 0 } else { 1 + rng.below(9) };
    let jc = al(rng);
    let ac = al(rng);
    let cols = k_template(rng);
    let rows = k_template(rng);
    let autos = |rng: &mut Rng| if rng.chance(1, 3) { (0..1 + rng.below(3)).map(|_| k_track(rng)).collect() } else { vec![] };
    let auto_cols = autos(rng);
    let auto_rows = autos(rng);
    let n = 1 + rng.below(5); // a childless node is laid out as a leaf, not as a grid
    let mut line = |rng: &mut Rng, t: &[Entry]| -> i64 {
        let e = non_auto_count(t) + if t.iter().any(|e| e.kind >= 2) { 2 } else { 0 };
        if rng.chance(1, 6) {
            // counted from the end; may reach before the explicit grid (negative implicit tracks)
            -(1 + rng.below(e as u64 + 3) as i64)
        } else {
            1 + rng.below(e as u64 + 2) as i64
        }
    };
    let items = (0..n)
        .map(|_| Item::plain(line(rng, &cols), line(rng, &rows), b(k_len(rng, 120)), b(k_len(rng, 80))))
        .collect();
    Case { wk: 0, w: b(w), hk: 0, h: b(h), avail: [(0, 0), (0, 0)], pad, bor, gap, jc, ac, cols, rows, auto_cols, auto_rows, items }
}


// ------------------------------------------------------------------------------------------------ K generator, stage 2
/// Stage-2 class of track sizing functions: everything of `k_track` plus the intrinsic keywords
/// auto | min-content | max-content | fit-content(px | %) | minmax(px | % | auto | min-content | max-content, any max)
fn k_track2(rng: &mut Rng) -> Tr {
    let min_kw = |rng: &mut Rng| Sf(*rng.pick(&[5u64, 5, 6, 7]), 0);
    match rng.below(12) {
        0 | 1 | 2 => k_track(rng),
        3 => Tr { min: Sf(5, 0), max: Sf(5, 0) },
        4 => Tr { min: Sf(6, 0), max: Sf(6, 0) },
        5 => Tr { min: Sf(7, 0), max: Sf(7, 0) },
        6 => Tr { min: Sf(5, 0), max: if rng.chance(1, 4) { Sf(4, b(k_pct(rng))) } else { Sf(3, b(k_len(rng, 90))) } },
        7 => {
            // intrinsic minimum under a fixed maximum: the growth limit is finite from the start
            Tr { min: min_kw(rng), max: k_fixed(rng) }
        }
        8 => {
            // fixed minimum, intrinsic maximum
            let max = match rng.below(4) {
                0 => Sf(5, 0),
                1 => Sf(6, 0),
                2 => Sf(7, 0),
                _ => Sf(3, b(k_len(rng, 90))),
            };
            Tr { min: k_fixed(rng), max }
        }
        9 => Tr { min: min_kw(rng), max: Sf(2, b(k_fr(rng))) },
        10 => {
            let max = match rng.below(5) {
                0 => Sf(5, 0),
                1 => Sf(6, 0),
                2 => Sf(7, 0),
                3 => Sf(3, b(k_len(rng, 90))),
                _ => Sf(4, b(k_pct(rng))),
            };
            Tr { min: min_kw(rng), max }
        }
        _ => {
            // nearly equal limits next to intrinsic tracks: the THRESHOLD region of the beyond-limits distribution
            let lo = k_len(rng, 60);
            let hi = lo + *rng.pick(&[0.004, 0.008, 0.009, 0.0125, 0.02, 1.0]);
            Tr { min: Sf(0, b(lo)), max: Sf(0, b(hi)) }
        }
    }
}

fn k_template2(rng: &mut Rng) -> Vec<Entry> {
    if rng.chance(1, 6) {
        return k_template(rng);
    }
    let n = 1 + rng.below(4);
    (0..n)
        .map(|_| {
            if rng.chance(1, 6) {
                let cnt = 1 + rng.below(2);
                Entry { kind: 1, count: 1 + rng.below(2), tracks: (0..cnt).map(|_| k_track2(rng)).collect() }
            } else {
                Entry { kind: 0, count: 0, tracks: vec![k_track2(rng)] }
            }
        })
        .collect()
}

/// Stage-2 K class: `gen_k` extended by intrinsic track sizing functions, items spanning 1-3 tracks, length margins and
/// overflow hidden on the items.
pub fn gen_k2(rng: &mut Rng) -> Case {
    let mut c = gen_k(rng);
    c.cols = k_template2(rng);
    c.rows = k_template2(rng);
    let autos = |rng: &mut Rng| if rng.chance(1, 3) { (0..1 + rng.below(2)).map(|_| k_track2(rng)).collect() } else { vec![] };
    c.auto_cols = autos(rng);
    c.auto_rows = autos(rng);
    let n = 1 + rng.below(5);
    let place = |rng: &mut Rng, t: &[Entry]| -> (i64, i64) {
        let e = non_auto_count(t) + if t.iter().any(|e| e.kind >= 2) { 2 } else { 0 };
        let span = *rng.pick(&[1i64, 1, 1, 2, 2, 3]);
        let line = if rng.chance(1, 8) { -(1 + rng.below(e as u64 + 2) as i64) } else { 1 + rng.below(e as u64 + 1) as i64 };
        (line, span)
    };
    c.items = (0..n)
        .map(|_| {
            let (col, cspan) = place(rng, &c.cols);
            let (row, rspan) = place(rng, &c.rows);
            let big = rng.chance(1, 3);
            let w = k_len(rng, if big { 260 } else { 120 });
            let h = k_len(rng, if big { 200 } else { 80 });
            let mut margin = [0u32; 4];
            if rng.chance(1, 3) {
                for m in margin.iter_mut() {
                    if rng.chance(1, 2) {
                        *m = b(k_len(rng, 12));
                    }
                }
            }
            let ov = [rng.chance(1, 5) as u64, rng.chance(1, 5) as u64];
            Item { kind: 0, col, cspan, row, rspan, w: b(w), h: b(h), margin, ov }
        })
        .collect();
    // indefinite container axes: sized under a max-content / min-content constraint or a definite available space
    if rng.chance(2, 5) {
        let av = |rng: &mut Rng, max: u64| match rng.below(4) {
            0 => (1u64, 0u32),
            1 => (2, b(20.0 + k_len(rng, max))),
            _ => (0, 0),
        };
        match rng.below(3) {
            0 => c.wk = 1,
            1 => c.hk = 1,
            _ => {
                c.wk = 1;
                c.hk = 1;
            }
        }
        c.avail = [av(rng, 400), av(rng, 300)];
    }
    c
}

/// Stage-2 K class with items whose min-content and max-content widths differ: `gen_k2` with a definite container height,
/// rigid rows only (px / minmax(px, px); every item inside the explicit rows: row sizing never looks at a contribution) and
/// about half of the items "text" leaves (`Ctx::Text(n, unit)`, no size style): min-content width = unit, max-content
/// width = n * unit, minimum contribution = the automatic minimum size.
pub fn gen_k3(rng: &mut Rng) -> Case {
    let mut c = gen_k2(rng);
    c.hk = 0;
    let nrows = 1 + rng.below(3);
    c.rows = (0..nrows)
        .map(|_| {
            let lo = k_len(rng, 60);
            let t = if rng.chance(1, 3) { Tr { min: Sf(0, b(lo)), max: Sf(0, b(lo + k_len(rng, 30))) } } else { px(lo) };
            single(t)
        })
        .collect();
    c.auto_rows = vec![];
    for it in c.items.iter_mut() {
        it.rspan = 1 + rng.below(nrows.min(2)) as i64;
        it.row = 1 + rng.below(nrows - it.rspan as u64 + 1) as i64;
        if rng.chance(1, 2) {
            it.kind = 1;
            it.w = 2 + rng.below(12) as u32;
            it.h = b(*rng.pick(&[4.0f32, 7.5, 10.0, 12.0, 16.0, 3.3]));
        }
    }
    c
}

fn px(v: f32) -> Tr {
    Tr { min: Sf(0, b(v)), max: Sf(0, b(v)) }
}
fn single(t: Tr) -> Entry {
    Entry { kind: 0, count: 0, tracks: vec![t] }
}
fn plain(w: f32, h: f32, cols: Vec<Entry>, rows: Vec<Entry>, items: Vec<Item>) -> Case {
    Case { wk: 0, w: b(w), hk: 0, h: b(h), avail: [(0, 0), (0, 0)], pad: [0; 4], bor: [0; 4], gap: [(0, 0), (0, 0)], jc: 0, ac: 0, cols, rows, auto_cols: vec![], auto_rows: vec![], items }
}

/// Witness (a): `0.5fr 0.6fr` columns in a 200px grid, an item of width 100 in the first column.
pub fn witness_a() -> Case {
    let fr = |v: f32| single(Tr { min: Sf(5, 0), max: Sf(2, b(v)) });
    plain(200.0, 50.0, vec![fr(0.5), fr(0.6)], vec![single(px(50.0))], vec![Item::plain(1, 1, b(100.0), b(10.0))])
}
/// Witness (b): `100px minmax(100px, 100.008px)` columns in a 200.016px grid, gap 0.
pub fn witness_b() -> Case {
    plain(
        200.016,
        50.0,
        vec![single(px(100.0)), single(Tr { min: Sf(0, b(100.0)), max: Sf(0, b(100.008)) })],
        vec![single(px(50.0))],
        vec![Item::plain(1, 1, 0, 0)],
    )
}
/// Witness (b2): two growable tracks with different head-room: the fixed track is raised twice (deviation > THRESHOLD).
pub fn witness_b2() -> Case {
    let mm = |hi: f32| single(Tr { min: Sf(0, b(100.0)), max: Sf(0, b(hi)) });
    plain(400.0, 50.0, vec![single(px(100.0)), mm(100.008), mm(100.009)], vec![single(px(50.0))], vec![Item::plain(1, 1, 0, 0)])
}
/// Further defect: `minmax(0,10px) minmax(0,100px)` in a 25px grid: the first track passes its limit (15 > 10) and the
/// tracks overflow the container (30 > 25).
pub fn witness_overshoot() -> Case {
    let mm = |hi: f32| single(Tr { min: Sf(0, b(0.0)), max: Sf(0, b(hi)) });
    plain(25.0, 50.0, vec![mm(10.0), mm(100.0)], vec![single(px(50.0))], vec![Item::plain(1, 1, 0, 0)])
}

/// Witness (c): the same THRESHOLD leak inside step 11.5.  `minmax(min-content, 50px) minmax(10px, 10.008px) 100px`, gap 5,
/// in a 100px grid (no free space: 11.6 does nothing), one item of width 200 spanning the three columns.  When its
/// min-content contribution is distributed the only affected track (the first) is at its limit, no affected track has an
/// intrinsic max => "distribute beyond limits" selects EVERY spanned track (`filter = |_| true`), the second track has
/// 0.008 of head-room, so every spanned track -- the fixed 100px one and both gutters -- is raised by 0.008.
pub fn witness_c() -> Case {
    let mut c = plain(
        100.0,
        50.0,
        vec![
            single(Tr { min: Sf(6, 0), max: Sf(0, b(50.0)) }),
            single(Tr { min: Sf(0, b(10.0)), max: Sf(0, b(10.008)) }),
            single(px(100.0)),
        ],
        vec![single(px(50.0))],
        vec![Item { kind: 0, col: 1, cspan: 3, row: 1, rspan: 1, w: b(200.0), h: b(10.0), margin: [0; 4], ov: [0; 2] }],
    );
    c.gap = [(0, b(5.0)), (0, 0)];
    c
}

/// Fixed corpus evaluated before the random K cases (witnesses of the refuted statements, regression shapes).
pub fn corpus() -> Vec<Case> {
    let rep = |kind: u64, count: u64, tracks: Vec<Tr>| Entry { kind, count, tracks };
    let mut v = vec![witness_a(), witness_b(), witness_b2(), witness_overshoot(), witness_c()];
    // the repaired mixed-repeat count: repeat(2, 10px 20px) repeat(auto-fill | auto-fit, 30px) at 100px
    for kind in [2, 3] {
        v.push(plain(
            100.0,
            100.0,
            vec![rep(1, 2, vec![px(10.0), px(20.0)]), rep(kind, 0, vec![px(30.0)])],
            vec![rep(kind, 0, vec![px(30.0)]), single(px(5.0))],
            vec![Item::plain(5, 2, b(5.0), b(5.0))],
        ));
    }
    // three unequal fr factors, one content-floored track, a gap
    let fr = |v: f32| single(Tr { min: Sf(5, 0), max: Sf(2, b(v)) });
    let mut c = plain(300.0, 90.0, vec![fr(1.0), fr(2.0), fr(0.5), single(px(20.0))], vec![fr(1.0), fr(1.0)], vec![Item::plain(3, 1, b(120.0), b(70.0))]);
    c.gap = [(0, b(7.5)), (1, b(0.1))];
    v.push(c);
    // exact ties in find_size_of_fr (factor * fr size == base size): `minmax(60px,1fr) 1fr minmax(100px,1fr)` at 180px
    // (first fr size 60 ties with the first track) and `minmax(50px,1fr) 1fr` at 100px
    let mfr = |lo: f32| single(Tr { min: Sf(0, b(lo)), max: Sf(2, b(1.0)) });
    v.push(plain(180.0, 40.0, vec![mfr(60.0), fr(1.0), mfr(100.0)], vec![single(px(40.0))], vec![Item::plain(2, 1, b(5.0), b(5.0))]));
    v.push(plain(100.0, 40.0, vec![mfr(50.0), fr(1.0)], vec![single(px(40.0))], vec![Item::plain(1, 1, b(5.0), b(5.0))]));
    // a 0fr track with a positive base size forces a second iteration of the loop
    let zfr = single(Tr { min: Sf(0, b(30.0)), max: Sf(2, b(0.0)) });
    v.push(plain(200.0, 40.0, vec![zfr, fr(1.0), fr(3.0)], vec![single(px(40.0))], vec![Item::plain(3, 1, b(5.0), b(5.0))]));
    v
}

// ------------------------------------------------------------------------------------------------ oracle
/// Expanded sizing functions of the explicit tracks, given the reported explicit count (None: inconsistent).
fn expand_template(t: &[Entry], explicit: usize) -> Option<Vec<(Tr, bool)>> {
    // (track, generated by auto-fit)
    if explicit == 0 {
        return Some(vec![]);
    }
    let non_auto = non_auto_count(t) as usize;
    let mut out = vec![];
    for e in t {
        match e.kind {
            0 => out.push((e.tracks[0], false)),
            1 => {
                for _ in 0..e.count {
                    out.extend(e.tracks.iter().map(|t| (*t, false)));
                }
            }
            _ => {
                if explicit < non_auto || e.tracks.is_empty() || (explicit - non_auto) % e.tracks.len() != 0 || explicit == non_auto {
                    return None;
                }
                for i in 0..explicit - non_auto {
                    out.push((e.tracks[i % e.tracks.len()], e.kind == 3));
                }
            }
        }
    }
    if out.len() == explicit {
        Some(out)
    } else {
        None
    }
}

fn template_valid(t: &[Entry]) -> bool {
    let autos = t.iter().filter(|e| e.kind >= 2).count();
    let fixed = |tr: &Tr| tr.min.0 <= 1 || tr.max.0 <= 1;
    !t.iter().any(|e| e.kind >= 1 && e.tracks.is_empty()) && (autos == 0 || (autos == 1 && t.iter().all(|e| e.tracks.iter().all(fixed))))
}

pub struct AxisIn<'a> {
    pub name: &'static str,
    pub template: &'a [Entry],
    /// grid-auto-rows / grid-auto-columns
    pub autos: &'a [Tr],
    pub gap: Lp,
    /// the container's border-box size on this axis (error scale of a recomputed content box)
    pub pct_scale: f32,
    /// content-box size when the container's used size on this axis is its own definite length
    pub definite_inner: Option<f32>,
    /// content box of the container's definite MAX size on this axis when its size is indefinite (auto, no aspect ratio, root of the
    /// layout): CSS Grid 7.2.3.2 counts auto-repetitions against it ("definite size or max size")
    pub bound_inner: Option<f32>,
    /// content-box size used to resolve percentages (None: indefinite)
    pub inner: Option<f32>,
    pub info: &'a DetailedGridTracksInfo,
    /// (start, end) 1-based lines over the whole track vector, per item
    pub spans: Vec<(usize, usize)>,
}

pub enum Verdict {
    Fail(&'static str, String),
    Known(&'static str, String),
}

pub const THRESHOLD: f32 = 0.01;

/// The clauses of C09 for one axis.  Returns the verdicts and bumps the per-clause counters
/// [count, fixed, gutter, outer, fill].
pub fn check_axis(a: &AxisIn, checked: &mut [u64; 5]) -> Vec<Verdict> {
    let mut out = vec![];
    let info = a.info;
    let n = info.sizes.len();
    let (neg, exp, pos) = (info.negative_implicit_tracks as usize, info.explicit_tracks as usize, info.positive_implicit_tracks as usize);
    // ---- clause: the reported explicit track count equals the expanded template (and that many tracks exist)
    checked[0] += 1;
    if n != neg + exp + pos || info.gutters.len() != n + 1 {
        out.push(Verdict::Fail("count", format!("{}: {} tracks / {} gutters created but counts are {}+{}+{}", a.name, n, info.gutters.len(), neg, exp, pos)));
        return out;
    }
    let valid = template_valid(a.template);
    let non_auto = non_auto_count(a.template) as usize;
    let has_auto = a.template.iter().any(|e| e.kind >= 2);
    let expected_count_ok = if !valid {
        exp == 0
    } else if !has_auto {
        exp == non_auto
    } else {
        let l = a.template.iter().find(|e| e.kind >= 2).unwrap().tracks.len();
        exp > non_auto && (exp - non_auto) % l == 0
    };
    if !expected_count_ok {
        out.push(Verdict::Fail("count", format!("{}: {} explicit tracks reported; template expands to {}{}", a.name, exp, non_auto, if has_auto { " + k * auto-repeat" } else { "" })));
        return out;
    }
    let expanded = match expand_template(a.template, exp) {
        Some(e) => e,
        None => {
            out.push(Verdict::Fail("count", format!("{}: template cannot expand to {} tracks", a.name, exp)));
            return out;
        }
    };
    // auto-repeat: largest count that does not overflow a definite content box (only when every track is a fixed px
    // length; 1e-3 slack)
    if valid && has_auto {
        if let Some(inner) = a.definite_inner.or(if a.gap.0 == 0 { a.bound_inner } else { None }) {
            let gapv = if a.gap.0 == 0 { f32::from_bits(a.gap.1) as f64 } else { f32::from_bits(a.gap.1) as f64 * inner as f64 };
            let all_px = a.template.iter().all(|e| e.tracks.iter().all(|t| t.fixed_px().is_some()));
            if all_px {
                let val2 = |t: &Tr| t.fixed_px().unwrap() as f64;
                let rep = a.template.iter().find(|e| e.kind >= 2).unwrap();
                let l = rep.tracks.len();
                let k = (exp - non_auto) / l;
                let fixed_sum: f64 = a.template.iter().map(|e| match e.kind { 0 => val2(&e.tracks[0]), 1 => e.count as f64 * e.tracks.iter().map(val2).sum::<f64>(), _ => 0.0 }).sum();
                let per: f64 = rep.tracks.iter().map(val2).sum();
                let total = |k: usize| fixed_sum + per * k as f64 + gapv * ((non_auto + k * l).saturating_sub(1)) as f64;
                if per + gapv * l as f64 > 1e-6 {
                    if total(k + 1) < inner as f64 - 1e-3 {
                        out.push(Verdict::Fail("count", format!("{}: {} auto-repetitions but {} fit into {}", a.name, k, k + 1, inner)));
                    }
                    if k > 1 && total(k) > inner as f64 + 1e-3 {
                        out.push(Verdict::Fail("count", format!("{}: {} auto-repetitions overflow {}", a.name, k, inner)));
                    }
                }
            }
        }
    }
    // occupancy per track (0-based over the whole vector)
    let occupied = |k: usize| a.spans.iter().any(|(s, e)| s - 1 <= k && k < e - 1);
    // sizing functions of every track of the vector: implicit tracks cycle through grid-auto-* (negative ones end on its
    // last entry), explicit ones are the expanded template
    let auto_tr = Tr { min: Sf(5, 0), max: Sf(5, 0) };
    let all: Vec<(Tr, bool)> = (0..n)
        .map(|k| {
            if k < neg {
                let l = a.autos.len();
                (if l == 0 { auto_tr } else { a.autos[(l - neg % l + k) % l] }, false)
            } else if k < neg + exp {
                expanded[k - neg]
            } else {
                let l = a.autos.len();
                (if l == 0 { auto_tr } else { a.autos[(k - neg - exp) % l] }, false)
            }
        })
        .collect();
    let collapsed = |k: usize| all[k].1 && !occupied(k);
    // number of tracks of this axis that a space distribution may still grow (non-flexible, min != max)
    let growable = (0..n)
        .filter(|k| {
            let t = all[*k].0;
            !collapsed(*k) && t.max.0 != 2 && t.fixed_px().is_none() && !(t.min == t.max && t.min.0 == 1)
        })
        .count();
    let spanning = a.spans.iter().filter(|(s, e)| e - s > 1).count();
    // a fixed track may be raised by at most THRESHOLD per iteration of distribute_space_up_to_limits; the
    // iterations of one call are bounded by the growable tracks + 1, the calls by 1 (maximise) + 4 per spanning item
    let known_b_bound = THRESHOLD as f64 * ((growable + 1) * (1 + 4 * spanning)) as f64 * 1.0001;
    // class `intrinsic-beyond-limits-leak` (step 11.5): the track / gutter lies inside the span of an item spanning >= 2
    // tracks whose span contains a track with an intrinsic min sizing function (auto | min-content | max-content, or a
    // percentage under an indefinite size): only then can "distribute beyond limits" run with `filter = |_| true`
    let intrinsic_min = |k: usize| {
        let m = all[k].0.min.0;
        !collapsed(k) && (m == 5 || m == 6 || m == 7 || (m == 1 && a.inner.is_none()))
    };
    // tracks lo..=hi (0-based) all inside one such item's span (a gutter between tracks i-1 and i: lo = i-1, hi = i)
    let covered = |lo: usize, hi: usize| {
        a.spans.iter().any(|(s, e)| e - s >= 2 && s - 1 <= lo && hi + 2 <= *e && (s - 1..e - 1).any(|k| intrinsic_min(k)))
    };
    let mut dev_known = |what: String, cov: bool, got: f32, want: f32, out: &mut Vec<Verdict>, clause: &'static str| {
        let d = got as f64 - want as f64;
        if growable > 0 && d > 0.0 && d <= known_b_bound && cov {
            out.push(Verdict::Known("intrinsic-beyond-limits-leak", format!("{}: {} is {} instead of {} (+{:.6}; inside the span of an item crossing an intrinsic-min track, {} growable tracks)", a.name, what, got, want, d, growable)));
        } else if growable > 0 && d > 0.0 && d <= known_b_bound {
            out.push(Verdict::Known("threshold-overshoot", format!("{}: {} is {} instead of {} (+{:.6}, {} growable tracks)", a.name, what, got, want, d, growable)));
        } else {
            out.push(Verdict::Fail(clause, format!("{}: {} is {} instead of {}", a.name, what, got, want)));
        }
    };
    // ---- clause: fixed tracks are exact
    for k in 0..n {
        if collapsed(k) {
            continue;
        }
        if let Some(l) = all[k].0.fixed_px() {
            checked[1] += 1;
            if info.sizes[k].to_bits() != l.to_bits() && !(info.sizes[k] == l) {
                dev_known(format!("fixed track {}", k), covered(k, k), info.sizes[k], l, &mut out, "fixed");
            }
        }
    }
    // ---- clause: outer gutters zero, inner gutters equal the resolved gap
    for (what, g) in [("first", info.gutters[0]), ("last", info.gutters[n])] {
        checked[3] += 1;
        if g != 0.0 {
            dev_known(format!("{} outer gutter", what), false, g, 0.0, &mut out, "outer");
        }
    }
    let gapv = match (a.gap.0, a.inner) {
        (0, _) => Some(f32::from_bits(a.gap.1)),
        (_, Some(inner)) => Some(f32::from_bits(a.gap.1) * inner),
        _ => None,
    };
    if let Some(gapv) = gapv {
        for i in 1..n {
            // gutter i lies between track i-1 and track i; the one created with a collapsed auto-fit track is absent
            let want = if collapsed(i - 1) { 0.0 } else { gapv };
            checked[2] += 1;
            // a percentage gap is resolved against the content box as the implementation rounds it; the oracle recomputes
            // the content box from the Layout, which may differ in the last place
            let same = info.gutters[i] == want || (a.gap.0 == 1 && (info.gutters[i] - want).abs() <= (want.abs() + f32::from_bits(a.gap.1).abs() * a.pct_scale) * 8.0 * f32::EPSILON);
            if !same {
                dev_known(format!("gutter {}", i), covered(i - 1, i), info.gutters[i], want, &mut out, "gutter");
            }
        }
    }
    // ---- clause: fr fill
    if let Some(s) = a.definite_inner {
        let frs: Vec<(usize, f32)> = (0..n).filter(|k| all[*k].0.max.0 == 2 && !collapsed(*k)).map(|k| (k, all[k].0.max.f())).collect();
        let fsum: f64 = frs.iter().map(|(_, f)| *f as f64).sum();
        if fsum >= 1.0 && frs.iter().all(|(_, f)| f.is_finite() && *f >= 0.0) {
            checked[4] += 1;
            let total: f64 = info.sizes.iter().map(|x| *x as f64).sum::<f64>() + info.gutters.iter().map(|x| *x as f64).sum::<f64>();
            let tol = (s.abs() as f64) * (n as f64 + 2.0) * 2.4e-7 + 1e-6;
            if !(total >= s as f64 - tol) {
                // class (a): some fr track is floored above its share and the factors of the others sum to < 1
                let hs: Vec<f64> = frs.iter().filter(|(_, f)| *f > 0.0).map(|(k, f)| info.sizes[*k] as f64 / *f as f64).collect();
                let h = hs.iter().cloned().fold(f64::INFINITY, f64::min);
                let flexible: f64 = frs.iter().filter(|(k, f)| *f > 0.0 && (info.sizes[*k] as f64 / *f as f64) <= h * (1.0 + 1e-5)).map(|(_, f)| *f as f64).sum();
                let floored = frs.iter().any(|(k, f)| *f > 0.0 && (info.sizes[*k] as f64 / *f as f64) > h * (1.0 + 1e-5));
                if floored && flexible < 1.0 {
                    out.push(Verdict::Known("fr-floor-remaining-lt-1", format!("{}: tracks+gutters {} < content box {}: an fr track is floored above its share and the remaining factors sum to {}", a.name, total, s, flexible)));
                } else {
                    out.push(Verdict::Fail("fill", format!("{}: tracks+gutters total {} < content box {} with fr factors summing to {}", a.name, total, s, fsum)));
                }
            }
        }
    }
    out
}

/// Broad generator for the oracle: any template / auto tracks / gap / container size / children of the shared generator.
pub fn gen_oracle(seed: u64, idx: u64) -> (NodeSpec, Size<AvailableSpace>) {
    let mut rng = Rng::new(seed.wrapping_mul(0x9E37_79B9).wrapping_add(idx).wrapping_add(0xC09));
    let mut cfg = GenCfg::default();
    cfg.displays = vec![Display::Grid, Display::Block, Display::Flex];
    cfg.max_depth = 2;
    cfg.max_nodes = 9;
    cfg.max_children = 6;
    cfg.fractional = idx % 2 == 1;
    let mut t = treegen::tree(&mut rng, &cfg);
    t.style.display = Display::Grid;
    t.style.position = Position::Relative;
    // more definite containers and more fr / fixed tracks than the shared distribution gives
    if rng.chance(2, 3) {
        t.style.size = Size { width: Dimension::length(20.0 + treegen::len_value(&mut rng, &cfg, 400)), height: Dimension::length(20.0 + treegen::len_value(&mut rng, &cfg, 300)) };
    }
    if rng.chance(1, 2) {
        t.style.min_size = Size::auto();
        t.style.max_size = Size::auto();
        t.style.aspect_ratio = None;
    }
    if rng.chance(1, 2) {
        let mut tmpl = |rng: &mut Rng| -> Vec<TrackSizingFunction> {
            let n = 1 + rng.below(5);
            (0..n)
                .map(|_| match rng.below(6) {
                    0 | 1 => fr(*rng.pick(&[0.25f32, 0.5, 0.6, 1.0, 1.5, 2.0, 3.0])),
                    2 => length(treegen::len_value(rng, &cfg, 90)),
                    3 => {
                        let lo = treegen::len_value(rng, &cfg, 90);
                        minmax(MinTrackSizingFunction::length(lo), MaxTrackSizingFunction::length(lo + *rng.pick(&[0.004f32, 0.008, 0.5, 30.0])))
                    }
                    4 => TrackSizingFunction::Repeat(GridTrackRepetition::Count(1 + rng.below(3) as u16), (0..1 + rng.below(2)).map(|_| treegen::track(rng, &cfg)).collect()),
                    _ => TrackSizingFunction::Single(treegen::track(rng, &cfg)),
                })
                .collect()
        };
        t.style.grid_template_columns = tmpl(&mut rng);
        if rng.chance(1, 2) {
            t.style.grid_template_rows = tmpl(&mut rng);
        }
    }
    // a tenth of the cases: auto-repeat tracks on an axis whose size is AUTO but bounded by a max-size (and often a smaller min-size),
    // so that "how many repetitions" is decided by the bounds, not by a definite size
    if idx % 10 == 4 {
        let tr = *rng.pick(&[10.0f32, 20.0, 30.0]);
        let kind = if rng.chance(1, 2) { GridTrackRepetition::AutoFill } else { GridTrackRepetition::AutoFit };
        let lo = tr * (1.0 + rng.below(2) as f32) + *rng.pick(&[0.0f32, 3.0]);
        let hi = lo + tr * (1.0 + rng.below(3) as f32) + *rng.pick(&[0.0f32, 1.0]);
        let rep = TrackSizingFunction::Repeat(kind, vec![length(tr)]);
        let with_min = rng.chance(2, 3);
        t.style.aspect_ratio = None;
        if rng.chance(1, 2) {
            t.style.grid_template_columns = vec![rep];
            t.style.size.width = Dimension::auto();
            t.style.min_size.width = if with_min { Dimension::length(lo) } else { Dimension::auto() };
            t.style.max_size.width = Dimension::length(hi);
        } else {
            t.style.grid_template_rows = vec![rep];
            t.style.size.height = Dimension::auto();
            t.style.min_size.height = if with_min { Dimension::length(lo) } else { Dimension::auto() };
            t.style.max_size.height = Dimension::length(hi);
        }
    }
    if t.children.is_empty() && rng.chance(1, 2) {
        t.children.push(NodeSpec { style: treegen::style(&mut rng, &cfg, false, true), ctx: treegen::ctx(&mut rng, &cfg), children: vec![] });
    }
    let a = treegen::avail(&mut rng, &cfg);
    (t, a)
}

fn lp_of(l: LengthPercentage) -> Option<Lp> {
    let c = l.into_raw();
    if c.tag() == taffy::CompactLength::LENGTH_TAG {
        Some((0, c.value().to_bits()))
    } else if c.tag() == taffy::CompactLength::PERCENT_TAG {
        Some((1, c.value().to_bits()))
    } else {
        None
    }
}
fn is_len(l: LengthPercentage) -> bool {
    l.into_raw().tag() == taffy::CompactLength::LENGTH_TAG
}
fn dim_len(d: Dimension) -> Option<f32> {
    let c = d.into_raw();
    if c.tag() == taffy::CompactLength::LENGTH_TAG { Some(c.value()) } else { None }
}

/// Evaluate the clauses on one laid-out grid container.
pub fn oracle_on(spec: &NodeSpec, avail: Size<AvailableSpace>, checked: &mut [u64; 5]) -> Vec<Verdict> {
    let r = match run_spec(spec, avail) {
        Some(r) => r,
        None => return vec![],
    };
    let s = &spec.style;
    let cols: Vec<Entry> = s.grid_template_columns.iter().map(Entry::of).collect();
    let rows: Vec<Entry> = s.grid_template_rows.iter().map(Entry::of).collect();
    let auto_cols: Vec<Tr> = s.grid_auto_columns.iter().map(Tr::of).collect();
    let auto_rows: Vec<Tr> = s.grid_auto_rows.iter().map(Tr::of).collect();
    let lay = &r.root;
    let scroll_x = if s.overflow.y == taffy::Overflow::Scroll { s.scrollbar_width } else { 0.0 };
    let scroll_y = if s.overflow.x == taffy::Overflow::Scroll { s.scrollbar_width } else { 0.0 };
    let inner_w = (lay.size.width - lay.padding.left - lay.padding.right - lay.border.left - lay.border.right - scroll_x).max(0.0);
    let inner_h = (lay.size.height - lay.padding.top - lay.padding.bottom - lay.border.top - lay.border.bottom - scroll_y).max(0.0);
    // "the container's used size on an axis is its own definite length (border-box, length-valued padding and border)"
    let bb = s.box_sizing == taffy::BoxSizing::BorderBox;
    let def = |style_len: Option<f32>, used: f32, pb: [LengthPercentage; 4], scroll: f32| bb && scroll == 0.0 && pb.iter().all(|l| is_len(*l)) && style_len.map(|l| l == used).unwrap_or(false);
    let def_w = def(dim_len(s.size.width), lay.size.width, [s.padding.left, s.padding.right, s.border.left, s.border.right], scroll_x);
    let def_h = def(dim_len(s.size.height), lay.size.height, [s.padding.top, s.padding.bottom, s.border.top, s.border.bottom], scroll_y);
    // percentages resolve against the content box only when the container size was definite while sizing; restrict to the
    // cases where that is certain (own definite length)
    // indefinite size bounded by a definite max-size (and a min-size that does not exceed it): the auto-repeat count is taken against
    // the max-size content box
    let bound = |size: Dimension, min: Dimension, max: Dimension, pb: [LengthPercentage; 4], scroll: f32| -> Option<f32> {
        let mx = dim_len(max)?;
        let min_ok = min.is_auto() || dim_len(min).map(|m| m <= mx).unwrap_or(false);
        if bb && size.is_auto() && s.aspect_ratio.is_none() && scroll == 0.0 && min_ok && pb.iter().all(|l| is_len(*l)) {
            let pbs: f32 = pb.iter().map(|l| l.into_raw().value()).sum();
            if mx - pbs > 0.0 { Some(mx - pbs) } else { None }
        } else {
            None
        }
    };
    let bound_w = bound(s.size.width, s.min_size.width, s.max_size.width, [s.padding.left, s.padding.right, s.border.left, s.border.right], scroll_x);
    let bound_h = bound(s.size.height, s.min_size.height, s.max_size.height, [s.padding.top, s.padding.bottom, s.border.top, s.border.bottom], scroll_y);
    let mut out = vec![];
    let col_spans = r.info.items.iter().map(|i| (i.column_start as usize, i.column_end as usize)).collect();
    let row_spans = r.info.items.iter().map(|i| (i.row_start as usize, i.row_end as usize)).collect();
    if let Some(g) = lp_of(s.gap.width) {
        out.extend(check_axis(
            &AxisIn { name: "columns", template: &cols, autos: &auto_cols, pct_scale: lay.size.width, gap: g, definite_inner: if def_w { Some(inner_w) } else { None }, bound_inner: bound_w, inner: if def_w { Some(inner_w) } else { None }, info: &r.info.columns, spans: col_spans },
            checked,
        ));
    }
    if let Some(g) = lp_of(s.gap.height) {
        out.extend(check_axis(
            &AxisIn { name: "rows", template: &rows, autos: &auto_rows, pct_scale: lay.size.height, gap: g, definite_inner: if def_h { Some(inner_h) } else { None }, bound_inner: bound_h, inner: if def_h { Some(inner_h) } else { None }, info: &r.info.rows, spans: row_spans },
            checked,
        ));
    }
    // geometry: with start-like alignment, the distance between the areas of neighbouring tracks is the gutter
    out.extend(check_offsets(spec, &r));
    out
}

/// Items that fill their grid area (no size, margin, inset or alignment of their own; in-flow) sit at the track offsets:
/// for content alignment without distribution (start/stretch... with the tracks starting at the content-box origin) the
/// location of such an item equals padding + border + every track and gutter before it.
fn check_offsets(spec: &NodeSpec, r: &Run) -> Vec<Verdict> {
    let mut out = vec![];
    let s = &spec.style;
    let inflow: Vec<&NodeSpec> = spec.children.iter().filter(|c| c.style.display != Display::None && c.style.position != Position::Absolute).collect();
    let lays: Vec<&taffy::Layout> = spec.children.iter().zip(r.kids.iter()).filter(|(c, _)| c.style.display != Display::None && c.style.position != Position::Absolute).map(|(_, l)| l).collect();
    if inflow.len() != r.info.items.len() {
        return out;
    }
    // baseline alignment shims every item of a row (11.5.1): positions are then not the track offsets
    if inflow.iter().any(|c| c.style.align_self == Some(AlignItems::Baseline)) {
        return out;
    }
    let startlike = |a: Option<AlignContent>| matches!(a, None | Some(AlignContent::Start) | Some(AlignContent::FlexStart) | Some(AlignContent::Stretch));
    let plain_child = |c: &Style| {
        c.margin == Rect::zero() && c.inset == Rect::auto() && c.align_self.is_none() && c.justify_self.is_none() && c.aspect_ratio.is_none()
    };
    for (i, c) in inflow.iter().enumerate() {
        if !plain_child(&c.style) {
            continue;
        }
        let it = &r.info.items[i];
        if startlike(s.justify_content) && s.justify_items.is_none() {
            let k = it.column_start as usize - 1;
            let want: f64 = (r.root.padding.left + r.root.border.left) as f64
                + r.info.columns.sizes[..k].iter().map(|x| *x as f64).sum::<f64>()
                + r.info.columns.gutters[..=k].iter().map(|x| *x as f64).sum::<f64>();
            let got = lays[i].location.x as f64;
            if (got - want).abs() > 1e-3 * (1.0 + want.abs()) {
                out.push(Verdict::Fail("offset", format!("columns: item {} in track {} is at x={} but the tracks and gutters before it end at {}", i, k, got, want)));
            }
        }
        if startlike(s.align_content) && s.align_items.is_none() {
            let k = it.row_start as usize - 1;
            let want: f64 = (r.root.padding.top + r.root.border.top) as f64
                + r.info.rows.sizes[..k].iter().map(|x| *x as f64).sum::<f64>()
                + r.info.rows.gutters[..=k].iter().map(|x| *x as f64).sum::<f64>();
            let got = lays[i].location.y as f64;
            if (got - want).abs() > 1e-3 * (1.0 + want.abs()) {
                out.push(Verdict::Fail("offset", format!("rows: item {} in track {} is at y={} but the tracks and gutters before it end at {}", i, k, got, want)));
            }
        }
    }
    out
}

fn sf_str(s: Sf) -> String {
    match s.0 {
        0 => format!("{}px", s.f()),
        1 => format!("{}%", s.f() * 100.0),
        2 => format!("{}fr", s.f()),
        3 => format!("fit-content({}px)", s.f()),
        4 => format!("fit-content({}%)", s.f() * 100.0),
        5 => "auto".into(),
        6 => "min-content".into(),
        _ => "max-content".into(),
    }
}
fn tr_str(t: &Tr) -> String {
    if t.min == t.max {
        sf_str(t.min)
    } else {
        format!("minmax({}, {})", sf_str(t.min), sf_str(t.max))
    }
}
fn template_str(t: &[Entry]) -> String {
    t.iter()
        .map(|e| {
            let ts = e.tracks.iter().map(tr_str).collect::<Vec<_>>().join(" ");
            match e.kind {
                0 => ts,
                1 => format!("repeat({}, {})", e.count, ts),
                2 => format!("repeat(auto-fill, {})", ts),
                _ => format!("repeat(auto-fit, {})", ts),
            }
        })
        .collect::<Vec<_>>()
        .join(" ")
}
/// Compact CSS-like description of a grid container and its children.
pub fn describe(spec: &NodeSpec) -> String {
    let s = &spec.style;
    let cl = |c: taffy::CompactLength| {
        if c.is_auto() {
            "auto".to_string()
        } else if c.tag() == taffy::CompactLength::PERCENT_TAG {
            format!("{}%", c.value() * 100.0)
        } else {
            format!("{}px", c.value())
        }
    };
    let d = |x: Dimension| cl(x.into_raw());
    let lp = |x: LengthPercentage| cl(x.into_raw());
    let lpa = |x: LengthPercentageAuto| cl(x.into_raw());
    let mut out = format!(
        "grid {{ size: {} x {}; min: {} x {}; max: {} x {}; box-sizing: {:?}; padding: {} {} {} {}; border: {} {} {} {}; gap: {} {}; overflow: {:?}/{:?} sb {}; aspect: {:?};\n  columns: {};\n  rows: {};\n  auto-columns: {}; auto-rows: {}; flow: {:?}; justify-content: {:?}; align-content: {:?}; justify-items: {:?}; align-items: {:?} }}",
        d(s.size.width), d(s.size.height), d(s.min_size.width), d(s.min_size.height), d(s.max_size.width), d(s.max_size.height), s.box_sizing,
        lp(s.padding.left), lp(s.padding.right), lp(s.padding.top), lp(s.padding.bottom),
        lp(s.border.left), lp(s.border.right), lp(s.border.top), lp(s.border.bottom),
        lp(s.gap.width), lp(s.gap.height), s.overflow.x, s.overflow.y, s.scrollbar_width, s.aspect_ratio,
        template_str(&s.grid_template_columns.iter().map(Entry::of).collect::<Vec<_>>()),
        template_str(&s.grid_template_rows.iter().map(Entry::of).collect::<Vec<_>>()),
        s.grid_auto_columns.iter().map(|t| tr_str(&Tr::of(t))).collect::<Vec<_>>().join(" "),
        s.grid_auto_rows.iter().map(|t| tr_str(&Tr::of(t))).collect::<Vec<_>>().join(" "),
        s.grid_auto_flow, s.justify_content, s.align_content, s.justify_items, s.align_items
    );
    for (i, c) in spec.children.iter().enumerate() {
        let cs = &c.style;
        out += &format!(
            "\n  child {}: display {:?} position {:?} size {} x {} min {} x {} max {} x {} margin {} {} {} {} inset {} {} {} {} col {:?} row {:?} align-self {:?} justify-self {:?} aspect {:?} overflow {:?}/{:?} ctx {:?} children {}",
            i, cs.display, cs.position, d(cs.size.width), d(cs.size.height), d(cs.min_size.width), d(cs.min_size.height), d(cs.max_size.width), d(cs.max_size.height),
            lpa(cs.margin.left), lpa(cs.margin.right), lpa(cs.margin.top), lpa(cs.margin.bottom),
            lpa(cs.inset.left), lpa(cs.inset.right), lpa(cs.inset.top), lpa(cs.inset.bottom),
            cs.grid_column, cs.grid_row, cs.align_self, cs.justify_self, cs.aspect_ratio, cs.overflow.x, cs.overflow.y, c.ctx, c.children.len()
        );
    }
    out
}

/// `START <idx>` (flushed) before a case is laid out: a hang or abort is attributed to the last START.
thread_local! {
    static LAST_PANIC: std::cell::RefCell<String> = std::cell::RefCell::new(String::new());
    static LAST_IDX: std::cell::Cell<i64> = std::cell::Cell::new(0);
}
fn start_line(idx: i64) {
    use std::io::Write;
    LAST_IDX.with(|i| i.set(idx));
    println!("START {}", idx);
    std::io::stdout().flush().unwrap();
}

fn report(idx: i64, vs: &[Verdict]) -> (u64, u64) {
    let (mut f, mut k) = (0, 0);
    for v in vs {
        match v {
            Verdict::Fail(c, m) => {
                f += 1;
                println!("FAIL {} {} {}", idx, c, m);
            }
            Verdict::Known(c, m) => {
                k += 1;
                println!("KNOWN {} {} {}", idx, c, m);
            }
        }
    }
    (f, k)
}

/// The K cases the oracle evaluates before the broad generator: corpus, stage-1 class, stage-2 class.
fn oracle_kcases(seed: u64, n: u64) -> Vec<Case> {
    let mut rng = Rng::new(seed ^ 0xC09);
    let mut rng2 = Rng::new(seed ^ 0x2C09);
    let mut v = corpus();
    v.extend((0..n / 4).map(|_| gen_k(&mut rng)));
    v.extend((0..n / 4).map(|_| gen_k2(&mut rng2)));
    let mut rng3 = Rng::new(seed ^ 0x3C09);
    v.extend((0..n / 8).map(|_| gen_k3(&mut rng3)));
    v
}

pub fn main(args: &[String]) {
    if args[0] == "oracle" {
        // panics are caught per case; remember where they came from
        std::panic::set_hook(Box::new(|info| {
            let loc = info.location().map(|l| format!("{}:{}", l.file(), l.line())).unwrap_or_default();
            LAST_PANIC.with(|p| *p.borrow_mut() = loc);
        }));
    }
    match args[0].as_str() {
        "cases" => {
            let seed: u64 = args[1].parse().unwrap();
            let n: u64 = args[2].parse().unwrap();
            for c in corpus() {
                print_case(&c);
            }
            // one third stage-1 class (also evaluated by the stage-1 runner), two thirds stage-2 class
            let mut rng = Rng::new(seed ^ 0xC09);
            for _ in 0..n / 3 {
                print_case(&gen_k(&mut rng));
            }
            // stage 2: fixed-size leaves, and (second half) "text" leaves in rigid rows
            let mut rng = Rng::new(seed ^ 0x2C09);
            let n2 = n - n / 3;
            for _ in 0..n2 / 2 {
                print_case(&gen_k2(&mut rng));
            }
            let mut rng = Rng::new(seed ^ 0x3C09);
            for _ in 0..n2 - n2 / 2 {
                print_case(&gen_k3(&mut rng));
            }
        }
        "one" => {
            let xs: Vec<i64> = args[1..].iter().map(|x| x.parse().unwrap()).collect();
            let c = Case::decode(&xs);
            if args.len() > 1 && std::env::var("C09_VERBOSE").is_ok() {
                println!("{:#?}", c);
            }
            print_case(&c);
        }
        "oracle" => {
            let seed: u64 = args[1].parse().unwrap();
            let n: u64 = args[2].parse().unwrap();
            let mut checked = [0u64; 5];
            let (mut fails, mut knowns, mut panics) = (0, 0, 0);
            // the K corpus and random K cases are oracle inputs too (fixed leaves on explicit lines)
            let kcases = oracle_kcases(seed, n);
            for (i, c) in kcases.iter().enumerate() {
                let spec = c.spec();
                let av = c.avail();
                start_line(-(i as i64) - 1);
                match std::panic::catch_unwind(|| {
                    let mut ch = [0u64; 5];
                    (oracle_on(&spec, av, &mut ch), ch)
                }) {
                    Ok((vs, ch)) => {
                        for j in 0..5 {
                            checked[j] += ch[j];
                        }
                        let (f, k) = report(-(i as i64) - 1, &vs);
                        fails += f;
                        knowns += k;
                    }
                    Err(e) => {
                        panics += 1;
                        let msg = e.downcast_ref::<String>().cloned().or_else(|| e.downcast_ref::<&str>().map(|s| s.to_string())).unwrap_or_default();
                        println!("PANIC {} {} at {}", LAST_IDX.with(|i| i.get()), msg.replace('\n', " "), LAST_PANIC.with(|p| p.borrow().clone()));
                    }
                }
            }
            for idx in 0..n {
                let (spec, a) = gen_oracle(seed, idx);
                start_line(idx as i64);
                match std::panic::catch_unwind(|| {
                    let mut ch = [0u64; 5];
                    (oracle_on(&spec, a, &mut ch), ch)
                }) {
                    Ok((vs, ch)) => {
                        for j in 0..5 {
                            checked[j] += ch[j];
                        }
                        let (f, k) = report(idx as i64, &vs);
                        fails += f;
                        knowns += k;
                    }
                    Err(e) => {
                        panics += 1;
                        let msg = e.downcast_ref::<String>().cloned().or_else(|| e.downcast_ref::<&str>().map(|s| s.to_string())).unwrap_or_default();
                        println!("PANIC {} {} at {}", LAST_IDX.with(|i| i.get()), msg.replace('\n', " "), LAST_PANIC.with(|p| p.borrow().clone()));
                    }
                }
            }
            println!("ORACLE {} count={} fixed={} gutter={} outer={} fill={} fails={} known={} panics={}", n + kcases.len() as u64, checked[0], checked[1], checked[2], checked[3], checked[4], fails, knowns, panics);
        }
        "show" => {
            let seed: u64 = args[1].parse().unwrap();
            let idx: i64 = args[2].parse().unwrap();
            let (spec, a) = if idx < 0 {
                let n: u64 = args.get(3).map(|x| x.parse().unwrap()).unwrap_or(0);
                let kcases = oracle_kcases(seed, n);
                let c = &kcases[(-idx - 1) as usize];
                println!("C {}", c.encode().iter().map(|x| x.to_string()).collect::<Vec<_>>().join(" "));
                (c.spec(), c.avail())
            } else {
                gen_oracle(seed, idx as u64)
            };
            if std::env::var("C09_VERBOSE").is_ok() {
                println!("{:#?}", spec);
            }
            if std::env::var("C09_DEEP").is_ok() {
                println!("{}", describe_deep(&spec, 0));
            }
            println!("{}\navail={:?}", describe(&spec), a);
            if let Some(r) = run_spec(&spec, a) {
                println!("{:#?}\nroot={:?}", r.info, r.root);
                for k in &r.kids {
                    println!("child at {:?} size {:?}", k.location, k.size);
                }
            }
            let mut ch = [0u64; 5];
            report(idx, &oracle_on(&spec, a, &mut ch));
        }
        "probe" => {
            // further defects found while building C09 (not C09 violations): reproducers
            // (1) auto-fit rows, no columns, no in-flow child: row_is_occupied() indexes a 0 x 0 occupancy matrix
            let hidden = NodeSpec::leaf(Style { display: Display::None, ..Default::default() });
            let g = NodeSpec {
                style: Style {
                    display: Display::Grid,
                    size: Size::from_lengths(100.0, 100.0),
                    grid_template_rows: vec![TrackSizingFunction::Repeat(GridTrackRepetition::AutoFit, vec![length(10.0)])],
                    ..Default::default()
                },
                ctx: None,
                children: vec![hidden],
            };
            let r = std::panic::catch_unwind(|| run_spec(&g, Size::MAX_CONTENT).map(|r| r.info.rows.sizes.len()));
            println!("PROBE autofit-empty-axis {:?}", r.map_err(|e| e.downcast_ref::<String>().cloned().unwrap_or_default()));
        }
        "witness" => {
            for (name, c) in [("a", witness_a()), ("b", witness_b()), ("b2", witness_b2()), ("overshoot", witness_overshoot()), ("c", witness_c())] {
                let r = run_spec(&c.spec(), c.avail()).unwrap();
                println!("WITNESS {} sizes={:?} gutters={:?} container={}", name, r.info.columns.sizes, r.info.columns.gutters, r.root.size.width);
                let mut ch = [0u64; 5];
                report(0, &oracle_on(&c.spec(), c.avail(), &mut ch));
            }
        }
        _ => std::process::exit(2),
    }
}

/// Recursive compact description (debugging aid for oracle cases whose panic comes from a nested container).
pub fn describe_deep(spec: &NodeSpec, depth: usize) -> String {
    let mut out = String::new();
    let pad = "  ".repeat(depth);
    for l in describe(spec).lines() {
        out += &format!("{}{}\n", pad, l);
    }
    for c in &spec.children {
        if !c.children.is_empty() {
            out += &format!("{}-- child subtree (display {:?}):\n", pad, c.style.display);
            out += &describe_deep(c, depth + 1);
        }
    }
    out
}
