(* Shared geometry and style-length types of the numeric models (src/geometry.rs, src/style/dimension.rs,
   src/style/available_space.rs).  Definitions only; nothing here depends on the number type.
   Gen/MathGen.v (regenerated from /repo on every run) is written against these types; Model/Common.v
   re-exports both. *)
From Coq Require Import List.

Set Implicit Arguments.

(* geometry.rs: Size<T>, Rect<T>, Point<T>, Line<T> *)
Record Size (A : Type) := mkSize { width : A; height : A }.
Record Rect (A : Type) := mkRect { r_left : A; r_right : A; r_top : A; r_bottom : A }.
Record Point (A : Type) := mkPoint { px : A; py : A }.
Record Line (A : Type) := mkLine { l_start : A; l_end : A }.

(* style/dimension.rs.  A style length is a tagged f32 (CompactLength, property C18); calc() is out of scope.
   LengthPercentage: padding, border, gap.  LengthPercentageAuto: margin, inset.  Dimension: size, min/max size,
   flex-basis (same three shapes as LengthPercentageAuto). *)
Inductive LengthPercentage (T : Type) : Type :=
  | LpLength (v : T)
  | LpPercent (v : T).
Inductive LengthPercentageAuto (T : Type) : Type :=
  | Auto
  | Length (v : T)
  | Percent (v : T).
Definition Dimension := LengthPercentageAuto.

(* style/available_space.rs; the constructor order is checked against the Rust enum by translator/gen_math.py *)
Inductive AvailableSpace (T : Type) : Type :=
  | Definite (v : T)
  | MinContent
  | MaxContent.

Arguments Auto {T}.
Arguments MinContent {T}.
Arguments MaxContent {T}.

Unset Implicit Arguments.
