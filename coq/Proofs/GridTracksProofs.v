(* Lemmas about Model/GridTracks.v (C09).  Part 1 (any number structure): shape of the vector built by
   initialize_grid_tracks and the number of tracks it creates.  Part 2 (exact instance XQ): find_size_of_fr /
   expand_flexible_tracks, distribute_space_up_to_limits / maximise_tracks. *)
From Coq Require Import ZArith NArith QArith Qminmax Bool List Lia Lqa Arith.
From TV Require Import Num.Num Num.QNum Gen.GridTracksGen Model.GridTracks.
Import ListNotations.

(* ==================================================================================================================
   Part 1: structure and counts *)
Section Structure.
  Context {T : Type} `{Num T}.

  Definition is_track (t : track T) : bool := match kind t with KTrack => true | KGutter => false end.
  Definition count_tracks (l : list (track T)) : nat := length (filter is_track l).

  (* an outer (collapsed) gutter; an inner gutter after track t *)
  Definition outer_gutter (g : track T) : Prop :=
    kind g = KGutter /\ is_collapsed g = true /\ minf g = SLength zero /\ maxf g = SLength zero.
  Definition inner_gutter (gap : sfn T) (t g : track T) : Prop :=
    kind g = KGutter /\
    ((is_collapsed g = false /\ minf g = gap /\ maxf g = gap) \/
     (is_collapsed g = true /\ minf g = SLength zero /\ maxf g = SLength zero /\ is_collapsed t = true)).

  (* what follows the first gutter: (track, inner gutter)* (track, outer gutter) *)
  Inductive wf_rest (gap : sfn T) : list (track T) -> Prop :=
  | wf_last : forall t g, kind t = KTrack -> outer_gutter g -> wf_rest gap [t; g]
  | wf_cons : forall t g r, kind t = KTrack -> inner_gutter gap t g -> wf_rest gap r -> wf_rest gap (t :: g :: r).
  Definition wf_tracks (gap : sfn T) (l : list (track T)) : Prop :=
    match l with
    | [] => False
    | g0 :: rest => outer_gutter g0 /\ (rest = [] \/ wf_rest gap rest)
    end.

  (* ---- the body before the outer gutters are collapsed: (track, gutter) pairs *)
  Definition gutter_ok (gap : sfn T) (t g : track T) : Prop :=
    g = gutter gap \/ (g = collapse (gutter gap) /\ is_collapsed t = true).
  Fixpoint pairs (gap : sfn T) (l : list (track T)) : Prop :=
    match l with
    | [] => True
    | t :: g :: r => kind t = KTrack /\ gutter_ok gap t g /\ pairs gap r
    | _ => False
    end.

  Lemma list_ind2 (A : Type) (P : list A -> Prop) :
    P [] -> (forall x, P [x]) -> (forall x y r, P r -> P (x :: y :: r)) -> forall l, P l.
  Proof.
    intros H0 H1 H2. assert (forall l, P l /\ forall x, P (x :: l)) as HH.
    { induction l as [|a l [IH1 IH2]].
      - split; auto.
      - split; [apply IH2|]. intro x. apply H2. exact IH1. }
    intro l. apply HH.
  Qed.

  Lemma pairs_app gap a b : pairs gap a -> pairs gap b -> pairs gap (a ++ b).
  Proof.
    revert a. apply (list_ind2 _ (fun a => pairs gap a -> pairs gap b -> pairs gap (a ++ b))).
    - auto.
    - intros x Hx. destruct Hx.
    - intros x y r IH [Hk [Hg Hr]] Hb. simpl. repeat split; auto.
  Qed.

  Lemma pairs_implicit gap autos n pos : pairs gap (implicit_tracks n autos pos gap).
  Proof.
    revert pos. induction n; intro pos; simpl; auto.
    repeat split; auto. left. reflexivity.
  Qed.

  Lemma pairs_cycle gap ts ce hi n pos idx : pairs gap (cycle_tracks n ts pos gap ce hi idx).
  Proof.
    revert pos idx. induction n; intros pos idx; simpl; auto.
    destruct (ce && negb (hi idx)); repeat split; auto.
    - right. split; reflexivity.
    - left. reflexivity.
  Qed.

  Lemma pairs_explicit gap whole ce hi entries idx : pairs gap (explicit_tracks entries whole ce gap hi idx).
  Proof.
    revert idx. induction entries as [|e rest IH]; intro idx; simpl; auto.
    apply pairs_app; [|apply IH].
    destruct e as [t|r ts].
    - simpl. repeat split; auto. left. reflexivity.
    - destruct r; destruct ts; simpl; auto; apply pairs_cycle.
  Qed.

  Lemma pairs_snoc gap l : pairs gap l -> l <> [] ->
    exists l' t g, l = l' ++ [t; g] /\ pairs gap l' /\ kind t = KTrack /\ gutter_ok gap t g.
  Proof.
    revert l. apply (list_ind2 _ (fun l => pairs gap l -> l <> [] ->
      exists l' t g, l = l' ++ [t; g] /\ pairs gap l' /\ kind t = KTrack /\ gutter_ok gap t g)).
    - intros _ Hn. congruence.
    - intros x Hx. destruct Hx.
    - intros x y r IH [Hk [Hg Hr]] _. destruct r as [|z r'].
      + exists [], x, y. simpl. auto.
      + destruct (IH Hr) as [l' [t [g [E [Hp [Hkt Hgt]]]]]]; [discriminate|].
        exists (x :: y :: l'), t, g. rewrite E. simpl. repeat split; auto.
  Qed.

  Lemma collapse_last_snoc (l : list (track T)) a : collapse_last (l ++ [a]) = l ++ [collapse a].
  Proof. unfold collapse_last. rewrite rev_app_distr. simpl. rewrite rev_involutive. reflexivity. Qed.

  Lemma gutter_ok_kind gap t g : gutter_ok gap t g -> kind g = KGutter.
  Proof. intros [E|[E _]]; subst; reflexivity. Qed.

  Lemma gutter_ok_inner gap t g : gutter_ok gap t g -> inner_gutter gap t g.
  Proof.
    intros [E|[E Hc]]; subst; split; try reflexivity.
    - left. repeat split; reflexivity.
    - right. repeat split; auto.
  Qed.

  Lemma outer_collapse g : kind g = KGutter -> outer_gutter (collapse g).
  Proof. intro Hk. unfold outer_gutter. simpl. auto. Qed.

  Lemma wf_rest_of_pairs gap l' t g : pairs gap l' -> kind t = KTrack -> gutter_ok gap t g ->
    wf_rest gap (l' ++ [t; collapse g]).
  Proof.
    revert l'. apply (list_ind2 _ (fun l' => pairs gap l' -> kind t = KTrack -> gutter_ok gap t g ->
      wf_rest gap (l' ++ [t; collapse g]))).
    - intros _ Hk Hg. simpl. apply wf_last; auto. apply outer_collapse. eapply gutter_ok_kind; eauto.
    - intros x Hx. destruct Hx.
    - intros x y r IH [Hk [Hg Hr]] Hkt Hgt. simpl. apply wf_cons; auto. apply gutter_ok_inner; auto.
  Qed.

  Definition init_body (counts : track_counts) (template : list (tsf T)) (autos : list (nrt T)) (gap : sfn T)
             (has_items : N -> bool) : list (track T) :=
    (match autos with
     | [] => implicit_tracks (N.to_nat (negative_implicit counts)) autos 0 gap
     | _ => implicit_tracks (N.to_nat (negative_implicit counts)) autos
              (length autos - Nat.modulo (N.to_nat (negative_implicit counts)) (length autos)) gap
     end)
    ++ (if (0 <? explicit counts)%N
        then explicit_tracks template template (explicit counts) gap has_items (negative_implicit counts) else [])
    ++ implicit_tracks (N.to_nat (positive_implicit counts)) autos 0 gap.

  Lemma init_unfold counts template autos gap hi :
    initialize_grid_tracks counts template autos gap hi
    = collapse_last (collapse (gutter gap) :: init_body counts template autos gap hi).
  Proof. reflexivity. Qed.

  Lemma pairs_init_body counts template autos gap hi : pairs gap (init_body counts template autos gap hi).
  Proof.
    unfold init_body. apply pairs_app; [|apply pairs_app].
    - destruct autos; apply pairs_implicit.
    - destruct (0 <? explicit counts)%N; [apply pairs_explicit | exact I].
    - apply pairs_implicit.
  Qed.

  Lemma init_shape counts template autos gap hi :
    let body := init_body counts template autos gap hi in
    (body = [] /\ initialize_grid_tracks counts template autos gap hi = [collapse (collapse (gutter gap))]) \/
    (exists l' t g, body = l' ++ [t; g] /\ pairs gap l' /\ kind t = KTrack /\ gutter_ok gap t g /\
       initialize_grid_tracks counts template autos gap hi = collapse (gutter gap) :: l' ++ [t; collapse g]).
  Proof.
    intro body. rewrite init_unfold. fold body.
    destruct body as [|b0 br] eqn:Eb.
    - left. split; reflexivity.
    - right. assert (Hp : pairs gap body) by apply pairs_init_body.
      destruct (pairs_snoc gap body Hp) as [l' [t [g [E [Hp' [Hk Hg]]]]]]; [rewrite Eb; discriminate|].
      exists l', t, g. rewrite <- Eb. repeat split; auto.
      rewrite E.
      replace (collapse (gutter gap) :: l' ++ [t; g]) with ((collapse (gutter gap) :: l' ++ [t]) ++ [g]).
      + rewrite collapse_last_snoc. simpl. rewrite <- app_assoc. reflexivity.
      + simpl. rewrite <- app_assoc. reflexivity.
  Qed.

  Theorem init_wf counts template autos gap hi :
    wf_tracks gap (initialize_grid_tracks counts template autos gap hi).
  Proof.
    destruct (init_shape counts template autos gap hi) as [[_ E]|[l' [t [g [_ [Hp [Hk [Hg E]]]]]]]]; rewrite E; simpl.
    - split; [|left; reflexivity]. apply outer_collapse. reflexivity.
    - split; [apply outer_collapse; reflexivity|]. right. apply wf_rest_of_pairs; auto.
  Qed.

  (* ---- reading wf_tracks by index *)
  Lemma wf_rest_length gap r : wf_rest gap r -> length r = (2 * count_tracks r)%nat /\ (0 < count_tracks r)%nat.
  Proof.
    induction 1 as [t g Hk [Hg _]|t g r Hk [Hg _] Hr [IH1 IH2]]; unfold count_tracks, is_track in *; simpl; rewrite Hk, Hg; simpl.
    - split; lia.
    - rewrite IH1. split; lia.
  Qed.

  Lemma wf_rest_nth gap r : wf_rest gap r -> forall i, (i < count_tracks r)%nat ->
    exists t g, nth_error r (2 * i) = Some t /\ nth_error r (2 * i + 1) = Some g /\ kind t = KTrack /\
                ((S i = count_tracks r /\ outer_gutter g) \/ ((S i < count_tracks r)%nat /\ inner_gutter gap t g)).
  Proof.
    induction 1 as [t g Hk Hg|t g r Hk Hg Hr IH]; intros i Hi.
    - assert (Hc : count_tracks [t; g] = 1%nat).
      { unfold count_tracks, is_track. simpl. rewrite Hk. destruct Hg as [Hg _]. rewrite Hg. reflexivity. }
      rewrite Hc in *. assert (i = 0)%nat by lia. subst i. exists t, g. simpl. repeat split; auto.
    - assert (Hc : count_tracks (t :: g :: r) = S (count_tracks r)).
      { unfold count_tracks, is_track. simpl. rewrite Hk. destruct Hg as [Hg _]. rewrite Hg. reflexivity. }
      rewrite Hc in *. destruct i as [|i].
      + exists t, g. simpl. repeat split; auto. right. split; auto.
        destruct (wf_rest_length gap r Hr) as [_ Hpos]. lia.
      + destruct (IH i) as [t' [g' [E1 [E2 [Hk' Hd]]]]]; [lia|].
        exists t', g'.
        replace (2 * S i + 1)%nat with (S (S (2 * i + 1))) by lia.
        replace (2 * S i)%nat with (S (S (2 * i))) by lia.
        change (nth_error (t :: g :: r) (S (S (2 * i)))) with (nth_error r (2 * i)).
        change (nth_error (t :: g :: r) (S (S (2 * i + 1)))) with (nth_error r (2 * i + 1)).
        split; [exact E1|]. split; [exact E2|]. split; [exact Hk'|].
        destruct Hd as [[Hd1 Hd2]|[Hd1 Hd2]]; [left|right]; split; auto; lia.
  Qed.

  (* ---- counting the created tracks *)
  Lemma count_app (a b : list (track T)) : count_tracks (a ++ b) = (count_tracks a + count_tracks b)%nat.
  Proof. unfold count_tracks. rewrite filter_app, app_length. reflexivity. Qed.

  Lemma count_implicit gap autos n pos : count_tracks (implicit_tracks n autos pos gap) = n.
  Proof.
    revert pos. induction n; intro pos; simpl; auto.
    unfold count_tracks in *. simpl. rewrite IHn. reflexivity.
  Qed.

  Lemma count_cycle gap ts ce hi n pos idx : count_tracks (cycle_tracks n ts pos gap ce hi idx) = n.
  Proof.
    revert pos idx. induction n; intros pos idx; simpl; auto.
    unfold count_tracks in *. destruct (ce && negb (hi idx)); simpl; rewrite IHn; reflexivity.
  Qed.

  Definition entry_created (ce : N) (whole : list (tsf T)) (e : tsf T) : nat :=
    match e with
    | TSingle _ => 1
    | TRepeat (RCount c) ts => length ts * N.to_nat c
    | TRepeat _ [] => 0
    | TRepeat _ _ => N.to_nat (auto_repeated_track_count ce (non_auto_count_init whole))
    end.

  Lemma count_explicit gap whole ce hi entries idx :
    count_tracks (explicit_tracks entries whole ce gap hi idx)
    = fold_right (fun e acc => (entry_created ce whole e + acc)%nat) 0%nat entries.
  Proof.
    revert idx. induction entries as [|e rest IH]; intro idx; simpl; auto.
    rewrite count_app, IH. f_equal.
    destruct e as [t|r ts]; [reflexivity|].
    destruct r; destruct ts; simpl; try reflexivity; try apply count_cycle.
  Qed.

  Lemma nsum_shift (l : list N) (a : N) : fold_left N.add l a = (a + fold_left N.add l 0%N)%N.
  Proof.
    revert a. induction l as [|x l IH]; intro a; simpl; [lia|].
    rewrite (IH (a + x)%N), (IH x). lia.
  Qed.
  Lemma nsum_cons (x : N) (l : list N) : nsum (x :: l) = (x + nsum l)%N.
  Proof. unfold nsum. simpl. apply nsum_shift. Qed.

  Definition no_empty_rep (template : list (tsf T)) : Prop := existsb has_empty_repetition template = false.
  Definition n_auto (template : list (tsf T)) : nat := length (filter is_auto_repetition template).

  (* the two generated counting tables agree, and say: Single => 1, Repeat(Count(c), ts) => c * len, auto-repeat => 0 *)
  Lemma tables_agree (e : tsf T) :
    init_tracks_entry_count (shape_of e) = explicit_size_entry_count (shape_of e).
  Proof. destruct e as [t|r ts]; [|destruct r]; reflexivity. Qed.
  Lemma non_auto_counts_agree (template : list (tsf T)) : non_auto_count_init template = non_auto_count_explicit template.
  Proof.
    unfold non_auto_count_init, non_auto_count_explicit.
    rewrite (map_ext (fun e => init_tracks_entry_count (shape_of e))
                     (fun e => explicit_size_entry_count (shape_of e)) tables_agree).
    reflexivity.
  Qed.

  Lemma na_init_cons (e : tsf T) rest :
    non_auto_count_init (e :: rest) = (init_tracks_entry_count (shape_of e) + non_auto_count_init rest)%N.
  Proof. unfold non_auto_count_init. simpl map. apply nsum_cons. Qed.

  Lemma created_sum ce whole entries :
    existsb has_empty_repetition entries = false ->
    fold_right (fun e acc => (entry_created ce whole e + acc)%nat) 0%nat entries
    = (N.to_nat (non_auto_count_init entries)
       + n_auto entries * N.to_nat (auto_repeated_track_count ce (non_auto_count_init whole)))%nat.
  Proof.
    induction entries as [|e rest IH]; intro Hne; simpl.
    - reflexivity.
    - simpl in Hne. apply orb_false_iff in Hne. destruct Hne as [He Hrest].
      rewrite (IH Hrest). rewrite na_init_cons, N2Nat.inj_add.
      unfold n_auto. simpl filter.
      destruct e as [t|r ts].
      + simpl. lia.
      + destruct r as [c| |]; simpl.
        * rewrite N2Nat.inj_mul, Nat2N.id. ring.
        * destruct ts; [discriminate He|]. simpl. lia.
        * destruct ts; [discriminate He|]. simpl. lia.
  Qed.

  Lemma explicit_size_cases template inner (gapf : sfn T) mx :
    (0 < explicit_grid_size template inner gapf mx)%N ->
    existsb has_empty_repetition template = false /\
    ((n_auto template = 0%nat /\ explicit_grid_size template inner gapf mx = non_auto_count_explicit template) \/
     (n_auto template = 1%nat /\
      explicit_grid_size template inner gapf mx
      = (non_auto_count_explicit template
         + N.of_nat (length (repetition_definition template)) * num_repetitions template inner gapf mx)%N)).
  Proof.
    unfold explicit_grid_size. destruct template as [|e0 rest]; [intro Hc; lia|].
    set (tpl := e0 :: rest).
    destruct (existsb has_empty_repetition tpl) eqn:He; [intro Hc; lia|].
    destruct (template_is_valid tpl) eqn:Hv; simpl negb; cbv iota; [|intro Hc; lia].
    intros Hpos. split; [reflexivity|].
    unfold template_is_valid, auto_repetition_count in *. fold (n_auto tpl) in *.
    destruct (N.eqb (N.of_nat (n_auto tpl)) 0) eqn:E0.
    - left. apply N.eqb_eq in E0. split; [lia|reflexivity].
    - right. simpl in Hv. apply andb_true_iff in Hv. destruct Hv as [E1 _]. apply N.eqb_eq in E1. split; [lia|reflexivity].
  Qed.

  Theorem tracks_match_counts template inner (gapf gap : sfn T) mx hi idx :
    let e := explicit_grid_size template inner gapf mx in
    (0 < e)%N -> count_tracks (explicit_tracks template template e gap hi idx) = N.to_nat e.
  Proof.
    intros e Hpos. destruct (explicit_size_cases template inner gapf mx Hpos) as [Hne Hc].
    rewrite count_explicit, (created_sum _ _ _ Hne), non_auto_counts_agree.
    fold e in Hc. destruct Hc as [[Hn He]|[Hn He]]; rewrite Hn.
    - rewrite He. lia.
    - unfold auto_repeated_track_count. rewrite He. lia.
  Qed.

  Theorem init_count counts template autos gap hi inner gapf mx :
    explicit counts = explicit_grid_size template inner gapf mx ->
    count_tracks (initialize_grid_tracks counts template autos gap hi) = N.to_nat (counts_len counts).
  Proof.
    intro He.
    assert (Hb : count_tracks (init_body counts template autos gap hi) = N.to_nat (counts_len counts)).
    { unfold init_body. rewrite !count_app, !count_implicit.
      assert (Hn : count_tracks (match autos with
                 | [] => implicit_tracks (N.to_nat (negative_implicit counts)) autos 0 gap
                 | _ => implicit_tracks (N.to_nat (negative_implicit counts)) autos
                          (length autos - Nat.modulo (N.to_nat (negative_implicit counts)) (length autos)) gap
                 end) = N.to_nat (negative_implicit counts)) by (destruct autos; apply count_implicit).
      rewrite Hn. unfold counts_len. rewrite !N2Nat.inj_add.
      destruct (0 <? explicit counts)%N eqn:Hpos.
      - apply N.ltb_lt in Hpos. rewrite He in *. rewrite tracks_match_counts; auto. lia.
      - apply N.ltb_ge in Hpos. assert (explicit counts = 0%N) by lia.
        replace (count_tracks []) with 0%nat by reflexivity. lia. }
    destruct (init_shape counts template autos gap hi) as [[Eb E]|[l' [t [g [Eb [_ [Hk [Hg E]]]]]]]]; rewrite E.
    - rewrite Eb in Hb. rewrite <- Hb. reflexivity.
    - rewrite <- Hb, Eb. unfold count_tracks, is_track. simpl. rewrite !filter_app, !app_length. simpl.
      rewrite Hk, (gutter_ok_kind _ _ _ Hg). reflexivity.
  Qed.
  (* ---- wf_tracks read by index *)
  Lemma wf_tracks_index gap l : wf_tracks gap l ->
    let n := count_tracks l in
    length l = (2 * n + 1)%nat /\
    (exists g0, nth_error l 0 = Some g0 /\ outer_gutter g0) /\
    (forall i, (i < n)%nat -> exists t g,
        nth_error l (2 * i + 1) = Some t /\ nth_error l (2 * i + 2) = Some g /\ kind t = KTrack /\
        ((S i = n /\ outer_gutter g) \/ ((S i < n)%nat /\ inner_gutter gap t g))).
  Proof.
    destruct l as [|g0 rest]; [intros []|]. intros [Ho Hr].
    assert (Hc : count_tracks (g0 :: rest) = count_tracks rest).
    { unfold count_tracks, is_track. simpl. destruct Ho as [Hk _]. rewrite Hk. reflexivity. }
    cbv zeta. rewrite Hc. destruct Hr as [Er|Hr].
    - subst rest. split; [reflexivity|]. split; [exists g0; auto|]. intros i Hi. unfold count_tracks in Hi. simpl in Hi. lia.
    - destruct (wf_rest_length gap rest Hr) as [Hl _]. split; [simpl; lia|]. split; [exists g0; auto|].
      intros i Hi. destruct (wf_rest_nth gap rest Hr i Hi) as [t [g [E1 [E2 [Hk Hd]]]]].
      exists t, g. replace (2 * i + 1)%nat with (S (2 * i)) by lia. replace (2 * i + 2)%nat with (S (2 * i + 1)) by lia.
      simpl nth_error. auto.
  Qed.

  (* ---- 11.4 on a track whose min and max sizing functions are the same definite value (gutters, fixed tracks) *)
  Lemma initialize_sizes_nth inner tracks i t : nth_error tracks i = Some t ->
    minf t = maxf t -> forall v, definite_value inner (minf t) = Some v ->
    exists t', nth_error (initialize_track_sizes inner tracks) i = Some t' /\
               base_size t' = v /\ growth_limit t' = v /\ kind t' = kind t /\ minf t' = minf t /\ maxf t' = maxf t.
  Proof.
    intros Hi Hmm v Hv. unfold initialize_track_sizes.
    eexists. split; [apply (map_nth_error _ _ _ Hi)|]. cbv beta. rewrite <- Hmm, Hv. simpl.
    repeat split; auto. destruct (ltb v v); reflexivity.
  Qed.

  (* the generated counting table is the expansion rule of the template *)
  Definition spec_entry_count (reps : N) (e : tsf T) : N :=
    match e with
    | TSingle _ => 1
    | TRepeat (RCount c) ts => c * N.of_nat (length ts)
    | TRepeat _ ts => reps * N.of_nat (length ts)
    end.
  Definition spec_count (reps : N) (template : list (tsf T)) : N := nsum (map (spec_entry_count reps) template).

  Lemma non_auto_is_spec0 template : non_auto_count_explicit template = spec_count 0 template.
  Proof.
    unfold non_auto_count_explicit, spec_count. f_equal. apply map_ext. intro e.
    destruct e as [t|r ts]; [reflexivity|]. destruct r; reflexivity.
  Qed.

  Lemma spec_count_reps reps template :
    n_auto template = 1%nat ->
    spec_count reps template = (spec_count 0 template + N.of_nat (length (repetition_definition template)) * reps)%N.
  Proof.
    unfold spec_count, n_auto, repetition_definition.
    induction template as [|e rest IH]; intro Hn; [discriminate|].
    cbn [map]. rewrite !nsum_cons. destruct e as [t|r ts].
    - cbn [filter is_auto_repetition find] in *. rewrite (IH Hn). simpl spec_entry_count. lia.
    - destruct r as [c| |].
      + cbn [filter is_auto_repetition find] in *. rewrite (IH Hn). simpl spec_entry_count. lia.
      + cbn [filter is_auto_repetition find length] in *.
        assert (Hr : length (filter is_auto_repetition rest) = 0%nat) by lia.
        assert (Hz : forall k, nsum (map (spec_entry_count k) rest) = nsum (map (spec_entry_count 0) rest)).
        { intro k. f_equal. apply map_ext_in. intros e He. destruct e as [t|r' ts']; [reflexivity|]. destruct r'; [reflexivity| |];
          exfalso; apply length_zero_iff_nil in Hr;
          assert (Hin : In (TRepeat RAutoFill ts') (filter is_auto_repetition rest) \/ In (TRepeat RAutoFit ts') (filter is_auto_repetition rest))
            by (first [left; apply filter_In; split; [exact He|reflexivity] | right; apply filter_In; split; [exact He|reflexivity]]);
          rewrite Hr in Hin; destruct Hin as [[]|[]]. }
        rewrite (Hz reps). simpl spec_entry_count. lia.
      + cbn [filter is_auto_repetition find length] in *.
        assert (Hr : length (filter is_auto_repetition rest) = 0%nat) by lia.
        assert (Hz : forall k, nsum (map (spec_entry_count k) rest) = nsum (map (spec_entry_count 0) rest)).
        { intro k. f_equal. apply map_ext_in. intros e He. destruct e as [t|r' ts']; [reflexivity|]. destruct r'; [reflexivity| |];
          exfalso; apply length_zero_iff_nil in Hr;
          assert (Hin : In (TRepeat RAutoFill ts') (filter is_auto_repetition rest) \/ In (TRepeat RAutoFit ts') (filter is_auto_repetition rest))
            by (first [left; apply filter_In; split; [exact He|reflexivity] | right; apply filter_In; split; [exact He|reflexivity]]);
          rewrite Hr in Hin; destruct Hin as [[]|[]]. }
        rewrite (Hz reps). simpl spec_entry_count. lia.
  Qed.

  (* the reported explicit count is the length of the expanded template (or 0 for an empty / invalid template) *)
  Theorem explicit_count_spec template inner (gapf : sfn T) mx :
    let e := explicit_grid_size template inner gapf mx in
    e = 0%N \/
    (n_auto template = 0%nat /\ e = spec_count 0 template) \/
    (n_auto template = 1%nat /\ e = spec_count (num_repetitions template inner gapf mx) template).
  Proof.
    intro e. destruct (N.eq_dec e 0) as [E0|E0]; [left; exact E0|]. right.
    assert (Hpos : (0 < e)%N) by lia.
    destruct (explicit_size_cases template inner gapf mx Hpos) as [_ [[Hn He]|[Hn He]]]; fold e in He.
    - left. split; [exact Hn|]. rewrite He. apply non_auto_is_spec0.
    - right. split; [exact Hn|]. rewrite He, (spec_count_reps _ _ Hn), non_auto_is_spec0. reflexivity.
  Qed.
End Structure.

(* ==================================================================================================================
   Part 2: the exact instance XQ *)
Local Open Scope Q_scope.

Ltac xq := cbn [fmax fmin add sub mul div neg eqb ltb leb zero one infinity of_Z of_Q is_nan QNum
                 x_add x_sub x_neg x_mul x_max x_min x_ltb x_leb x_eqb x_is_nan negb] in *.

Ltac xq0 := cbn [fmax fmin add sub mul div neg eqb ltb leb zero one infinity of_Z of_Q is_nan QNum] in *.

Lemma fin_inv (x : XQ) : finite x -> exists q, x = Fin q.
Proof. destruct x; simpl; try contradiction; eauto. Qed.

Lemma Qle_bool_false a b : Qle_bool a b = false <-> b < a.
Proof.
  split; intro Hx.
  - apply Qnot_le_lt. intro Hc. apply Qle_bool_iff in Hc. congruence.
  - destruct (Qle_bool a b) eqn:E; auto. apply Qle_bool_iff in E. exfalso; lra.
Qed.

Lemma x_ltb_fin a b : x_ltb (Fin a) (Fin b) = true <-> a < b.
Proof.
  simpl. destruct (Qle_bool b a) eqn:E; simpl.
  - apply Qle_bool_iff in E. split; [discriminate|lra].
  - apply Qle_bool_false in E. split; auto.
Qed.
Lemma x_ltb_fin_false a b : x_ltb (Fin a) (Fin b) = false <-> b <= a.
Proof.
  simpl. destruct (Qle_bool b a) eqn:E; simpl.
  - apply Qle_bool_iff in E. split; auto.
  - apply Qle_bool_false in E. split; [discriminate|lra].
Qed.
Lemma x_leb_fin a b : x_leb (Fin a) (Fin b) = true <-> a <= b.
Proof. simpl. apply Qle_bool_iff. Qed.
Lemma x_leb_fin_false a b : x_leb (Fin a) (Fin b) = false <-> b < a.
Proof. simpl. apply Qle_bool_false. Qed.
Lemma x_eqb_fin a b : x_eqb (Fin a) (Fin b) = true <-> a == b.
Proof. simpl. apply Qeq_bool_iff. Qed.

Lemma x_max_fin a b : exists c, x_max (Fin a) (Fin b) = Fin c /\ a <= c /\ b <= c /\ (c == a \/ c == b).
Proof.
  unfold x_max. cbn [x_is_nan]. destruct (x_ltb (Fin a) (Fin b)) eqn:E.
  - apply x_ltb_fin in E. exists b. repeat split; lra.
  - apply x_ltb_fin_false in E. exists a. repeat split; lra.
Qed.
Lemma x_min_fin a b : exists c, x_min (Fin a) (Fin b) = Fin c /\ c <= a /\ c <= b /\ (c == a \/ c == b).
Proof.
  unfold x_min. cbn [x_is_nan]. destruct (x_ltb (Fin b) (Fin a)) eqn:E.
  - apply x_ltb_fin in E. exists b. repeat split; lra.
  - apply x_ltb_fin_false in E. exists a. repeat split; lra.
Qed.

(* a <= b  ==>  not (b < a), for every extended value *)
Lemma x_leb_ltb (a b : XQ) : x_leb a b = true -> x_ltb b a = false.
Proof.
  destruct a, b; simpl; auto; try discriminate.
  intro Hx. rewrite Hx. reflexivity.
Qed.
Lemma x_leb_max (a b : XQ) : x_leb a b = true -> xeq (x_max a b) b.
Proof.
  destruct a as [a| | |], b as [b| | |]; simpl; try discriminate; auto; intro Hx.
  - unfold x_max. cbn [x_is_nan]. destruct (x_ltb (Fin a) (Fin b)) eqn:E; simpl; [reflexivity|].
    apply x_ltb_fin_false in E. apply Qle_bool_iff in Hx. lra.
  - reflexivity.
Qed.

(* ---- sums of finite values *)
Definition qb (t : track XQ) : Q := val (base_size t).
Definition qf (t : track XQ) : Q := val (sfn_value (maxf t)).
Definition track_fin (t : track XQ) : Prop := finite (base_size t) /\ finite (sfn_value (maxf t)).

Fixpoint qsum (l : list Q) : Q := match l with [] => 0 | x :: r => x + qsum r end.

Lemma fold_add_fin (l : list XQ) (a : Q) :
  Forall finite l -> exists s, fold_left x_add l (Fin a) = Fin s /\ s == a + qsum (map val l).
Proof.
  revert a. induction l as [|x l IH]; intros a Hf; simpl.
  - exists a. split; [reflexivity|lra].
  - inversion Hf as [|? ? Hx Hl]; subst. destruct (fin_inv x Hx) as [q Eq]. subst x. simpl.
    destruct (IH (a + q) Hl) as [s [E1 E2]]. exists s. split; [exact E1|]. simpl in *. lra.
Qed.

Lemma fsum_fin (l : list XQ) : Forall finite l -> exists s, @fsum XQ _ l = Fin s /\ s == qsum (map val l).
Proof.
  intro Hf. unfold fsum, neg_zero. xq.
  destruct (fold_add_fin l (- 0) Hf) as [s [E1 E2]]. exists s. split; [exact E1|]. lra.
Qed.

Lemma fsum_bases_fin (tracks : list (track XQ)) :
  Forall (fun t => finite (base_size t)) tracks ->
  exists s, @fsum XQ _ (map base_size tracks) = Fin s /\ s == qsum (map qb tracks).
Proof.
  intro Hf. destruct (fsum_fin (map base_size tracks)) as [s [E1 E2]].
  - apply Forall_map. exact Hf.
  - exists s. split; [exact E1|]. rewrite map_map in E2. exact E2.
Qed.

(* ---- find_size_of_fr / expand_flexible_tracks *)
Fixpoint used_q (h : XQ) (tracks : list (track XQ)) : Q :=
  match tracks with [] => 0 | t :: r => (if flexible_at h t then 0 else qb t) + used_q h r end.
Fixpoint flex_q (h : XQ) (tracks : list (track XQ)) : Q :=
  match tracks with [] => 0 | t :: r => (if flexible_at h t then qf t else 0) + flex_q h r end.

Lemma fr_sums_fin_gen (tracks : list (track XQ)) (h : XQ) (u0 s0 : Q) :
  Forall track_fin tracks ->
  exists u s,
    fold_left (fun '(u, s) t => if flexible_at h t then (u, add s (sfn_value (maxf t))) else (add u (base_size t), s))
              tracks (Fin u0, Fin s0) = (Fin u, Fin s)
    /\ u == u0 + used_q h tracks /\ s == s0 + flex_q h tracks.
Proof.
  revert u0 s0. induction tracks as [|t r IH]; intros u0 s0 Hf; simpl.
  - exists u0, s0. repeat split; lra.
  - inversion Hf as [|? ? [Hb Hv] Hr]; subst.
    destruct (fin_inv _ Hb) as [b Eb]. destruct (fin_inv _ Hv) as [f Ef].
    unfold qb, qf. rewrite Eb, Ef. destruct (flexible_at h t); xq.
    + destruct (IH u0 (s0 + f) Hr) as [u [s [E1 [E2 E3]]]]. exists u, s. repeat split; auto; simpl; lra.
    + destruct (IH (u0 + b) s0 Hr) as [u [s [E1 [E2 E3]]]]. exists u, s. repeat split; auto; simpl; lra.
Qed.

Lemma fr_sums_fin (tracks : list (track XQ)) (h : XQ) :
  Forall track_fin tracks ->
  exists u s, fr_sums tracks h = (Fin u, Fin s) /\ u == used_q h tracks /\ s == flex_q h tracks.
Proof.
  intro Hf. destruct (fr_sums_fin_gen tracks h 0 0 Hf) as [u [s [E1 [E2 E3]]]].
  exists u, s. repeat split; [exact E1|lra|lra].
Qed.

Lemma flexible_is_fr (h : XQ) (t : track XQ) : flexible_at h t = true -> is_fr (maxf t) = true.
Proof. unfold flexible_at. intro Hx. apply andb_true_iff in Hx. tauto. Qed.

(* the base size after expansion with fraction hq *)
Lemma expand_one_fin (hq : Q) (t : track XQ) : track_fin t ->
  exists nb, base_size (expand_one (Fin hq) t) = Fin nb /\ qb t <= nb /\ (is_fr (maxf t) = true -> qf t * hq <= nb).
Proof.
  intros [Hb Hv]. destruct (fin_inv _ Hb) as [b Eb]. destruct (fin_inv _ Hv) as [f Ef].
  unfold expand_one, qb, qf. destruct (is_fr (maxf t)) eqn:Efr.
  - simpl. rewrite Eb, Ef. xq. destruct (x_max_fin b (f * hq)) as [c [E1 [E2 [E3 _]]]].
    cbn [x_max x_is_nan x_ltb negb] in E1. exists c. rewrite E1. simpl. repeat split; auto.
  - exists b. rewrite Eb. simpl. repeat split; try lra; try discriminate.
Qed.

Lemma expand_sum_ge (hq : Q) (hp : XQ) (tracks : list (track XQ)) :
  Forall track_fin tracks ->
  exists s, @fsum XQ _ (map base_size (apply_flex_fraction (Fin hq) tracks)) = Fin s
            /\ used_q hp tracks + hq * flex_q hp tracks <= s
            /\ qsum (map qb tracks) <= s.
Proof.
  intro Hf.
  assert (Hg : exists l : list Q,
             map base_size (apply_flex_fraction (Fin hq) tracks) = map Fin l
             /\ used_q hp tracks + hq * flex_q hp tracks <= qsum l /\ qsum (map qb tracks) <= qsum l).
  { induction tracks as [|t r IH].
    - exists []. simpl. repeat split; lra.
    - inversion Hf as [|? ? Ht Hr]; subst. destruct (IH Hr) as [l [E1 [E2 E3]]].
      destruct (expand_one_fin hq t Ht) as [nb [N1 [N2 N3]]].
      exists (nb :: l). unfold apply_flex_fraction in *. cbn [map used_q flex_q qsum]. rewrite E1, N1.
      repeat split; auto.
      + destruct (flexible_at hp t) eqn:Efl.
        * apply flexible_is_fr in Efl. specialize (N3 Efl). lra.
        * lra.
      + lra. }
  destruct Hg as [l [E1 [E2 E3]]]. rewrite E1.
  destruct (fsum_fin (map Fin l)) as [s [F1 F2]].
  - apply Forall_map. apply Forall_forall. intros; exact I.
  - exists s. rewrite map_map in F2. simpl in F2. rewrite map_id in F2. split; [exact F1|]. split; lra.
Qed.

Lemma fr_loop_exit (fuel : nat) (tracks : list (track XQ)) (space h0 hp h : XQ) :
  fr_loop fuel tracks space h0 = (hp, h, true) -> h = fr_next tracks space hp /\ fr_valid tracks hp h = true.
Proof.
  revert h0. induction fuel as [|f IH]; intro h0; simpl.
  - discriminate.
  - destruct (fr_valid tracks h0 (fr_next tracks space h0)) eqn:Ev.
    + intro E. inversion E; subst. auto.
    + apply IH.
Qed.

Definition track_ok (t : track XQ) : Prop := track_fin t /\ 0 <= qb t.

Theorem fr_fill (tracks : list (track XQ)) (space : XQ) (amin amax : option XQ) (items : list (nat * nat * XQ)) :
  Forall track_ok tracks -> finite space ->
  snd (fr_exit tracks space) = true ->
  x_leb (Fin 1) (final_flex_factor_sum tracks space) = true ->
  x_leb space (@fsum XQ _ (map base_size (expand_flexible_tracks amin amax (Definite space) items tracks))) = true.
Proof.
  intros Hok Hs Hexit Hsum.
  assert (Hf : Forall track_fin tracks) by (eapply Forall_impl; [|exact Hok]; intros t [Ht _]; exact Ht).
  assert (Hb : Forall (fun t => finite (base_size t)) tracks) by (eapply Forall_impl; [|exact Hf]; intros t [Ht _]; exact Ht).
  destruct (fin_inv _ Hs) as [sq Es]. subst space.
  destruct (fsum_bases_fin tracks Hb) as [used [Eu Equ]].
  assert (Hnn : 0 <= qsum (map qb tracks)).
  { clear - Hok. induction Hok as [|t r [_ Ht] _ IH]; simpl; lra. }
  unfold expand_flexible_tracks, flex_fraction. rewrite Eu. xq.
  destruct (Qle_bool (sq + - used) 0) eqn:Efree.
  - (* no free space: the flex fraction is zero *)
    apply Qle_bool_iff in Efree.
    destruct (expand_sum_ge 0 (Fin 0) tracks Hf) as [s [E1 [_ E3]]]. rewrite E1. apply x_leb_fin. lra.
  - apply Qle_bool_false in Efree. unfold find_size_of_fr. xq.
    destruct (Qeq_bool sq 0) eqn:Ez.
    + apply Qeq_bool_iff in Ez. lra.
    + unfold final_flex_factor_sum in Hsum.
      destruct (fr_exit tracks (Fin sq)) as [[hp h] ok] eqn:Ex. simpl in Hexit, Hsum. subst ok. simpl.
      unfold fr_exit in Ex. destruct (fr_loop_exit _ _ _ _ _ _ Ex) as [Eh _].
      unfold fr_next in Eh. destruct (fr_sums_fin tracks hp Hf) as [u [s [E1 [E2 E3]]]].
      rewrite E1 in Eh, Hsum. simpl in Hsum. apply Qle_bool_iff in Hsum. xq.
      assert (Emax : x_max (Fin s) (Fin 1) = Fin s).
      { unfold x_max. cbn [x_is_nan]. destruct (x_ltb (Fin s) (Fin 1)) eqn:El; [|reflexivity].
        apply x_ltb_fin in El. lra. }
      cbn [x_max x_is_nan x_ltb negb] in Emax. rewrite Emax in Eh. simpl in Eh.
      assert (Hsgn : q_sign s = Gt).
      { unfold q_sign. apply Z.compare_gt_iff. destruct s as [sn sd]. unfold Qle in Hsum. simpl in *. lia. }
      rewrite Hsgn in Eh. subst h.
      destruct (expand_sum_ge ((sq + - u) / s) hp tracks Hf) as [t [T1 [T2 _]]]. rewrite T1. apply x_leb_fin.
      assert (Hs0 : ~ s == 0) by lra.
      assert ((sq + - u) / s * flex_q hp tracks == sq - u).
      { rewrite <- E3. field. exact Hs0. }
      lra.
Qed.

Theorem fr_proportional (tracks : list (track XQ)) (space hp h : XQ) (t : track XQ) :
  fr_exit tracks space = (hp, h, true) -> In t tracks -> flexible_at hp t = true ->
  xeq (base_size (expand_one h t)) (x_mul (sfn_value (maxf t)) h).
Proof.
  intros Ex Hin Hfl. unfold fr_exit in Ex. destruct (fr_loop_exit _ _ _ _ _ _ Ex) as [_ Hv].
  unfold fr_valid in Hv. rewrite forallb_forall in Hv. specialize (Hv t Hin).
  unfold flexible_at in Hfl. apply andb_true_iff in Hfl. destruct Hfl as [Hfr Hle]. rewrite Hfr in Hv.
  unfold expand_one. rewrite Hfr. simpl. xq.
  apply x_leb_ltb in Hle. rewrite Hle, orb_false_r in Hv.
  apply x_leb_max. exact Hv.
Qed.

(* ---- distribute_space_up_to_limits as maximise_tracks uses it: every track affected, proportion 1, property
   base_size, limit fit_content_limited_growth_limit *)
Definition T_q : Q := DISTRIBUTE_THRESHOLD_Q.
Lemma threshold_xq : @threshold XQ _ = Fin T_q.
Proof. reflexivity. Qed.
Lemma T_q_pos : 0 < T_q.
Proof. unfold T_q, DISTRIBUTE_THRESHOLD_Q. reflexivity. Qed.

Section Maximise.
  Variable inner : option XQ.
  Definition mlim (t : track XQ) : XQ := fit_content_limited_growth_limit inner t.
  Definition all_aff : track XQ -> bool := fun _ => true.
  Definition prop1 : track XQ -> XQ := fun _ => one.
  Definition mgrow (t : track XQ) : bool := growable all_aff base_size mlim t.
  Definition mapply := apply_increase all_aff prop1 base_size mlim.
  Definition mstep := distribute_step all_aff prop1 base_size mlim.
  Definition mloop := distribute_loop all_aff prop1 base_size mlim.

  (* what one iteration does to one track *)
  Definition accepted (inc : XQ) (t : track XQ) : bool :=
    x_ltb (Fin 0) (x_mul inc (Fin 1)) && x_leb (x_add (base_size t) (x_mul inc (Fin 1))) (x_add (mlim t) (Fin T_q)).
  Definition bump (inc : XQ) (t : track XQ) : track XQ :=
    if accepted inc t then set_incurred t (x_add (incurred t) (x_mul inc (Fin 1))) else t.

  Lemma mapply_map inc space tracks : snd (mapply inc space tracks) = map (bump inc) tracks.
  Proof.
    revert space. induction tracks as [|t r IH]; intro space; [reflexivity|].
    unfold mapply. cbn [apply_increase all_aff map]. fold mapply. rewrite threshold_xq. unfold prop1. xq0.
    unfold bump at 1. unfold accepted.
    destruct (x_ltb (Fin 0) (x_mul inc (Fin 1)) && x_leb (x_add (base_size t) (x_mul inc (Fin 1))) (x_add (mlim t) (Fin T_q))) eqn:E.
    - specialize (IH (x_sub space (x_mul inc (Fin 1)))).
      destruct (mapply inc (x_sub space (x_mul inc (Fin 1))) r). simpl in *. rewrite IH. reflexivity.
    - specialize (IH space). destruct (mapply inc space r). simpl in *. rewrite IH. reflexivity.
  Qed.

  (* t' is t with another item_incurred_increase *)
  Definition upd (t t' : track XQ) : Prop := t' = set_incurred t (incurred t').
  Lemma upd_refl t : upd t t.
  Proof. destruct t; reflexivity. Qed.
  Lemma upd_trans a b c : upd a b -> upd b c -> upd a c.
  Proof. unfold upd. intros E1 E2. rewrite E2, E1. reflexivity. Qed.
  Lemma upd_base t t' : upd t t' -> base_size t' = base_size t.
  Proof. intro E. rewrite E. reflexivity. Qed.
  Lemma upd_mlim t t' : upd t t' -> mlim t' = mlim t.
  Proof. intro E. rewrite E. reflexivity. Qed.
  Lemma upd_bump inc t : upd t (bump inc t).
  Proof. unfold bump. destruct (accepted inc t); [reflexivity|apply upd_refl]. Qed.

  Definition tfin (t : track XQ) : Prop := finite (base_size t) /\ finite (mlim t) /\ finite (incurred t).
  Definition slack (t : track XQ) : Q := Qmax 0 (val (mlim t) - val (base_size t) + T_q).

  Lemma upd_tfin_slack t t' : upd t t' -> slack t' = slack t.
  Proof. intro E. unfold slack. rewrite (upd_mlim _ _ E), (upd_base _ _ E). reflexivity. Qed.

  (* an accepted increase is a positive finite number that keeps base + increase within limit + THRESHOLD *)
  Lemma accepted_inv inc t : tfin t -> accepted inc t = true ->
    exists y, x_mul inc (Fin 1) = Fin y /\ 0 < y /\ val (base_size t) + y <= val (mlim t) + T_q.
  Proof.
    intros [Hb [Hl _]] Ha. destruct (fin_inv _ Hb) as [b Eb]. destruct (fin_inv _ Hl) as [l El].
    unfold accepted in Ha. rewrite Eb, El in *. apply andb_true_iff in Ha. destruct Ha as [H1 H2].
    destruct (x_mul inc (Fin 1)) as [y| | |] eqn:Ey; simpl in H1, H2; try discriminate.
    exists y. split; [reflexivity|]. simpl.
    apply Qle_bool_iff in H2. destruct (Qle_bool y 0) eqn:E0; [discriminate|]. apply Qle_bool_false in E0.
    split; lra.
  Qed.

  Lemma bump_bound inc t : tfin t ->
    finite (incurred (bump inc t)) /\
    val (incurred t) <= val (incurred (bump inc t)) <= val (incurred t) + slack t.
  Proof.
    intro Hf. assert (Hs : 0 <= slack t) by (unfold slack; apply Q.le_max_l).
    unfold bump. destruct (accepted inc t) eqn:Ea.
    - destruct (accepted_inv inc t Hf Ea) as [y [Ey [Hy Hle]]].
      destruct Hf as [_ [_ Hi]]. destruct (fin_inv _ Hi) as [i Ei].
      simpl. rewrite Ey, Ei. simpl. split; [exact I|].
      assert (y <= slack t).
      { unfold slack. eapply Qle_trans; [|apply Q.le_max_r]. lra. }
      lra.
    - destruct Hf as [_ [_ Hi]]. split; [exact Hi|]. lra.
  Qed.

  Lemma mstep_some space tracks s' ts' : mstep space tracks = Some (s', ts') -> exists inc, ts' = map (bump inc) tracks.
  Proof.
    unfold mstep, distribute_step. destruct (ltb threshold space); [|discriminate].
    destruct (eqb _ zero); [discriminate|]. intro E. inversion E as [E'].
    match type of E' with
    | apply_increase _ _ _ _ ?i _ _ = _ =>
        exists i; rewrite <- (mapply_map i space tracks); unfold mapply; rewrite E'; reflexivity
    end.
  Qed.

  Definition bounded (n : nat) (t t' : track XQ) : Prop :=
    upd t t' /\ (tfin t -> finite (incurred t') /\
                 val (incurred t) <= val (incurred t') <= val (incurred t) + inject_Z (Z.of_nat n) * slack t).

  Lemma Forall2_map_self {A B} (P : A -> B -> Prop) (f : A -> B) l : (forall x, P x (f x)) -> Forall2 P l (map f l).
  Proof. intro Hp. induction l; simpl; constructor; auto. Qed.
  Lemma Forall2_of_map {A B C} (P : B -> C -> Prop) (f : A -> B) l l' :
    Forall2 P (map f l) l' -> Forall2 (fun x y => P (f x) y) l l'.
  Proof.
    revert l'. induction l as [|a l IH]; intros l' Hf; simpl in Hf; inversion Hf; subst; constructor; auto.
  Qed.

  Lemma Forall2_weaken {A B} (P Q : A -> B -> Prop) l l' :
    (forall x y, P x y -> Q x y) -> Forall2 P l l' -> Forall2 Q l l'.
  Proof. intros Hpq Hf. induction Hf; constructor; auto. Qed.

  Lemma mloop_bounded fuel : forall space tracks, Forall2 (bounded fuel) tracks (snd (mloop fuel space tracks)).
  Proof.
    induction fuel as [|f IH]; intros space tracks.
    - simpl. rewrite <- (map_id tracks) at 2. apply Forall2_map_self. intro t. split; [apply upd_refl|].
      intros [_ [_ Hi]]. split; [exact Hi|]. change (inject_Z (Z.of_nat 0)) with 0. lra.
    - unfold mloop. simpl. fold mstep. destruct (mstep space tracks) as [[s' ts']|] eqn:Es.
      + destruct (mstep_some _ _ _ _ Es) as [inc E]. subst ts'. fold mloop.
        specialize (IH s' (map (bump inc) tracks)). apply Forall2_of_map in IH.
        eapply Forall2_weaken; [|exact IH]. intros t t' [Hu Hb]. split.
        * eapply upd_trans; [apply upd_bump|exact Hu].
        * intro Hf. destruct (bump_bound inc t Hf) as [B1 B2].
          assert (Hf' : tfin (bump inc t)).
          { destruct Hf as [F1 [F2 F3]]. unfold tfin. rewrite (upd_base _ _ (upd_bump inc t)), (upd_mlim _ _ (upd_bump inc t)). auto. }
          destruct (Hb Hf') as [C1 C2]. split; [exact C1|].
          rewrite (upd_tfin_slack _ _ (upd_bump inc t)) in C2.
          assert (Hs : 0 <= slack t) by (unfold slack; apply Q.le_max_l).
          rewrite Nat2Z.inj_succ, <- Z.add_1_r, inject_Z_plus. change (inject_Z 1) with 1. lra.
      + simpl. rewrite <- (map_id tracks) at 2. apply Forall2_map_self. intro t. split; [apply upd_refl|].
        intros [_ [_ Hi]]. split; [exact Hi|].
        assert (Hs : 0 <= slack t) by (unfold slack; apply Q.le_max_l).
        assert (0 <= inject_Z (Z.of_nat (S f))) by (change 0 with (inject_Z 0); rewrite <- Zle_Qle; lia).
        nra.
  Qed.

  (* ---- termination: every iteration that does not end the loop removes a growable track or exhausts the space *)
  Definition tok (t : track XQ) : Prop := tfin t /\ 0 <= val (incurred t).
  Definition G (l : list (track XQ)) : nat := length (filter mgrow l).

  Lemma tok_inv t : tok t -> exists b l i, base_size t = Fin b /\ mlim t = Fin l /\ incurred t = Fin i /\ 0 <= i.
  Proof.
    intros [[Hb [Hl Hi]] Hn]. destruct (fin_inv _ Hb) as [b Eb]. destruct (fin_inv _ Hl) as [l El].
    destruct (fin_inv _ Hi) as [i Ei]. exists b, l, i. rewrite Ei in Hn. simpl in Hn. auto.
  Qed.

  Lemma mgrow_q t b l i : base_size t = Fin b -> mlim t = Fin l -> incurred t = Fin i -> (mgrow t = true <-> b + i < l).
  Proof.
    intros Eb El Ei. unfold mgrow, growable, all_aff. rewrite Eb, El, Ei. xq0. rewrite andb_true_r.
    cbn [x_add]. apply x_ltb_fin.
  Qed.

  Lemma accepted_q y t b l : base_size t = Fin b -> mlim t = Fin l ->
    (accepted (Fin y) t = true <-> 0 < y * 1 /\ b + y * 1 <= l + T_q).
  Proof.
    intros Eb El. unfold accepted. rewrite Eb, El. cbn [x_mul x_add]. rewrite andb_true_iff, x_ltb_fin, x_leb_fin. tauto.
  Qed.

  Lemma bump_tok y t : tok t -> 0 < y -> tok (bump (Fin y) t).
  Proof.
    intros Ht Hy. destruct (tok_inv t Ht) as [b [l [i [Eb [El [Ei Hi]]]]]].
    unfold bump. destruct (accepted (Fin y) t); [|exact Ht].
    unfold tok, tfin. cbn [base_size set_incurred incurred]. unfold mlim, fit_content_limited_growth_limit, fit_content_limit.
    cbn [growth_limit maxf set_incurred]. fold (fit_content_limit inner t). fold (fit_content_limited_growth_limit inner t). fold (mlim t).
    rewrite Eb, El, Ei. cbn [x_mul x_add finite val]. split; [tauto|lra].
  Qed.

  Lemma ones_sum (g : list (track XQ)) :
    exists s, @fsum XQ _ (map prop1 g) = Fin s /\ s == inject_Z (Z.of_nat (length g)).
  Proof.
    destruct (fsum_fin (map prop1 g)) as [s [E1 E2]].
    - apply Forall_map. apply Forall_forall. intros; exact I.
    - exists s. split; [exact E1|]. rewrite E2. clear. induction g as [|t r IH].
      + reflexivity.
      + cbn [map qsum length]. rewrite IH, Nat2Z.inj_succ, <- Z.add_1_r, inject_Z_plus.
        change (val (prop1 t)) with 1. change (inject_Z 1) with 1. lra.
  Qed.

  Lemma min_by_first_fin (qs : list Q) : qs <> [] ->
    exists m, @min_by_first XQ _ (map Fin qs) = Fin m /\ (exists q, In q qs /\ q == m) /\ (forall q, In q qs -> m <= q).
  Proof.
    destruct qs as [|q0 r]; [congruence|]. intros _. unfold min_by_first. cbn [map].
    revert q0. induction r as [|x r IH]; intro q0; cbn [map fold_left].
    - exists q0. split; [reflexivity|]. split.
      + exists q0. split; [left; reflexivity|reflexivity].
      + intros q [E|[]]. subst. lra.
    - xq0. destruct (x_ltb (Fin x) (Fin q0)) eqn:E.
      + apply x_ltb_fin in E. destruct (IH x) as [m [E1 [[q [Hq1 Hq2]] E3]]]. exists m. split; [exact E1|]. split.
        * exists q. split; [|exact Hq2]. destruct Hq1 as [Hq1|Hq1]; [right; left; exact Hq1|right; right; exact Hq1].
        * intros q' [Hq'|[Hq'|Hq']].
          -- subst. assert (m <= x) by (apply E3; left; reflexivity). lra.
          -- subst. apply E3. left; reflexivity.
          -- apply E3. right; exact Hq'.
      + apply x_ltb_fin_false in E. destruct (IH q0) as [m [E1 [[q [Hq1 Hq2]] E3]]]. exists m. split; [exact E1|]. split.
        * exists q. split; [|exact Hq2]. destruct Hq1 as [Hq1|Hq1]; [left; exact Hq1|right; right; exact Hq1].
        * intros q' [Hq'|[Hq'|Hq']].
          -- subst. apply E3. left; reflexivity.
          -- subst. assert (m <= q0) by (apply E3; left; reflexivity). lra.
          -- apply E3. right; exact Hq'.
  Qed.

  Lemma filter_count_le {A} (p q : A -> bool) l :
    (forall x, In x l -> p x = true -> q x = true) -> (length (filter p l) <= length (filter q l))%nat.
  Proof.
    induction l as [|a l IH]; intro Hpq; simpl; [lia|].
    assert (Hl : (length (filter p l) <= length (filter q l))%nat) by (apply IH; intros; apply Hpq; [right|]; auto).
    destruct (p a) eqn:Ep.
    - rewrite (Hpq a (or_introl eq_refl) Ep). simpl. lia.
    - destruct (q a); simpl; lia.
  Qed.

  Lemma filter_map_count_lt {A} (p q : A -> bool) (f : A -> A) l :
    (forall x, In x l -> p (f x) = true -> q x = true) ->
    (exists x, In x l /\ q x = true /\ p (f x) = false) ->
    (length (filter p (map f l)) < length (filter q l))%nat.
  Proof.
    induction l as [|a l IH]; intros Hpq [x [Hin [Hq Hp]]]; [destruct Hin|].
    assert (Hle : (length (filter p (map f l)) <= length (filter q l))%nat).
    { clear IH Hin. assert (Hl : forall x, In x l -> p (f x) = true -> q x = true) by (intros; apply Hpq; [right|]; auto).
      clear Hpq. induction l as [|c l IHl]; simpl; [lia|].
      assert (IHl' : (length (filter p (map f l)) <= length (filter q l))%nat) by (apply IHl; intros; apply Hl; [right|]; auto).
      destruct (p (f c)) eqn:Ep.
      - rewrite (Hl c (or_introl eq_refl) Ep). simpl. lia.
      - destruct (q c); simpl; lia. }
    simpl. destruct Hin as [Ea|Hin].
    - subst a. rewrite Hp, Hq. simpl. lia.
    - assert (Hlt : (length (filter p (map f l)) < length (filter q l))%nat).
      { apply IH; [intros; apply Hpq; [right|]; auto|]. exists x. auto. }
      destruct (p (f a)) eqn:Ep.
      + rewrite (Hpq a (or_introl eq_refl) Ep). simpl. lia.
      + destruct (q a); simpl; lia.
  Qed.

  (* the space left after one iteration: every accepted track takes y * 1 *)
  Lemma mapply_fst y sp tracks : Forall tok tracks ->
    exists sp', fst (mapply (Fin y) (Fin sp) tracks) = Fin sp'
                /\ sp' == sp - (y * 1) * inject_Z (Z.of_nat (length (filter (accepted (Fin y)) tracks))).
  Proof.
    revert sp. induction tracks as [|t r IH]; intros sp Hok.
    - exists sp. split; [reflexivity|]. cbn [filter length]. change (inject_Z (Z.of_nat 0)) with 0. lra.
    - inversion Hok as [|? ? Ht Hr]; subst.
      unfold mapply. cbn [apply_increase all_aff filter]. fold mapply. rewrite threshold_xq. unfold prop1. xq0.
      fold (accepted (Fin y) t). destruct (accepted (Fin y) t) eqn:Ea.
      + destruct (IH (sp + - (y * 1)) Hr) as [sp' [E1 E2]]. cbn [x_mul x_sub x_add x_neg].
        destruct (mapply (Fin y) (Fin (sp + - (y * 1))) r) as [s0 r0]. simpl in E1. subst s0.
        exists sp'. split; [reflexivity|]. rewrite E2. cbn [length]. rewrite Nat2Z.inj_succ, <- Z.add_1_r, inject_Z_plus.
        change (inject_Z 1) with 1. lra.
      + destruct (IH sp Hr) as [sp' [E1 E2]]. destruct (mapply (Fin y) (Fin sp) r) as [s0 r0]. simpl in E1. subst s0.
        exists sp'. split; [reflexivity|]. exact E2.
  Qed.

  Lemma mstep_progress sp tracks s' ts' : Forall tok tracks -> mstep (Fin sp) tracks = Some (s', ts') ->
    Forall tok ts' /\ exists sp', s' = Fin sp' /\ ((G ts' < G tracks)%nat \/ sp' <= 0).
  Proof.
    intros Hok Hstep. unfold mstep, distribute_step in Hstep. rewrite threshold_xq in Hstep. xq0.
    destruct (x_ltb (Fin T_q) (Fin sp)) eqn:Esp; [|discriminate]. apply x_ltb_fin in Esp.
    change (growable all_aff base_size mlim) with mgrow in Hstep. set (g := filter mgrow tracks) in *.
    destruct (ones_sum g) as [ps [Eps Hps]]. rewrite Eps in Hstep.
    destruct (x_eqb (Fin ps) (Fin 0)) eqn:Ez; [discriminate|].
    assert (Hg : (0 < length g)%nat).
    { destruct g as [|? ?] eqn:Eg; [|simpl; lia]. simpl in Hps. exfalso.
      assert (x_eqb (Fin ps) (Fin 0) = true) by (apply x_eqb_fin; rewrite Hps; reflexivity). congruence. }
    assert (Hgin : forall t, In t g -> In t tracks /\ mgrow t = true) by (intro t; unfold g; apply filter_In).
    (* the list of head-rooms *)
    assert (Hms : exists qs, map (fun t : track XQ => x_div (x_sub (mlim t) (base_size t)) (prop1 t)) g = map Fin qs
                          /\ qs = map (fun t => (val (mlim t) + - val (base_size t)) / 1) g).
    { exists (map (fun t => (val (mlim t) + - val (base_size t)) / 1) g). split; [|reflexivity].
      rewrite map_map. apply map_ext_in. intros t Ht. destruct (Hgin t Ht) as [Hin _].
      rewrite Forall_forall in Hok. destruct (tok_inv t (Hok t Hin)) as [b [l [i [Eb [El _]]]]].
      rewrite Eb, El. unfold prop1. xq0. reflexivity. }
    destruct Hms as [qs [Ems Eqs]]. rewrite Ems in Hstep.
    assert (Hqs : qs <> []) by (rewrite Eqs; destruct g; [simpl in Hg; lia|discriminate]).
    destruct (min_by_first_fin qs Hqs) as [m [Em [[qm [Hqm1 Hqm2]] Hmin]]]. rewrite Em in Hstep.
    assert (Hpsp : 0 < ps).
    { rewrite Hps. change 0 with (inject_Z 0). rewrite <- Zlt_Qlt. lia. }
    assert (Hdiv : x_div (Fin sp) (Fin ps) = Fin (sp / ps)).
    { simpl. assert (Hsgn : q_sign ps = Gt).
      { unfold q_sign. apply Z.compare_gt_iff. destruct ps as [pn pd]. unfold Qlt in Hpsp. simpl in *. lia. }
      rewrite Hsgn. reflexivity. }
    rewrite Hdiv in Hstep.
    destruct (x_min_fin m (sp / ps)) as [y [Ey [Hy1 [Hy2 Hy3]]]]. rewrite Ey in Hstep.
    inversion Hstep as [Hres]. clear Hstep.
    assert (Ets : ts' = map (bump (Fin y)) tracks).
    { rewrite <- (mapply_map (Fin y) (Fin sp) tracks). unfold mapply. rewrite Hres. reflexivity. }
    destruct (mapply_fst y sp tracks Hok) as [sp' [Es1 Es2]]. unfold mapply in Es1. rewrite Hres in Es1. simpl in Es1.
    (* the track with the least head-room *)
    rewrite Eqs in Hqm1. apply in_map_iff in Hqm1. destruct Hqm1 as [tm [Etm Htm]].
    destruct (Hgin tm Htm) as [Htm_in Htm_g].
    rewrite Forall_forall in Hok.
    destruct (tok_inv tm (Hok tm Htm_in)) as [bm [lm [im [Ebm [Elm [Eim Him]]]]]].
    assert (Hm_eq : m == lm - bm).
    { rewrite <- Hqm2, <- Etm, Ebm, Elm. simpl. field. }
    assert (Hm_pos : 0 < m).
    { apply (mgrow_q tm bm lm im Ebm Elm Eim) in Htm_g. lra. }
    assert (Hdivpos : 0 < sp / ps).
    { apply Qlt_shift_div_l; [exact Hpsp|]. pose proof T_q_pos. lra. }
    assert (Hy_pos : 0 < y) by (destruct Hy3 as [Hy3|Hy3]; rewrite Hy3; auto).
    split.
    - subst ts'. apply Forall_forall. intros t' Hin'. apply in_map_iff in Hin'. destruct Hin' as [t [Et Hin]]. subst t'.
      apply bump_tok; auto.
    - exists sp'. split; [exact Es1|].
      (* every growable track accepts *)
      assert (Hacc : forall t, In t tracks -> mgrow t = true -> accepted (Fin y) t = true).
      { intros t Hin Hgt. destruct (tok_inv t (Hok t Hin)) as [b [l [i [Eb [El [Ei Hi]]]]]].
        apply (accepted_q y t b l Eb El). split; [lra|].
        assert (Hmt : m <= (l + - b) / 1).
        { apply Hmin. rewrite Eqs. apply in_map_iff. exists t. rewrite Eb, El. simpl. split; [reflexivity|].
          unfold g. apply filter_In. auto. }
        assert ((l + - b) / 1 == l - b) by field. pose proof T_q_pos. lra. }
      destruct (Qlt_le_dec (sp / ps) m) as [Hcase|Hcase].
      + (* the space is exhausted *)
        right. assert (Hy_eq : y == sp / ps) by (destruct Hy3 as [Hy3|Hy3]; lra).
        assert (Hcount : (length g <= length (filter (accepted (Fin y)) tracks))%nat).
        { unfold g. apply filter_count_le. intros t Hin Hgt. apply Hacc; auto. }
        assert (Hq : inject_Z (Z.of_nat (length g)) <= inject_Z (Z.of_nat (length (filter (accepted (Fin y)) tracks)))).
        { rewrite <- Zle_Qle. lia. }
        rewrite Es2. rewrite <- Hps in Hq.
        assert (Hprod : y * 1 * ps == sp) by (rewrite Hy_eq; field; lra).
        assert (0 <= y * 1) by lra. nra.
      + (* the least head-room is used up: that track stops being growable *)
        left. assert (Hy_eq : y == m) by (destruct Hy3 as [Hy3|Hy3]; lra).
        subst ts'. unfold G. apply filter_map_count_lt.
        * intros t Hin Hgt. destruct (tok_inv t (Hok t Hin)) as [b [l [i [Eb [El [Ei Hi]]]]]].
          apply (mgrow_q t b l i Eb El Ei).
          unfold bump in Hgt. destruct (accepted (Fin y) t) eqn:Ea.
          -- assert (Hg' : b + (i + y * 1) < l).
             { apply (mgrow_q (set_incurred t (x_add (incurred t) (x_mul (Fin y) (Fin 1)))) b l (i + y * 1)); auto.
               rewrite Ei. reflexivity. }
             lra.
          -- apply (mgrow_q t b l i Eb El Ei) in Hgt. exact Hgt.
        * exists tm. split; [exact Htm_in|]. split; [exact Htm_g|].
          assert (Ea : accepted (Fin y) tm = true).
          { apply (accepted_q y tm bm lm Ebm Elm). pose proof T_q_pos. split; lra. }
          unfold bump. rewrite Ea.
          destruct (mgrow (set_incurred tm (x_add (incurred tm) (x_mul (Fin y) (Fin 1))))) eqn:Eg'; [|reflexivity].
          exfalso. apply (mgrow_q _ bm lm (im + y * 1)) in Eg'; auto; [lra|]. rewrite Eim. reflexivity.
  Qed.

  Lemma mstep_none_nonpos sp tracks : sp <= 0 -> mstep (Fin sp) tracks = None.
  Proof.
    intro Hsp. unfold mstep, distribute_step. rewrite threshold_xq. xq0.
    destruct (x_ltb (Fin T_q) (Fin sp)) eqn:E; [|reflexivity]. apply x_ltb_fin in E. pose proof T_q_pos. lra.
  Qed.

  Lemma mstep_none_G0 space tracks : G tracks = 0%nat -> mstep space tracks = None.
  Proof.
    intro Hg. unfold mstep, distribute_step. destruct (ltb threshold space); [|reflexivity].
    change (growable all_aff base_size mlim) with mgrow. unfold G in Hg. apply length_zero_iff_nil in Hg. rewrite Hg. reflexivity.
  Qed.

  Theorem mloop_terminates n : forall sp tracks fuel, Forall tok tracks -> (G tracks <= n)%nat -> (n + 1 <= fuel)%nat ->
    mloop fuel (Fin sp) tracks = mloop (n + 1) (Fin sp) tracks.
  Proof.
    induction n as [|n IH]; intros sp tracks fuel Hok Hg Hfuel.
    - assert (G tracks = 0%nat) by lia. destruct fuel as [|f]; [lia|].
      unfold mloop. simpl. fold mstep. rewrite (mstep_none_G0 _ _ H). reflexivity.
    - destruct fuel as [|f]; [lia|]. replace (S n + 1)%nat with (S (n + 1)) by lia.
      unfold mloop. cbn [distribute_loop]. fold mstep. fold mloop.
      destruct (mstep (Fin sp) tracks) as [[s' ts']|] eqn:Es; [|reflexivity].
      destruct (mstep_progress _ _ _ _ Hok Es) as [Hok' [sp' [E' Hd]]]. subst s'.
      destruct Hd as [Hd|Hd].
      + rewrite (IH sp' ts' f Hok'); [|lia|lia]. reflexivity.
      + destruct f as [|f]; [lia|]. replace (n + 1)%nat with (S n) by lia.
        unfold mloop. cbn [distribute_loop]. fold mstep. rewrite (mstep_none_nonpos _ _ Hd). reflexivity.
  Qed.
End Maximise.

(* ---- maximise_tracks and a track whose limit equals its base size *)
Lemma Forall2_nth {A B} (P : A -> B -> Prop) l l' i x :
  Forall2 P l l' -> nth_error l i = Some x -> exists y, nth_error l' i = Some y /\ P x y.
Proof.
  intro Hf. revert i. induction Hf as [|a b l l' Hab Hl IH]; intros i Hi.
  - destruct i; discriminate.
  - destruct i as [|i]; simpl in *.
    + inversion Hi; subst. eauto.
    + apply IH. exact Hi.
Qed.

Lemma G_le_length inner tracks : (G inner tracks <= length tracks)%nat.
Proof. unfold G. induction tracks as [|a l IH]; simpl; [lia|]. destruct (mgrow inner a); simpl; lia. Qed.

Lemma maximise_unfold inner avail tracks :
  maximise_tracks inner avail tracks =
  let free := compute_free_space avail (@fsum XQ _ (map base_size tracks)) in
  if x_eqb free PInf then map (fun t => set_base t (growth_limit t)) tracks
  else if x_ltb (Fin 0) free then flush_incurred_to_base (snd (mloop inner (distribute_fuel tracks) free tracks))
  else tracks.
Proof.
  unfold maximise_tracks, distribute_space_up_to_limits, mloop. xq0. cbv zeta.
  destruct (x_eqb _ PInf); [reflexivity|]. destruct (x_ltb (Fin 0) _); [|reflexivity].
  change (fit_content_limited_growth_limit inner) with (mlim inner).
  change (fun _ : track XQ => true) with all_aff. change (fun _ : track XQ => Fin 1) with prop1.
  destruct (distribute_loop all_aff prop1 base_size (mlim inner) (distribute_fuel tracks) _ tracks). reflexivity.
Qed.

Definition fixed_like (t : track XQ) : Prop :=
  growth_limit t = base_size t /\ is_fit_content (maxf t) = false /\ finite (base_size t) /\ incurred t = Fin 0.

Lemma fixed_like_tfin inner t : fixed_like t -> tfin inner t /\ slack inner t == T_q.
Proof.
  intros [Hg [Hfc [Hb Hi]]]. destruct (fin_inv _ Hb) as [b Eb].
  assert (El : mlim inner t = Fin b).
  { unfold mlim, fit_content_limited_growth_limit, fit_content_limit. rewrite Hg, Eb.
    destruct (maxf t); try discriminate Hfc; reflexivity. }
  split.
  - unfold tfin. rewrite Eb, El, Hi. simpl. auto.
  - unfold slack. rewrite Eb, El. simpl. pose proof T_q_pos. rewrite Q.max_r; lra.
Qed.

Theorem maximise_fixed_bound inner avail tracks i t :
  Forall (tok inner) tracks -> nth_error tracks i = Some t -> fixed_like t ->
  exists t', nth_error (maximise_tracks inner avail tracks) i = Some t' /\ finite (base_size t') /\
             val (base_size t) <= val (base_size t') <= val (base_size t) + inject_Z (Z.of_nat (G inner tracks + 1)) * T_q.
Proof.
  intros Hok Hi Hfx. destruct (fixed_like_tfin inner t Hfx) as [Htf Hsl].
  destruct Hfx as [Hg [Hfc [Hb Hinc]]]. destruct (fin_inv _ Hb) as [b Eb].
  assert (Hnn : 0 <= inject_Z (Z.of_nat (G inner tracks + 1)) * T_q).
  { pose proof T_q_pos. assert (0 <= inject_Z (Z.of_nat (G inner tracks + 1))) by (change 0 with (inject_Z 0); rewrite <- Zle_Qle; lia). nra. }
  rewrite maximise_unfold. cbv zeta.
  destruct (x_eqb _ PInf) eqn:Einf.
  - exists (set_base t (growth_limit t)). split; [apply (map_nth_error (fun t => set_base t (growth_limit t)) _ _ Hi)|]. simpl. rewrite Hg, Eb. simpl. split; [exact I|lra].
  - destruct (compute_free_space avail _) as [sp| | |] eqn:Efree; simpl x_ltb; cbv iota;
      try (exists t; split; [exact Hi|]; rewrite Eb; simpl; split; [exact I|lra]).
    + destruct (negb (Qle_bool sp 0)); [|exists t; split; [exact Hi|]; rewrite Eb; simpl; split; [exact I|lra]].
      rewrite (mloop_terminates inner (G inner tracks) sp tracks (distribute_fuel tracks) Hok (le_n _)).
      * destruct (Forall2_nth _ _ _ i t (mloop_bounded inner (G inner tracks + 1) (Fin sp) tracks) Hi) as [t1 [E1 [Hu Hbd]]].
        destruct (Hbd Htf) as [F1 F2]. destruct (fin_inv _ F1) as [i1 Ei1].
        exists (set_incurred (set_base t1 (x_add (base_size t1) (incurred t1))) (Fin 0)). split.
        -- unfold flush_incurred_to_base. exact (map_nth_error (fun t : track XQ => set_incurred (set_base t (add (base_size t) (incurred t))) zero) _ _ E1).
        -- cbn [base_size set_incurred set_base]. rewrite (upd_base _ _ Hu), Eb, Ei1. simpl.
           rewrite Ei1, Hinc, Hsl in F2. simpl in F2. split; [exact I|lra].
      * unfold distribute_fuel. pose proof (G_le_length inner tracks). lia.
    + simpl in Einf. discriminate.
Qed.

(* exactness when no track of the call can grow *)
Theorem maximise_no_growable inner avail tracks i t :
  nth_error tracks i = Some t -> G inner tracks = 0%nat -> compute_free_space avail (@fsum XQ _ (map base_size tracks)) <> PInf ->
  finite (base_size t) -> incurred t = Fin 0 ->
  exists t', nth_error (maximise_tracks inner avail tracks) i = Some t' /\ xeq (base_size t') (base_size t).
Proof.
  intros Hi Hg0 Hninf Hb Hinc. destruct (fin_inv _ Hb) as [b Eb].
  rewrite maximise_unfold. cbv zeta.
  destruct (x_eqb _ PInf) eqn:Einf.
  - exfalso. apply Hninf. destruct (compute_free_space avail _); simpl in Einf; try discriminate. reflexivity.
  - destruct (x_ltb (Fin 0) _).
    + assert (El : mloop inner (distribute_fuel tracks) (compute_free_space avail (fsum (map base_size tracks))) tracks
                   = (compute_free_space avail (fsum (map base_size tracks)), tracks)).
      { unfold distribute_fuel. destruct (2 * length tracks + 8)%nat as [|f] eqn:Ef; [reflexivity|].
        unfold mloop. cbn [distribute_loop]. fold (mstep inner). rewrite (mstep_none_G0 inner _ _ Hg0). reflexivity. }
      rewrite El. simpl snd.
      exists (set_incurred (set_base t (x_add (base_size t) (incurred t))) (Fin 0)). split.
      * unfold flush_incurred_to_base. exact (map_nth_error (fun t : track XQ => set_incurred (set_base t (add (base_size t) (incurred t))) zero) _ _ Hi).
      * cbn [base_size set_incurred set_base]. rewrite Eb, Hinc. simpl. lra.
    + exists t. split; [exact Hi|]. rewrite Eb. simpl. reflexivity.
Qed.

(* ==================================================================================================================
   Witnesses (exact arithmetic) run through the whole modelled pipeline: initialize_grid_tracks, 11.4, 11.5 restricted
   to fixed-size leaves, 11.6, 11.7, 11.8 *)
Definition q_axis (template : list (tsf XQ)) (gap : sfn XQ) (inner : Q) (items : list (nat * XQ)) : list (track XQ) :=
  let explicit := explicit_grid_size template (Some (Fin inner)) gap true in
  let tracks0 := initialize_grid_tracks (mk_counts 0 explicit 0) template [] gap (fun _ => true) in
  track_sizing_algorithm None None true (Definite (Fin inner)) (Some (Fin inner))
    (resolve_intrinsic_span1 (Some (Fin inner)) items) [] tracks0.
Definition q_sizes (ts : list (track XQ)) : list XQ := map base_size (filter is_track ts).
Definition q_gutters (ts : list (track XQ)) : list XQ := map base_size (filter (fun t => negb (is_track t)) ts).
Definition q_total (ts : list (track XQ)) : XQ := @fsum XQ _ (map base_size ts).
Definition fr_track (f : Q) : tsf XQ := TSingle (SAuto, SFr (Fin f)).
Definition px_track (v : Q) : tsf XQ := TSingle (SLength (Fin v), SLength (Fin v)).
Definition minmax_px (lo hi : Q) : tsf XQ := TSingle (SLength (Fin lo), SLength (Fin hi)).
Definition template_flex_sum (template : list (tsf XQ)) : XQ :=
  @fsum XQ _ (map (fun e => match e with TSingle (_, SFr f) => f | _ => Fin 0 end) template).

(* (a) `0.5fr 0.6fr` in 200px, an item of min-content width 100 in the first track *)
Definition witness_a : list (track XQ) := q_axis [fr_track (1 # 2); fr_track (6 # 10)] (SLength (Fin 0)) 200 [(1%nat, Fin 100)].
(* (b) `100px minmax(100px, 100.008px)` in 200.016px *)
Definition witness_b : list (track XQ) := q_axis [px_track 100; minmax_px 100 (100008 # 1000)] (SLength (Fin 0)) (200016 # 1000) [].
(* (b2) `100px minmax(100px, 100.008px) minmax(100px, 100.009px)` in 400px: two iterations raise the fixed track *)
Definition witness_b2 : list (track XQ) :=
  q_axis [px_track 100; minmax_px 100 (100008 # 1000); minmax_px 100 (100009 # 1000)] (SLength (Fin 0)) 400 [].
(* a well-behaved grid: `1fr 2fr 50px` with gap 10 in 300px *)
Definition example_fill : list (track XQ) := q_axis [fr_track 1; fr_track 2; px_track 50] (SLength (Fin 10)) 300 [].

Definition xq_eqb_list (a b : list XQ) : bool :=
  Nat.eqb (length a) (length b) && forallb (fun '(x, y) => x_eqb x y) (combine a b).

(* ==================================================================================================================
   Termination of find_size_of_fr (exact arithmetic): the hypothetical fr size never increases, so the set of tracks
   with a positive factor that are treated as flexible shrinks with every restart *)
Definition track_ok2 (t : track XQ) : Prop := track_fin t /\ 0 <= qb t /\ 0 <= qf t.

Lemma q_sign_pos f : 0 < f -> q_sign f = Gt.
Proof. intro Hf. unfold q_sign. apply Z.compare_gt_iff. destruct f as [n d]. unfold Qlt in Hf. simpl in *. lia. Qed.
Lemma q_sign_zero f : f == 0 -> q_sign f = Eq.
Proof. intro Hf. unfold q_sign. apply Z.compare_eq_iff. destruct f as [n d]. unfold Qeq in Hf. simpl in *. lia. Qed.

Lemma track_ok2_inv t : track_ok2 t -> exists b f, base_size t = Fin b /\ sfn_value (maxf t) = Fin f /\ qb t = b /\ qf t = f /\ 0 <= b /\ 0 <= f.
Proof.
  intros [[Hb Hv] [Hb0 Hf0]]. destruct (fin_inv _ Hb) as [b Eb]. destruct (fin_inv _ Hv) as [f Ef].
  exists b, f. unfold qb, qf in *. rewrite Eb, Ef in *. simpl in *. repeat split; auto.
Qed.

(* flexible_at for a finite fr size and for the initial +infinity *)
Lemma flexible_fin t b f hq : base_size t = Fin b -> sfn_value (maxf t) = Fin f ->
  flexible_at (Fin hq) t = is_fr (maxf t) && Qle_bool b (f * hq).
Proof. intros Eb Ef. unfold flexible_at. rewrite Eb, Ef. reflexivity. Qed.
Lemma flexible_inf_pos t b f : base_size t = Fin b -> sfn_value (maxf t) = Fin f -> 0 < f ->
  flexible_at PInf t = is_fr (maxf t).
Proof. intros Eb Ef Hf. unfold flexible_at. rewrite Eb, Ef. xq0. simpl. rewrite (q_sign_pos f Hf). simpl. apply andb_true_r. Qed.

Section FrTermination.
  Variable tracks : list (track XQ).
  Variable sp : Q.
  Hypothesis Hok : Forall track_ok2 tracks.

  Lemma Hfin : Forall track_fin tracks.
  Proof. eapply Forall_impl; [|exact Hok]. intros t [Ht _]. exact Ht. Qed.

  (* the next hypothetical fr size is finite: leftover / max(flex sum, 1) *)
  Lemma fr_next_fin (h : XQ) :
    exists q M, fr_next tracks (Fin sp) h = Fin q /\ 1 <= M /\ flex_q h tracks <= M /\ (M == 1 \/ M == flex_q h tracks) /\
                q * M == sp - used_q h tracks.
  Proof.
    unfold fr_next. destruct (fr_sums_fin tracks h Hfin) as [u [s [E1 [E2 E3]]]]. rewrite E1. xq0.
    destruct (x_max_fin s 1) as [M [EM [M1 [M2 M3]]]]. rewrite EM. cbn [x_sub x_add x_neg].
    assert (HM : 0 < M) by lra. simpl. rewrite (q_sign_pos M HM).
    exists ((sp + - u) / M), M. split; [reflexivity|]. repeat split; try lra.
    rewrite <- E2. field. lra.
  Qed.

  (* how the two sums move when the fr size goes from hp to a finite hq *)
  Lemma sums_step (hp : XQ) (hq : Q) (l : list (track XQ)) :
    Forall track_ok2 l ->
    (forall t, In t l -> flexible_at (Fin hq) t = true -> flexible_at hp t = true \/ (qf t == 0 /\ qb t == 0)) ->
    (forall t, In t l -> flexible_at hp t = true -> flexible_at (Fin hq) t = false -> qf t * hq <= qb t) ->
    let B := used_q (Fin hq) l - used_q hp l in
    let P := flex_q hp l - flex_q (Fin hq) l in
    P * hq <= B /\ 0 <= B /\ 0 <= P.
  Proof.
    induction l as [|t r IH]; intros Hl H1 H2; cbv zeta.
    - simpl. lra.
    - inversion Hl as [|? ? Ht Hr]; subst.
      destruct IH as [I1 [I2 I3]]; auto; try (intros; first [apply H1 | apply H2]; auto; right; auto).
      destruct Ht as [_ [Hb Hf]]. cbn [used_q flex_q].
      destruct (flexible_at (Fin hq) t) eqn:Eh; destruct (flexible_at hp t) eqn:Ep.
      + lra.
      + destruct (H1 t (or_introl eq_refl) Eh) as [Hc|[Z1 Z2]]; [congruence|]. nra.
      + specialize (H2 t (or_introl eq_refl) Ep Eh). nra.
      + lra.
  Qed.

  Definition fr_le (hq : Q) (hp : XQ) : Prop := hp = PInf \/ exists hpq, hp = Fin hpq /\ hq <= hpq.

  Lemma step_hyps (hp : XQ) (hq : Q) : fr_le hq hp ->
    (forall t, In t tracks -> flexible_at (Fin hq) t = true -> flexible_at hp t = true \/ (qf t == 0 /\ qb t == 0)) /\
    (forall t, In t tracks -> flexible_at hp t = true -> flexible_at (Fin hq) t = false -> qf t * hq <= qb t).
  Proof.
    intro Hle. rewrite Forall_forall in Hok. split; intros t Hin.
    - destruct (track_ok2_inv t (Hok t Hin)) as [b [f [Eb [Ef [Qb [Qf [Hb Hf]]]]]]]. rewrite Qb, Qf.
      rewrite (flexible_fin t b f hq Eb Ef). intro Hx. apply andb_true_iff in Hx. destruct Hx as [Hfr Hle'].
      apply Qle_bool_iff in Hle'.
      destruct (Qlt_le_dec 0 f) as [Hpos|Hz].
      + left. destruct Hle as [E|[hpq [E Hh]]]; subst hp.
        * rewrite (flexible_inf_pos t b f Eb Ef Hpos). exact Hfr.
        * rewrite (flexible_fin t b f hpq Eb Ef), Hfr. simpl. apply Qle_bool_iff. nra.
      + right. assert (f == 0) by lra. split; [assumption|]. nra.
    - destruct (track_ok2_inv t (Hok t Hin)) as [b [f [Eb [Ef [Qb [Qf [Hb Hf]]]]]]]. rewrite Qb, Qf.
      intros Hp. rewrite (flexible_fin t b f hq Eb Ef). pose proof (flexible_is_fr hp t Hp) as Hfr. rewrite Hfr. simpl.
      intro Hx. apply Qle_bool_false in Hx. lra.
  Qed.

  (* the fr size does not increase *)
  Lemma fr_next_mono (hp : XQ) (hq : Q) :
    fr_next tracks (Fin sp) hp = Fin hq -> fr_le hq hp ->
    exists hq', fr_next tracks (Fin sp) (Fin hq) = Fin hq' /\ hq' <= hq.
  Proof.
    intros En Hle.
    destruct (fr_next_fin hp) as [q [M [E1 [M1 [M2 [M3 M4]]]]]]. rewrite En in E1. inversion E1; subst q.
    destruct (fr_next_fin (Fin hq)) as [q' [M' [E1' [M1' [M2' [M3' M4']]]]]].
    exists q'. split; [exact E1'|].
    destruct (step_hyps hp hq Hle) as [H1 H2].
    destruct (sums_step hp hq tracks Hok H1 H2) as [S1 [S2 S3]].
    set (B := used_q (Fin hq) tracks - used_q hp tracks) in *.
    set (P := flex_q hp tracks - flex_q (Fin hq) tracks) in *.
    assert (EB : B == used_q (Fin hq) tracks - used_q hp tracks) by reflexivity.
    assert (EP : P == flex_q hp tracks - flex_q (Fin hq) tracks) by reflexivity.
    clearbody B P.
    assert (Hq' : q' * M' == hq * M - B) by lra.
    assert (HMM : M' <= M /\ M - M' <= P).
    { destruct M3 as [M3|M3], M3' as [M3'|M3']; split; lra. }
    destruct HMM as [HM1 HM2].
    assert (Hkey : hq * (M - M') <= B).
    { destruct (Qlt_le_dec hq 0) as [Hn|Hp].
      - assert (hq * (M - M') <= 0) by nra. lra.
      - assert (hq * (M - M') <= hq * P) by nra. lra. }
    assert (q' * M' <= hq * M') by lra.
    assert (0 < M') by lra. nra.
  Qed.

  (* positive-factor tracks treated as flexible *)
  Definition posflex (h : XQ) (t : track XQ) : bool := x_ltb (Fin 0) (sfn_value (maxf t)) && flexible_at h t.
  Definition mflex (h : XQ) : nat := length (filter (posflex h) tracks).

  Lemma filter_count_lt {A} (p q : A -> bool) l :
    (forall x, In x l -> p x = true -> q x = true) -> (exists x, In x l /\ q x = true /\ p x = false) ->
    (length (filter p l) < length (filter q l))%nat.
  Proof.
    intros H1 H2. rewrite <- (map_id l) at 1. apply (filter_map_count_lt p q (fun x => x)); auto.
  Qed.

  Lemma forallb_false_ex {A} (p : A -> bool) l : forallb p l = false -> exists x, In x l /\ p x = false.
  Proof.
    induction l as [|a l IH]; simpl; [discriminate|]. intro Hx. apply andb_false_iff in Hx. destruct Hx as [Hx|Hx].
    - exists a. auto.
    - destruct (IH Hx) as [x [Hin Hp]]. exists x. auto.
  Qed.

  Lemma posflex_mono (hp : XQ) (hq : Q) t : In t tracks -> fr_le hq hp -> posflex (Fin hq) t = true -> posflex hp t = true.
  Proof.
    intros Hin Hle Hx. unfold posflex in *. apply andb_true_iff in Hx. destruct Hx as [Hpos Hfl]. rewrite Hpos. simpl.
    destruct (step_hyps hp hq Hle) as [H1 _]. destruct (H1 t Hin Hfl) as [Hc|[Z _]]; [exact Hc|].
    rewrite Forall_forall in Hok. destruct (track_ok2_inv t (Hok t Hin)) as [b [f [Eb [Ef [Qb [Qf _]]]]]].
    rewrite Ef in Hpos. apply x_ltb_fin in Hpos. rewrite Qf in Z. lra.
  Qed.

  (* a restart with a finite previous size removes a positive-factor track from the flexible set *)
  Lemma invalid_decreases (hpq hq : Q) : hq <= hpq -> fr_valid tracks (Fin hpq) (Fin hq) = false ->
    (mflex (Fin hq) < mflex (Fin hpq))%nat.
  Proof.
    intros Hle Hinv. unfold mflex. apply filter_count_lt.
    - intros t Hin. apply posflex_mono; auto. right. exists hpq. auto.
    - unfold fr_valid in Hinv. apply forallb_false_ex in Hinv. destruct Hinv as [t [Hin Ex]]. xq0.
      exists t. split; [exact Hin|].
      rewrite Forall_forall in Hok. destruct (track_ok2_inv t (Hok t Hin)) as [b [f [Eb [Ef [Qb [Qf [Hb Hf]]]]]]].
      destruct (is_fr (maxf t)) eqn:Efr; [|discriminate]. rewrite Eb, Ef in Ex. apply orb_false_iff in Ex. destruct Ex as [X1 X2].
      cbn [x_mul] in X1, X2. apply x_leb_fin_false in X1. apply x_ltb_fin_false in X2.
      assert (Hfpos : 0 < f).
      { destruct (Qlt_le_dec 0 f) as [Hp|Hz]; [exact Hp|]. assert (f == 0) by lra. nra. }
      assert (Hp1 : x_ltb (Fin 0) (Fin f) = true) by (apply x_ltb_fin; exact Hfpos).
      unfold posflex. rewrite Ef, Hp1, (flexible_fin t b f hpq Eb Ef), (flexible_fin t b f hq Eb Ef), Efr. simpl.
      split.
      + apply Qle_bool_iff. lra.
      + apply Qle_bool_false. lra.
  Qed.

  Lemma mflex_le (h : XQ) : (mflex h <= length tracks)%nat.
  Proof. unfold mflex. clear. induction tracks as [|a l IH]; simpl; [lia|]. destruct (posflex h a); simpl; lia. Qed.

  Lemma fr_loop_ok fuel : forall hpq, (exists hq, fr_next tracks (Fin sp) (Fin hpq) = Fin hq /\ hq <= hpq) ->
    (mflex (Fin hpq) < fuel)%nat -> snd (fr_loop fuel tracks (Fin sp) (Fin hpq)) = true.
  Proof.
    induction fuel as [|f IH]; intros hpq [hq [En Hle]] Hm; [lia|].
    cbn [fr_loop]. rewrite En. destruct (fr_valid tracks (Fin hpq) (Fin hq)) eqn:Ev; [reflexivity|].
    apply IH.
    - apply (fr_next_mono (Fin hpq) hq En). right. exists hpq. auto.
    - pose proof (invalid_decreases hpq hq Hle Ev). lia.
  Qed.

  Theorem fr_terminates : snd (fr_exit tracks (Fin sp)) = true.
  Proof.
    unfold fr_exit, fr_fuel. replace (length tracks + 2)%nat with (S (length tracks + 1)) by lia. cbn [fr_loop]. xq0.
    destruct (fr_next_fin PInf) as [q [M [E1 _]]]. rewrite E1.
    destruct (fr_valid tracks PInf (Fin q)); [reflexivity|].
    apply fr_loop_ok.
    - apply (fr_next_mono PInf q E1). left. reflexivity.
    - pose proof (mflex_le (Fin q)). lia.
  Qed.
End FrTermination.
