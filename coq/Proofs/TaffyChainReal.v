(* Computed facts about the mixed chains of Model/TaffyChainReal.v (the complete engine with the real cache over binary32):
     growth_table       the leaf measure counts of the chain family grid-w200 / flex / block-m3 at depths 1, 4, 7, 10, 13
     growth_exceeds     ... at depth 13 (14 nodes) the leaf is measured 1530 > 64 x 14 times
     kchain_bound       default flex / grid / block chains of depth 1..16: at most 6 / 6 / 1 measure calls, whatever the depth *)
From Coq Require Import ZArith NArith Bool List Lia.
From TV Require Import Num.Num Num.F32.
From TV Require Import Model.EngineReal Model.TaffyChainReal.
Import ListNotations.

Lemma map5 {A B : Type} (f : A -> B) a b c d e x y z u v :
  f a = x -> f b = y -> f c = z -> f d = u -> f e = v -> map f [a; b; c; d; e] = [x; y; z; u; v].
Proof. intros <- <- <- <- <-. reflexivity. Qed.

Lemma growth_1 : tchain_nodes_meas (growth_case 1) = Some (2, 6)%N.
Proof. vm_cast_no_check (eq_refl (Some (2, 6)%N)). Qed.
Lemma growth_4 : tchain_nodes_meas (growth_case 4) = Some (5, 23)%N.
Proof. vm_cast_no_check (eq_refl (Some (5, 23)%N)). Qed.
Lemma growth_7 : tchain_nodes_meas (growth_case 7) = Some (8, 96)%N.
Proof. vm_cast_no_check (eq_refl (Some (8, 96)%N)). Qed.
Lemma growth_10 : tchain_nodes_meas (growth_case 10) = Some (11, 387)%N.
Proof. vm_cast_no_check (eq_refl (Some (11, 387)%N)). Qed.
Lemma growth_13 : tchain_nodes_meas (growth_case 13) = Some (14, 1530)%N.
Proof. vm_cast_no_check (eq_refl (Some (14, 1530)%N)). Qed.

Lemma growth_table :
  map (fun d => tchain_nodes_meas (growth_case d)) [1; 4; 7; 10; 13]%nat
  = [Some (2, 6); Some (5, 23); Some (8, 96); Some (11, 387); Some (14, 1530)]%N.
Proof. exact (map5 _ _ _ _ _ _ _ _ _ _ _ growth_1 growth_4 growth_7 growth_10 growth_13). Qed.

Lemma growth_exceeds :
  exists d n m, tchain_nodes_meas (growth_case d) = Some (n, m) /\ (64 * n < m)%N.
Proof. exists 13%nat, 14%N, 1530%N. split; [exact growth_13|reflexivity]. Qed.

Lemma kchains_ok_16 : kchains_ok 16 = true.
Proof. vm_cast_no_check (eq_refl true). Qed.

Lemma kchain_ok_all k d : (1 <= d <= 16)%nat -> kchain_ok k d = true.
Proof.
  intros Hd. generalize kchains_ok_16. unfold kchains_ok. generalize kchain_ok. intros F HA.
  rewrite forallb_forall in HA. assert (Hm : List.In k [KFlex; KGrid; KBlock]) by (destruct k; cbn; auto).
  specialize (HA _ Hm). rewrite forallb_forall in HA. apply HA. apply in_seq. lia.
Qed.

Lemma kchain_bound k d : (1 <= d <= 16)%nat ->
  exists m q, tchain_leaf_meas (kind_case k d) = Some m /\ (m <= kind_meas_bound k)%N /\
              tchain_queries (kind_case k d) = Some q /\ (q <= kind_query_rate k * N.of_nat d)%N.
Proof.
  intros Hd. pose proof (kchain_ok_all k d Hd) as HO. unfold kchain_ok in HO.
  unfold tchain_leaf_meas, tchain_queries. destruct (tchain_stats (kind_case k d)) as [ns|]; [|discriminate].
  apply andb_true_iff in HO. destruct HO as [A B]. apply N.leb_le in A. apply N.leb_le in B.
  cbn [option_map]. eexists. eexists. split; [reflexivity|]. split; [exact A|]. split; [reflexivity|exact B].
Qed.

(* the counts themselves, depth 1..6 (what tests/caching.rs's style of assertion would pin): 3, 5, then 6 for ever *)
Lemma flex_chain_counts :
  map (fun d => tchain_leaf_meas (flex_case d)) (seq 1 6) = [Some 3; Some 5; Some 6; Some 6; Some 6; Some 6]%N.
Proof. vm_cast_no_check (eq_refl [Some 3; Some 5; Some 6; Some 6; Some 6; Some 6]%N). Qed.
