(* The whole body of compute_leaf_layout, regenerated from src/compute/leaf.rs on every run (Gen/LeafGen.v), is the hand
   model Model/Leaf.v:compute_leaf_layout -- same output and same log of measure calls, for any `Num`. *)
From Coq Require Import List Bool.
From TV Require Import Model.Common Model.Leaf Model.Root Model.LeafGenRoot Gen.LeafGen Gen.RootGen.
Import ListNotations.

Section LeafGenProofs.
  Context {T : Type} `{Num T}.

  Lemma gen_leaf_is_model (inputs : LayoutInput T) (style : Style T) (measure : MeasureFn T) :
    gen_compute_leaf_layout inputs style measure = compute_leaf_layout inputs style measure.
  Proof.
    destruct inputs as [rm sm [kw kh] [pw ph] [aw ah]].
    unfold gen_compute_leaf_layout, compute_leaf_layout, leaf_early, leaf_env, leaf_finish, leaf_available_space,
      leaf_measure_known.
    cbv beta iota zeta delta [run_mode sizing_mode known_dimensions parent_size available_space
      le_margin le_padding le_border le_padding_border le_node_size le_node_min_size le_node_max_size le_aspect_ratio
      le_content_box_inset le_prevent_collapse opt_gt_zero andb].
    destruct sm; cbv beta iota zeta delta [le_margin le_padding le_border le_padding_border le_node_size le_node_min_size le_node_max_size le_aspect_ratio
      le_content_box_inset le_prevent_collapse size_or size_zip_map size_NONE]; cbn [width height];
    (destruct rm; [reflexivity | | reflexivity]);
    (match goal with |- context [if ?p then _ else _] => generalize p; intros [|] end; [ | reflexivity ]);
    (match goal with |- match ?x with _ => _ end = _ => destruct x; [ | reflexivity ] end);
    (match goal with |- match ?x with _ => _ end = _ => destruct x; reflexivity end).
  Qed.

  Lemma gen_childless_is_model (inputs : LayoutInput T) (style : Style T) (measure : MeasureFn T) :
    gen_childless_child_layout inputs style measure = childless_child_layout inputs style measure.
  Proof.
    unfold gen_childless_child_layout, childless_child_layout. rewrite gen_leaf_is_model. reflexivity.
  Qed.

  Lemma gen_root_leaf_is_model (style : Style T) (measure : MeasureFn T) (av : Size (AvailableSpace T)) :
    gen_root_leaf style measure av = root_leaf style measure av.
  Proof.
    unfold gen_root_leaf, root_leaf. rewrite gen_childless_is_model. reflexivity.
  Qed.

  (* the whole body of compute_root_layout (Gen/RootGen.v) is root_input / root_assemble around the child layout *)
  Lemma gen_root_is_model (style : Style T) (child : LayoutInput T -> option (LayoutOutput T * list (MeasureCall T)))
        (av : Size (AvailableSpace T)) :
    gen_compute_root_layout style child av =
    match child (root_input style av) with
    | Some (output, calls) => Some (root_assemble style av output, calls)
    | None => None
    end.
  Proof.
    unfold gen_compute_root_layout, root_input, root_known_dimensions, root_assemble, is_scroll.
    cbv zeta.
    match goal with |- match child ?a with _ => _ end = match child ?b with _ => _ end => change a with b end.
    destruct (child _) as [[o c]|]; [ | reflexivity ].
    destruct (overflow style) as [ox oy]; destruct ox, oy; reflexivity.
  Qed.

  Lemma gen_root_gen_leaf_is_model (style : Style T) (measure : MeasureFn T) (av : Size (AvailableSpace T)) :
    gen_root_gen_leaf style measure av = root_leaf style measure av.
  Proof.
    unfold gen_root_gen_leaf, root_leaf. rewrite gen_root_is_model, gen_childless_is_model. reflexivity.
  Qed.
End LeafGenProofs.
