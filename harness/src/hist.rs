//! Shared history machinery: random sequences of TaffyTree API calls over a pool of nodes (used by C01, C15, C16, C17).
#![allow(dead_code)]
use crate::rng::Rng;
use crate::treegen::*;
use taffy::prelude::*;

#[derive(Clone, Debug)]
pub enum Op {
    SetStyle(usize, Style),
    AddLeaf(usize, Style, Option<Ctx>),
    InsertLeaf(usize, usize, Style, Option<Ctx>),
    RemoveChildAt(usize, usize),
    ReplaceChildAt(usize, usize, Style, Option<Ctx>),
    /// rotate the children of a node (set_children with a permutation)
    Rotate(usize),
    /// set_children with one current child left out (the dropped child becomes a root)
    DropChild(usize, usize),
    /// move a node under another parent (remove_child + add_child, or set_children adopting it: see `apply`)
    Reparent(usize, usize),
    Remove(usize),
    SetCtx(usize, Option<Ctx>),
    MarkDirty(usize),
    Rounding(bool),
    Layout(usize, Size<AvailableSpace>),
}

pub struct World {
    pub t: TaffyTree<Ctx>,
    /// pool of node ids ever created; `None` once removed
    pub pool: Vec<Option<NodeId>>,
    pub rounding: bool,
}

impl World {
    pub fn new(spec: &NodeSpec) -> (World, NodeId) {
        let mut t: TaffyTree<Ctx> = TaffyTree::new();
        let mut ids = vec![];
        let root = build(&mut t, spec, &mut ids);
        (World { t, pool: ids.into_iter().map(Some).collect(), rounding: true }, root)
    }
    pub fn live(&self) -> Vec<usize> {
        (0..self.pool.len()).filter(|i| self.pool[*i].is_some()).collect()
    }
    pub fn roots(&self) -> Vec<usize> {
        self.live().into_iter().filter(|i| self.t.parent(self.pool[*i].unwrap()).is_none()).collect()
    }
    pub fn is_ancestor_or_self(&self, a: NodeId, mut n: NodeId) -> bool {
        loop {
            if a == n {
                return true;
            }
            match self.t.parent(n) {
                Some(p) => n = p,
                None => return false,
            }
        }
    }
    pub fn subtree(&self, n: NodeId, out: &mut Vec<NodeId>) {
        out.push(n);
        for c in self.t.children(n).unwrap() {
            self.subtree(c, out);
        }
    }
    fn new_leaf(&mut self, s: &Style, c: &Option<Ctx>) -> NodeId {
        let id = match c {
            Some(c) => self.t.new_leaf_with_context(s.clone(), c.clone()).unwrap(),
            None => self.t.new_leaf(s.clone()).unwrap(),
        };
        self.pool.push(Some(id));
        id
    }
    /// Apply an op through the public API. Ops addressing dead nodes or bad indices are skipped (returns false).
    pub fn apply(&mut self, op: &Op) -> bool {
        let get = |w: &World, i: usize| w.pool.get(i).copied().flatten();
        match op {
            Op::SetStyle(i, s) => match get(self, *i) {
                Some(n) => self.t.set_style(n, s.clone()).is_ok(),
                None => false,
            },
            Op::AddLeaf(p, s, c) => match get(self, *p) {
                Some(p) => {
                    let l = self.new_leaf(s, c);
                    self.t.add_child(p, l).is_ok()
                }
                None => false,
            },
            Op::InsertLeaf(p, idx, s, c) => match get(self, *p) {
                Some(p) => {
                    let cnt = self.t.child_count(p);
                    let l = self.new_leaf(s, c);
                    self.t.insert_child_at_index(p, idx % (cnt + 1), l).is_ok()
                }
                None => false,
            },
            Op::RemoveChildAt(p, idx) => match get(self, *p) {
                Some(p) if self.t.child_count(p) > 0 => {
                    let cnt = self.t.child_count(p);
                    self.t.remove_child_at_index(p, idx % cnt).is_ok()
                }
                _ => false,
            },
            Op::ReplaceChildAt(p, idx, s, c) => match get(self, *p) {
                Some(p) if self.t.child_count(p) > 0 => {
                    let cnt = self.t.child_count(p);
                    let l = self.new_leaf(s, c);
                    self.t.replace_child_at_index(p, idx % cnt, l).is_ok()
                }
                _ => false,
            },
            Op::Rotate(p) => match get(self, *p) {
                Some(p) if self.t.child_count(p) > 1 => {
                    let mut ch = self.t.children(p).unwrap();
                    ch.rotate_left(1);
                    self.t.set_children(p, &ch).is_ok()
                }
                _ => false,
            },
            Op::DropChild(p, idx) => match get(self, *p) {
                Some(p) if self.t.child_count(p) > 0 => {
                    let mut ch = self.t.children(p).unwrap();
                    let k = idx % ch.len();
                    ch.remove(k);
                    self.t.set_children(p, &ch).is_ok()
                }
                _ => false,
            },
            Op::Reparent(ni, pi) => match (get(self, *ni), get(self, *pi)) {
                (Some(n), Some(p)) if !self.is_ancestor_or_self(n, p) => {
                    // two API routes with the same effect (n leaves its old parent, which is marked dirty, and becomes the
                    // last child of p, which is marked dirty): remove_child + add_child, or -- every other time, when n is
                    // not already a child of p -- set_children(p, children ++ [n]), which adopts n from its old parent
                    if (*ni + *pi) % 2 == 1 && self.t.parent(n) != Some(p) {
                        let mut ch = self.t.children(p).unwrap();
                        ch.push(n);
                        self.t.set_children(p, &ch).is_ok()
                    } else {
                        if let Some(old) = self.t.parent(n) {
                            self.t.remove_child(old, n).unwrap();
                        }
                        self.t.add_child(p, n).is_ok()
                    }
                }
                _ => false,
            },
            Op::Remove(i) => match get(self, *i) {
                Some(n) => {
                    self.t.remove(n).unwrap();
                    self.pool[*i] = None;
                    true
                }
                None => false,
            },
            Op::SetCtx(i, c) => match get(self, *i) {
                Some(n) => self.t.set_node_context(n, c.clone()).is_ok(),
                None => false,
            },
            Op::MarkDirty(i) => match get(self, *i) {
                Some(n) => self.t.mark_dirty(n).is_ok(),
                None => false,
            },
            Op::Rounding(on) => {
                if *on {
                    self.t.enable_rounding()
                } else {
                    self.t.disable_rounding()
                }
                self.rounding = *on;
                true
            }
            Op::Layout(i, a) => match get(self, *i) {
                Some(n) if self.t.parent(n).is_none() => {
                    compute(&mut self.t, n, *a);
                    true
                }
                _ => false,
            },
        }
    }

    /// Rebuild a fresh tree with the same shape/styles/contexts as the subtree under `root`; returns (tree, ids in the
    /// same pre-order as `self.subtree(root)`).
    pub fn fresh_copy(&self, root: NodeId) -> (TaffyTree<Ctx>, Vec<NodeId>) {
        fn rec(w: &World, n: NodeId, t: &mut TaffyTree<Ctx>, ids: &mut Vec<NodeId>) -> NodeId {
            let idx = ids.len();
            ids.push(n);
            let kids: Vec<NodeId> = w.t.children(n).unwrap().into_iter().map(|c| rec(w, c, t, ids)).collect();
            let style = w.t.style(n).unwrap().clone();
            let id = match w.t.get_node_context(n) {
                Some(c) => t.new_leaf_with_context(style, c.clone()).unwrap(),
                None => t.new_leaf(style).unwrap(),
            };
            if !kids.is_empty() {
                t.set_children(id, &kids).unwrap();
            }
            ids[idx] = id;
            id
        }
        let mut t: TaffyTree<Ctx> = TaffyTree::new();
        if !self.rounding {
            t.disable_rounding();
        }
        let mut ids = vec![];
        rec(self, root, &mut t, &mut ids);
        (t, ids)
    }
}

pub fn gen_op(rng: &mut Rng, cfg: &GenCfg, w: &World) -> Op {
    let live = w.live();
    if live.is_empty() {
        return Op::Rounding(true);
    }
    let pick = |rng: &mut Rng| live[rng.below(live.len() as u64) as usize];
    match rng.below(21) {
        20 => Op::DropChild(pick(rng), rng.below(5) as usize),
        0..=3 => Op::SetStyle(pick(rng), style(rng, cfg, false, false)),
        4 => Op::AddLeaf(pick(rng), style(rng, cfg, false, true), ctx(rng, cfg)),
        5 => Op::InsertLeaf(pick(rng), rng.below(5) as usize, style(rng, cfg, false, true), ctx(rng, cfg)),
        6 => Op::RemoveChildAt(pick(rng), rng.below(5) as usize),
        7 => Op::ReplaceChildAt(pick(rng), rng.below(5) as usize, style(rng, cfg, false, true), ctx(rng, cfg)),
        8 => Op::Rotate(pick(rng)),
        9 => Op::Reparent(pick(rng), pick(rng)),
        10 => Op::Remove(pick(rng)),
        11 => Op::SetCtx(pick(rng), ctx(rng, cfg)),
        12 | 13 => Op::MarkDirty(pick(rng)),
        14 => Op::Rounding(rng.chance(1, 2)),
        _ => {
            let roots = w.roots();
            Op::Layout(roots[rng.below(roots.len() as u64) as usize], avail(rng, cfg))
        }
    }
}
