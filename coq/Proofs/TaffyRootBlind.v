(* C05 for what `vh taffytree` really evaluates (audit, wave 7b): Model/TaffyRoot.v taffy_compute_root (the root input computed from the root
   style, ONE memoised query, the root's own layout stored) and taffy_passes (several compute_layout calls on the same tree), not just one
   memoised query: tsim is kept by a whole layout pass and by any sequence of passes, for every tree whose root is not display:none. *)
From Coq Require Import ZArith Bool List.
From TV Require Import Num.Num Model.Common Model.Leaf Model.FlexAlgBase Model.BlockFlexEngine Model.TaffyEngine Model.TaffyRoot.
From TV Require Import Model.Engine Proofs.EngineBlind Proofs.TaffyEngine.
From TV Require Model.Block Model.BlockAlg.
Import ListNotations.
Close Scope Z_scope.
Close Scope N_scope.

Section TaffyRootBlind.
  Context {T : Type} `{Num T}.
  Variable teq : T -> T -> bool.
  Variable disp : TStyle T -> nat -> TKind.
  Variable pre : Block.BStyle T -> BlockAlg.BIn T -> BlockAlg.BIn T.
  Variable abs_child : @BlockAlg.AbsChild T.
  Variable leaf : TStyle T -> FIn T -> LayoutOutput T.

  Notation tree := (Engine.tree (TStyle T) (FIn T) (LayoutOutput T) (FLay T)).
  Notation tsimT := (tsim (TStyle T) (FIn T) (LayoutOutput T) (FLay T) t_is_none).
  Notation croot := (taffy_compute_root teq disp pre abs_child leaf).
  Notation passes := (taffy_passes teq disp pre abs_child leaf).

  Definition trel_opt (x y : option tree) : Prop :=
    match x, y with Some a, Some b => tsimT a b | None, None => True | _, _ => False end.

  Lemma memo_style (mode : FIn T -> RunMode) in_eqb is_none ho zl algo f (t : tree) i o t' :
    Engine.memo (TStyle T) (FIn T) (LayoutOutput T) (FLay T) mode in_eqb is_none ho zl algo f t i = Some (o, t') ->
    style_of _ _ _ _ t' = style_of _ _ _ _ t.
  Proof.
    destruct f as [|f]; [discriminate|]. destruct t as [s c l kids]. cbn [Engine.memo].
    destruct (mode i).
    - destruct (cget _ _ mode in_eqb c i); [intros E; injection E as _ <-; reflexivity|].
      destruct (is_none s); [intros E; injection E as _ <-; reflexivity|].
      destruct (run_memo _ _ _ _ _ kids _) as [[o1 k1]|]; [|discriminate]. intros E; injection E as _ <-; reflexivity.
    - destruct (cget _ _ mode in_eqb c i); [intros E; injection E as _ <-; reflexivity|].
      destruct (is_none s); [intros E; injection E as _ <-; reflexivity|].
      destruct (run_memo _ _ _ _ _ kids _) as [[o1 k1]|]; [|discriminate]. intros E; injection E as _ <-; reflexivity.
    - intros E; injection E as _ <-; reflexivity.
  Qed.

  Lemma tsim_root_style (t t' : tree) : tsimT t t' -> t_is_none (style_of _ _ _ _ t) = false -> style_of _ _ _ _ t' = style_of _ _ _ _ t.
  Proof. intros Hs Hn. inversion Hs as [s s' c l kids kids' Hs1 Hs2|s c l kids kids' Hk]; subst; cbn in *; [congruence|reflexivity]. Qed.

  (* one layout pass *)
  Theorem compute_root_tsim f (t t' : tree) avail :
    tsimT t t' -> t_is_none (style_of _ _ _ _ t) = false -> trel_opt (croot f t avail) (croot f t' avail).
  Proof.
    intros Hs Hn. unfold taffy_compute_root. rewrite (tsim_root_style t t' Hs Hn).
    pose proof (memo_tsim (TStyle T) (FIn T) (LayoutOutput T) (FLay T) qi_mode (fin_eqb_with teq) t_is_none output_HIDDEN (f_with_order 0)
                          (taffy_algo disp pre abs_child leaf) (taffy_algo_hidden_blind disp pre abs_child leaf) f t t'
                          (taffy_root_input (style_of _ _ _ _ t) avail) Hs) as Ho.
    unfold taffy_memo. unfold orel in Ho.
    destruct (Engine.memo _ _ _ _ _ _ _ _ _ _ f t _) as [[o u]|]; destruct (Engine.memo _ _ _ _ _ _ _ _ _ _ f t' _) as [[o' u']|];
      cbn; try contradiction; try exact I.
    destruct Ho as [<- Hu]. apply tsim_set_lay. exact Hu.
  Qed.

  Lemma compute_root_style f (t u : tree) avail : croot f t avail = Some u -> style_of _ _ _ _ u = style_of _ _ _ _ t.
  Proof.
    unfold taffy_compute_root, taffy_memo. destruct (Engine.memo _ _ _ _ _ _ _ _ _ _ f t _) as [[o u1]|] eqn:E; [|discriminate].
    intros E1. injection E1 as <-. apply memo_style in E. destruct u1; cbn in *. exact E.
  Qed.

  (* any sequence of passes: both run out of fuel, or the final trees are tsim *)
  Theorem passes_tsim f avails : forall (t t' : tree),
    tsimT t t' -> t_is_none (style_of _ _ _ _ t) = false ->
    match passes f t avails, passes f t' avails with
    | Some (_, u), Some (_, u') => tsimT u u'
    | None, None => True
    | _, _ => False
    end.
  Proof.
    induction avails as [|a rest IH]; intros t t' Hs Hn; cbn [taffy_passes]; [exact Hs|].
    pose proof (compute_root_tsim f t t' a Hs Hn) as H1. unfold trel_opt in H1.
    destruct (croot f t a) as [u|] eqn:E; destruct (croot f t' a) as [u'|] eqn:E'; try contradiction; [|exact I].
    assert (Hn' : t_is_none (style_of _ _ _ _ u) = false) by (rewrite (compute_root_style f t u a E); exact Hn).
    specialize (IH u u' H1 Hn').
    destruct (passes f u rest) as [[ls w]|]; destruct (passes f u' rest) as [[ls' w']|]; try contradiction; [exact IH|exact I].
  Qed.
End TaffyRootBlind.
