(* Histories, at the level of the STORED LAYOUTS: the mutators and PerformLayout passes keep the tree coherent (Coh),
   so after any history a further PerformLayout pass leaves below the root exactly the layouts a freshly built tree
   with the same shape, styles and measure data gets.  Exact key, WF, H1, H3, NS, HQ. *)
From Coq Require Import List Bool Arith Lia.
From TV Require Import Model.Engine Model.EngineLayouts Proofs.EngineMemo Proofs.EngineDirty Proofs.EngineHistory
  Proofs.EngineNoScribble Proofs.EngineLayoutsPlain Proofs.EngineLayoutsMemo.
Import ListNotations.

Section LayoutsHistory.
  Variables (S In Out Lay : Type).
  Variable mode : In -> RunMode.
  Variable in_eqb : In -> In -> bool.
  Variable is_none : S -> bool.
  Variable hidden_out : Out.
  Variable zero_lay : Lay.
  Variable algo : S -> list S -> In -> Alg In Out Lay.

  Notation tree := (tree S In Out Lay).
  Notation Node := (Node S In Out Lay).
  Notation st := (st S Lay).
  Notation strip := (strip S In Out Lay).
  Notation memo := (memo S In Out Lay mode in_eqb is_none hidden_out zero_lay algo).
  Notation skel := (skel S In Out Lay).
  Notation fresh := (fresh S In Out Lay zero_lay).
  Notation cempty := (cempty In Out).
  Notation kids_of := (kids_of S In Out Lay).
  Notation clear_path := (clear_path S In Out Lay).
  Notation update := (update S In Out Lay).
  Notation apply_edit := (apply_edit S In Out Lay).
  Notation mutate := (mutate S In Out Lay).
  Notation mutate_spec := (mutate_spec S In Out Lay).
  Notation edit := (edit S In Out Lay).
  Notation op := (op S In Out Lay).
  Notation step := (step S In Out Lay mode in_eqb is_none hidden_out zero_lay algo).
  Notation run_ops := (run_ops S In Out Lay mode in_eqb is_none hidden_out zero_lay algo).
  Notation Valid := (Valid S In Out Lay mode is_none hidden_out algo).
  Notation Inv := (Inv S In Out Lay mode is_none hidden_out algo).
  Notation edit_ok := (edit_ok S In Out Lay mode is_none hidden_out algo).
  Notation op_ok := (op_ok S In Out Lay mode is_none hidden_out algo).
  Notation run_ok := (run_ok S In Out Lay mode in_eqb is_none hidden_out zero_lay algo).
  Notation visible_path := (visible_path S In Out Lay is_none).
  Notation Coh := (Coh S In Out Lay mode is_none hidden_out zero_lay algo).
  Notation nones := (nones S is_none).
  Notation NoHiddenSize := (NoHiddenSize In Out Lay mode).
  Notation SetsLast := (SetsLast In Out Lay).
  Notation WFAlg := (WFAlg In Out Lay mode).
  Notation Visits := (Visits In Out Lay mode).
  Notation SizeOnly := (SizeOnly In Out Lay mode).
  Notation lays := (lays S In Out Lay).

  (* ---------- the mutators keep the tree coherent: every cache on the path is cleared ---------- *)
  (* subtrees attached by a mutator must be coherent themselves (freshly built ones are) *)
  Definition edit_coh (e : edit) : Prop :=
    match e with
    | ESetKids _ _ _ _ ks => Forall Coh ks
    | _ => True
    end.

  Lemma Coh_cleared s l kids : Forall Coh kids -> Coh (Node s cempty l kids).
  Proof. intros H. constructor; [cbn; intros j o E; discriminate|exact H]. Qed.

  Lemma mutate_spec_coh e : edit_coh e -> forall p t, Coh t -> Coh (mutate_spec t p e).
  Proof.
    intros He. induction p as [|x p IH]; intros [s c l kids] HC;
      inversion HC as [? ? ? ? Hent HCk]; subst; unfold EngineHistory.mutate_spec; cbn [Engine.clear_path Engine.update].
    - destruct e as [s'|ks|]; cbn [Engine.apply_edit]; apply Coh_cleared; try exact HCk. exact He.
    - destruct (nth_error kids x) as [ch|] eqn:Ex.
      + cbn [Engine.update]. rewrite (nth_error_replace_same _ _ _ _ Ex), (replace_replace _ _ _ _ _ Ex).
        apply Coh_cleared. apply Forall_replace_nth; [exact HCk|].
        apply IH. rewrite Forall_forall in HCk. apply HCk. eapply nth_error_In; eauto.
      + cbn [Engine.update]. rewrite Ex. exact HC.
  Qed.

  (* ---------- histories ---------- *)
  Definition op_ok_l (t : tree) (o : op) : Prop :=
    op_ok t o /\ match o with OMutate _ _ _ _ _ e => edit_coh e | OLayout _ _ _ _ _ _ => True end.

  Fixpoint run_ok_l (t : tree) (ops : list op) : Prop :=
    match ops with
    | [] => True
    | o :: r => op_ok_l t o /\ run_ok_l (step t o) r
    end.

  Lemma run_ok_l_run_ok : forall ops t, run_ok_l t ops -> run_ok t ops.
  Proof. induction ops as [|o r IH]; intros t H; [exact I|]. destruct H as [[H1' _] H2']. split; [exact H1'|apply IH; exact H2']. Qed.

  Hypothesis in_eqb_eq : forall a b, in_eqb a b = true -> a = b.
  Hypothesis WF : forall s sts i, WFAlg (algo s sts i).
  Hypothesis H1 : forall s sts i, mode i = PerformLayout -> Visits (seq 0 (length sts)) (algo s sts i).
  Hypothesis H3 : forall s sts i, mode i = PerformLayout -> SetsLast (nones sts) (seq 0 (length sts)) (algo s sts i).
  Hypothesis NS : forall s sts i, mode i = ComputeSize -> SizeOnly (algo s sts i).
  Hypothesis HQ : forall s sts i, NoHiddenSize (nones sts) (algo s sts i).

  Lemma step_coh t o : Inv t -> Coh t -> op_ok_l t o -> Coh (step t o).
  Proof.
    intros [HV [HJ HB]] HC [Hok Hc]. destruct o as [p e|f i]; cbn in *.
    - destruct Hok as [Hv He]. rewrite (mutate_is_spec S In Out Lay is_none t p e HJ HB Hv). apply mutate_spec_coh; assumption.
    - destruct (memo f t i) as [[o t']|] eqn:Em; [|exact HC].
      assert (Hm : mode i <> PerformHiddenLayout) by congruence.
      assert (Hq : mode i = ComputeSize -> is_none (style_of S In Out Lay t) = false) by (intros E; congruence).
      destruct (memo_coh S In Out Lay mode in_eqb is_none hidden_out zero_lay algo in_eqb_eq WF H1 H3 NS HQ
                  f _ _ _ _ Hm Hq HV HC Em) as [HC' _]. exact HC'.
  Qed.

  Theorem history_coh : forall ops t, Inv t -> Coh t -> run_ok_l t ops -> Inv (run_ops t ops) /\ Coh (run_ops t ops).
  Proof.
    induction ops as [|o r IH]; intros t HI HC Hok; [split; assumption|].
    destruct Hok as [Ho Hr]. cbn. apply IH; [|apply step_coh; assumption|exact Hr].
    apply (step_inv S In Out Lay mode in_eqb is_none hidden_out zero_lay algo in_eqb_eq WF H1); [exact HI|exact (proj1 Ho)].
  Qed.

  (* ---------- stored layouts as a bare layout tree (lt / lays of Proofs/EngineNoScribble.v) ---------- *)
  Definition lkids (x : lt Lay) : list (lt Lay) := match x with LNode _ _ k => k end.
  Fixpoint lt_of (x : st) : lt Lay := match x with STNode _ _ _ l kids => LNode Lay l (map lt_of kids) end.

  Lemma lays_strip t : lays t = lt_of (strip t).
  Proof.
    induction t as [s c l kids IH] using tree_ind'. cbn. f_equal.
    rewrite map_map. apply map_ext_Forall. exact IH.
  Qed.

  Lemma lkids_lays t : lkids (lays t) = map lt_of (map strip (kids_of t)).
  Proof. destruct t as [s c l kids]. cbn. rewrite map_map. apply map_ext. intros a. apply lays_strip. Qed.

  (* C01 at the level of the stored layouts: after ANY history of mutations (at nodes with no display:none ancestor,
     attaching coherent subtrees) and PerformLayout passes, a further PerformLayout pass stores, in every node
     strictly below the root, exactly the layout a freshly built tree with the same shape, styles and measure data
     gets (and returns the same output) *)
  Theorem relayout_layouts_equal_fresh t0 ops f f' i o o' t1 t2 :
    Inv t0 -> Coh t0 -> run_ok_l t0 ops -> mode i = PerformLayout ->
    memo f (run_ops t0 ops) i = Some (o, t1) ->
    memo f' (fresh (skel (run_ops t0 ops))) i = Some (o', t2) ->
    o = o' /\ lkids (lays t1) = lkids (lays t2) /\ map strip (kids_of t1) = map strip (kids_of t2).
  Proof.
    intros HI HC Hok Hm M1 M2. destruct (history_coh ops t0 HI HC Hok) as [[HV _] HC'].
    destruct (pass_layouts_equal_fresh S In Out Lay mode in_eqb is_none hidden_out zero_lay algo in_eqb_eq WF H1 H3 NS HQ
                _ _ _ _ _ _ _ _ Hm HV HC' M1 M2) as [Eo [Ek _]].
    split; [exact Eo|]. split; [|exact Ek]. rewrite !lkids_lays, Ek. reflexivity.
  Qed.
End LayoutsHistory.
