//! Event-level engine correspondence (C01 / C15 / C17): `vh engev cases <seed> <n>`.
//! A history of TaffyTree API calls (hist.rs, same op encoding as eng.rs) is run in EXACT-KEY mode with the event trace
//! on for every compute_layout.  From the nesting of Query/Return events the SCRIPT of every cache-miss evaluation is
//! recorded: the direct actions of the algorithm that ran (Query child-index input -> output id it got back; SetLayout
//! child-index; Ret output id), keyed by everything that algorithm can depend on: (node id, the node's style version,
//! [child id, child style version], input id) and, inside the key's trie, the outputs received so far.
//! Style version = per-node counter bumped by set_style / set_node_context.
//!
//! Input ids: every distinct `LayoutInput` (Debug string, the hook's own exact key) gets a number k; emitted as 3*k + run mode.
//! Output ids: the trace does not carry `LayoutOutput`s (Event::Return has no payload), so an output is identified by
//! the evaluation that produced it: 0 = LayoutOutput::HIDDEN (evaluation of a display:none node), otherwise the number
//! (from 2) of the hash-consed record (key, actions with the output ids they received).  Two evaluations with the same
//! record return the same LayoutOutput (the algorithms are deterministic functions of exactly this data; a conflict, the
//! same key and outputs so far but a different next action, is reported as `ANOM ... NONDET`), so the ids refine the
//! real outputs.  A cache hit returns the id of the latest completed miss of the same (node, input) (what Cache::store /
//! Cache::get do with the value is C02's subject).
//!
//! C line: nnodes; (parent, none)*; ntable; table entries; ops (length-prefixed).   R line: dirty flags; then per op
//! -1, [events..., -2 for a layout op], dirty flags.  Events are one integer each: Query 4*(hit + 2*(node + 1024*input)),
//! Return 4*node+1, Hidden 4*node+2, SetLayout 4*node+3.
//!
//! REAL-CACHE mode (`vh engev cases <seed> <n> [start] real`, notes/REALHIST.md): the same histories WITHOUT the exact-key hook.  Input ids
//! are still numbered by the Debug string of the complete input (so inputs the real key conflates stay distinct); the case additionally
//! carries, per input id, the key projection the real `Cache::get` sees (known_dimensions / available_space, C02's KEY encoding:
//! kwf kwb khf khb awk awb ahk ahb) -- the MODEL decides hit/miss with `Cache.compat` on them.  Because the lossy test also reads the
//! CACHED SIZE, an output is named by (record id, width bits, height bits), emitted as one integer id*2^64 + w*2^32 + h:
//!   miss               (hash-consed record id >= 2, size)        display:none miss   0 = LayoutOutput::HIDDEN
//!   PerformLayout hit  (record id of the latest PerformLayout miss of that node -- one final entry, latest wins --, size)
//!   ComputeSize hit    (0, size) = LayoutOutput::from_outer_size(cached size)
//! The trace has no output payload, so the size is PROBED on the harness side: the pass is re-run on a clone of the tree taken before
//! the pass with the hook's query limit set so that it stops at the first `compute_cached_layout` entered after the Return in
//! question, and the public `CacheTree::cache_get(node, the frame's own key)` of the clone is read (a miss has just stored under that
//! key, a hit has just been answered under it).  A probe that finds nothing is an `ANOM`.
use crate::hist::*;
use crate::rng::Rng;
use crate::treegen::*;
use std::collections::HashMap;
use taffy::prelude::*;

fn is_none(s: &Style) -> i64 {
    (s.display == Display::None) as i64
}

fn flags(w: &World) -> Vec<i64> {
    w.live().iter().map(|i| w.t.dirty(w.pool[*i].unwrap()).unwrap() as i64).collect()
}

fn push_op(c: &mut Vec<i64>, op: &[i64]) {
    c.push(op.len() as i64);
    c.extend_from_slice(op);
}

type Key = (i64, i64, Vec<(i64, i64)>, i64);

#[derive(Clone, Debug, PartialEq, Eq, Hash)]
enum Act {
    Q(i64, i64, i64), // child index, input, output id received
    S(i64),           // child index
}

#[derive(Debug)]
enum Trie {
    Empty,
    Ret(i64),
    Query(i64, i64, Vec<(i64, Trie)>),
    Set(i64, Box<Trie>),
}

impl Trie {
    /// insert the action sequence followed by `Ret out`; false = conflict with what is recorded (non-determinism)
    fn insert(&mut self, acts: &[Act], out: i64) -> bool {
        if let Trie::Empty = self {
            *self = match acts.first() {
                None => Trie::Ret(out),
                Some(Act::Q(c, i, _)) => Trie::Query(*c, *i, vec![]),
                Some(Act::S(c)) => Trie::Set(*c, Box::new(Trie::Empty)),
            };
        }
        match (&mut *self, acts.first()) {
            (Trie::Ret(o), None) => *o == out,
            (Trie::Query(c, i, brs), Some(Act::Q(c2, i2, o2))) if c == c2 && i == i2 => {
                if let Some(k) = brs.iter().position(|b| b.0 == *o2) {
                    brs[k].1.insert(&acts[1..], out)
                } else {
                    let mut t = Trie::Empty;
                    let ok = t.insert(&acts[1..], out);
                    brs.push((*o2, t));
                    ok
                }
            }
            (Trie::Set(c, next), Some(Act::S(c2))) if c == c2 => next.insert(&acts[1..], out),
            _ => false,
        }
    }
    /// `code`: the integer the model sees for an output handle
    fn emit(&self, v: &mut Vec<i128>, code: &dyn Fn(i64) -> i128) {
        match self {
            Trie::Empty => v.extend([0, 1]), // never reached by a completed evaluation: the model's error output
            Trie::Ret(o) => v.extend([0, code(*o)]),
            Trie::Query(c, i, brs) => {
                v.extend([1, *c as i128, *i as i128, brs.len() as i128]);
                for (o, t) in brs {
                    v.push(code(*o));
                    t.emit(v, code);
                }
            }
            Trie::Set(c, n) => {
                v.extend([2, *c as i128]);
                n.emit(v, code);
            }
        }
    }
}

struct Frame {
    node: i64,
    input: i64,
    #[cfg(taffy_verif)]
    nid: NodeId,
    #[cfg(taffy_verif)]
    linput: taffy::LayoutInput,
    hit: bool,
    opaque: bool, // display:none node or hidden-mode input: the body is compute_hidden_layout, not an algorithm
    key: Key,
    acts: Vec<Act>,
}

#[derive(Default)]
pub struct Stats {
    pub passes: u64,
    pub events: u64,
    pub hits: u64,
    pub misses: u64,
    pub hidden: u64,
    pub entries: u64,
    pub outputs: u64,
}

/// tree before the pass, its root and the available space of the pass (real mode: probes)
#[cfg(taffy_verif)]
pub struct Pre {
    t: TaffyTree<Ctx>,
    root: NodeId,
    avail: Size<AvailableSpace>,
    /// the clone stopped after `nq` queries (kept while consecutive probes ask for the same point)
    at: Option<(u64, TaffyTree<Ctx>)>,
    total: u64,
}

#[cfg(taffy_verif)]
impl Pre {
    /// what `cache_get(node, key of input)` answers right before the (nq+1)-th compute_cached_layout call of the pass (after the
    /// pass when there is none)
    fn probe(&mut self, nq: u64, node: NodeId, input: &taffy::LayoutInput) -> Option<taffy::LayoutOutput> {
        use taffy::CacheTree;
        if self.at.as_ref().map(|a| a.0) != Some(nq) {
            let mut t = self.t.clone();
            taffy::verif_hooks::reset_queries();
            taffy::verif_hooks::set_query_limit(if nq < self.total { nq } else { u64::MAX });
            let (root, avail) = (self.root, self.avail);
            let r = std::panic::catch_unwind(std::panic::AssertUnwindSafe(|| compute(&mut t, root, avail)));
            taffy::verif_hooks::set_query_limit(u64::MAX);
            if r.is_err() != (nq < self.total) {
                return None;
            }
            self.at = Some((nq, t));
        }
        self.at.as_ref().unwrap().1.cache_get(node, input.known_dimensions, input.available_space, input.run_mode)
    }
}

#[derive(Default)]
struct Rec {
    real: bool,
    /// real mode: key projection of every input id (C02's KEY encoding)
    keys: Vec<[i64; 8]>,
    /// real mode: interned outputs (record id, width bits, height bits); an output handle is an index here
    outs: Vec<(i64, u32, u32)>,
    out_index: HashMap<(i64, u32, u32), i64>,
    /// real mode: record id of the latest PerformLayout miss of a node
    last_final: HashMap<i64, i64>,
    inputs: HashMap<String, i64>,
    records: HashMap<(Key, Vec<Act>), i64>,
    last_out: HashMap<(i64, i64), i64>,
    table: Vec<(Key, Trie)>,
    index: HashMap<Key, usize>,
    anomalies: Vec<String>,
    /// real mode: reasons why this history cannot be recorded (it is skipped)
    skips: Vec<String>,
}

#[cfg(taffy_verif)]
impl Rec {
    fn input_id(&mut self, input: &taffy::LayoutInput) -> i64 {
        let n = self.inputs.len() as i64;
        let k = *self.inputs.entry(format!("{:?}", input)).or_insert(n);
        if k == n {
            let kd = |v: Option<f32>| match v {
                Some(x) => [1, x.to_bits() as i64],
                None => [0, 0],
            };
            let av = |a: AvailableSpace| match a {
                AvailableSpace::MinContent => [0, 0],
                AvailableSpace::MaxContent => [1, 0],
                AvailableSpace::Definite(x) => [2, x.to_bits() as i64],
            };
            let (a, b, c, d) = (kd(input.known_dimensions.width), kd(input.known_dimensions.height), av(input.available_space.width), av(input.available_space.height));
            self.keys.push([a[0], a[1], b[0], b[1], c[0], c[1], d[0], d[1]]);
        }
        let mode = match input.run_mode {
            taffy::RunMode::PerformLayout => 0,
            taffy::RunMode::ComputeSize => 1,
            taffy::RunMode::PerformHiddenLayout => 2,
        };
        3 * k + mode
    }

    /// one traced pass: returns (root input, encoded events)
    fn out_handle(&mut self, o: (i64, u32, u32)) -> i64 {
        if !self.real {
            return o.0;
        }
        let n = self.outs.len() as i64;
        let k = *self.out_index.entry(o).or_insert(n);
        if k == n {
            self.outs.push(o);
        }
        k
    }

    /// the integer the model sees for an output handle
    fn out_code(&self, h: i64) -> i128 {
        if !self.real {
            return h as i128;
        }
        let (id, w, hh) = self.outs[h as usize];
        ((id as i128) << 64) | ((w as i128) << 32) | (hh as i128)
    }

    /// real mode: name the output of a completed frame (see the module documentation)
    fn real_out(&mut self, fr: &Frame, n: i64, nq: u64, pre: &mut Pre) -> i64 {
        let perform = fr.linput.run_mode == taffy::RunMode::PerformLayout;
        let (pw, ph) = match pre.probe(nq, fr.nid, &fr.linput) {
            Some(o) => (o.size.width.to_bits(), o.size.height.to_bits()),
            None => {
                // a key that does not match itself (NaN known dimension; NaN / infinite definite available space on an axis without
                // known dimension) cannot be probed -- Cache::get misses its own entry: the history is skipped, not reported
                let i = &fr.linput;
                let bad = |k: Option<f32>, a: AvailableSpace| match (k, a) {
                    (Some(x), _) => x.is_nan(),
                    (None, AvailableSpace::Definite(x)) => !x.is_finite(),
                    _ => false,
                };
                if bad(i.known_dimensions.width, i.available_space.width) || bad(i.known_dimensions.height, i.available_space.height) {
                    self.skips.push(format!("probe impossible: node {n} input {} has a key that does not match itself", fr.input));
                } else {
                    self.anomalies.push(format!("probe: node {n} input {} has no cache entry after its {}", fr.input, if fr.hit { "hit" } else { "miss" }));
                }
                (0, 0)
            }
        };
        if fr.hit {
            let id = if perform {
                match self.last_final.get(&fr.node) {
                    Some(o) => *o,
                    None => {
                        self.anomalies.push(format!("PerformLayout hit at node {n} input {} without an earlier PerformLayout miss", fr.input));
                        1
                    }
                }
            } else {
                0
            };
            return self.out_handle((id, pw, ph));
        }
        let id = if fr.opaque {
            if (pw, ph) != (0, 0) {
                self.anomalies.push(format!("probe: display:none node {n} stored a non-zero size"));
            }
            0
        } else {
            let next = self.records.len() as i64 + 2;
            *self.records.entry((fr.key.clone(), fr.acts.clone())).or_insert(next)
        };
        let out = self.out_handle((id, pw, ph));
        if !fr.opaque {
            let slot = match self.index.get(&fr.key) {
                Some(k) => *k,
                None => {
                    self.table.push((fr.key.clone(), Trie::Empty));
                    self.index.insert(fr.key.clone(), self.table.len() - 1);
                    self.table.len() - 1
                }
            };
            if !self.table[slot].1.insert(&fr.acts, out) {
                self.anomalies.push(format!("NONDET: node {n} key {:?}: same key and outputs so far, different action or output size", fr.key));
            }
        }
        if perform {
            self.last_final.insert(fr.node, id);
        }
        out
    }

    fn pass(&mut self, w: &World, versions: &[i64], trace: &[taffy::verif_hooks::Event], st: &mut Stats, mut pre: Option<Pre>) -> (i64, Vec<i64>) {
        use taffy::verif_hooks::Event;
        let idx: HashMap<NodeId, i64> = w.pool.iter().enumerate().filter_map(|(i, n)| n.map(|n| (n, i as i64))).collect();
        let child_index = |parent: i64, child: i64| -> Option<i64> {
            let p = w.pool[parent as usize].unwrap();
            w.t.children(p).unwrap().iter().position(|c| idx.get(c) == Some(&child)).map(|k| k as i64)
        };
        let mut evs: Vec<i64> = vec![];
        let mut stack: Vec<Frame> = vec![];
        let mut root_input: Option<i64> = None;
        let mut nq: u64 = 0;
        if let Some(p) = pre.as_mut() {
            p.total = trace.iter().filter(|e| matches!(e, Event::Query { .. })).count() as u64;
        }
        for ev in trace {
            match ev {
                Event::Query { node, input, hit } => {
                    let n = idx[node];
                    let inp = self.input_id(input);
                    nq += 1;
                    if stack.is_empty() && root_input.is_none() {
                        root_input = Some(inp);
                    }
                    evs.push(4 * (*hit as i64 + 2 * (n + 1024 * inp)));
                    if *hit {
                        st.hits += 1
                    } else {
                        st.misses += 1
                    }
                    let style = w.t.style(*node).unwrap();
                    let kids: Vec<(i64, i64)> = w.t.children(*node).unwrap().iter().map(|c| (idx[c], versions[idx[c] as usize])).collect();
                    let opaque = style.display == Display::None || input.run_mode == taffy::RunMode::PerformHiddenLayout;
                    stack.push(Frame { node: n, input: inp, nid: *node, linput: *input, hit: *hit, opaque, key: (n, versions[n as usize], kids, inp), acts: vec![] });
                }
                Event::Return { node } => {
                    let n = idx[node];
                    evs.push(4 * n + 1);
                    let fr = match stack.pop() {
                        Some(f) => f,
                        None => {
                            self.anomalies.push("Return without Query".into());
                            continue;
                        }
                    };
                    if fr.node != n {
                        self.anomalies.push(format!("trace nesting broken at node {n}"));
                    }
                    let out = if self.real {
                        self.real_out(&fr, n, nq, pre.as_mut().unwrap())
                    } else if fr.hit {
                        match self.last_out.get(&(fr.node, fr.input)) {
                            Some(o) => *o,
                            None => {
                                self.anomalies.push(format!("hit at node {n} input {} without an earlier miss", fr.input));
                                1
                            }
                        }
                    } else if fr.opaque {
                        0
                    } else {
                        let next = self.records.len() as i64 + 2;
                        let out = *self.records.entry((fr.key.clone(), fr.acts.clone())).or_insert(next);
                        let slot = match self.index.get(&fr.key) {
                            Some(k) => *k,
                            None => {
                                self.table.push((fr.key.clone(), Trie::Empty));
                                self.index.insert(fr.key.clone(), self.table.len() - 1);
                                self.table.len() - 1
                            }
                        };
                        if !self.table[slot].1.insert(&fr.acts, out) {
                            self.anomalies.push(format!("NONDET: node {n} key {:?}: same key and outputs so far, different action", fr.key));
                        }
                        out
                    };
                    if !fr.hit {
                        self.last_out.insert((fr.node, fr.input), out);
                    }
                    if let Some(top) = stack.last_mut() {
                        if !top.opaque {
                            if top.hit {
                                self.anomalies.push(format!("query below a cache hit at node {}", top.node));
                            }
                            match child_index(top.node, fr.node) {
                                Some(ci) => top.acts.push(Act::Q(ci, fr.input, out)),
                                None => self.anomalies.push(format!("node {} queried node {} which is not its child", top.node, fr.node)),
                            }
                        }
                    }
                }
                Event::Hidden { node } => {
                    let n = idx[node];
                    evs.push(4 * n + 2);
                    st.hidden += 1;
                    match stack.last() {
                        Some(top) if top.opaque => {}
                        _ => self.anomalies.push(format!("compute_hidden_layout on node {n} outside the evaluation of a display:none node")),
                    }
                }
                Event::SetLayout { node } => {
                    let n = idx[node];
                    evs.push(4 * n + 3);
                    if let Some(top) = stack.last_mut() {
                        if !top.opaque {
                            match child_index(top.node, n) {
                                Some(ci) => top.acts.push(Act::S(ci)),
                                None => self.anomalies.push(format!("node {} stored the layout of node {n} which is not its child", top.node)),
                            }
                        }
                    }
                    // with an empty stack: compute_root_layout storing the root's own layout (the model appends it)
                }
            }
        }
        if !stack.is_empty() {
            self.anomalies.push("unclosed Query at the end of the pass".into());
        }
        st.passes += 1;
        st.events += evs.len() as u64;
        evs.push(-2);
        (root_input.unwrap_or(0), evs)
    }
}

#[cfg(taffy_verif)]
pub fn run_history(seed: u64, idx: u64, st: &mut Stats, real: bool) -> (Vec<i128>, Vec<i64>, Vec<String>) {
    taffy::verif_hooks::set_exact_key(!real);
    let mut rng = Rng::new(seed.wrapping_mul(0x9E37_79B9).wrapping_add(idx) ^ 0xE17E);
    let mut cfg = GenCfg::default();
    cfg.max_nodes = 9;
    cfg.p_hidden = 120;
    cfg.fractional = idx % 2 == 1;
    let spec = tree(&mut rng, &cfg);
    let (mut w, _root) = World::new(&spec);
    let mut head: Vec<i64> = vec![w.pool.len() as i64];
    for i in 0..w.pool.len() {
        let n = w.pool[i].unwrap();
        let par = w.t.parent(n).map(|p| w.pool.iter().position(|x| *x == Some(p)).unwrap() as i64).unwrap_or(-1);
        head.push(par);
        head.push(is_none(w.t.style(n).unwrap()));
    }
    let mut ops: Vec<i64> = vec![];
    let mut r: Vec<i64> = flags(&w);
    let mut versions: Vec<i64> = vec![0; w.pool.len()];
    let mut rec = Rec { real, ..Rec::default() };
    let nops = 6 + rng.below(24);
    for step in 0..nops {
        let op = if step == 0 { Op::Layout(0, avail(&mut rng, &cfg)) } else { gen_op(&mut rng, &cfg, &w) };
        let before_pool = w.pool.len();
        let mut pre: Option<Pre> = None;
        if let Op::Layout(i, a) = &op {
            if real {
                if let Some(Some(root)) = w.pool.get(*i) {
                    pre = Some(Pre { t: w.t.clone(), root: *root, avail: *a, at: None, total: 0 });
                }
            }
            taffy::verif_hooks::start_trace();
        }
        let applied = w.apply(&op);
        let trace = taffy::verif_hooks::take_trace();
        if !applied {
            assert_eq!(before_pool, w.pool.len());
            continue;
        }
        versions.resize(w.pool.len(), 0);
        let nid = (w.pool.len() - 1) as i64;
        let mut logged: Vec<i64> = vec![];
        let enc: Vec<i64> = match &op {
            Op::SetStyle(i, s) => {
                versions[*i] += 1;
                vec![0, *i as i64, is_none(s)]
            }
            Op::AddLeaf(p, s, _) => vec![1, *p as i64, nid, is_none(s)],
            Op::InsertLeaf(p, idx, s, _) => {
                let cnt = w.t.child_count(w.pool[*p].unwrap()) - 1;
                vec![2, *p as i64, (idx % (cnt + 1)) as i64, nid, is_none(s)]
            }
            Op::RemoveChildAt(p, idx) | Op::DropChild(p, idx) => {
                // set_children without one child has the effect of remove_child_at_index: parent dirty, child becomes a root
                let cnt = w.t.child_count(w.pool[*p].unwrap()) + 1;
                vec![3, *p as i64, (idx % cnt) as i64]
            }
            Op::ReplaceChildAt(p, idx, s, _) => {
                let cnt = w.t.child_count(w.pool[*p].unwrap());
                vec![4, *p as i64, (idx % cnt) as i64, nid, is_none(s)]
            }
            Op::Rotate(p) => vec![5, *p as i64],
            Op::Reparent(n, p) => vec![6, *n as i64, *p as i64],
            Op::Remove(i) => vec![7, *i as i64],
            Op::SetCtx(i, _) => {
                versions[*i] += 1;
                vec![8, *i as i64]
            }
            Op::MarkDirty(i) => vec![9, *i as i64],
            Op::Rounding(_) => vec![11],
            Op::Layout(i, _) => {
                let (root_input, evs) = rec.pass(&w, &versions, &trace, st, pre);
                logged = evs;
                vec![10, *i as i64, root_input]
            }
        };
        push_op(&mut ops, &enc);
        r.push(-1);
        r.extend(logged);
        r.extend(flags(&w));
    }
    taffy::verif_hooks::set_exact_key(false);
    let mut c: Vec<i128> = head.iter().map(|x| *x as i128).collect();
    if real {
        c.push(rec.keys.len() as i128);
        for k in &rec.keys {
            c.extend(k.iter().map(|x| *x as i128));
        }
    }
    c.push(rec.table.len() as i128);
    for (k, t) in &rec.table {
        c.extend([k.0 as i128, k.1 as i128, k.2.len() as i128]);
        for (a, b) in &k.2 {
            c.extend([*a as i128, *b as i128]);
        }
        c.push(k.3 as i128);
        t.emit(&mut c, &|h| rec.out_code(h));
    }
    c.extend(ops.iter().map(|x| *x as i128));
    st.entries += rec.table.len() as u64;
    st.outputs += rec.records.len() as u64;
    if let Some(why) = rec.skips.first() {
        return (vec![], vec![], vec![format!("SKIP {why}")]);
    }
    (c, r, rec.anomalies)
}

pub fn main(args: &[String]) {
    if std::env::var("VH_PANIC").is_err() {
        std::panic::set_hook(Box::new(|_| {}));
    }
    match args[0].as_str() {
        #[cfg(taffy_verif)]
        "cases" => {
            let seed: u64 = args[1].parse().unwrap();
            let n: u64 = args[2].parse().unwrap();
            let start: u64 = args.get(3).map(|s| s.parse().unwrap()).unwrap_or(0);
            let real = args.get(4).map(|s| s == "real").unwrap_or(false);
            let mut st = Stats::default();
            let mut nanom = 0;
            for idx in start..start + n {
                let (c, r, anom) = run_history(seed, idx, &mut st, real);
                if let Some(a) = anom.first().filter(|a| a.starts_with("SKIP ")) {
                    println!("SKIPPED {idx} {a}");
                    continue;
                }
                println!("C {}", c.iter().map(|x| x.to_string()).collect::<Vec<_>>().join(" "));
                println!("R {}", r.iter().map(|x| x.to_string()).collect::<Vec<_>>().join(" "));
                for a in anom.iter().take(3) {
                    println!("ANOM {idx} {a}");
                    nanom += 1;
                }
            }
            println!(
                "EVSTATS passes {} events {} hits {} misses {} hidden {} entries {} outputs {} anomalies {}",
                st.passes, st.events, st.hits, st.misses, st.hidden, st.entries, st.outputs, nanom
            );
        }
        _ => std::process::exit(2),
    }
}
