(* Memo soundness of the engine skeleton, for EVERY algorithm: with a key that identifies the complete input,
   a memoised evaluation returns what the cache-free evaluation of the same skeleton returns, keeps every cache
   entry valid and never changes the skeleton. *)
From Coq Require Import List Bool Arith Lia.
From TV Require Import Model.Engine.
Import ListNotations.

Section MemoSound.
  Variables (S In Out Lay : Type).
  Variable mode : In -> RunMode.
  Variable in_eqb : In -> In -> bool.
  Variable is_none : S -> bool.
  Variable hidden_out : Out.
  Variable zero_lay : Lay.
  Variable algo : S -> list S -> In -> Alg In Out Lay.

  (* the memo's key is exact *)
  Hypothesis in_eqb_eq : forall a b, in_eqb a b = true -> a = b.

  Notation tree := (tree S In Out Lay).
  Notation sk := (sk S).
  Notation Alg := (Alg In Out Lay).
  Notation cache := (cache In Out).
  Notation plain := (plain S In Out Lay mode is_none hidden_out algo).
  Notation memo := (memo S In Out Lay mode in_eqb is_none hidden_out zero_lay algo).
  Notation run_plain := (run_plain S In Out Lay).
  Notation run_memo := (run_memo S In Out Lay).
  Notation skel := (skel S In Out Lay).
  Notation hide := (hide S In Out Lay zero_lay).
  Notation cget := (cget In Out mode in_eqb).
  Notation cstore := (cstore In Out mode).
  Notation cempty := (cempty In Out).

  (* ---------- list helpers ---------- *)
  Lemma nth_error_replace_same {A} n (x : A) l t : nth_error l n = Some t -> nth_error (replace_nth n x l) n = Some x.
  Proof.
    revert l; induction n as [|n IH]; intros [|a l] H; try discriminate; cbn in *.
    - reflexivity.
    - unfold replace_nth in *. cbn. apply IH. exact H.
  Qed.

  Lemma map_replace_nth {A B} (f : A -> B) n x l :
    map f (replace_nth n x l) = replace_nth n (f x) (map f l).
  Proof.
    unfold replace_nth. rewrite map_app. cbn [map]. rewrite firstn_map, skipn_map. reflexivity.
  Qed.

  Lemma replace_nth_same {A} n (x : A) l : nth_error l n = Some x -> replace_nth n x l = l.
  Proof.
    revert l; induction n as [|n IH]; intros [|a l] H; try discriminate; cbn in *.
    - injection H as ->. reflexivity.
    - unfold replace_nth in *. cbn. f_equal. apply IH. exact H.
  Qed.

  Lemma Forall_replace_nth {A} (P : A -> Prop) n x l : Forall P l -> P x -> Forall P (replace_nth n x l).
  Proof.
    intros Hl Hx. unfold replace_nth. apply Forall_app. split.
    - rewrite <- (firstn_skipn n l) in Hl. apply Forall_app in Hl. tauto.
    - constructor; [exact Hx|].
      rewrite <- (firstn_skipn (Datatypes.S n) l) in Hl. apply Forall_app in Hl. tauto.
  Qed.

  Lemma length_replace_nth {A} n (x : A) l t : nth_error l n = Some t -> length (replace_nth n x l) = length l.
  Proof.
    revert l; induction n as [|n IH]; intros [|a l] H; try discriminate; cbn in *.
    - reflexivity.
    - unfold replace_nth in *. cbn. f_equal. apply IH. exact H.
  Qed.

  (* ---------- monotonicity of the cache-free evaluation in its fuel ---------- *)
  Lemma run_plain_mono (ev1 ev2 : sk -> In -> option Out) :
    (forall t i o, ev1 t i = Some o -> ev2 t i = Some o) ->
    forall a kids o, run_plain ev1 kids a = Some o -> run_plain ev2 kids a = Some o.
  Proof.
    intros Hev a. induction a as [o0|c i k IH|c l k IH]; intros kids o H; cbn in *.
    - exact H.
    - destruct (nth_error kids c) as [t|]; [|discriminate].
      destruct (ev1 t i) as [o1|] eqn:E; [|discriminate].
      rewrite (Hev _ _ _ E). apply IH. exact H.
    - destruct (nth_error kids c); [|discriminate]. apply IH. exact H.
  Qed.

  Lemma plain_S f : forall t i o, plain f t i = Some o -> plain (Datatypes.S f) t i = Some o.
  Proof.
    induction f as [|f IH]; intros t i o H; [discriminate|].
    destruct t as [s kids]. cbn [Engine.plain] in H |- *.
    destruct (mode i); try exact H.
    - destruct (is_none s); [exact H|]. eapply run_plain_mono; [|exact H]. exact IH.
    - destruct (is_none s); [exact H|]. eapply run_plain_mono; [|exact H]. exact IH.
  Qed.

  Lemma plain_mono f f' t i o : f <= f' -> plain f t i = Some o -> plain f' t i = Some o.
  Proof. intros Hle Hp. induction Hle as [|m Hle IHle]; [exact Hp|]. apply plain_S. exact IHle. Qed.

  Lemma plain_det f f' t i o o' : plain f t i = Some o -> plain f' t i = Some o' -> o = o'.
  Proof.
    intros H H'. apply (plain_mono f (Nat.max f f')) in H; [|lia].
    apply (plain_mono f' (Nat.max f f')) in H'; [|lia]. congruence.
  Qed.

  (* ---------- validity of cache entries ---------- *)
  Definition cache_ok (k : sk) (c : cache) : Prop :=
    (forall i o, final _ _ c = Some (i, o) -> exists f, plain f k i = Some o) /\
    (forall i o, List.In (i, o) (meas _ _ c) -> exists f, plain f k i = Some o).

  Inductive Valid : tree -> Prop :=
  | V_node s c l kids :
      cache_ok (SNode S s (map skel kids)) c -> Forall Valid kids -> Valid (Node S In Out Lay s c l kids).

  Lemma cache_ok_empty k : cache_ok k cempty.
  Proof. split; cbn; intros; [discriminate|contradiction]. Qed.

  Lemma assoc_in l i o : assoc In Out in_eqb l i = Some o -> List.In (i, o) l.
  Proof.
    induction l as [|[i' o'] l IH]; cbn; [discriminate|].
    destruct (in_eqb i' i) eqn:E.
    - intros H. injection H as ->. apply in_eqb_eq in E. subst. left. reflexivity.
    - intros H. right. apply IH. exact H.
  Qed.

  Lemma cget_ok k c i o : cache_ok k c -> cget c i = Some o -> exists f, plain f k i = Some o.
  Proof.
    intros [Hf Hm] H. unfold Engine.cget in H. destruct (mode i).
    - destruct (final _ _ c) as [[i' o']|] eqn:E; [|discriminate].
      destruct (in_eqb i' i) eqn:Ei; [|discriminate]. injection H as ->.
      apply in_eqb_eq in Ei. subst. eapply Hf. reflexivity.
    - apply assoc_in in H. eapply Hm. exact H.
    - discriminate.
  Qed.

  Lemma cstore_ok k c i o : cache_ok k c -> (exists f, plain f k i = Some o) -> cache_ok k (cstore c i o).
  Proof.
    intros [Hf Hm] Hp. unfold Engine.cstore. destruct (mode i); split; cbn; intros i' o' H.
    - injection H as <- <-. exact Hp.
    - eapply Hm. exact H.
    - eapply Hf. exact H.
    - destruct H as [H|H]; [injection H as <- <-; exact Hp | eapply Hm; exact H].
    - eapply Hf. exact H.
    - eapply Hm. exact H.
  Qed.

  (* ---------- hidden layout ---------- *)
  Lemma tree_ind' (P : tree -> Prop) :
    (forall s c l kids, Forall P kids -> P (Node S In Out Lay s c l kids)) -> forall t, P t.
  Proof.
    intros H. fix IH 1. intros [s c l kids]. apply H.
    induction kids as [|k kids IHk]; constructor; [apply IH | exact IHk].
  Qed.

  Lemma skel_hide t : skel (hide t) = skel t.
  Proof.
    induction t as [s c l kids IH] using tree_ind'. cbn. f_equal.
    rewrite map_map. apply map_ext_Forall. exact IH.
  Qed.

  Lemma Valid_hide t : Valid (hide t).
  Proof.
    induction t as [s c l kids IH] using tree_ind'. cbn. constructor.
    - apply cache_ok_empty.
    - apply Forall_map. exact IH.
  Qed.

  Lemma map_skel_hide kids : map skel (map hide kids) = map skel kids.
  Proof. rewrite map_map. apply map_ext. intros. apply skel_hide. Qed.

  Lemma map_style_skel (kids : list tree) : map (sstyle S) (map skel kids) = map (style_of S In Out Lay) kids.
  Proof. rewrite map_map. apply map_ext. intros [s c l k]. reflexivity. Qed.

  (* ---------- the main induction ---------- *)
  Definition ev_sound (ev : tree -> In -> option (Out * tree)) : Prop :=
    forall t i o t', Valid t -> ev t i = Some (o, t') ->
      (exists f, plain f (skel t) i = Some o) /\ Valid t' /\ skel t' = skel t.

  Lemma run_memo_sound ev : ev_sound ev ->
    forall a kids o kids', Forall Valid kids -> run_memo ev kids a = Some (o, kids') ->
      (exists f, run_plain (plain f) (map skel kids) a = Some o) /\ Forall Valid kids' /\ map skel kids' = map skel kids.
  Proof.
    intros Hev a. induction a as [o0|c i k IH|c l k IH]; intros kids o kids' HV H; cbn in H.
    - injection H as <- <-. split; [exists 0; reflexivity|]. split; [exact HV|reflexivity].
    - destruct (nth_error kids c) as [t|] eqn:En; [|discriminate].
      destruct (ev t i) as [[o1 t1]|] eqn:Ee; [|discriminate].
      assert (HVt : Valid t) by (rewrite Forall_forall in HV; apply HV; eapply nth_error_In; eauto).
      destruct (Hev _ _ _ _ HVt Ee) as [[f1 Hp1] [HV1 Hs1]].
      assert (HV' : Forall Valid (replace_nth c t1 kids)) by (apply Forall_replace_nth; assumption).
      destruct (IH o1 _ _ _ HV' H) as [[f2 Hp2] [HV2 Hs2]].
      assert (Hsk : map skel (replace_nth c t1 kids) = map skel kids).
      { rewrite map_replace_nth, Hs1. apply replace_nth_same. rewrite nth_error_map, En. reflexivity. }
      rewrite Hsk in Hp2, Hs2.
      split; [|split; assumption].
      exists (Nat.max f1 f2). cbn. rewrite nth_error_map, En. cbn.
      rewrite (plain_mono f1 (Nat.max f1 f2) _ _ _ (Nat.le_max_l _ _) Hp1).
      eapply run_plain_mono; [|exact Hp2]. intros t0 i0 o0. apply plain_mono. lia.
    - destruct (nth_error kids c) as [t|] eqn:En; [|discriminate].
      assert (HVt : Valid t) by (rewrite Forall_forall in HV; apply HV; eapply nth_error_In; eauto).
      assert (HVs : Valid (set_lay S In Out Lay t l)) by (destruct t; inversion HVt; subst; constructor; assumption).
      assert (HV' : Forall Valid (replace_nth c (set_lay S In Out Lay t l) kids)) by (apply Forall_replace_nth; assumption).
      destruct (IH _ _ _ HV' H) as [[f2 Hp2] [HV2 Hs2]].
      assert (Hsk : map skel (replace_nth c (set_lay S In Out Lay t l) kids) = map skel kids).
      { rewrite map_replace_nth. apply replace_nth_same. rewrite nth_error_map, En. destruct t; reflexivity. }
      rewrite Hsk in Hp2, Hs2.
      split; [|split; assumption].
      exists f2. cbn. rewrite nth_error_map, En. cbn. exact Hp2.
  Qed.

  Theorem memo_sound : forall f, ev_sound (memo f).
  Proof.
    induction f as [|f IH]; intros t i o t' HV H; [discriminate|].
    destruct t as [s c l kids]. cbn [Engine.memo] in H.
    inversion HV as [s0 c0 l0 kids0 Hc Hk]; subst.
    assert (Hhid : forall o0 t0, Some (hidden_out, hide (Node S In Out Lay s c l kids)) = Some (o0, t0) ->
              (exists f0, plain f0 (skel (Node S In Out Lay s c l kids)) i = Some o0 -> True) /\ True) by (intros; split; [exists 0; trivial|trivial]).
    clear Hhid.
    destruct (mode i) eqn:Em.
    - (* PerformLayout *)
      destruct (cget c i) as [o1|] eqn:Eg.
      + injection H as <- <-. split; [eapply cget_ok; eauto|]. split; [exact HV|reflexivity].
      + destruct (is_none s) eqn:En.
        * injection H as <- <-. split; [exists 1; cbn; rewrite Em, En; reflexivity|]. split.
          -- constructor.
             ++ apply cstore_ok; [apply cache_ok_empty|]. exists 1. cbn. rewrite Em, En. reflexivity.
             ++ apply Forall_map. apply Forall_forall. intros x _. apply Valid_hide.
          -- cbn. f_equal. apply map_skel_hide.
        * destruct (run_memo (memo f) kids (algo s (map (style_of S In Out Lay) kids) i)) as [[o1 kids1]|] eqn:Er; [|discriminate].
          injection H as <- <-.
          destruct (run_memo_sound _ IH _ _ _ _ Hk Er) as [[f1 Hp] [HV1 Hs1]].
          assert (Hpl : exists f0, plain f0 (SNode S s (map skel kids)) i = Some o1).
          { exists (Datatypes.S f1). cbn. rewrite Em, En, map_style_skel. exact Hp. }
          split; [exact Hpl|]. split.
          -- constructor; [|exact HV1]. rewrite Hs1. apply cstore_ok; assumption.
          -- cbn. f_equal. exact Hs1.
    - (* ComputeSize *)
      destruct (cget c i) as [o1|] eqn:Eg.
      + injection H as <- <-. split; [eapply cget_ok; eauto|]. split; [exact HV|reflexivity].
      + destruct (is_none s) eqn:En.
        * injection H as <- <-. split; [exists 1; cbn; rewrite Em, En; reflexivity|]. split.
          -- constructor.
             ++ apply cstore_ok; [apply cache_ok_empty|]. exists 1. cbn. rewrite Em, En. reflexivity.
             ++ apply Forall_map. apply Forall_forall. intros x _. apply Valid_hide.
          -- cbn. f_equal. apply map_skel_hide.
        * destruct (run_memo (memo f) kids (algo s (map (style_of S In Out Lay) kids) i)) as [[o1 kids1]|] eqn:Er; [|discriminate].
          injection H as <- <-.
          destruct (run_memo_sound _ IH _ _ _ _ Hk Er) as [[f1 Hp] [HV1 Hs1]].
          assert (Hpl : exists f0, plain f0 (SNode S s (map skel kids)) i = Some o1).
          { exists (Datatypes.S f1). cbn. rewrite Em, En, map_style_skel. exact Hp. }
          split; [exact Hpl|]. split.
          -- constructor; [|exact HV1]. rewrite Hs1. apply cstore_ok; assumption.
          -- cbn. f_equal. exact Hs1.
    - (* PerformHiddenLayout *)
      injection H as <- <-. split; [exists 1; cbn; rewrite Em; reflexivity|]. split.
      + exact (Valid_hide (Node S In Out Lay s c l kids)).
      + exact (skel_hide (Node S In Out Lay s c l kids)).
  Qed.

  (* a freshly built tree is valid, so memo on it is the cache-free evaluation too *)
  Lemma Valid_fresh k : Valid (fresh S In Out Lay zero_lay k).
  Proof.
    revert k. fix IH 1. intros [s kids]. cbn. constructor; [apply cache_ok_empty|].
    induction kids as [|x r IHr]; cbn; constructor; [apply IH|exact IHr].
  Qed.

  Lemma skel_fresh k : skel (fresh S In Out Lay zero_lay k) = k.
  Proof.
    revert k. fix IH 1. intros [s kids]. cbn. f_equal.
    induction kids as [|x r IHr]; cbn; [reflexivity|]. f_equal; [apply IH|exact IHr].
  Qed.

  (* incremental = from scratch, at the level of the returned output *)
  Theorem memo_agrees_with_fresh f f' t i o o' t1 t2 :
    Valid t -> memo f t i = Some (o, t1) -> memo f' (fresh S In Out Lay zero_lay (skel t)) i = Some (o', t2) -> o = o'.
  Proof.
    intros HV H1 H2.
    destruct (memo_sound f _ _ _ _ HV H1) as [[g1 Hp1] _].
    destruct (memo_sound f' _ _ _ _ (Valid_fresh _) H2) as [[g2 Hp2] _].
    rewrite skel_fresh in Hp2. eapply plain_det; eauto.
  Qed.
End MemoSound.
