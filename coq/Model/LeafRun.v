(* Executable driver of the C19 correspondence check: decodes a case of `vh c19 cases` (62 integers, see
   harness/src/c19.rs), runs Model.Root.root_leaf / Model.Leaf.compute_leaf_layout -- the definitions the theorems of
   Props/C19.v are about -- over the bit-exact F32 instance and encodes the result as the harness prints it. *)
From Coq Require Import ZArith List Bool.
From TV Require Import Num.F32 Model.Common Model.Leaf Model.Root Model.MeasureFamily.
Import ListNotations.
Open Scope Z_scope.

Definition fz (z : Z) : f32 := f_of_bits z.
Definition zf (x : f32) : Z := f_to_bits x.
Definition nthz (c : list Z) (i : nat) : Z := nth i c 0.

Definition dec_dim (k v : Z) : Dimension f32 :=
  match k with 0 => Auto | 1 => Length (fz v) | _ => Percent (fz v) end.
Definition dec_lp (k v : Z) : LengthPercentage f32 :=
  match k with 1 => LpLength (fz v) | _ => LpPercent (fz v) end.
Definition dec_overflow (k : Z) : Overflow :=
  match k with 0 => Visible | 1 => Clip | 2 => Hidden | _ => Scroll end.
Definition dec_avail (k v : Z) : AvailableSpace f32 :=
  match k with 0 => Definite (fz v) | 1 => MinContent | _ => MaxContent end.
Definition dec_opt (flag v : Z) : option f32 := if flag =? 1 then Some (fz v) else None.

Definition dec_rect {A} (d : Z -> Z -> A) (c : list Z) (i : nat) : Rect A :=
  mkRect (d (nthz c i) (nthz c (i + 1))) (d (nthz c (i + 2)) (nthz c (i + 3)))
         (d (nthz c (i + 4)) (nthz c (i + 5))) (d (nthz c (i + 6)) (nthz c (i + 7))).
Definition dec_size {A} (d : Z -> Z -> A) (c : list Z) (i : nat) : Size A :=
  mkSize (d (nthz c i) (nthz c (i + 1))) (d (nthz c (i + 2)) (nthz c (i + 3))).

Definition dec_style (c : list Z) : Style f32 :=
  mkStyle
    (match nthz c 1 with 0 => DBlock | 1 => DFlex | 2 => DGrid | _ => DNone end)
    (if nthz c 2 =? 1 then Absolute else Relative)
    (if nthz c 3 =? 1 then ContentBox else BorderBox)
    (mkPoint (dec_overflow (nthz c 4)) (dec_overflow (nthz c 5)))
    (fz (nthz c 6))
    (dec_size dec_dim c 7) (dec_size dec_dim c 11) (dec_size dec_dim c 15)
    (dec_opt (nthz c 19) (nthz c 20))
    (dec_rect dec_dim c 21) (dec_rect dec_lp c 29) (dec_rect dec_lp c 37).

Definition dec_ctx (c : list Z) : MeasureCtx f32 :=
  match nthz c 45 with
  | 0 => MNone
  | 1 => MFixed (fz (nthz c 46)) (fz (nthz c 47))
  | 2 => MText (nthz c 46) (fz (nthz c 47))
  | _ => MEcho (fz (nthz c 46))
  end.

Definition dec_input (c : list Z) : LayoutInput f32 :=
  mkInput (match nthz c 52 with 0 => PerformLayout | 1 => ComputeSize | _ => PerformHiddenLayout end)
          (if nthz c 53 =? 1 then InherentSize else ContentSize)
          (dec_size dec_opt c 54) (dec_size dec_opt c 58) (dec_size dec_avail c 48).

Definition enc_opt (o : option f32) : list Z := match o with Some v => [1; zf v] | None => [0; 0] end.
Definition enc_avail (a : AvailableSpace f32) : list Z :=
  match a with Definite v => [0; zf v] | MinContent => [1; 0] | MaxContent => [2; 0] end.
Definition enc_rect (r : Rect f32) : list Z := [zf (r_left r); zf (r_right r); zf (r_top r); zf (r_bottom r)].
Definition enc_size (s : Size f32) : list Z := [zf (width s); zf (height s)].
Definition enc_calls (l : list (MeasureCall f32)) : list Z :=
  Z.of_nat (length l) ::
  match l with
  | (k, a) :: _ => enc_opt (width k) ++ enc_opt (height k) ++ enc_avail (width a) ++ enc_avail (height a)
  | [] => [0; 0; 0; 0; 0; 0; 0; 0]
  end.
Definition b2z (b : bool) : Z := if b then 1 else 0.

Definition run_case (c : list Z) : list Z :=
  let st := dec_style c in
  let measure := family_measure (dec_ctx c) in
  if nthz c 0 =? 0 then
    match root_leaf st measure (dec_size dec_avail c 48) with
    | Some (l, calls) =>
        [1; zf (px (l_location l)); zf (py (l_location l))] ++ enc_size (l_size l) ++ enc_size (l_content_size l)
        ++ enc_size (l_scrollbar_size l) ++ enc_rect (l_border l) ++ enc_rect (l_padding l) ++ enc_rect (l_margin l)
        ++ enc_calls calls
    | None => [0]
    end
  else
    match compute_leaf_layout (dec_input c) st measure with
    | Some (o, calls) =>
        [1] ++ enc_size (out_size o) ++ enc_size (out_content_size o)
        ++ [b2z (match px (first_baselines o) with Some _ => true | None => false end);
            b2z (match py (first_baselines o) with Some _ => true | None => false end);
            zf (f_add (ms_positive (top_margin o)) (ms_negative (top_margin o)));
            zf (f_add (ms_positive (bottom_margin o)) (ms_negative (bottom_margin o)));
            b2z (margins_can_collapse_through o)]
        ++ enc_calls calls
    | None => [0]
    end.
