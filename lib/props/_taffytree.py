"""Shared by C01, C05 and C06: the WHOLE-TREE correspondence of the COMPLETE engine model.

`vh taffytree cases <seed> <n> [start] [family] [maxnodes]` lays out random trees (depth <= 4, <= 12 nodes) mixing block, flex and grid
containers and leaves through the public API (`TaffyTree::compute_layout_with_measure`, rounding disabled, exact-key mode of the
cfg(taffy_verif) hook), once or twice in a row, and prints every node's unrounded layout after every pass as bit patterns;
`Model/TaffyEngineRun.run_case` decodes the same case, runs compute_root_layout (Model/TaffyRoot.v) + `Engine.memo` with the exact-key
caches over `taffy_algo taffy_dispatch block_pre abs_child_block taffy_leaf` (Model/TaffyEngine.v: the engine
C05_taffy_engine_hidden_invisible, C06_taffy_engine_instance_partial and C01_taffy_engine_* are about) over the bit-exact F32 instance and must
reproduce all 21 integers of all nodes after every pass.  The harness also lays every tree out with the REAL cache key and reports how
many trees differ: that is the recorded lossy-cache-key finding (known_findings.json, C01/C17/C10), classified, never an alarm here.

Debugging: `python3 -m lib.props._taffytree <seed> <n> [start] [family] [maxnodes]` prints the disagreeing cases."""
import struct
import sys

from ..common import *
from ..stages import *

FIXED = 72
EXTRA = 12
LAY_LEN = 21
FIELDS = ['order', 'x', 'y', 'w', 'h', 'content_w', 'content_h', 'scrollbar_w', 'scrollbar_h', 'border_l', 'border_r', 'border_t',
          'border_b', 'padding_l', 'padding_r', 'padding_t', 'padding_b', 'margin_l', 'margin_r', 'margin_t', 'margin_b']
MARKERS = {-1: 'model out of fuel', -3: 'the model evaluated its stand-in for a Rust panic', -4: 'the model could not decode the case'}
FAMILY = {0: 'any', 1: 'every tree has a display:none node below the root', 2: 'every tree has a position:absolute node below the root'}


def _f(b):
    return struct.unpack('f', struct.pack('I', b & 0xffffffff))[0]


def _skip_tracks(c, pos, repeat):
    """one track list as `vh gridalg` prints it (length first); template entries may be repeat(...) groups"""
    n = c[pos]
    pos += 1
    for _ in range(n):
        if not repeat:
            pos += 4
            continue
        k = c[pos]
        if k == 0:
            pos += 1 + 4
        elif k == 1:
            pos += 3 + 4 * c[pos + 2]
        else:
            pos += 2 + 4 * c[pos + 1]
    return pos


def decode_nodes(c):
    """[(depth, fixed 72 ints, (template columns, template rows, auto columns, auto rows) lengths, 12 extra ints)] in pre-order"""
    out = []

    def rec(pos, depth):
        fixed = c[pos:pos + FIXED]
        pos += FIXED
        lens = []
        for rep in (True, True, False, False):
            lens.append(c[pos])
            pos = _skip_tracks(c, pos, rep)
        extra = c[pos:pos + EXTRA]
        pos += EXTRA
        out.append((depth, fixed, lens, extra))
        for _ in range(extra[11]):
            pos = rec(pos, depth + 1)
        return pos

    end = rec(1 + 4 * c[0], 0)
    assert end == len(c), 'taffytree: case does not parse'
    return out


def kinds(nodes):
    """per node: 'none' | 'block' | 'flex' | 'grid' (containers) | 'leaf'; with the kind of the parent container"""
    res = []
    stack = []
    for d, fx, _, ex in nodes:
        del stack[d:]
        hidden = fx[0] == 3 or any(k == 'none' for k in stack)
        k = 'none' if hidden else ('leaf' if ex[11] == 0 else ['block', 'flex', 'grid'][fx[0]])
        res.append((k, stack[-1] if stack else None))
        stack.append(k)
    return res


def weight(c):
    """rough cost of a case in the model (measured: coqc parses ~10 k integers per second; evaluation 0.05 - 0.7 s per tree)"""
    nodes = decode_nodes(c)
    w = 0
    for (k, _), (d, fx, _, ex) in zip(kinds(nodes), nodes):
        w += {'none': 1, 'leaf': 2, 'block': 6, 'flex': 10, 'grid': 30}[k] * (1 + ex[11]) * (2 ** d)
    return len(c) + w * c[0] // 6


def features(c):
    nodes = decode_nodes(c)
    ks = kinds(nodes)
    f = set()
    f.add('avail-w-' + ['definite', 'min-content', 'max-content'][c[1]])
    f.add('avail-h-' + ['definite', 'min-content', 'max-content'][c[3]])
    f.add('passes-%d' % c[0])
    if c[0] == 2:
        f.add('second-pass-' + ('same-available-space' if c[1:5] == c[5:9] else 'other-available-space'))
    f.add('depth-%d' % max(n[0] for n in nodes))
    for (k, pk), (d, fx, lens, ex) in zip(ks, nodes):
        if k == 'none':
            if fx[0] == 3:
                f.add('display-none' + ('-with-children' if ex[11] else '') + ('-root' if d == 0 else '') + ('-in-' + pk if pk else ''))
            continue
        if k != 'leaf':
            f.add(k + '-container' + ('-root' if d == 0 else '-in-' + str(pk)))
            if fx[6] == 0:
                f.add(k + '-auto-width')
            if fx[57] == 5:
                f.add(k + '-align-items-baseline')
        else:
            f.add('leaf-' + ['block', 'flex', 'grid'][fx[0]])
            f.add('measure-' + ['none', 'fixed', 'text', 'echo'][min(ex[8], 3)])
        if fx[1] == 1 and d > 0:
            f.add('absolute-in-' + str(pk))
            if pk == 'grid' and any(fx[63 + 2 * i] != 0 for i in range(4)):
                f.add('absolute-grid-child-with-lines')
        elif fx[1] == 1:
            f.add('absolute-root')
        elif any(fx[44 + 2 * i] != 0 for i in range(4)):
            f.add('relative-inset')
        if k == 'grid':
            if lens[0] or lens[1]:
                f.add('grid-template')
            if lens[2] or lens[3]:
                f.add('grid-auto-tracks')
            f.add('grid-auto-flow-%d' % fx[52])
        if k == 'flex':
            f.add('flex-' + ['row', 'column', 'row-reverse', 'column-reverse'][ex[0]])
            if ex[1]:
                f.add('flex-wrap')
        if pk == 'grid' and any(fx[63 + 2 * i] != 0 for i in range(4)):
            f.add('grid-item-with-lines')
        if fx[59] == 5 and pk in ('flex', 'grid'):
            f.add('align-self-baseline')
        if ex[6]:
            f.add('table')
        if fx[71]:
            f.add('replaced')
        if fx[2]:
            f.add('content-box')
        if fx[3] or fx[4]:
            f.add('overflow')
        if fx[3] == 3 or fx[4] == 3:
            f.add('scrollbar')
        if fx[18]:
            f.add('aspect-ratio')
        if any(fx[6 + 2 * i] == 2 for i in range(6)):
            f.add('percent-size')
        if any(fx[10 + 2 * i] != 0 for i in range(4)):
            f.add('min-or-max-size')
        if any(fx[20 + 2 * i] == 0 for i in range(4)):
            f.add('auto-margin')
        if any(fx[20 + 2 * i] != 0 and _f(fx[21 + 2 * i]) < 0 for i in range(4)):
            f.add('negative-margin')
        if any(fx[28 + 2 * i] == 2 for i in range(8)):
            f.add('percent-padding-or-border')
        if fx[53] == 2 or fx[55] == 2 or (fx[53] == 1 and _f(fx[54]) > 0):
            f.add('gap')
    cont = set(k for k, _ in ks if k in ('block', 'flex', 'grid'))
    if len(cont) > 1:
        f.add('mixed-container-kinds-' + '+'.join(sorted(cont)))
    return f


def describe_diff(c, a, b):
    """first differing node / field of a disagreement"""
    if len(b) == 1 and b[0] in MARKERS:
        return MARKERS[b[0]]
    if len(a) != len(b):
        return 'lengths differ: impl %d model %d ints (model head %s)' % (len(a), len(b), b[:3])
    for i, (x, y) in enumerate(zip(a, b)):
        if x != y:
            node, fld = divmod(i, LAY_LEN)
            nodes = decode_nodes(c)
            nn = len(nodes)
            ks = kinds(nodes)
            fx = x if fld == 0 else _f(x)
            fy = y if fld == 0 else _f(y)
            k, pk = ks[node % nn]
            ndiff = sum(1 for p, q in zip(a, b) if p != q)
            return 'pass %d node %d (%s in %s) field %s: impl %r model %r (%d fields differ)' % (
                node // nn, node % nn, k, pk, FIELDS[fld], fx, fy, ndiff)
    return 'equal'


def generate(binp, seed, n, start=0, family=0, maxnodes=12):
    rc, out = vh(binp, ['taffytree', 'cases', seed, n, start, family, maxnodes], timeout=300)
    cases, impl = parse_cr(out)
    lossy = [int(l.split()[1]) for l in out.split('\n') if l.startswith('L ')]
    skipped = [int(l.split()[1]) for l in out.split('\n') if l.startswith('SKIP ')]
    m = re.search(r'SUMMARY (.*)', out)
    if rc != 0 or not cases or len(lossy) != len(cases) or not m:
        raise RuntimeError('vh taffytree cases failed: ' + out[-600:])
    summary = {k: int(v) for k, v in (kv.split('=') for kv in m.group(1).split())}
    idxs = [i for i in range(start, start + n) if i not in set(skipped)]
    return cases, impl, lossy, summary, idxs


def evaluate(tag, cases, timeout=900, nshards=16, module='Model.TaffyEngineRun', fn='run_case'):
    """`map run_case cases` in `nshards` coqc processes; the cases are dealt out by estimated weight (longest first, to the
    least loaded shard) so that the shards finish together.  Returns (results, seconds per shard)."""
    with Lock('coq'):
        rcm, outm, _ = coq_make([module.replace('.', '/') + '.vo'])
    if rcm != 0:
        raise RuntimeError(outm[-1500:])
    os.makedirs(os.path.join(COQ, 'Run'), exist_ok=True)
    nshards = max(1, min(nshards, len(cases)))
    order = sorted(range(len(cases)), key=lambda i: -weight(cases[i]))
    load = [0] * nshards
    member = [[] for _ in range(nshards)]
    for i in order:
        s = load.index(min(load))
        member[s].append(i)
        load[s] += weight(cases[i])
    procs = []
    t0 = time.time()
    for s in range(nshards):
        if not member[s]:
            continue
        name = 'cases_%s_%d' % (tag, s)
        path = os.path.join(COQ, 'Run', name + '.v')
        with open(path, 'w') as f:
            f.write('From Coq Require Import NArith ZArith List.\nImport ListNotations.\nFrom TV Require Import %s.\n' % module)
            f.write('Open Scope Z_scope.\n')
            for b in range(0, len(member[s]), 50):
                f.write('Definition cs%d : list (list Z) := %s.\n' % (b, coq_list([cases[i] for i in member[s][b:b + 50]])))
                f.write('Eval vm_compute in (map %s cs%d).\n' % (fn, b))
        # the output goes to a file: a shard prints megabytes, and a pipe that is only read when the earlier shards have ended
        # would stall it after 64 kB
        outf = open(path[:-2] + '.out', 'w')
        p = subprocess.Popen(['coqc', '-noglob', '-Q', '.', 'TV', os.path.join('Run', name + '.v')], cwd=COQ,
                             stdout=outf, stderr=subprocess.STDOUT, text=True)
        procs.append((p, member[s], path, outf))
    model = [None] * len(cases)
    secs = []
    try:
        for p, idx, path, outf in procs:
            try:
                p.wait(timeout=max(1, timeout - (time.time() - t0)))
            except subprocess.TimeoutExpired:
                raise RuntimeError('model evaluation timed out after %ds (%s)' % (timeout, tag))
            outf.close()
            out = open(path[:-2] + '.out').read()
            secs.append(round(time.time() - t0, 1))
            if p.returncode != 0:
                raise RuntimeError('model evaluation failed (%s): %s' % (tag, out[-2000:]))
            got = parse_eval(out)
            if len(got) != len(idx):
                raise RuntimeError('model evaluation of %s: expected %d results, parsed %d' % (tag, len(idx), len(got)))
            for i, g in zip(idx, got):
                model[i] = g
    finally:
        for p, _, path, outf in procs:
            if p.poll() is None:
                p.kill()
                p.wait()
            outf.close()
            for ext in ('.v', '.vo', '.vok', '.vos', '.glob', '.out'):
                try:
                    os.remove(path[:-2] + ext)
                except FileNotFoundError:
                    pass
    return model, secs


def tree_k(rep, pid, binp, seed, n, family=0, maxnodes=12, timeout=900, key='taffytree'):
    """The whole-tree correspondence as one obligation of `pid`'s check.  Returns the disagreements."""
    t0 = time.time()
    try:
        cases, impl, lossy, summary, idxs = generate(binp, seed, n, 0, family, maxnodes)
        model, secs = evaluate(pid + 'tt' + str(maxnodes), cases, timeout=timeout)
    except RuntimeError as ex:
        rep.add_broken('correspondence', 'complete engine whole-tree K (vh taffytree cases)', str(ex)[-1500:])
        return []
    bad = diff_results(rep, 'whole tree mixing block / flex / grid containers and leaves (TaffyTree::compute_layout_with_measure, exact-key '
                            'hook, unrounded layouts of every node after every pass) vs Model.TaffyEngineRun.run_case = compute_root_layout + '
                            'Engine.memo over taffy_algo taffy_dispatch block_pre abs_child_block taffy_leaf, F32', cases, impl, model,
                       max_report=3)
    feats = {}
    for c in cases:
        for x in features(c):
            feats[x] = feats.get(x, 0) + 1
    nontrivial = set(tuple(c) for c in cases if any(k in ('block', 'flex', 'grid') for k, _ in kinds(decode_nodes(c))))
    markers = {}
    for m in model:
        if len(m) == 1 and m[0] in MARKERS:
            markers[MARKERS[m[0]]] = markers.get(MARKERS[m[0]], 0) + 1
    rep.cov[key] = {
        'trees': len(cases), 'family': FAMILY[family], 'max_nodes': maxnodes, 'disagreements': len(bad),
        'seconds': round(time.time() - t0, 1), 'model_seconds_per_shard': secs,
        'implementation_panicked_skipped': summary.get('skipped'), 'model_markers': markers,
        'nodes': summary.get('nodes'), 'block_containers': summary.get('block'), 'flex_containers': summary.get('flex'),
        'grid_containers': summary.get('grid'), 'containers_nested_in_another_kind': summary.get('mixed_nesting'),
        'hidden_nodes': summary.get('hidden'), 'absolute_nodes': summary.get('absolute'), 'measured_leaves': summary.get('measured'),
        'two_pass_cases': summary.get('two_pass'),
        'layout_fields_compared': sum(len(a) for a in impl),
        'distinct_trees_with_a_visible_container': len(nontrivial),
        'real_cache_key_differs': sum(1 for d in lossy if d),
        'real_cache_key_note': 'trees whose layout under the REAL (lossy) cache key differs from the exact-key layout: the recorded '
                               'lossy-cache-key finding (C01/C17/C10), not a model error; the model is compared with the exact-key run',
        'input_distribution': dict(sorted(feats.items())),
        'excluded': 'calc() values (this version of Style has no named grid lines / areas); nothing else',
        'first_disagreements': ['idx %d: %s (vh taffytree case %d %d %d %d)' % (idxs[cases.index(c)], describe_diff(c, a, b), seed,
                                                                                idxs[cases.index(c)], family, maxnodes)
                                for c, a, b in bad[:5]],
    }
    return bad


if __name__ == '__main__':
    seed, n = int(sys.argv[1]), int(sys.argv[2])
    start = int(sys.argv[3]) if len(sys.argv) > 3 else 0
    family = int(sys.argv[4]) if len(sys.argv) > 4 else 0
    maxnodes = int(sys.argv[5]) if len(sys.argv) > 5 else 12
    rc, out, binp, dt = build_harness('release')
    if rc != 0:
        print(out[-2000:])
        sys.exit(1)
    cases, impl, lossy, summary, idxs = generate(binp, seed, n, start, family, maxnodes)
    t0 = time.time()
    model, secs = evaluate('ttdbg', cases, timeout=3000)
    print('model evaluated in %.1fs (shards %s); %s' % (time.time() - t0, secs, summary))
    nbad = 0
    for i, (c, a, b) in enumerate(zip(cases, impl, model)):
        if a != b:
            nbad += 1
            if nbad <= 40:
                print('idx %d (%d nodes, lossy %d): %s' % (idxs[i], len(decode_nodes(c)), lossy[i], describe_diff(c, a, b)))
    print('%d / %d disagree' % (nbad, len(cases)))
