(* Lemmas about Model/Block.v over the exact instance XQ (finite inputs).
   Plan: margin sets and the vertical part of one step of the in-flow loop are mirrored by plain rational
   definitions (qs, q_with, q_union, q_res, qv_step); `step_q` shows that on finite data the model's step IS that
   rational step (Leibniz equalities through the embedding `emb`); the laws are then proved over Q with lra. *)
From Coq Require Import ZArith QArith Qminmax Bool List Lqa Lia.
From TV Require Import Num.Num Num.QNum Gen.BlockGen Model.Block Model.BlockLeaf Model.BlockTree.
Import ListNotations.
Open Scope Q_scope.

Ltac xq := cbn [add sub mul div neg eqb ltb leb fmax fmin zero one QNum x_add x_sub x_neg x_leb x_ltb x_eqb
                ms_positive ms_negative val finite fst snd negb andb orb].

(* ------------------------------------------------------------------ XQ on finite values *)
Lemma finite_inv (x : XQ) : finite x -> x = Fin (val x).
Proof. destruct x; simpl; intros; try contradiction; reflexivity. Qed.

Definition qmx (a b : Q) : Q := if Qle_bool b a then a else b.
Definition qmn (a b : Q) : Q := if Qle_bool a b then a else b.

Lemma xmax_fin a b : x_max (Fin a) (Fin b) = Fin (qmx a b).
Proof. unfold x_max, x_is_nan, qmx; xq. destruct (Qle_bool b a); reflexivity. Qed.
Lemma xmin_fin a b : x_min (Fin a) (Fin b) = Fin (qmn a b).
Proof. unfold x_min, x_is_nan, qmn; xq. destruct (Qle_bool a b); reflexivity. Qed.

Lemma qmx_spec a b : (b <= a /\ qmx a b = a) \/ (a < b /\ qmx a b = b).
Proof.
  unfold qmx. destruct (Qle_bool b a) eqn:E.
  - left. split; [apply Qle_bool_iff; exact E | reflexivity].
  - right. split; [|reflexivity]. apply Qnot_le_lt. intro H. apply Qle_bool_iff in H. congruence.
Qed.
Lemma qmn_spec a b : (a <= b /\ qmn a b = a) \/ (b < a /\ qmn a b = b).
Proof.
  unfold qmn. destruct (Qle_bool a b) eqn:E.
  - left. split; [apply Qle_bool_iff; exact E | reflexivity].
  - right. split; [|reflexivity]. apply Qnot_le_lt. intro H. apply Qle_bool_iff in H. congruence.
Qed.
Lemma qle_spec a b : (a <= b /\ Qle_bool a b = true) \/ (b < a /\ Qle_bool a b = false).
Proof.
  destruct (Qle_bool a b) eqn:E.
  - left. split; [apply Qle_bool_iff; exact E | reflexivity].
  - right. split; [|reflexivity]. apply Qnot_le_lt. intro H. apply Qle_bool_iff in H. congruence.
Qed.

(* case analysis on every qmx / qmn / Qle_bool in the goal, then linear arithmetic *)
Ltac qcase :=
  repeat match goal with
         | |- context [qmx ?a ?b] =>
             let H := fresh in let E := fresh in destruct (qmx_spec a b) as [[H E] | [H E]]; rewrite E in *; clear E
         | |- context [qmn ?a ?b] =>
             let H := fresh in let E := fresh in destruct (qmn_spec a b) as [[H E] | [H E]]; rewrite E in *; clear E
         | |- context [Qle_bool ?a ?b] =>
             let H := fresh in let E := fresh in destruct (qle_spec a b) as [[H E] | [H E]]; rewrite E in *; clear E
         | H0 : context [qmx ?a ?b] |- _ =>
             let H := fresh in let E := fresh in destruct (qmx_spec a b) as [[H E] | [H E]]; rewrite E in *; clear E
         | H0 : context [qmn ?a ?b] |- _ =>
             let H := fresh in let E := fresh in destruct (qmn_spec a b) as [[H E] | [H E]]; rewrite E in *; clear E
         | H0 : context [Qle_bool ?a ?b] |- _ =>
             let H := fresh in let E := fresh in destruct (qle_spec a b) as [[H E] | [H E]]; rewrite E in *; clear E
         end.

(* ------------------------------------------------------------------ rational margin sets *)
Record qs := mkqs { qp : Q; qn : Q }.
Definition q_zero : qs := mkqs 0 0.
Definition q_from (m : Q) : qs := if Qle_bool 0 m then mkqs m 0 else mkqs 0 m.
Definition q_with (s : qs) (m : Q) : qs :=
  if Qle_bool 0 m then mkqs (qmx (qp s) m) (qn s) else mkqs (qp s) (qmn (qn s) m).
Definition q_union (s o : qs) : qs := mkqs (qmx (qp s) (qp o)) (qmn (qn s) (qn o)).
Definition q_res (s : qs) : Q := qp s + qn s.

Definition emb (s : qs) : MarginSet XQ := mkMS (Fin (qp s)) (Fin (qn s)).
Definition qs_of (s : MarginSet XQ) : qs := mkqs (val (ms_positive s)) (val (ms_negative s)).
Definition fin_ms (s : MarginSet XQ) : Prop := finite (ms_positive s) /\ finite (ms_negative s).

Lemma fin_ms_inv s : fin_ms s -> s = emb (qs_of s).
Proof. destruct s as [p n]; unfold fin_ms, emb, qs_of; simpl. intros [H1 H2]. rewrite <- (finite_inv p H1), <- (finite_inv n H2). reflexivity. Qed.
Lemma fin_ms_emb s : fin_ms (emb s).
Proof. split; exact I. Qed.
Lemma qs_of_emb s : qs_of (emb s) = s.
Proof. destruct s; reflexivity. Qed.

Lemma emb_zero : ms_ZERO = emb q_zero.
Proof. reflexivity. Qed.
Lemma emb_from m : ms_from_margin (Fin m) = emb (q_from m).
Proof. unfold ms_from_margin, q_from; xq. destruct (Qle_bool 0 m); reflexivity. Qed.
Lemma emb_with s m : ms_collapse_with_margin (emb s) (Fin m) = emb (q_with s m).
Proof. unfold ms_collapse_with_margin, q_with, emb; xq. rewrite xmax_fin, xmin_fin. destruct (Qle_bool 0 m); reflexivity. Qed.
Lemma emb_union s o : ms_collapse_with_set (emb s) (emb o) = emb (q_union s o).
Proof. unfold ms_collapse_with_set, q_union, emb; xq. rewrite xmax_fin, xmin_fin. reflexivity. Qed.
Lemma emb_res s : ms_resolve (emb s) = Fin (q_res s).
Proof. reflexivity. Qed.

(* a set as the code builds them: the positive part is >= 0 and the negative part <= 0 *)
Definition wf_qs (s : qs) : Prop := 0 <= qp s /\ qn s <= 0.
Definition mixed_qs (s : qs) : Prop := 0 < qp s /\ qn s < 0.

Lemma wf_zero : wf_qs q_zero.
Proof. unfold wf_qs, q_zero; cbn [qp qn]; lra. Qed.
Lemma wf_with s m : wf_qs s -> wf_qs (q_with s m).
Proof. unfold wf_qs, q_with; intros [H1 H2]. destruct (qle_spec 0 m) as [[H E]|[H E]]; rewrite E; cbn [qp qn]; qcase; lra. Qed.
Lemma wf_union s o : wf_qs s -> wf_qs o -> wf_qs (q_union s o).
Proof. unfold wf_qs, q_union; cbn [qp qn]; intros [H1 H2] [H3 H4]. qcase; lra. Qed.

(* the property's reading of a resolved set: max(0, largest member) + min(0, smallest member) *)
Definition max0 (l : list Q) : Q := fold_left qmx l 0.
Definition min0 (l : list Q) : Q := fold_left qmn l 0.
Definition q_of_list (l : list Q) : qs := fold_left q_with l q_zero.

Lemma fold_with_parts l : forall s, wf_qs s ->
  qp (fold_left q_with l s) == fold_left qmx l (qp s) /\ qn (fold_left q_with l s) == fold_left qmn l (qn s).
Proof.
  induction l as [|m l IH]; intros s Hs; simpl; [split; reflexivity|].
  assert (Hw : wf_qs (q_with s m)) by (apply wf_with; exact Hs).
  destruct (IH _ Hw) as [A B]. rewrite A, B. clear A B IH.
  assert (P1 : qp (q_with s m) == qmx (qp s) m).
  { unfold q_with. destruct Hs as [H1 H2]. destruct (qle_spec 0 m) as [[H E]|[H E]]; rewrite E; cbn [qp qn]; [reflexivity|]. qcase; lra. }
  assert (P2 : qn (q_with s m) == qmn (qn s) m).
  { unfold q_with. destruct Hs as [H1 H2]. destruct (qle_spec 0 m) as [[H E]|[H E]]; rewrite E; cbn [qp qn]; [|reflexivity]. qcase; lra. }
  split.
  - clear P2. revert P1. generalize (qp (q_with s m)) (qmx (qp s) m). induction l as [|x l IH]; simpl; intros a b Hab; [exact Hab|].
    apply IH. unfold qmx. destruct (qle_spec x a) as [[H E]|[H E]]; destruct (qle_spec x b) as [[H' E']|[H' E']]; rewrite E, E'; lra.
  - clear P1. revert P2. generalize (qn (q_with s m)) (qmn (qn s) m). induction l as [|x l IH]; simpl; intros a b Hab; [exact Hab|].
    apply IH. unfold qmn. destruct (qle_spec a x) as [[H E]|[H E]]; destruct (qle_spec b x) as [[H' E']|[H' E']]; rewrite E, E'; lra.
Qed.

Lemma resolve_spec_q l : q_res (q_of_list l) == max0 l + min0 l.
Proof.
  unfold q_res, q_of_list, max0, min0. destruct (fold_with_parts l q_zero wf_zero) as [A B]. rewrite A, B. reflexivity.
Qed.

(* margins collapsed one by one into ZERO, in XQ *)
Lemma fold_with_emb l : forall s, fold_left (fun acc m => ms_collapse_with_margin acc (Fin m)) l (emb s) = emb (fold_left q_with l s).
Proof. induction l as [|m l IH]; intros s; simpl; [reflexivity|]. rewrite emb_with. apply IH. Qed.

Lemma resolve_spec l :
  ms_resolve (fold_left (fun acc m => ms_collapse_with_margin acc (Fin m)) l (@ms_ZERO XQ _)) = Fin (q_res (q_of_list l)).
Proof. rewrite emb_zero, fold_with_emb. reflexivity. Qed.

(* collapsing an unmixed set's resolved value into a set = collapsing its members *)
Lemma with_res_unmixed act ts : wf_qs act -> wf_qs ts -> ~ mixed_qs ts ->
  q_res (q_with act (q_res ts)) == q_res (q_union act ts).
Proof.
  unfold wf_qs, mixed_qs, q_res, q_with, q_union. destruct act as [ap an], ts as [tp tn]; cbn [qp qn].
  intros [H1 H2] [H3 H4] Hm.
  assert (Hc : tp <= 0 \/ 0 <= tn) by (destruct (Qlt_le_dec 0 tp); destruct (Qlt_le_dec tn 0); auto; exfalso; apply Hm; split; assumption).
  destruct (qle_spec 0 (tp + tn)) as [[H E]|[H E]]; rewrite E; cbn [qp qn]; qcase; lra.
Qed.

(* ------------------------------------------------------------------ the vertical part of one step of the loop *)
Definition item_mt (P : Params XQ) (it : Item XQ) : XQ := o_unwrap (r_top (item_margin P it)) zero.
Definition item_mb (P : Params XQ) (it : Item XQ) : XQ := o_unwrap (r_bottom (item_margin P it)) zero.
Definition item_off_y (it : Item XQ) : XQ :=
  o_unwrap (o_or (lpa_maybe_resolve (r_top (it_inset it)) (Some zero))
                 (option_map neg (lpa_maybe_resolve (r_bottom (it_inset it)) (Some zero)))) zero.

Record fin_item (P : Params XQ) (it : Item XQ) (co : ChildOut XQ) : Prop := mkFinItem {
  fi_mt : finite (item_mt P it);
  fi_mb : finite (item_mb P it);
  fi_off : finite (item_off_y it);
  fi_h : finite (s_h (co_size co));
  fi_top : fin_ms (co_top co);
  fi_bot : fin_ms (co_bottom co);
}.

Definition qv_step (start : bool) (c : Q) (act : qs) (isf : bool) (mt mb off h : Q) (top bot : qs) (ct : bool)
  : (Q * qs * bool) * Q :=
  let ts := q_with top mt in
  let bs := q_with bot mb in
  let ymo := if andb isf start then 0 else q_res (q_with act (q_res ts)) in
  let y := c + off + ymo in
  if ct then ((c, q_union (q_union act ts) bs, isf), y) else ((c + (h + ymo), bs, false), y).

Definition q_step (P : Params XQ) (st : State XQ) (it : Item XQ) (co : ChildOut XQ) : (Q * qs * bool) * Q :=
  qv_step (l_start (p_own_collapse P)) (val (s_committed st)) (qs_of (s_active st)) (s_is_first st)
          (val (item_mt P it)) (val (item_mb P it)) (val (item_off_y it)) (val (s_h (co_size co)))
          (qs_of (co_top co)) (qs_of (co_bottom co)) (co_ct co).

Lemma step_q P st it co st' r :
  position_is_absolute (it_position it) = false -> fin_item P it co ->
  finite (s_committed st) -> fin_ms (s_active st) ->
  inflow_step P st it co = (st', r) ->
  s_committed st' = Fin (fst (fst (fst (q_step P st it co)))) /\
  s_active st' = emb (snd (fst (fst (q_step P st it co)))) /\
  s_is_first st' = snd (fst (q_step P st it co)) /\
  ir_y r = Fin (snd (q_step P st it co)) /\
  ir_top_set r = emb (q_with (qs_of (co_top co)) (val (item_mt P it))) /\
  ir_bottom_set r = emb (q_with (qs_of (co_bottom co)) (val (item_mb P it))) /\
  ir_size r = co_size co /\ ir_inflow r = true /\ ir_ct r = co_ct co.
Proof.
  intros Habs [Fmt Fmb Foff Fh Ftop Fbot] Fc Fact Hstep.
  unfold inflow_step in Hstep. rewrite Habs in Hstep. cbv zeta in Hstep.
  pose proof (finite_inv _ Fmt) as Emt. pose proof (finite_inv _ Fmb) as Emb.
  pose proof (finite_inv _ Foff) as Eoff. pose proof (finite_inv _ Fh) as Eh.
  pose proof (fin_ms_inv _ Ftop) as Etop. pose proof (fin_ms_inv _ Fbot) as Ebot.
  pose proof (finite_inv _ Fc) as Ec. pose proof (fin_ms_inv _ Fact) as Eact.
  unfold q_step, qv_step.
  set (qmt := val (item_mt P it)) in *. set (qmb := val (item_mb P it)) in *.
  set (qoff := val (item_off_y it)) in *. set (qh := val (s_h (co_size co))) in *.
  set (qtop := qs_of (co_top co)) in *. set (qbot := qs_of (co_bottom co)) in *.
  set (qc := val (s_committed st)) in *. set (qact := qs_of (s_active st)) in *.
  unfold item_mt in Emt. unfold item_mb in Emb. unfold item_off_y in Eoff.
  cbn [r_top r_bottom r_left r_right] in Hstep.
  rewrite Emt, Emb, Eoff, Eh, Etop, Ebot, Ec, Eact in Hstep.
  rewrite !emb_with, !emb_res in Hstep.
  destruct (co_ct co) eqn:Ect; destruct (s_is_first st) eqn:Eisf; destruct (l_start (p_own_collapse P)) eqn:Est;
    cbn [andb] in Hstep |- *;
    rewrite ?emb_with, ?emb_res, ?emb_union in Hstep;
    injection Hstep as <- <-;
    cbn [s_committed s_active s_is_first ir_y ir_top_set ir_bottom_set ir_size ir_inflow ir_ct fst snd];
    xq; repeat split; reflexivity.
Qed.

Lemma step_abs P st it co :
  position_is_absolute (it_position it) = true ->
  fst (inflow_step P st it co) = st /\ ir_inflow (snd (inflow_step P st it co)) = false.
Proof. intros Habs. unfold inflow_step. rewrite Habs. split; reflexivity. Qed.

Definition item_ok (P : Params XQ) (x : Item XQ * ChildOut XQ) : Prop :=
  position_is_absolute (it_position (fst x)) = true \/
  (position_is_absolute (it_position (fst x)) = false /\ fin_item P (fst x) (snd x)).

Definition fin_vert (st : State XQ) : Prop := finite (s_committed st) /\ fin_ms (s_active st).

Lemma step_fin P st it co : fin_vert st -> item_ok P (it, co) -> fin_vert (fst (inflow_step P st it co)).
Proof.
  intros [Fc Fa] [Habs | [Hrel Hfin]].
  - destruct (step_abs P st it co Habs) as [E _]. rewrite E. split; assumption.
  - destruct (inflow_step P st it co) as [st' r] eqn:E. simpl.
    destruct (step_q P st it co st' r Hrel Hfin Fc Fa E) as (A & B & _).
    split; [rewrite A; exact I | rewrite B; apply fin_ms_emb].
Qed.

Lemma loop_cons P st it co rest :
  inflow_loop P st ((it, co) :: rest) =
  (fst (inflow_loop P (fst (inflow_step P st it co)) rest),
   snd (inflow_step P st it co) :: snd (inflow_loop P (fst (inflow_step P st it co)) rest)).
Proof.
  simpl. destruct (inflow_step P st it co) as [st1 r]. simpl. destruct (inflow_loop P st1 rest) as [st2 rs]. reflexivity.
Qed.

Lemma loop_app P xs : forall st ys,
  inflow_loop P st (xs ++ ys) =
  (fst (inflow_loop P (fst (inflow_loop P st xs)) ys),
   snd (inflow_loop P st xs) ++ snd (inflow_loop P (fst (inflow_loop P st xs)) ys)).
Proof.
  induction xs as [|[it co] xs IH]; intros st ys.
  - simpl. destruct (inflow_loop P st ys); reflexivity.
  - rewrite <- app_comm_cons. rewrite !loop_cons. rewrite IH. simpl. reflexivity.
Qed.

Lemma loop_length P xs : forall st, length (snd (inflow_loop P st xs)) = length xs.
Proof. induction xs as [|[it co] xs IH]; intros st; [reflexivity|]. rewrite loop_cons. simpl. f_equal. apply IH. Qed.

Lemma loop_fin P xs : forall st, fin_vert st -> Forall (item_ok P) xs -> fin_vert (fst (inflow_loop P st xs)).
Proof.
  induction xs as [|[it co] xs IH]; intros st Hst Hall; [exact Hst|].
  rewrite loop_cons. simpl. inversion Hall; subst. apply IH; [apply step_fin; assumption | assumption].
Qed.

(* ------------------------------------------------------------------ clause 1: document order, no overlap *)
(* the premises of the order clause on one in-flow item: non-negative margins (its own and the ones it reports),
   no relative inset, a non-negative height; and, separately, H_ct: collapsed through only if its height is zero *)
Record nonneg_item (P : Params XQ) (it : Item XQ) (co : ChildOut XQ) : Prop := mkNonneg {
  nn_mt : 0 <= val (item_mt P it);
  nn_mb : 0 <= val (item_mb P it);
  nn_off : val (item_off_y it) == 0;
  nn_h : 0 <= val (s_h (co_size co));
  nn_top : 0 <= val (ms_positive (co_top co)) /\ val (ms_negative (co_top co)) == 0;
  nn_bot : 0 <= val (ms_positive (co_bottom co)) /\ val (ms_negative (co_bottom co)) == 0;
}.
Definition hct_item (co : ChildOut XQ) : Prop := co_ct co = true -> val (s_h (co_size co)) == 0.

Definition nonneg_qs (s : qs) : Prop := 0 <= qp s /\ qn s == 0.
(* lowest y at which the next in-flow item can be placed *)
Definition frontier (start : bool) (c : Q) (act : qs) (isf : bool) : Q := c + (if andb isf start then 0 else qp act).

Lemma qmx_l a b : a <= qmx a b. Proof. destruct (qmx_spec a b) as [[H E]|[H E]]; rewrite E; lra. Qed.
Lemma qmx_r a b : b <= qmx a b. Proof. destruct (qmx_spec a b) as [[H E]|[H E]]; rewrite E; lra. Qed.
Lemma qmx_lub a b c : a <= c -> b <= c -> qmx a b <= c. Proof. intros. destruct (qmx_spec a b) as [[H1 E]|[H1 E]]; rewrite E; lra. Qed.
Lemma qmn_l a b : qmn a b <= a. Proof. destruct (qmn_spec a b) as [[H E]|[H E]]; rewrite E; lra. Qed.
Lemma qmn_r a b : qmn a b <= b. Proof. destruct (qmn_spec a b) as [[H E]|[H E]]; rewrite E; lra. Qed.
Lemma qmn_glb a b c : c <= a -> c <= b -> c <= qmn a b. Proof. intros. destruct (qmn_spec a b) as [[H1 E]|[H1 E]]; rewrite E; lra. Qed.

Lemma q_with_nonneg s m : 0 <= m -> q_with s m = mkqs (qmx (qp s) m) (qn s).
Proof. intros H. unfold q_with. destruct (qle_spec 0 m) as [[H' E]|[H' E]]; [rewrite E; reflexivity | lra]. Qed.

Lemma qv_step_order start c act isf mt mb off h top bot ct :
  nonneg_qs act -> 0 <= mt -> 0 <= mb -> off == 0 -> 0 <= h -> nonneg_qs top -> nonneg_qs bot -> (ct = true -> h == 0) ->
  let res := qv_step start c act isf mt mb off h top bot ct in
  let c' := fst (fst (fst res)) in let act' := snd (fst (fst res)) in let isf' := snd (fst res) in let y := snd res in
  frontier start c act isf <= y /\ y + h <= frontier start c' act' isf' /\ nonneg_qs act'.
Proof.
  unfold nonneg_qs, frontier, qv_step.
  intros [A1 A2] Hmt Hmb Hoff Hh [T1 T2] [B1 B2] Hct.
  rewrite (q_with_nonneg top mt Hmt), (q_with_nonneg bot mb Hmb).
  destruct act as [ap an], top as [tp tn], bot as [bp bn]; cbn [qp qn] in *.
  unfold q_res, q_union. cbn [qp qn].
  pose proof (qmx_l tp mt) as K1.
  rewrite !(q_with_nonneg (mkqs ap an) (qmx tp mt + tn)) by lra.
  cbn [qp qn].
  pose proof (qmx_l ap (qmx tp mt + tn)) as K2. pose proof (qmx_r ap (qmx tp mt + tn)) as K3.
  pose proof (qmx_l bp mb) as K4.
  pose proof (qmx_l (qmx ap (qmx tp mt)) (qmx bp mb)) as K5.
  pose proof (qmx_l ap (qmx tp mt)) as K6. pose proof (qmx_r ap (qmx tp mt)) as K7.
  assert (K8 : qmx ap (qmx tp mt + tn) <= qmx (qmx ap (qmx tp mt)) (qmx bp mb)) by (apply qmx_lub; lra).
  assert (K9 : qmn (qmn an tn) bn == 0).
  { apply Qle_antisym; [pose proof (qmn_r (qmn an tn) bn); lra | apply qmn_glb; [apply qmn_glb|]; lra]. }
  destruct ct; [specialize (Hct eq_refl)|clear Hct]; destruct isf; destruct start; cbn [andb fst snd qp qn];
    repeat split; lra.
Qed.

Definition nonneg_ok (P : Params XQ) (x : Item XQ * ChildOut XQ) : Prop :=
  position_is_absolute (it_position (fst x)) = true \/
  (position_is_absolute (it_position (fst x)) = false /\ fin_item P (fst x) (snd x) /\ nonneg_item P (fst x) (snd x) /\
   hct_item (snd x)).

Definition st_frontier (P : Params XQ) (st : State XQ) : Q :=
  frontier (l_start (p_own_collapse P)) (val (s_committed st)) (qs_of (s_active st)) (s_is_first st).
Definition nonneg_state (st : State XQ) : Prop := fin_vert st /\ nonneg_qs (qs_of (s_active st)).

Lemma nonneg_qs_of s : 0 <= val (ms_positive s) /\ val (ms_negative s) == 0 -> nonneg_qs (qs_of s).
Proof. intros H; exact H. Qed.

(* one step under the order premises *)
Lemma step_order P st it co :
  nonneg_state st -> nonneg_ok P (it, co) ->
  let st' := fst (inflow_step P st it co) in let r := snd (inflow_step P st it co) in
  nonneg_state st' /\ st_frontier P st <= st_frontier P st' /\
  (ir_inflow r = true -> st_frontier P st <= val (ir_y r) /\ val (ir_y r) + val (s_h (ir_size r)) <= st_frontier P st').
Proof.
  intros [[Fc Fa] Hn] [Habs | [Hrel [Hfin [Hnn N7]]]]; cbv zeta.
  - destruct (step_abs P st it co Habs) as [E1 E2]. rewrite E1, E2.
    split; [exact (conj (conj Fc Fa) Hn)|]. split; [lra|]. intros Hf; discriminate Hf.
  - destruct (inflow_step P st it co) as [st' r] eqn:E. cbn [fst snd].
    destruct (step_q P st it co st' r Hrel Hfin Fc Fa E) as (A & B & C & D & _ & _ & S & _ & _).
    destruct Hnn as [N1 N2 N3 N4 N5 N6]. unfold hct_item in N7. cbn [snd] in N7.
    pose proof (qv_step_order (l_start (p_own_collapse P)) (val (s_committed st)) (qs_of (s_active st)) (s_is_first st)
                  (val (item_mt P it)) (val (item_mb P it)) (val (item_off_y it)) (val (s_h (co_size co)))
                  (qs_of (co_top co)) (qs_of (co_bottom co)) (co_ct co) Hn N1 N2 N3 N4 (nonneg_qs_of _ N5) (nonneg_qs_of _ N6) N7) as Q.
    cbv zeta in Q. fold (q_step P st it co) in Q. destruct Q as (Q1 & Q2 & Q3).
    unfold st_frontier, nonneg_state, fin_vert. rewrite A, B, C, D, S. rewrite qs_of_emb. cbn [val].
    assert (Hh0 : 0 <= val (s_h (co_size co))) by exact N4.
    unfold frontier in *.
    repeat split; try exact I; try exact Q3; try (apply Q3); try lra.
Qed.

Lemma loop_order P xs : forall st,
  nonneg_state st -> Forall (nonneg_ok P) xs ->
  nonneg_state (fst (inflow_loop P st xs)) /\ st_frontier P st <= st_frontier P (fst (inflow_loop P st xs)) /\
  (forall r, In r (snd (inflow_loop P st xs)) -> ir_inflow r = true -> st_frontier P st <= val (ir_y r)).
Proof.
  induction xs as [|[it co] xs IH]; intros st Hst Hall.
  - simpl. repeat split; try apply Hst; try lra. intros r [].
  - inversion Hall as [|x l Hx Hl]; subst. rewrite loop_cons. cbn [fst snd].
    pose proof (step_order P st it co Hst Hx) as Hs. cbv zeta in Hs. destruct Hs as (S1 & S2 & S3).
    destruct (IH _ S1 Hl) as (I1 & I2 & I3).
    split; [exact I1|]. split; [lra|].
    intros r [<- | Hin] Hr.
    + apply S3; exact Hr.
    + specialize (I3 r Hin Hr). lra.
Qed.

Lemma order_no_overlap_from P xs : forall st i j ri rj,
  nonneg_state st -> Forall (nonneg_ok P) xs ->
  nth_error (snd (inflow_loop P st xs)) i = Some ri -> nth_error (snd (inflow_loop P st xs)) j = Some rj ->
  (i < j)%nat -> ir_inflow ri = true -> ir_inflow rj = true ->
  val (ir_y ri) + val (s_h (ir_size ri)) <= val (ir_y rj).
Proof.
  induction xs as [|[it co] xs IH]; intros st i j ri rj Hst Hall Hi Hj Hij Ini Inj.
  - simpl in Hi. destruct i; discriminate.
  - inversion Hall as [|x l Hx Hl]; subst. rewrite loop_cons in Hi, Hj. cbn [snd] in Hi, Hj.
    pose proof (step_order P st it co Hst Hx) as Hs. cbv zeta in Hs. destruct Hs as (S1 & S2 & S3).
    destruct j as [|j]; [lia|]. cbn [nth_error] in Hj.
    destruct i as [|i].
    + cbn [nth_error] in Hi. injection Hi as <-.
      destruct (S3 Ini) as [_ Hb].
      destruct (loop_order P xs _ S1 Hl) as (_ & _ & L3).
      specialize (L3 rj (nth_error_In _ _ Hj) Inj). lra.
    + cbn [nth_error] in Hi. apply (IH _ i j ri rj S1 Hl Hi Hj); [lia | assumption | assumption].
Qed.

(* ------------------------------------------------------------------ clause 3: sibling margins collapse *)
Definition wf_ms (s : MarginSet XQ) : Prop := wf_qs (qs_of s).
Definition mixed_ms (s : MarginSet XQ) : Prop := mixed_qs (qs_of s).

(* the margins of the boxes that are collapsed through join the set *)
Definition through_union (s : MarginSet XQ) (rs : list (ItemResult XQ)) : MarginSet XQ :=
  fold_left (fun acc r => if ir_inflow r then ms_collapse_with_set (ms_collapse_with_set acc (ir_top_set r)) (ir_bottom_set r) else acc) rs s.

Definition through_ok (P : Params XQ) (x : Item XQ * ChildOut XQ) : Prop :=
  position_is_absolute (it_position (fst x)) = true \/
  (position_is_absolute (it_position (fst x)) = false /\ fin_item P (fst x) (snd x) /\ co_ct (snd x) = true /\
   wf_ms (co_top (snd x)) /\ wf_ms (co_bottom (snd x))).

Lemma through_ok_item_ok P x : through_ok P x -> item_ok P x.
Proof. intros [H | (H1 & H2 & _)]; [left; exact H | right; split; assumption]. Qed.

Lemma wf_ms_emb s : wf_qs s -> wf_ms (emb s).
Proof. unfold wf_ms. rewrite qs_of_emb. auto. Qed.

Lemma loop_through P mid : forall st,
  fin_vert st -> s_is_first st = false -> wf_ms (s_active st) -> Forall (through_ok P) mid ->
  let st' := fst (inflow_loop P st mid) in let rs := snd (inflow_loop P st mid) in
  s_committed st' = s_committed st /\ s_is_first st' = false /\ fin_vert st' /\
  s_active st' = through_union (s_active st) rs /\ wf_ms (s_active st').
Proof.
  induction mid as [|[it co] mid IH]; intros st Hfin Hisf Hwf Hall; cbv zeta.
  - simpl. split; [reflexivity|]. split; [exact Hisf|]. split; [exact Hfin|]. split; [reflexivity | exact Hwf].
  - inversion Hall as [|x l Hx Hl]; subst. rewrite loop_cons. cbn [fst snd].
    destruct Hx as [Habs | (Hrel & Hfi & Hct & Wt & Wb)]; cbn [fst snd] in *.
    + destruct (step_abs P st it co Habs) as [E1 E2].
      specialize (IH (fst (inflow_step P st it co))). rewrite E1 in *. 
      destruct (IH Hfin Hisf Hwf Hl) as (I1 & I2 & I3 & I4 & I5).
      split; [exact I1|]. split; [exact I2|]. split; [exact I3|]. split; [|exact I5].
      rewrite I4. unfold through_union at 2. cbn [fold_left]. rewrite E2. reflexivity.
    + destruct Hfin as [Fc Fa].
      destruct (inflow_step P st it co) as [st1 r] eqn:E. cbn [fst snd] in *.
      destruct (step_q P st it co st1 r Hrel Hfi Fc Fa E) as (A & B & C & D & Et & Eb & S & In & Ct).
      unfold q_step, qv_step in A, B, C. rewrite Hct in A, B, C. cbn [fst snd] in A, B, C.
      assert (F1 : fin_vert st1) by (split; [rewrite A; exact I | rewrite B; apply fin_ms_emb]).
      assert (W1 : wf_ms (s_active st1)).
      { rewrite B. apply wf_ms_emb. apply wf_union; [apply wf_union; [exact Hwf | apply wf_with; exact Wt] | apply wf_with; exact Wb]. }
      assert (C1 : s_is_first st1 = false) by (rewrite C; exact Hisf).
      destruct (IH st1 F1 C1 W1 Hl) as (I1 & I2 & I3 & I4 & I5).
      split; [|split; [exact I2|]; split; [exact I3|]; split; [|exact I5]].
      * rewrite I1, A. symmetry. apply finite_inv. exact Fc.
      * rewrite I4. unfold through_union at 2. cbn [fold_left]. rewrite In.
        rewrite B, Et, Eb. rewrite (fin_ms_inv _ Fa) at 2. rewrite !emb_union. reflexivity.
Qed.

(* gap between a box that is not collapsed through, boxes collapsed through (or absolute) after it, and the next
   box that is not collapsed through -- from any state of the loop *)
Lemma margin_collapse_steps P st it_i co_i mid it_j co_j :
  fin_vert st ->
  position_is_absolute (it_position it_i) = false -> fin_item P it_i co_i -> co_ct co_i = false ->
  val (item_off_y it_i) == 0 -> wf_ms (co_bottom co_i) ->
  Forall (through_ok P) mid ->
  position_is_absolute (it_position it_j) = false -> fin_item P it_j co_j ->
  val (item_off_y it_j) == 0 -> wf_ms (co_top co_j) ->
  let st_i := fst (inflow_step P st it_i co_i) in let r_i := snd (inflow_step P st it_i co_i) in
  let st_m := fst (inflow_loop P st_i mid) in let rs_m := snd (inflow_loop P st_i mid) in
  let r_j := snd (inflow_step P st_m it_j co_j) in
  let before := through_union (ir_bottom_set r_i) rs_m in
  (* as implemented: the later box's top set enters as its already-resolved sum *)
  val (ir_y r_j) - (val (ir_y r_i) + val (s_h (ir_size r_i))) ==
    val (ms_resolve (ms_collapse_with_margin before (ms_resolve (ir_top_set r_j)))) /\
  (* the property: when that top set is not mixed, this is the collapsed margin of the union *)
  (~ mixed_ms (ir_top_set r_j) ->
   val (ir_y r_j) - (val (ir_y r_i) + val (s_h (ir_size r_i))) ==
     val (ms_resolve (ms_collapse_with_set before (ir_top_set r_j)))).
Proof.
  intros [Fc Fa] Hri Hfi Hcti Hoi Wbi Hmid Hrj Hfj Hoj Wtj. cbv zeta.
  destruct (inflow_step P st it_i co_i) as [st_i r_i] eqn:Ei. cbn [fst snd].
  destruct (step_q P st it_i co_i st_i r_i Hri Hfi Fc Fa Ei) as (A & B & C & D & _ & Eb & S & _ & _).
  unfold q_step, qv_step in A, B, C, D. rewrite Hcti in A, B, C, D. cbn [fst snd] in A, B, C, D.
  assert (Fi : fin_vert st_i) by (split; [rewrite A; exact I | rewrite B; apply fin_ms_emb]).
  assert (Wi : wf_ms (s_active st_i)) by (rewrite B; apply wf_ms_emb, wf_with; exact Wbi).
  pose proof (loop_through P mid st_i Fi C Wi Hmid) as L. cbv zeta in L.
  destruct (inflow_loop P st_i mid) as [st_m rs_m] eqn:Em. cbn [fst snd] in *.
  destruct L as (L1 & L2 & [Fcm Fam] & L4 & L5).
  destruct (inflow_step P st_m it_j co_j) as [st_j r_j] eqn:Ej. cbn [fst snd].
  destruct (step_q P st_m it_j co_j st_j r_j Hrj Hfj Fcm Fam Ej) as (_ & _ & _ & Dj & Etj & _ & _ & _ & _).
  unfold q_step, qv_step in Dj. rewrite L2 in Dj. cbn [andb fst snd] in Dj.
  assert (Dj' : ir_y r_j = Fin (snd (if co_ct co_j then (0, val (s_committed st_m) + val (item_off_y it_j) +
              q_res (q_with (qs_of (s_active st_m)) (q_res (q_with (qs_of (co_top co_j)) (val (item_mt P it_j))))))
              else (0, val (s_committed st_m) + val (item_off_y it_j) +
              q_res (q_with (qs_of (s_active st_m)) (q_res (q_with (qs_of (co_top co_j)) (val (item_mt P it_j))))))))).
  { rewrite Dj. destruct (co_ct co_j); reflexivity. }
  assert (Yj : val (ir_y r_j) == val (s_committed st_m) + val (item_off_y it_j) +
              q_res (q_with (qs_of (s_active st_m)) (q_res (q_with (qs_of (co_top co_j)) (val (item_mt P it_j)))))).
  { rewrite Dj'. destruct (co_ct co_j); cbn [snd val]; reflexivity. }
  clear Dj Dj'.
  assert (Eact : s_active st_m = through_union (ir_bottom_set r_i) rs_m).
  { rewrite L4, B, Eb. reflexivity. }
  rewrite <- Eact. rewrite Etj. rewrite (fin_ms_inv _ Fam). rewrite emb_res, emb_with, emb_union, !emb_res. cbn [val].
  rewrite Yj, L1, A, D, S. cbn [val].
  set (U := qs_of (s_active st_m)). set (T := q_with (qs_of (co_top co_j)) (val (item_mt P it_j))).
  split.
  - lra.
  - intros Hm. unfold mixed_ms in Hm. rewrite qs_of_emb in Hm. fold T in Hm.
    assert (WU : wf_qs U) by exact L5.
    assert (WT : wf_qs T) by (apply wf_with; exact Wtj).
    pose proof (with_res_unmixed U T WU WT Hm) as K. lra.
Qed.

(* ------------------------------------------------------------------ at the level of block_inflow *)
Lemma io_results_eq {T} `{Num T} (P : Params T) xs : io_results (block_inflow P xs) = snd (inflow_loop P (init_state P) xs).
Proof. unfold block_inflow. destruct (inflow_loop P (init_state P) xs); reflexivity. Qed.

Definition fin_params (P : Params XQ) : Prop := finite (r_top (p_rcbi P)).

Lemma init_nonneg P : fin_params P -> nonneg_state (init_state P).
Proof.
  intros H. unfold nonneg_state, fin_vert, init_state; cbn [s_committed s_active]. rewrite emb_zero, qs_of_emb.
  repeat split; try exact H; try exact I; unfold q_zero; cbn [qp qn]; lra.
Qed.

Theorem order_no_overlap P xs i j ri rj :
  fin_params P -> Forall (nonneg_ok P) xs ->
  nth_error (io_results (block_inflow P xs)) i = Some ri -> nth_error (io_results (block_inflow P xs)) j = Some rj ->
  (i < j)%nat -> ir_inflow ri = true -> ir_inflow rj = true ->
  val (ir_y ri) + val (s_h (ir_size ri)) <= val (ir_y rj).
Proof.
  intros HP Hall. rewrite io_results_eq. intros Hi Hj. apply (order_no_overlap_from P xs (init_state P) i j ri rj); auto using init_nonneg.
Qed.

Lemma loop_decompose P pre x_i mid x_j post st :
  let st_p := fst (inflow_loop P st pre) in
  let st_i := fst (inflow_step P st_p (fst x_i) (snd x_i)) in let r_i := snd (inflow_step P st_p (fst x_i) (snd x_i)) in
  let st_m := fst (inflow_loop P st_i mid) in let rs_m := snd (inflow_loop P st_i mid) in
  let st_j := fst (inflow_step P st_m (fst x_j) (snd x_j)) in let r_j := snd (inflow_step P st_m (fst x_j) (snd x_j)) in
  snd (inflow_loop P st (pre ++ x_i :: mid ++ x_j :: post)) =
  snd (inflow_loop P st pre) ++ r_i :: rs_m ++ r_j :: snd (inflow_loop P st_j post).
Proof.
  cbv zeta. destruct x_i as [it_i co_i], x_j as [it_j co_j]. cbn [fst snd].
  rewrite loop_app. cbn [snd]. f_equal. rewrite loop_cons. cbn [snd]. f_equal.
  rewrite loop_app. cbn [snd]. f_equal. rewrite loop_cons. cbn [snd]. reflexivity.
Qed.

Theorem margin_collapse_through P pre it_i co_i mid it_j co_j post :
  fin_params P -> Forall (item_ok P) pre ->
  position_is_absolute (it_position it_i) = false -> fin_item P it_i co_i -> co_ct co_i = false ->
  val (item_off_y it_i) == 0 -> wf_ms (co_bottom co_i) ->
  Forall (through_ok P) mid ->
  position_is_absolute (it_position it_j) = false -> fin_item P it_j co_j ->
  val (item_off_y it_j) == 0 -> wf_ms (co_top co_j) ->
  exists rs_pre r_i rs_m r_j rs_post,
    io_results (block_inflow P (pre ++ (it_i, co_i) :: mid ++ (it_j, co_j) :: post)) = rs_pre ++ r_i :: rs_m ++ r_j :: rs_post /\
    length rs_pre = length pre /\ length rs_m = length mid /\
    val (ir_y r_j) - (val (ir_y r_i) + val (s_h (ir_size r_i))) ==
      val (ms_resolve (ms_collapse_with_margin (through_union (ir_bottom_set r_i) rs_m) (ms_resolve (ir_top_set r_j)))) /\
    (~ mixed_ms (ir_top_set r_j) ->
     val (ir_y r_j) - (val (ir_y r_i) + val (s_h (ir_size r_i))) ==
       val (ms_resolve (ms_collapse_with_set (through_union (ir_bottom_set r_i) rs_m) (ir_top_set r_j)))).
Proof.
  intros HP Hpre Hri Hfi Hcti Hoi Wbi Hmid Hrj Hfj Hoj Wtj.
  rewrite io_results_eq.
  pose proof (loop_decompose P pre (it_i, co_i) mid (it_j, co_j) post (init_state P)) as D. cbv zeta in D. cbn [fst snd] in D.
  set (st_p := fst (inflow_loop P (init_state P) pre)) in *.
  assert (Fp : fin_vert st_p) by (apply loop_fin; [apply (init_nonneg P HP) | exact Hpre]).
  pose proof (margin_collapse_steps P st_p it_i co_i mid it_j co_j Fp Hri Hfi Hcti Hoi Wbi Hmid Hrj Hfj Hoj Wtj) as M.
  cbv zeta in M.
  eexists _, _, _, _, _. split; [exact D|]. split; [apply loop_length|]. split; [apply loop_length|]. exact M.
Qed.

(* ------------------------------------------------------------------ clause 2: fill width *)
Section FillWidth.
  Context {T : Type} `{Num T}.

  Lemma fill_width_known (P : Params T) (it : Item T) ml mr :
    it_is_table it = false -> s_w (it_size it) = None -> s_w (it_min_size it) = None -> s_w (it_max_size it) = None ->
    r_left (item_margin P it) = Some ml -> r_right (item_margin P it) = Some mr ->
    s_w (item_known_dims P it) = Some (sub (inner_width P) (add ml mr)).
  Proof.
    intros Ht Hs Hmn Hmx Hl Hr. unfold item_known_dims, sz_maybe_clamp, non_auto_x_margin_sum. rewrite Ht, Hs, Hmn, Hmx, Hl, Hr.
    reflexivity.
  Qed.

  (* what the loop passes to, and takes from, the child *)
  Lemma step_passes (P : Params T) st it co :
    position_is_absolute (it_position it) = false ->
    let r := snd (inflow_step P st it co) in
    ir_inflow r = true /\ ir_known r = item_known_dims P it /\ ir_avail_w r = item_avail_w P it /\ ir_size r = co_size co /\
    ir_ct r = co_ct co.
  Proof. intros Hrel. unfold inflow_step. rewrite Hrel. cbv zeta. destruct (co_ct co); cbn [snd ir_inflow ir_known ir_avail_w ir_size ir_ct]; repeat split; reflexivity. Qed.

  Lemma loop_cons_g (P : Params T) st it co rest :
    inflow_loop P st ((it, co) :: rest) =
    (fst (inflow_loop P (fst (inflow_step P st it co)) rest),
     snd (inflow_step P st it co) :: snd (inflow_loop P (fst (inflow_step P st it co)) rest)).
  Proof.
    simpl. destruct (inflow_step P st it co) as [st1 r]. simpl. destruct (inflow_loop P st1 rest) as [st2 rs]. reflexivity.
  Qed.

  Lemma loop_nth (P : Params T) xs : forall st k it co,
    nth_error xs k = Some (it, co) ->
    exists st_k, nth_error (snd (inflow_loop P st xs)) k = Some (snd (inflow_step P st_k it co)).
  Proof.
    induction xs as [|[it0 co0] xs IH]; intros st k it co Hk; [destruct k; discriminate|].
    rewrite loop_cons_g. cbn [snd]. destruct k as [|k]; cbn [nth_error] in *.
    - injection Hk as <- <-. eexists; reflexivity.
    - apply IH; exact Hk.
  Qed.

  Theorem fill_width (P : Params T) xs k it co ml mr :
    nth_error xs k = Some (it, co) -> position_is_absolute (it_position it) = false ->
    it_is_table it = false -> s_w (it_size it) = None -> s_w (it_min_size it) = None -> s_w (it_max_size it) = None ->
    r_left (item_margin P it) = Some ml -> r_right (item_margin P it) = Some mr ->
    exists r, nth_error (io_results (block_inflow P xs)) k = Some r /\ ir_inflow r = true /\
              s_w (ir_known r) = Some (sub (inner_width P) (add ml mr)) /\ ir_size r = co_size co.
  Proof.
    intros Hk Hrel Ht Hs Hmn Hmx Hl Hr. rewrite io_results_eq.
    destruct (loop_nth P xs (init_state P) k it co Hk) as [st_k E].
    eexists; split; [exact E|].
    destruct (step_passes P st_k it co Hrel) as (A & B & _ & D & _).
    split; [exact A|]. split; [|exact D]. rewrite B. apply fill_width_known; assumption.
  Qed.

  (* the leaf model returns a known width unless it is below padding + border *)
  Lemma leaf_known_width (st : BStyle T) m w kh parent :
    s_w (lf_min (leaf_resolve st (mkSize (Some w) kh) parent)) = None ->
    s_w (lf_max (leaf_resolve st (mkSize (Some w) kh) parent)) = None ->
    s_w (co_size (leaf_layout st m (mkSize (Some w) kh) parent PerformLayout)) =
    fmax w (h_sum (lf_pb (leaf_resolve st (mkSize (Some w) kh) parent))).
  Proof.
    intros Hmn Hmx. unfold leaf_layout. cbv zeta. rewrite Hmn, Hmx. reflexivity.
  Qed.

  (* leaf.rs's own collapse-through test demands a zero height *)
  Lemma ct_leaf (st : BStyle T) m known parent run :
    co_ct (leaf_layout st m known parent run) = true ->
    eqb (s_h (co_size (leaf_layout st m known parent run))) zero = true.
  Proof.
    unfold leaf_layout. cbv zeta.
    destruct run; destruct (leaf_prevent_ct st known parent);
      destruct (s_w (lf_node_size (leaf_resolve st known parent))); destruct (s_h (lf_node_size (leaf_resolve st known parent)));
      cbn [co_ct co_size s_h andb negb]; try discriminate;
      intros Hc; apply andb_prop in Hc; destruct Hc as [Hc _]; exact Hc.
  Qed.
End FillWidth.

Lemma xq_eqb_zero (x : XQ) : eqb x zero = true -> finite x /\ val x == 0.
Proof. destruct x; xq; try discriminate. intros Hq. split; [exact I|]. apply Qeq_bool_iff. exact Hq. Qed.

Lemma xq_leb (a b : XQ) : finite a -> finite b -> leb a b = true -> val a <= val b.
Proof. destruct a, b; simpl; try contradiction. intros _ _ Hq. apply Qle_bool_iff. exact Hq. Qed.

(* adjacent siblings, neither collapsed through *)
Theorem margin_collapse_adjacent P pre it_i co_i it_j co_j post :
  fin_params P -> Forall (item_ok P) pre ->
  position_is_absolute (it_position it_i) = false -> fin_item P it_i co_i -> co_ct co_i = false ->
  val (item_off_y it_i) == 0 -> wf_ms (co_bottom co_i) ->
  position_is_absolute (it_position it_j) = false -> fin_item P it_j co_j ->
  val (item_off_y it_j) == 0 -> wf_ms (co_top co_j) ->
  exists rs_pre r_i r_j rs_post,
    io_results (block_inflow P (pre ++ (it_i, co_i) :: (it_j, co_j) :: post)) = rs_pre ++ r_i :: r_j :: rs_post /\
    length rs_pre = length pre /\
    (~ mixed_ms (ir_top_set r_j) ->
     val (ir_y r_j) - (val (ir_y r_i) + val (s_h (ir_size r_i))) ==
       val (ms_resolve (ms_collapse_with_set (ir_bottom_set r_i) (ir_top_set r_j)))).
Proof.
  intros HP Hpre Hri Hfi Hcti Hoi Wbi Hrj Hfj Hoj Wtj.
  destruct (margin_collapse_through P pre it_i co_i [] it_j co_j post HP Hpre Hri Hfi Hcti Hoi Wbi (Forall_nil _) Hrj Hfj Hoj Wtj)
    as (rs_pre & r_i & rs_m & r_j & rs_post & E & L1 & L2 & _ & M).
  destruct rs_m; [|discriminate L2]. cbn [app] in E. unfold through_union in M. cbn [fold_left] in M.
  exists rs_pre, r_i, r_j, rs_post. split; [exact E|]. split; [exact L1 | exact M].
Qed.

Theorem resolve_spec_list (l : list Q) :
  exists r, ms_resolve (fold_left (fun acc m => ms_collapse_with_margin acc (Fin m)) l (@ms_ZERO XQ _)) = Fin r /\
            r == max0 l + min0 l.
Proof. exists (q_res (q_of_list l)). split; [apply resolve_spec | apply resolve_spec_q]. Qed.
