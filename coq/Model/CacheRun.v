(* Executable driver of the C02 correspondence check: the cache model of Model/Cache.v (the definitions the theorems
   of Props/C02.v are about) instantiated with the bit-exact binary32 instance, run on the harness's op sequences.
   Encoding: see harness/src/c02.rs. *)
From Coq Require Import ZArith NArith Bool List.
From TV Require Import Num.Num Num.F32 Gen.CacheGen Model.Cache.
Import ListNotations.
Open Scope Z_scope.

Definition dec_kd (flag bits : Z) : option f32 := if flag =? 0 then None else Some (f_of_bits bits).
Definition dec_av (kind bits : Z) : avail f32 :=
  match kind with 0 => MinContent | 1 => MaxContent | _ => Definite (f_of_bits bits) end.
Definition dec_mode (m : Z) : run_mode :=
  match m with 0 => PerformLayout | 1 => ComputeSize | _ => PerformHiddenLayout end.
Definition dec_key (kwf kwb khf khb awk awb ahk ahb : Z) : key f32 :=
  {| kd_w := dec_kd kwf kwb; kd_h := dec_kd khf khb; av_w := dec_av awk awb; av_h := dec_av ahk ahb |}.

Definition enc_get (r : option (output f32)) : list Z :=
  match r with
  | Some o => [1; f_to_bits (width (o_size o)); f_to_bits (height (o_size o)); Z.of_N (o_payload o)]
  | None => [0; 0; 0; 0]
  end.

Fixpoint run_ops (c : cache f32) (l : list Z) : list Z :=
  match l with
  | [] => []
  | 0 :: kwf :: kwb :: khf :: khb :: awk :: awb :: ahk :: ahb :: m :: rest =>
      enc_get (get c (dec_key kwf kwb khf khb awk awb ahk ahb) (dec_mode m)) ++ run_ops c rest
  | 1 :: kwf :: kwb :: khf :: khb :: awk :: awb :: ahk :: ahb :: m :: sw :: sh :: p :: rest =>
      let o := {| o_size := {| width := f_of_bits sw; height := f_of_bits sh |}; o_payload := Z.to_N p |} in
      let c' := store c (dec_key kwf kwb khf khb awk awb ahk ahb) (dec_mode m) o in
      b2z (is_empty c') :: run_ops c' rest
  | 2 :: rest =>
      let '(c', st) := clear c in
      (match st with Cleared => 1 | AlreadyEmpty => 0 end) :: b2z (is_empty c') :: run_ops c' rest
  | _ => [-1]
  end.

Definition run_case (l : list Z) : list Z := run_ops new l.
