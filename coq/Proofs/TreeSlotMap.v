(* C14 -- proofs about Model/Tree.v, part 2: the slot map.
   get/set/insert/remove/clear algebra over keys, the free-list / parity / sentinel invariant `sm_inv`,
   and `shape` (everything of a slot map except the stored values: what makes three maps run in lockstep). *)
From Coq Require Import NArith List Bool Arith Lia PeanoNat.
From TV Require Import Model.Tree Proofs.TreeLists.
Import ListNotations.


(* ------------------------------------------------------------------ get / set *)

Lemma sm_get_Some {V} (m : slotmap V) k v :
  sm_get m k = Some v <-> nth_error (sm_slots m) (fst k) = Some (mkSlot (snd k) (Occ v)).
Proof.
  unfold sm_get. destruct (nth_error (sm_slots m) (fst k)) as [[ver c]|]; simpl.
  - destruct (N.eqb_spec ver (snd k)); destruct c; split; intros H; congruence.
  - split; congruence.
Qed.

Lemma sm_get_None_vac {V} (m : slotmap V) k ver n :
  nth_error (sm_slots m) (fst k) = Some (mkSlot ver (Vac n)) -> sm_get m k = None.
Proof. intros H. unfold sm_get. rewrite H. simpl. destruct (N.eqb ver (snd k)); reflexivity. Qed.

Lemma sm_get_None_oob {V} (m : slotmap V) k : nth_error (sm_slots m) (fst k) = None -> sm_get m k = None.
Proof. intros H. unfold sm_get. rewrite H. reflexivity. Qed.

Lemma sm_set_Ok {V} (m : slotmap V) k v : sm_get m k <> None -> exists m', sm_set m k v = Ok m'.
Proof. unfold sm_set. destruct (sm_get m k); [eauto | congruence]. Qed.

Lemma sm_set_inv {V} (m m' : slotmap V) k v : sm_set m k v = Ok m' ->
  exists old, sm_get m k = Some old /\
              m' = mkSM (upd (sm_slots m) (fst k) (mkSlot (snd k) (Occ v))) (sm_free m) (sm_num m).
Proof. unfold sm_set. destruct (sm_get m k) eqn:E; intros H; inversion H. eauto. Qed.
Arguments sm_set_inv {V m m' k v} _.

Lemma sm_get_set {V} (m m' : slotmap V) k v k' : sm_set m k v = Ok m' ->
  sm_get m' k' = if key_eqb k k' then Some v else sm_get m k'.
Proof.
  intros H. apply sm_set_inv in H. destruct H as [old [Ho ->]].
  apply sm_get_Some in Ho. pose proof (nth_error_Some_lt Ho) as Hlt.
  destruct (key_eqb_spec k k') as [<-|Hne].
  - apply sm_get_Some. simpl. apply nth_error_upd_eq. exact Hlt.
  - destruct (Nat.eq_dec (fst k) (fst k')) as [He|He].
    + assert (Hv : snd k <> snd k') by (destruct k, k'; simpl in *; congruence).
      unfold sm_get. simpl. rewrite <- He. rewrite nth_error_upd_eq by exact Hlt. rewrite Ho. simpl.
      destruct (N.eqb_spec (snd k) (snd k')); congruence.
    + unfold sm_get. simpl. rewrite nth_error_upd_neq by exact He. reflexivity.
Qed.
Arguments sm_get_set {V m m' k v} k' _.

Lemma sm_get_set_same {V} (m m' : slotmap V) k v : sm_set m k v = Ok m' -> sm_get m' k = Some v.
Proof. intros H. rewrite (sm_get_set _ H). rewrite key_eqb_refl. reflexivity. Qed.
Arguments sm_get_set_same {V m m' k v} _.

Lemma sm_get_set_other {V} (m m' : slotmap V) k v k' : sm_set m k v = Ok m' -> k <> k' -> sm_get m' k' = sm_get m k'.
Proof. intros H Hn. rewrite (sm_get_set _ H). destruct (key_eqb_spec k k'); congruence. Qed.
Arguments sm_get_set_other {V m m' k v} k' _ _.

Lemma sm_set_live {V} (m m' : slotmap V) k v : sm_set m k v = Ok m' -> sm_get m k <> None.
Proof. intros H. apply sm_set_inv in H. destruct H as [old [Ho _]]. congruence. Qed.
Arguments sm_set_live {V m m' k v} _.

Lemma sm_contains_get {V} (m : slotmap V) k v : sm_get m k = Some v -> sm_contains m k = true.
Proof. intros H. apply sm_get_Some in H. unfold sm_contains. rewrite H. simpl. apply N.eqb_refl. Qed.
Arguments sm_contains_get {V m k v} _.

(* ------------------------------------------------------------------ keys *)

Lemma In_slot_keys {V} (l : list (slot V)) i k :
  In k (slot_keys l i) <-> exists v, i <= fst k /\ nth_error l (fst k - i) = Some (mkSlot (snd k) (Occ v)).
Proof.
  revert i. induction l as [|[ver c] r IH]; intros i; simpl.
  - split; [tauto|]. intros [v [_ H]]. destruct (fst k - i); discriminate.
  - assert (Hrest : In k (slot_keys r (S i)) <->
                    exists v, i <= fst k /\ fst k <> i /\ nth_error r (fst k - S i) = Some (mkSlot (snd k) (Occ v))).
    { rewrite IH. split; intros [v H]; exists v.
      - intuition lia. - intuition lia. }
    assert (Hsplit : forall v, (i <= fst k /\ nth_error (mkSlot ver c :: r) (fst k - i) = Some (mkSlot (snd k) (Occ v))) <->
                     ((fst k = i /\ ver = snd k /\ c = Occ v) \/
                      (i <= fst k /\ fst k <> i /\ nth_error r (fst k - S i) = Some (mkSlot (snd k) (Occ v))))).
    { intros v. destruct (Nat.eq_dec (fst k) i) as [E|E].
      - rewrite E, Nat.sub_diag. simpl. split.
        + intros [_ H]. inversion H. auto.
        + intros [[_ [-> ->]]|[_ [H _]]]; [auto | congruence].
      - split.
        + intros [Hle H]. right. replace (fst k - i) with (S (fst k - S i)) in H by lia. simpl in H. auto.
        + intros [[H _]|[Hle [_ H]]]; [congruence|]. split; [exact Hle|].
          replace (fst k - i) with (S (fst k - S i)) by lia. exact H. }
    destruct c as [v0|n]; simpl.
    + split.
      * intros [H|H].
        -- exists v0. apply Hsplit. left. subst k. simpl. auto.
        -- apply Hrest in H. destruct H as [v H]. exists v. apply Hsplit. right. exact H.
      * intros [v H]. apply Hsplit in H. destruct H as [[H1 [H2 H3]]|H].
        -- left. destruct k; simpl in *; congruence.
        -- right. apply Hrest. eauto.
    + split.
      * intros H. apply Hrest in H. destruct H as [v H]. exists v. apply Hsplit. right. exact H.
      * intros [v H]. apply Hsplit in H. destruct H as [[_ [_ H3]]|H]; [discriminate|]. apply Hrest. eauto.
Qed.

Lemma sm_keys_In {V} (m : slotmap V) k : In k (sm_keys m) <-> exists v, sm_get m k = Some v.
Proof.
  unfold sm_keys. rewrite In_slot_keys. split; intros [v H]; exists v.
  - apply sm_get_Some. rewrite Nat.sub_0_r in H. tauto.
  - apply sm_get_Some in H. rewrite Nat.sub_0_r. split; [lia | exact H].
Qed.

Lemma sm_keys_In' {V} (m : slotmap V) k : In k (sm_keys m) <-> sm_get m k <> None.
Proof.
  rewrite sm_keys_In. destruct (sm_get m k); split; try congruence; eauto. intros [v H]. discriminate.
Qed.

Lemma slot_keys_NoDup {V} (l : list (slot V)) i : NoDup (slot_keys l i).
Proof.
  revert i. induction l as [|[ver c] r IH]; intros i; simpl; [constructor|].
  destruct c; simpl; [|apply IH]. constructor; [|apply IH].
  rewrite In_slot_keys. simpl. intros [v1 [H _]]. lia.
Qed.

Lemma sm_keys_NoDup {V} (m : slotmap V) : NoDup (sm_keys m).
Proof. apply slot_keys_NoDup. Qed.

Lemma NoDup_same_length {A} (a b : list A) : NoDup a -> NoDup b -> (forall x, In x a <-> In x b) -> length a = length b.
Proof.
  intros Ha Hb H. apply Nat.le_antisymm; apply NoDup_incl_length; auto; intros x Hx; apply H; exact Hx.
Qed.

(* ------------------------------------------------------------------ the invariant *)

Fixpoint chain {V} (slots : list (slot V)) (h : nat) (fl : list nat) : Prop :=
  match fl with
  | [] => h = length slots
  | x :: r => h = x /\ exists v n, nth_error slots x = Some (mkSlot v (Vac n)) /\ chain slots n r
  end.

Definition is_occ {V} (s : slot V) : bool := match s_cont s with Occ _ => true | Vac _ => false end.

Record sm_inv {V} (m : slotmap V) : Prop := mk_sm_inv {
  inv_chain : exists fl, NoDup fl /\ ~ In 0 fl /\ chain (sm_slots m) (sm_free m) fl;   (* free list: vacant slots, acyclic, ends at len *)
  inv_parity : Forall (fun s => N.odd (s_ver s) = is_occ s) (sm_slots m);              (* odd version <-> occupied *)
  inv_sentinel : exists v n, nth_error (sm_slots m) 0 = Some (mkSlot v (Vac n));        (* slot 0 is never used *)
  inv_num : sm_num m = length (sm_keys m)                                              (* num_elems = number of live keys *)
}.

Lemma sm_new_inv {V} : sm_inv (sm_new V).
Proof.
  constructor; simpl.
  - exists []. repeat split; auto. constructor.
  - constructor; [reflexivity | constructor].
  - eauto.
  - reflexivity.
Qed.

Lemma chain_vac {V} (slots : list (slot V)) h fl i :
  chain slots h fl -> In i fl -> exists v n, nth_error slots i = Some (mkSlot v (Vac n)).
Proof.
  revert h. induction fl as [|x r IH]; simpl; intros h H Hi; [tauto|].
  destruct H as [-> [v [n [Hx Hr]]]]. destruct Hi as [<-|Hi]; eauto.
Qed.
Arguments chain_vac {V slots h fl i} _ _.

Lemma chain_upd {V} (slots : list (slot V)) h fl i s : chain slots h fl -> ~ In i fl -> chain (upd slots i s) h fl.
Proof.
  revert h. induction fl as [|x r IH]; simpl; intros h H Hi.
  - rewrite upd_length. exact H.
  - destruct H as [-> [v [n [Hx Hr]]]]. split; [reflexivity|]. exists v, n. split.
    + rewrite nth_error_upd_neq by intuition. exact Hx.
    + apply IH; intuition.
Qed.

Lemma chain_occ_notin {V} (slots : list (slot V)) h fl i ver v :
  chain slots h fl -> nth_error slots i = Some (mkSlot ver (Occ v)) -> ~ In i fl.
Proof. intros H Hi Hin. destruct (chain_vac H Hin) as [v' [n Hn]]. congruence. Qed.

Lemma Forall_upd {A} (P : A -> Prop) l i x : Forall P l -> P x -> Forall P (upd l i x).
Proof.
  intros Hl Hx. revert i. induction Hl; intros [|i]; simpl; constructor; auto.
Qed.

Lemma Forall_nth {A} (P : A -> Prop) l i x : Forall P l -> nth_error l i = Some x -> P x.
Proof. intros H Hn. rewrite Forall_forall in H. apply H. eapply nth_error_In; eauto. Qed.
Arguments Forall_nth {A P l i x} _ _.

Lemma odd_lor_1 v : N.odd (N.lor v 1) = true.
Proof. rewrite <- N.bit0_odd, N.lor_spec. rewrite (N.bit0_odd 1). simpl. apply orb_true_r. Qed.

Lemma odd_wrap32_succ v : N.odd (wrap32 (v + 1)) = negb (N.odd v).
Proof.
  unfold wrap32. rewrite <- N.bit0_odd. rewrite N.mod_pow2_bits_low by reflexivity.
  rewrite N.bit0_odd, N.add_1_r, N.odd_succ. rewrite <- N.negb_odd. reflexivity.
Qed.

(* slot_keys is insensitive to the stored value *)
Lemma slot_keys_upd_same {V} (l : list (slot V)) j ver v0 v i :
  nth_error l j = Some (mkSlot ver (Occ v0)) -> slot_keys (upd l j (mkSlot ver (Occ v))) i = slot_keys l i.
Proof.
  revert j i. induction l as [|s r IH]; intros [|j] i H; simpl in *; try discriminate.
  - inversion H. reflexivity.
  - rewrite (IH j (S i) H). reflexivity.
Qed.

Lemma sm_set_keys {V} (m m' : slotmap V) k v : sm_set m k v = Ok m' -> sm_keys m' = sm_keys m.
Proof.
  intros H. apply sm_set_inv in H. destruct H as [old [Ho ->]]. apply sm_get_Some in Ho.
  unfold sm_keys. simpl. eapply slot_keys_upd_same. exact Ho.
Qed.
Arguments sm_set_keys {V m m' k v} _.

Lemma sm_set_preserves_inv {V} (m m' : slotmap V) k v : sm_set m k v = Ok m' -> sm_inv m -> sm_inv m'.
Proof.
  intros H Hi. pose proof (sm_set_keys H) as Hk.
  apply sm_set_inv in H. destruct H as [old [Ho ->]]. apply sm_get_Some in Ho.
  destruct Hi as [[fl [Hnd [H0 Hc]]] Hp [sv [sn Hs]] Hn]. constructor; cbn [sm_slots sm_free sm_num].
  - exists fl. repeat split; auto. apply chain_upd; auto. eapply chain_occ_notin; eauto.
  - apply Forall_upd; auto. pose proof (Forall_nth Hp Ho) as Hq. exact Hq.
  - exists sv, sn. rewrite nth_error_upd_neq; auto. intros E. rewrite E in Ho. congruence.
  - rewrite Hk. exact Hn.
Qed.
Arguments sm_set_preserves_inv {V m m' k v} _ _.

(* ------------------------------------------------------------------ insert *)

Lemma sm_insert_spec {V} (m : slotmap V) v : sm_inv m ->
  sm_get m (snd (sm_insert m v)) = None /\
  (forall k', sm_get (fst (sm_insert m v)) k' = if key_eqb (snd (sm_insert m v)) k' then Some v else sm_get m k') /\
  sm_inv (fst (sm_insert m v)).
Proof.
  intros Hi. pose proof Hi as [[fl [Hnd [H0 Hc]]] Hp [sv [sn Hs]] Hn].
  assert (Hlen : 0 < length (sm_slots m)) by (eapply nth_error_Some_lt; eauto).
  (* first: get of the new key before, get after; the invariant pieces that need the keys come last *)
  assert (Hcore : sm_get m (snd (sm_insert m v)) = None /\
                  (forall k', sm_get (fst (sm_insert m v)) k' = if key_eqb (snd (sm_insert m v)) k' then Some v else sm_get m k') /\
                  (exists fl', NoDup fl' /\ ~ In 0 fl' /\ chain (sm_slots (fst (sm_insert m v))) (sm_free (fst (sm_insert m v))) fl') /\
                  Forall (fun s => N.odd (s_ver s) = is_occ s) (sm_slots (fst (sm_insert m v))) /\
                  (exists v' n', nth_error (sm_slots (fst (sm_insert m v))) 0 = Some (mkSlot v' (Vac n'))) /\
                  sm_num (fst (sm_insert m v)) = S (sm_num m)).
  { unfold sm_insert. destruct (nth_error (sm_slots m) (sm_free m)) as [s|] eqn:Ef.
    - (* reuse the head of the free list *)
      destruct fl as [|x r]; simpl in Hc.
      { apply nth_error_Some_lt in Ef. lia. }
      destruct Hc as [Hx [fv [fn [Hfx Hr]]]]. subst x. rewrite Ef in Hfx. inversion Hfx; subst s. clear Hfx.
      cbn [fst snd sm_slots sm_free sm_num s_ver s_cont]. inversion Hnd; subst. pose proof (nth_error_Some_lt Ef) as Hlt.
      repeat split.
      + eapply sm_get_None_vac. simpl. exact Ef.
      + intros k'. destruct (key_eqb_spec (sm_free m, N.lor fv 1) k') as [<-|Hne].
        * apply sm_get_Some. simpl. apply nth_error_upd_eq. exact Hlt.
        * destruct (Nat.eq_dec (sm_free m) (fst k')) as [He|He].
          -- assert (Hv : N.lor fv 1 <> snd k') by (destruct k'; simpl in *; congruence).
             unfold sm_get at 1. simpl. rewrite <- He. rewrite nth_error_upd_eq by exact Hlt. simpl.
             destruct (N.eqb_spec (N.lor fv 1) (snd k')); [congruence|].
             symmetry. eapply sm_get_None_vac. rewrite <- He. exact Ef.
          -- unfold sm_get. simpl. rewrite nth_error_upd_neq by exact He. reflexivity.
      + exists r. repeat split; auto.
        * simpl in H0. intuition.
        * apply chain_upd; auto.
      + apply Forall_upd; auto. simpl. apply odd_lor_1.
      + exists sv, sn. rewrite nth_error_upd_neq; auto. simpl in H0. intuition.
    - (* push a new slot *)
      destruct fl as [|x r]; simpl in Hc.
      2:{ destruct Hc as [Hx [fv [fn [Hfx _]]]]. subst x. congruence. }
      cbn [fst snd sm_slots sm_free sm_num s_ver s_cont]. repeat split.
      + apply sm_get_None_oob. simpl. apply nth_error_None. lia.
      + intros k'. destruct (key_eqb_spec (length (sm_slots m), 1%N) k') as [<-|Hne].
        * apply sm_get_Some. cbn [fst snd sm_slots]. rewrite nth_error_app2 by lia. rewrite Nat.sub_diag. reflexivity.
        * destruct (Nat.lt_ge_cases (fst k') (length (sm_slots m))) as [Hl|Hl].
          -- unfold sm_get. cbn [sm_slots]. rewrite nth_error_app1 by exact Hl. reflexivity.
          -- assert (Hn' : sm_get m k' = None) by (apply sm_get_None_oob; apply nth_error_None; lia).
             rewrite Hn'. unfold sm_get. cbn [sm_slots].
             destruct (Nat.eq_dec (fst k') (length (sm_slots m))) as [He|He].
             ++ rewrite He, nth_error_app2 by lia. rewrite Nat.sub_diag. cbn [nth_error s_ver s_cont].
                destruct (N.eqb_spec 1 (snd k')) as [E1|E1]; [|reflexivity].
                exfalso. apply Hne. destruct k'; simpl in *; congruence.
             ++ assert (Hoob : nth_error (sm_slots m ++ [{| s_ver := 1; s_cont := Occ v |}]) (fst k') = None)
                  by (apply nth_error_None; rewrite app_length; simpl; lia).
                rewrite Hoob. reflexivity.
      + exists []. repeat split; auto. simpl. rewrite app_length. simpl. lia.
      + apply Forall_app. split; auto.
      + exists sv, sn. rewrite nth_error_app1 by exact Hlen. exact Hs. }
  destruct Hcore as [Hnone [Hget [Hch [Hpar [Hsen Hnum]]]]].
  split; [exact Hnone|]. split; [exact Hget|].
  constructor; auto.
  rewrite Hnum, Hn.
  transitivity (length (snd (sm_insert m v) :: sm_keys m)); [reflexivity|].
  symmetry. apply NoDup_same_length.
  - apply sm_keys_NoDup.
  - constructor; [|apply sm_keys_NoDup]. rewrite sm_keys_In'. rewrite Hnone. congruence.
  - intros k'. simpl. rewrite !sm_keys_In'. rewrite Hget.
    destruct (key_eqb_spec (snd (sm_insert m v)) k'); split; intros; try congruence; intuition congruence.
Qed.

(* ------------------------------------------------------------------ remove *)

Lemma sm_remove_spec {V} (m : slotmap V) k v0 : sm_inv m -> sm_get m k = Some v0 ->
  (forall k', sm_get (fst (sm_remove m k)) k' = if key_eqb k k' then None else sm_get m k') /\
  sm_inv (fst (sm_remove m k)) /\ snd (sm_remove m k) = Some v0.
Proof.
  intros Hi Hg. pose proof Hi as [[fl [Hnd [H0 Hc]]] Hp [sv [sn Hs]] Hn].
  unfold sm_remove. rewrite (sm_contains_get Hg). unfold sm_remove_from_slot.
  pose proof Hg as Hslot. apply sm_get_Some in Hslot. rewrite Hslot. simpl.
  pose proof (nth_error_Some_lt Hslot) as Hlt.
  assert (Hget : forall k', sm_get (mkSM (upd (sm_slots m) (fst k) (mkSlot (wrap32 (snd k + 1)) (Vac (sm_free m)))) (fst k) (pred (sm_num m))) k' =
                            if key_eqb k k' then None else sm_get m k').
  { intros k'. destruct (Nat.eq_dec (fst k) (fst k')) as [He|He].
    - transitivity (@None V).
      + eapply sm_get_None_vac. simpl. rewrite <- He. apply nth_error_upd_eq. exact Hlt.
      + destruct (key_eqb_spec k k') as [|Hne]; [reflexivity|].
        assert (Hv : snd k <> snd k') by (destruct k, k'; simpl in *; congruence).
        unfold sm_get. rewrite <- He, Hslot. simpl. destruct (N.eqb_spec (snd k) (snd k')); congruence.
    - destruct (key_eqb_spec k k') as [<-|Hne]; [congruence|].
      unfold sm_get. simpl. rewrite nth_error_upd_neq by exact He. reflexivity. }
  split; [exact Hget|]. split; [|reflexivity].
  assert (Hk0 : fst k <> 0) by (intros E; rewrite E in Hslot; congruence).
  assert (Hnotin : ~ In (fst k) fl) by (eapply chain_occ_notin; eauto).
  constructor; cbn [sm_slots sm_free sm_num].
  - exists (fst k :: fl). repeat split.
    + constructor; auto.
    + simpl. intuition.
    + exists (wrap32 (snd k + 1)), (sm_free m). split.
      * apply nth_error_upd_eq. exact Hlt.
      * apply chain_upd; auto.
  - apply Forall_upd; auto. simpl. rewrite odd_wrap32_succ.
    pose proof (Forall_nth Hp Hslot) as Hq. simpl in Hq. unfold is_occ in Hq. simpl in Hq. rewrite Hq. reflexivity.
  - exists sv, sn. rewrite nth_error_upd_neq; auto.
  - assert (Hlen : length (sm_keys m) = length (k :: sm_keys (mkSM (upd (sm_slots m) (fst k) (mkSlot (wrap32 (snd k + 1)) (Vac (sm_free m)))) (fst k) (pred (sm_num m))))).
    { apply NoDup_same_length.
      - apply sm_keys_NoDup.
      - constructor; [|apply sm_keys_NoDup]. rewrite sm_keys_In', Hget, key_eqb_refl. congruence.
      - intros k'. simpl. rewrite !sm_keys_In', Hget.
        destruct (key_eqb_spec k k') as [<-|Hne]; split; intros; try congruence; intuition congruence. }
    rewrite Hn, Hlen. simpl. unfold sm_keys. simpl. reflexivity.
Qed.

(* ------------------------------------------------------------------ set_all *)

Lemma sm_set_all_spec {V} (l : list key) : forall (m : slotmap V) x,
  (forall k, In k l -> sm_get m k <> None) ->
  exists m', sm_set_all m l x = Ok m' /\
             (forall k', sm_get m' k' = if mem k' l then Some x else sm_get m k') /\
             sm_keys m' = sm_keys m /\ (sm_inv m -> sm_inv m').
Proof.
  induction l as [|k r IH]; intros m x Hl; simpl.
  - exists m. split; [reflexivity|]. split; [intros; reflexivity|]. split; [reflexivity|auto].
  - destruct (sm_set_Ok m k x) as [m1 H1]; [apply Hl; left; reflexivity|]. rewrite H1. simpl.
    destruct (IH m1 x) as [m' [H2 [Hg [Hk Hi]]]].
    { intros k0 Hk0. rewrite (sm_get_set _ H1). destruct (key_eqb k k0); [congruence|]. apply Hl. right. exact Hk0. }
    exists m'. split; [exact H2|]. split; [|split].
    + intros k'. rewrite Hg. rewrite (sm_get_set _ H1). unfold mem. simpl. rewrite (key_eqb_sym k' k).
      destruct (key_eqb k k'); simpl; [|reflexivity]. destruct (existsb (key_eqb k') r); reflexivity.
    + rewrite Hk. eapply sm_set_keys; eauto.
    + intros Hm. apply Hi. eapply sm_set_preserves_inv; eauto.
Qed.

Lemma sm_set_all_live {V} (l : list key) : forall (m m' : slotmap V) x,
  sm_set_all m l x = Ok m' -> forall k, In k l -> sm_get m k <> None.
Proof.
  induction l as [|k r IH]; intros m m' x H k0 Hk0; simpl in *; [tauto|].
  destruct (sm_set m k x) as [m1|] eqn:H1; simpl in H; [|discriminate].
  destruct Hk0 as [<-|Hk0]; [eapply sm_set_live; eauto|].
  pose proof (IH _ _ _ H _ Hk0) as Hq. rewrite (sm_get_set _ H1) in Hq.
  destruct (key_eqb_spec k k0) as [<-|]; [eapply sm_set_live; eauto | exact Hq].
Qed.

(* ------------------------------------------------------------------ shapes *)
(* everything but the values: versions, occupancy, free list, counter *)
Definition cshape {V} (c : content V) : content unit := match c with Occ _ => Occ tt | Vac n => Vac n end.
Definition sshape {V} (s : slot V) : slot unit := mkSlot (s_ver s) (cshape (s_cont s)).
Definition shape {V} (m : slotmap V) : slotmap unit := mkSM (map (@sshape V) (sm_slots m)) (sm_free m) (sm_num m).

Lemma shape_get {V} (m : slotmap V) k : sm_get (shape m) k = option_map (fun _ => tt) (sm_get m k).
Proof.
  unfold sm_get, shape. simpl. rewrite nth_error_map.
  destruct (nth_error (sm_slots m) (fst k)) as [[ver c]|]; simpl; [|reflexivity].
  destruct (N.eqb ver (snd k)); [|reflexivity]. destruct c; reflexivity.
Qed.

Lemma shape_live {V} {W} (m1 : slotmap V) (m2 : slotmap W) k : shape m1 = shape m2 -> (sm_get m1 k <> None <-> sm_get m2 k <> None).
Proof.
  intros H. pose proof (shape_get m1 k) as H1. pose proof (shape_get m2 k) as H2. rewrite H in H1. rewrite H1 in H2.
  destruct (sm_get m1 k), (sm_get m2 k); simpl in *; split; congruence.
Qed.

Lemma shape_set {V} (m m' : slotmap V) k v : sm_set m k v = Ok m' -> shape m' = shape m.
Proof.
  intros H. apply sm_set_inv in H. destruct H as [old [Ho ->]]. apply sm_get_Some in Ho.
  unfold shape. simpl. f_equal. rewrite upd_map. apply upd_same. rewrite nth_error_map, Ho. reflexivity.
Qed.
Arguments shape_set {V m m' k v} _.

Lemma shape_set_all {V} (l : list key) : forall (m m' : slotmap V) x, sm_set_all m l x = Ok m' -> shape m' = shape m.
Proof.
  induction l as [|k r IH]; intros m m' x H; simpl in H.
  - inversion H. reflexivity.
  - destruct (sm_set m k x) as [m1|] eqn:H1; simpl in H; [|discriminate].
    rewrite (IH _ _ _ H). eapply shape_set; eauto.
Qed.

Lemma shape_insert {V} (m : slotmap V) v :
  shape (fst (sm_insert m v)) = fst (sm_insert (shape m) tt) /\ snd (sm_insert m v) = snd (sm_insert (shape m) tt).
Proof.
  unfold sm_insert, shape. simpl. rewrite nth_error_map.
  destruct (nth_error (sm_slots m) (sm_free m)) as [[ver c]|]; simpl.
  - split; [|reflexivity]. f_equal.
    + rewrite upd_map. reflexivity.
    + destruct c; reflexivity.
  - rewrite map_length. split; [|reflexivity]. f_equal. rewrite map_app. reflexivity.
Qed.

Lemma shape_insert_congr {V} {W} (m1 : slotmap V) (m2 : slotmap W) v w : shape m1 = shape m2 ->
  shape (fst (sm_insert m1 v)) = shape (fst (sm_insert m2 w)) /\ snd (sm_insert m1 v) = snd (sm_insert m2 w).
Proof.
  intros H. destruct (shape_insert m1 v) as [A1 B1]. destruct (shape_insert m2 w) as [A2 B2].
  rewrite A1, A2, B1, B2, H. auto.
Qed.

Lemma shape_contains {V} (m : slotmap V) k : sm_contains (shape m) k = sm_contains m k.
Proof.
  unfold sm_contains, shape. simpl. rewrite nth_error_map. destruct (nth_error (sm_slots m) (fst k)); reflexivity.
Qed.

Lemma shape_remove_from_slot {V} (m : slotmap V) i :
  shape (fst (sm_remove_from_slot m i)) = fst (sm_remove_from_slot (shape m) i).
Proof.
  unfold sm_remove_from_slot, shape. simpl. rewrite nth_error_map.
  destruct (nth_error (sm_slots m) i) as [[ver c]|]; simpl; [|reflexivity].
  f_equal. rewrite upd_map. reflexivity.
Qed.

Lemma shape_remove {V} (m : slotmap V) k : shape (fst (sm_remove m k)) = fst (sm_remove (shape m) k).
Proof.
  unfold sm_remove. rewrite shape_contains. destruct (sm_contains m k); [apply shape_remove_from_slot | reflexivity].
Qed.

Lemma shape_remove_congr {V} {W} (m1 : slotmap V) (m2 : slotmap W) k : shape m1 = shape m2 ->
  shape (fst (sm_remove m1 k)) = shape (fst (sm_remove m2 k)).
Proof. intros H. rewrite !shape_remove, H. reflexivity. Qed.

Lemma shape_keys {V} (m : slotmap V) : sm_keys (shape m) = sm_keys m.
Proof.
  unfold sm_keys, shape. simpl. generalize 0. induction (sm_slots m) as [|[ver c] r IH]; intros i; simpl; [reflexivity|].
  destruct c; simpl; rewrite IH; reflexivity.
Qed.

Lemma shape_keys_congr {V} {W} (m1 : slotmap V) (m2 : slotmap W) : shape m1 = shape m2 -> sm_keys m1 = sm_keys m2.
Proof. intros H. rewrite <- (shape_keys m1), <- (shape_keys m2), H. reflexivity. Qed.

Lemma shape_num {V} {W} (m1 : slotmap V) (m2 : slotmap W) : shape m1 = shape m2 -> sm_num m1 = sm_num m2.
Proof. intros H. apply (f_equal (@sm_num unit)) in H. exact H. Qed.

(* ------------------------------------------------------------------ clear *)

Definition clear_step {V} (acc : slotmap V) (idx : nat) : slotmap V :=
  match nth_error (sm_slots acc) idx with
  | Some s => if slot_occupied s then fst (sm_remove_from_slot acc idx) else acc
  | None => acc
  end.

Lemma sm_clear_fold {V} (m : slotmap V) : sm_clear m = fold_left clear_step (seq 1 (length (sm_slots m) - 1)) m.
Proof. reflexivity. Qed.

Lemma clear_step_spec {V} (m : slotmap V) idx : sm_inv m ->
  sm_inv (clear_step m idx) /\ length (sm_slots (clear_step m idx)) = length (sm_slots m) /\
  forall k, sm_get (clear_step m idx) k = if Nat.eqb (fst k) idx then None else sm_get m k.
Proof.
  intros Hi. unfold clear_step. destruct (nth_error (sm_slots m) idx) as [[ver c]|] eqn:E.
  - pose proof (Forall_nth (inv_parity m Hi) E) as Hpar. unfold is_occ in Hpar. cbn [s_ver s_cont] in Hpar.
    unfold slot_occupied. cbn [s_ver]. destruct c as [v|nf].
    + rewrite Hpar.
      assert (Hg : sm_get m (idx, ver) = Some v) by (apply sm_get_Some; exact E).
      destruct (sm_remove_spec m (idx, ver) v Hi Hg) as [G [I _]].
      assert (Eq : sm_remove m (idx, ver) = sm_remove_from_slot m idx).
      { unfold sm_remove. rewrite (sm_contains_get Hg). reflexivity. }
      rewrite Eq in G, I. split; [exact I|]. split.
      * unfold sm_remove_from_slot. rewrite E. cbn [fst sm_slots]. apply upd_length.
      * intros k. rewrite G. destruct (Nat.eqb_spec (fst k) idx) as [Ek|Ek].
        -- destruct (key_eqb_spec (idx, ver) k) as [|Hne]; [reflexivity|].
           unfold sm_get. rewrite Ek, E. cbn [s_ver s_cont].
           destruct (N.eqb_spec ver (snd k)) as [Ev|]; [|reflexivity].
           exfalso. apply Hne. destruct k; simpl in *; congruence.
        -- destruct (key_eqb_spec (idx, ver) k) as [<-|Hne]; [simpl in Ek; congruence | reflexivity].
    + rewrite Hpar. split; [exact Hi|]. split; [reflexivity|].
      intros k. destruct (Nat.eqb_spec (fst k) idx) as [Ek|Ek]; [|reflexivity].
      eapply sm_get_None_vac. rewrite Ek. exact E.
  - split; [exact Hi|]. split; [reflexivity|].
    intros k. destruct (Nat.eqb_spec (fst k) idx) as [Ek|Ek]; [|reflexivity].
    apply sm_get_None_oob. rewrite Ek. exact E.
Qed.

Lemma fold_clear_spec {V} (is : list nat) : forall (m : slotmap V), sm_inv m ->
  sm_inv (fold_left clear_step is m) /\ length (sm_slots (fold_left clear_step is m)) = length (sm_slots m) /\
  forall k, sm_get (fold_left clear_step is m) k = if existsb (Nat.eqb (fst k)) is then None else sm_get m k.
Proof.
  induction is as [|i r IH]; intros m Hi; simpl.
  - split; [exact Hi|]. split; reflexivity.
  - destruct (clear_step_spec m i Hi) as [I1 [L1 G1]]. destruct (IH _ I1) as [I2 [L2 G2]].
    split; [exact I2|]. split; [congruence|]. intros k. rewrite G2, G1.
    destruct (Nat.eqb (fst k) i); simpl; [|reflexivity]. destruct (existsb (Nat.eqb (fst k)) r); reflexivity.
Qed.

Lemma sm_clear_spec {V} (m : slotmap V) : sm_inv m -> sm_inv (sm_clear m) /\ forall k, sm_get (sm_clear m) k = None.
Proof.
  intros Hi. rewrite sm_clear_fold. destruct (fold_clear_spec (seq 1 (length (sm_slots m) - 1)) m Hi) as [I [_ G]].
  split; [exact I|]. intros k. rewrite G.
  destruct (existsb (Nat.eqb (fst k)) (seq 1 (length (sm_slots m) - 1))) eqn:Ex; [reflexivity|].
  destruct (inv_sentinel m Hi) as [sv [sn Hs]].
  destruct (Nat.eq_dec (fst k) 0) as [E0|E0].
  - eapply sm_get_None_vac. rewrite E0. exact Hs.
  - apply sm_get_None_oob. apply nth_error_None.
    destruct (Nat.lt_ge_cases (fst k) (length (sm_slots m))) as [Hlt|Hge]; [|exact Hge].
    exfalso. assert (Ht : existsb (Nat.eqb (fst k)) (seq 1 (length (sm_slots m) - 1)) = true).
    { apply existsb_exists. exists (fst k). split; [apply in_seq; lia | apply Nat.eqb_refl]. }
    congruence.
Qed.

Lemma shape_clear_step {V} (m : slotmap V) idx : shape (clear_step m idx) = clear_step (shape m) idx.
Proof.
  unfold clear_step. cbn [shape sm_slots]. rewrite nth_error_map.
  destruct (nth_error (sm_slots m) idx) as [s|]; [|reflexivity]. cbn [option_map].
  unfold slot_occupied. cbn [sshape s_ver]. destruct (N.odd (s_ver s)); [apply shape_remove_from_slot | reflexivity].
Qed.

Lemma shape_clear {V} (m : slotmap V) : shape (sm_clear m) = sm_clear (shape m).
Proof.
  rewrite !sm_clear_fold. cbn [shape sm_slots]. rewrite map_length.
  generalize (seq 1 (length (sm_slots m) - 1)). intros is. revert m.
  induction is as [|i r IH]; intros m; simpl; [reflexivity|]. rewrite IH, shape_clear_step. reflexivity.
Qed.

Lemma sm_keys_nil {V} (m : slotmap V) : (forall k, sm_get m k = None) -> sm_keys m = [].
Proof.
  intros H. destruct (sm_keys m) as [|k r] eqn:E; [reflexivity|]. exfalso.
  assert (Hk : In k (sm_keys m)) by (rewrite E; left; reflexivity). apply sm_keys_In' in Hk. apply Hk, H.
Qed.

(* ------------------------------------------------------------------ slot reuse: versions only grow *)

(* the u32 version of no slot is about to wrap (2^31 remove/insert cycles of one slot are needed to get there) *)
Definition no_wrap {V} (m : slotmap V) : Prop := Forall (fun s => (s_ver s + 1 < 2 ^ 32)%N) (sm_slots m).

(* the slot of k has moved past k's version: k was handed out earlier and removed since *)
Definition spent {V} (m : slotmap V) (k : key) : Prop :=
  exists s, nth_error (sm_slots m) (fst k) = Some s /\ (snd k < s_ver s)%N.

Lemma spent_dead {V} (m : slotmap V) k : spent m k -> sm_get m k = None.
Proof.
  intros [s [Hs Hlt]]. unfold sm_get. rewrite Hs. destruct (N.eqb_spec (s_ver s) (snd k)); [lia | reflexivity].
Qed.

Lemma le_lor_1 v : (v <= N.lor v 1)%N.
Proof.
  destruct v as [|p]; simpl; [lia|]. destruct p; simpl; lia.
Qed.

Lemma spent_insert {V} (m : slotmap V) v k : spent m k ->
  spent (fst (sm_insert m v)) k /\ snd (sm_insert m v) <> k.
Proof.
  intros [s [Hs Hlt]]. unfold sm_insert. destruct (nth_error (sm_slots m) (sm_free m)) as [s0|] eqn:Ef; cbn [fst snd sm_slots].
  - destruct (Nat.eq_dec (sm_free m) (fst k)) as [E|E].
    + rewrite E in Ef. assert (s0 = s) by congruence. subst s0. pose proof (le_lor_1 (s_ver s)). split.
      * exists (mkSlot (N.lor (s_ver s) 1) (Occ v)). cbn [sm_slots]. split; [rewrite E; apply nth_error_upd_eq; eapply nth_error_Some_lt; eauto|].
        simpl. lia.
      * intros Hk. rewrite <- Hk in Hlt. simpl in Hlt. lia.
    + split.
      * exists s. cbn [sm_slots]. rewrite nth_error_upd_neq by exact E. auto.
      * intros Hk. apply E. rewrite <- Hk. reflexivity.
  - pose proof (nth_error_Some_lt Hs) as Hl. split.
    + exists s. cbn [sm_slots]. rewrite nth_error_app1 by exact Hl. auto.
    + intros Hk. rewrite <- Hk in Hl. simpl in Hl. lia.
Qed.

Lemma spent_set {V} (m m' : slotmap V) k' v k : sm_set m k' v = Ok m' -> spent m k -> spent m' k.
Proof.
  intros H [s [Hs Hlt]]. apply sm_set_inv in H. destruct H as [old [Ho ->]]. apply sm_get_Some in Ho. cbn [sm_slots].
  destruct (Nat.eq_dec (fst k') (fst k)) as [E|E].
  - rewrite E in Ho. assert (Es : s = mkSlot (snd k') (Occ old)) by congruence. subst s. simpl in Hlt.
    exists (mkSlot (snd k') (Occ v)). cbn [sm_slots]. split; [rewrite E; apply nth_error_upd_eq; eapply nth_error_Some_lt; eauto | exact Hlt].
  - exists s. cbn [sm_slots]. rewrite nth_error_upd_neq by exact E. auto.
Qed.

Lemma wrap32_succ_small v : (v + 1 < 2 ^ 32)%N -> wrap32 (v + 1) = (v + 1)%N.
Proof. intros H. unfold wrap32. apply N.mod_small. exact H. Qed.

Lemma spent_remove_from_slot {V} (m : slotmap V) i k : no_wrap m -> spent m k -> spent (fst (sm_remove_from_slot m i)) k.
Proof.
  intros Hw [s [Hs Hlt]]. unfold sm_remove_from_slot. destruct (nth_error (sm_slots m) i) as [si|] eqn:Ei; cbn [fst sm_slots].
  - destruct (Nat.eq_dec i (fst k)) as [E|E].
    + rewrite E in Ei. assert (si = s) by congruence. subst si.
      pose proof (Forall_nth Hw Hs) as Hws. cbv beta in Hws.
      exists (mkSlot (wrap32 (s_ver s + 1)) (Vac (sm_free m))). cbn [sm_slots]. split.
      * rewrite E. apply nth_error_upd_eq. eapply nth_error_Some_lt; eauto.
      * simpl. rewrite (wrap32_succ_small _ Hws). lia.
    + exists s. cbn [sm_slots]. rewrite nth_error_upd_neq by exact E. auto.
  - exists s. auto.
Qed.

Lemma spent_remove {V} (m : slotmap V) k' k : no_wrap m -> spent m k -> spent (fst (sm_remove m k')) k.
Proof.
  intros Hw Hs. unfold sm_remove. destruct (sm_contains m k'); [apply spent_remove_from_slot; assumption | exact Hs].
Qed.

Lemma remove_spends {V} (m : slotmap V) k v : no_wrap m -> sm_get m k = Some v -> spent (fst (sm_remove m k)) k.
Proof.
  intros Hw Hg. unfold sm_remove. rewrite (sm_contains_get Hg). apply sm_get_Some in Hg.
  unfold sm_remove_from_slot. rewrite Hg. cbn [fst sm_slots s_ver].
  pose proof (Forall_nth Hw Hg) as Hws. cbv beta in Hws. cbn [s_ver] in Hws.
  exists (mkSlot (wrap32 (snd k + 1)) (Vac (sm_free m))). cbn [sm_slots]. split.
  - apply nth_error_upd_eq. eapply nth_error_Some_lt; eauto.
  - simpl. rewrite (wrap32_succ_small _ Hws). lia.
Qed.

(* clear: every slot keeps its version or, if it was occupied, gets the next one *)
Definition bumped {V} (m m' : slotmap V) : Prop :=
  forall j s, nth_error (sm_slots m) j = Some s ->
              exists s', nth_error (sm_slots m') j = Some s' /\
                         (s_ver s' = s_ver s \/ (N.odd (s_ver s) = true /\ s_ver s' = wrap32 (s_ver s + 1))).

Lemma bumped_refl {V} (m : slotmap V) : bumped m m.
Proof. intros j s H. exists s. auto. Qed.

Lemma bumped_trans {V} (a b c : slotmap V) : bumped a b -> bumped b c -> bumped a c.
Proof.
  intros H1 H2 j s Hs. destruct (H1 j s Hs) as [s1 [Hs1 V1]]. destruct (H2 j s1 Hs1) as [s2 [Hs2 V2]].
  exists s2. split; [exact Hs2|]. destruct V1 as [E1|[O1 E1]], V2 as [E2|[O2 E2]].
  - left. congruence.
  - right. rewrite <- E1. auto.
  - right. split; [exact O1 | congruence].
  - exfalso. rewrite E1, odd_wrap32_succ, O1 in O2. discriminate.
Qed.

Lemma bumped_clear_step {V} (m : slotmap V) idx : bumped m (clear_step m idx).
Proof.
  unfold clear_step. destruct (nth_error (sm_slots m) idx) as [si|] eqn:Ei; [|apply bumped_refl].
  unfold slot_occupied. destruct (N.odd (s_ver si)) eqn:Eo; [|apply bumped_refl].
  unfold sm_remove_from_slot. rewrite Ei. cbn [fst]. intros j s Hs. cbn [sm_slots].
  destruct (Nat.eq_dec idx j) as [E|E].
  - subst j. assert (si = s) by congruence. subst si.
    exists (mkSlot (wrap32 (s_ver s + 1)) (Vac (sm_free m))). cbn [sm_slots]. split; [apply nth_error_upd_eq; eapply nth_error_Some_lt; eauto|].
    right. auto.
  - exists s. cbn [sm_slots]. rewrite nth_error_upd_neq by exact E. auto.
Qed.

Lemma bumped_clear {V} (m : slotmap V) : bumped m (sm_clear m).
Proof.
  rewrite sm_clear_fold. generalize (seq 1 (length (sm_slots m) - 1)). intros is. revert m.
  induction is as [|i r IH]; intros m; simpl; [apply bumped_refl|].
  eapply bumped_trans; [apply bumped_clear_step | apply IH].
Qed.

Lemma spent_clear {V} (m : slotmap V) k : no_wrap m -> spent m k -> spent (sm_clear m) k.
Proof.
  intros Hw [s [Hs Hlt]]. destruct (bumped_clear m (fst k) s Hs) as [s' [Hs' Hv]]. exists s'. split; [exact Hs'|].
  destruct Hv as [E|[_ E]]; [lia|]. pose proof (Forall_nth Hw Hs) as Hws. cbv beta in Hws.
  rewrite E, (wrap32_succ_small _ Hws). lia.
Qed.
