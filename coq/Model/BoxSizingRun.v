(* Executable driver of the C12 correspondence check.  A case of `vh c12 cases` is a C19 case (62 integers, see
   harness/src/c19.rs and Model/LeafRun.v) whose style is eligible and content-box.  The runner evaluates, over the bit-exact
   F32 instance, the SAME definitions the theorems of Props/C12.v are about -- root_leaf / compute_leaf_layout on the style and
   on `to_border_box` of the style -- and prints both results in the encoding of Model/LeafRun.v:
       [length r1] ++ r1 ++ r2
   The harness prints the implementation's results for the content-box style and for ITS OWN rewrite of it to border-box, so
   the diff also ties Model.BoxSizing.to_border_box (over F32) to the rewrite the oracle `vh c12 oracle` applies. *)
From Coq Require Import ZArith List Bool.
From TV Require Import Num.F32 Model.Common Model.Leaf Model.Root Model.MeasureFamily Model.LeafRun Model.BoxSizing.
Import ListNotations.
Open Scope Z_scope.

(* Model/LeafRun.v run_case with the style as a parameter *)
Definition run_style (c : list Z) (st : Style f32) : list Z :=
  let measure := family_measure (dec_ctx c) in
  if nthz c 0 =? 0 then
    match root_leaf st measure (dec_size dec_avail c 48) with
    | Some (l, calls) =>
        [1; zf (px (l_location l)); zf (py (l_location l))] ++ enc_size (l_size l) ++ enc_size (l_content_size l)
        ++ enc_size (l_scrollbar_size l) ++ enc_rect (l_border l) ++ enc_rect (l_padding l) ++ enc_rect (l_margin l)
        ++ enc_calls calls
    | None => [0]
    end
  else
    match compute_leaf_layout (dec_input c) st measure with
    | Some (o, calls) =>
        [1] ++ enc_size (out_size o) ++ enc_size (out_content_size o)
        ++ [b2z (match px (first_baselines o) with Some _ => true | None => false end);
            b2z (match py (first_baselines o) with Some _ => true | None => false end);
            zf (f_add (ms_positive (top_margin o)) (ms_negative (top_margin o)));
            zf (f_add (ms_positive (bottom_margin o)) (ms_negative (bottom_margin o)));
            b2z (margins_can_collapse_through o)]
        ++ enc_calls calls
    | None => [0]
    end.

Definition run_pair (c : list Z) : list Z :=
  let st := dec_style c in
  if eligibleb st then
    let r1 := run_style c st in
    let r2 := run_style c (to_border_box st) in
    Z.of_nat (length r1) :: r1 ++ r2
  else [-1].
