(* A concrete well-behaved instance of the engine skeleton (same carrier types as Model/EngineToy.v), used as the
   non-vacuity witness of the layout-level history theorem: every box-generating child is queried once, in order,
   in the parent's own run mode; in PerformLayout mode its layout is stored right after the query; a display:none
   child receives the canonical hidden-child PerformLayout query followed by set_unrounded_layout(with_order(index)),
   and is left alone in ComputeSize mode.  It satisfies WF, H1, H3, NS and HQ (Proofs/EngineLayoutsToy.v).
   (t_algo of Model/EngineToy.v does not: it stores layouts in every run mode, like taffy's block algorithm.) *)
From Coq Require Import List Bool Arith NArith Lia.
From TV Require Import Model.Engine Model.EngineToy.
Import ListNotations.

Fixpoint lall (st : list TS) (k : nat) (i : TIn) (acc : N) : Alg TIn TOut TLay :=
  match st with
  | [] => Ret _ _ _ acc
  | s :: st' =>
      if t_is_none s then
        match t_mode i with
        | PerformLayout =>
            Query _ _ _ k hidden_child_key (fun _ => SetLayout _ _ _ k (N.of_nat k + 100)%N (lall st' (S k) i acc))
        | _ => lall st' (S k) i acc
        end
      else
        Query _ _ _ k i
              (fun o => match t_mode i with
                        | PerformLayout => SetLayout _ _ _ k (o + 1)%N (lall st' (S k) i (acc + o)%N)
                        | _ => lall st' (S k) i (acc + o)%N
                        end)
  end.

Definition l_algo (s : TS) (st : list TS) (i : TIn) : Alg TIn TOut TLay :=
  match t_mode i with
  | PerformLayout => lall st 0 i (fst s + snd i)%N
  | ComputeSize => lall st 0 i (fst s + snd i + 7)%N
  | PerformHiddenLayout => Ret _ _ _ 0%N
  end.

Definition l_memo := memo TS TIn TOut TLay t_mode t_in_eqb t_is_none 0%N 0%N l_algo.
