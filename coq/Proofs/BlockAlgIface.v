(* The interface hypotheses of the engine theorems of C01 / C15, for the BLOCK resumption (Model/BlockAlg.v `block_alg`) with an
   absolute-item routine that issues one PerformLayout query to its item and then stores that item's layout (`AbsChildQS`: the real routine
   Model/BlockAbs.v `abs_child_block` and the simple one):

     block_alg_WF    WFAlg: no hidden-mode query -- every query of the block algorithm is a PerformLayout query
     block_alg_HQ    NoHiddenSize: a display:none child never receives a ComputeSize query (there is no ComputeSize query at all)
     block_alg_H1    Visits: a PerformLayout evaluation PerformLayout-queries every child (in-flow pass, absolute pass, hidden pass)
     block_alg_H3    SetsLast: ... and stores a layout for every child, a display:none child's after its only query
   for every preprocessing `pre` that keeps the run mode.  NS (a ComputeSize evaluation stores nothing) is FALSE for this algorithm:
   known finding computesize-scribble (C01_layouts_refuted_for_scribbling_algorithms). *)
From Coq Require Import ZArith Bool List Arith Lia.
From TV Require Import Num.Num Gen.BlockGen Model.Block Model.Engine.
From TV Require Import Model.FiltersBase Gen.FiltersGen Model.ItemFilters Model.BlockAlg Model.BlockAbs.
From TV Require Import Model.EngineLayouts Proofs.EngineDirty Proofs.EngineNoScribble Proofs.EngineIface Proofs.BlockAlgBlind Proofs.BlockTreeFlow.
From TV Require Proofs.FlexAlgIface.
Import ListNotations.
Close Scope Z_scope.

Module FI := Proofs.FlexAlgIface.

Section BlockIface.
  Context {T : Type} `{Num T}.
  Notation BAlg := (Engine.Alg (BIn T) (ChildOut T) (BLayout T)).
  Notation Query := (Engine.Query (BIn T) (ChildOut T) (BLayout T)).
  Notation SetLayout := (Engine.SetLayout (BIn T) (ChildOut T) (BLayout T)).
  Notation Ret := (Engine.Ret (BIn T) (ChildOut T) (BLayout T)).
  Notation bmode := (@bi_mode T).
  Notation Vis := (Visits (BIn T) (ChildOut T) (BLayout T) bmode).
  Notation SL := (SetsLast (BIn T) (ChildOut T) (BLayout T)).
  Notation bnones := (nones (BStyle T) bs_is_none).
  Notation is_absi a := (position_is_absolute (it_position (ai_item a))).
  Notation AItem := (@BlockAlg.AItem T).
  Notation minus := FI.minus.

  (* one PerformLayout query to the item's node, then its layout is stored, then the continuation *)
  Definition AbsChildQS (abs_child : @AbsChild T) : Prop :=
    forall st sz a r K, exists i k, bi_mode i = PerformLayout /\ abs_child st sz a r K = Query (ai_node a) i k /\
                                    forall o, exists l v, k o = SetLayout (ai_node a) l (K v).

  Lemma abs_child_block_qs : AbsChildQS (abs_child_block (T := T)).
  Proof.
    intros st sz a r K. unfold abs_child_block. eexists _, _. split; [|split; [reflexivity|]]; [reflexivity|].
    intros o. eexists _, _. reflexivity.
  Qed.
  Lemma abs_child_simple_qs : AbsChildQS (abs_child_simple (T := T)).
  Proof.
    intros st sz a r K. unfold abs_child_simple. eexists _, _. split; [|split; [reflexivity|]]; [reflexivity|].
    intros o. eexists _, _. reflexivity.
  Qed.

  (* ---- the node sets of the three passes *)
  Definition inodes (l : list AItem) : list nat := map ai_node (filter (fun a => negb (is_absi a)) l).
  Definition anodes (l : list AItem) : list nat := map ai_node (filter (fun a => is_absi a) l).
  Fixpoint hnodes (flags : list bool) (order : nat) : list nat :=
    match flags with
    | [] => []
    | h :: r => if h then order :: hnodes r (S order) else hnodes r (S order)
    end.

  Lemma hnodes_in flags : forall order c, order <= c -> nth_error flags (c - order) = Some true -> In c (hnodes flags order).
  Proof.
    induction flags as [|h r IH]; intros order c Hle Hn; [destruct (c - order); discriminate|].
    cbn [hnodes]. destruct (Nat.eq_dec c order) as [->|Hne].
    - rewrite Nat.sub_diag in Hn. injection Hn as ->. left. reflexivity.
    - assert (Hin : In c (hnodes r (S order))).
      { apply IH; [lia|]. replace (c - order) with (S (c - S order)) in Hn by lia. exact Hn. }
      destruct h; [right; exact Hin|exact Hin].
  Qed.

  (* every child is visited by one of the passes *)
  Lemma passes_cover children nis c : c < length children ->
    In c (inodes (block_alg_items children nis)) \/ In c (anodes (block_alg_items children nis)) \/
    In c (hnodes (map (s_hidden bs_bgm) children) 0).
  Proof.
    intros Hc. destruct (nth_error children c) as [s|] eqn:E; [|apply nth_error_None in E; lia].
    destruct (bs_is_none s) eqn:En.
    - right. right. apply hnodes_in; [lia|]. rewrite Nat.sub_0_r, nth_error_map, E. cbn. f_equal. exact En.
    - destruct (alg_items_complete children nis c s E En) as (k & a & Hk & Ea). apply nth_error_In in Hk.
      destruct (is_absi a) eqn:Eab; [right; left|left]; unfold anodes, inodes; apply in_map_iff; exists a; (split; [exact Ea|]);
        apply filter_In; (split; [exact Hk|]); rewrite Eab; reflexivity.
  Qed.

  Lemma items_not_none children nis a : In a (block_alg_items children nis) -> bnones children (ai_node a) = false.
  Proof.
    intros Hin. destruct (alg_items_sound children nis a Hin) as (Hn & Hv & _). unfold nones. rewrite Hn. exact Hv.
  Qed.

  (* ------------------------------------------------------------------ per-event properties: every query is a PerformLayout query *)
  Section Closed.
    Variable P : BAlg -> Prop.
    Hypothesis Pr : forall o, P (Ret o).
    Hypothesis Pq : forall c i k, bi_mode i = PerformLayout -> (forall o, P (k o)) -> P (Query c i k).
    Hypothesis Ps : forall c l k, P k -> P (SetLayout c l k).

    Lemma cw_closed aw : forall items mx (k : T -> BAlg), (forall m, P (k m)) -> P (content_width_alg aw items mx k).
    Proof.
      induction items as [|a rest IH]; intros mx k Hk; cbn [content_width_alg]; [apply Hk|].
      destruct (is_absi a); [apply IH; exact Hk|]. cbv zeta.
      destruct (s_w (sz_maybe_clamp (it_size (ai_item a)) (it_min_size (ai_item a)) (it_max_size (ai_item a)))); [apply IH; exact Hk|].
      apply Pq; [reflexivity|]. intros o. apply IH. exact Hk.
    Qed.

    Lemma inflow_closed Pm : forall items st acc (k : State T -> list (AItem * ItemResult T) -> BAlg),
      (forall s ars, P (k s ars)) -> P (inflow_alg Pm st items acc k).
    Proof.
      induction items as [|a rest IH]; intros st acc k Hk; cbn [inflow_alg]; [apply Hk|].
      destruct (is_absi a); [apply IH; exact Hk|]. apply Pq; [reflexivity|]. intros co. apply Ps. apply IH. exact Hk.
    Qed.

    Lemma abs_closed abs_child (Hqs : AbsChildQS abs_child) st sz : forall ars content (k : BSize T -> BAlg),
      (forall c, P (k c)) -> P (abs_pass abs_child st sz ars content k).
    Proof.
      induction ars as [|[a r] rest IH]; intros content k Hk; cbn [abs_pass]; [apply Hk|].
      destruct (is_absi a); [|apply IH; exact Hk].
      destruct (Hqs st sz a r (fun contribution => abs_pass abs_child st sz rest (sz_fmax content contribution) k))
        as (i & kk & Em & -> & Hkk).
      apply Pq; [exact Em|]. intros o. destruct (Hkk o) as (l & v & ->). apply Ps. apply IH. exact Hk.
    Qed.

    Lemma hidden_closed : forall flags order k, P k -> P (hidden_pass flags order k).
    Proof.
      induction flags as [|h r IH]; intros order k Hk; cbn [hidden_pass]; [exact Hk|].
      destruct h; [|apply IH; exact Hk]. apply Pq; [reflexivity|]. intros _. apply Ps. apply IH. exact Hk.
    Qed.

    Lemma block_inner_closed abs_child (Hqs : AbsChildQS abs_child) st children inp : P (block_inner_alg abs_child st children inp).
    Proof.
      unfold block_inner_alg. cbv zeta.
      assert (Hafter : forall outer_w,
        P (match is_compute_size (bi_mode inp), s_h (bi_known inp) with
           | true, Some h => Ret (from_outer_size (mkSize outer_w h))
           | _, _ =>
               let Pm := block_params st (mkInput (bi_known inp) (bi_parent inp) (bi_collapsible inp)) outer_w in
               inflow_alg Pm (init_state Pm) (block_alg_items children (block_node_inner_size st (mkInput (bi_known inp) (bi_parent inp) (bi_collapsible inp)))) []
                 (fun stF ars =>
                    let io := inflow_finish Pm stF (map snd ars) in
                    let outer_h := block_outer_height st (mkInput (bi_known inp) (bi_parent inp) (bi_collapsible inp)) (io_height io) in
                    let sz := mkSize outer_w outer_h in
                    if is_compute_size (bi_mode inp) then Ret (from_outer_size sz)
                    else
                      abs_pass abs_child st sz ars sz_zero
                        (fun abs_content =>
                           hidden_pass (map (s_hidden bs_bgm) children) 0
                             (Ret (mkOut sz (sz_fmax (io_content_size io) abs_content)
                                         (fst (block_output_margins st (mkInput (bi_known inp) (bi_parent inp) (bi_collapsible inp)) io))
                                         (snd (block_output_margins st (mkInput (bi_known inp) (bi_parent inp) (bi_collapsible inp)) io))
                                         (block_can_collapse_through st (mkInput (bi_known inp) (bi_parent inp) (bi_collapsible inp)) (io_results io))))))
           end)).
      { intros outer_w.
        assert (Hmain : forall Pm items, P (inflow_alg Pm (init_state Pm) items []
                 (fun stF ars =>
                    let io := inflow_finish Pm stF (map snd ars) in
                    let outer_h := block_outer_height st (mkInput (bi_known inp) (bi_parent inp) (bi_collapsible inp)) (io_height io) in
                    let sz := mkSize outer_w outer_h in
                    if is_compute_size (bi_mode inp) then Ret (from_outer_size sz)
                    else
                      abs_pass abs_child st sz ars sz_zero
                        (fun abs_content =>
                           hidden_pass (map (s_hidden bs_bgm) children) 0
                             (Ret (mkOut sz (sz_fmax (io_content_size io) abs_content)
                                         (fst (block_output_margins st (mkInput (bi_known inp) (bi_parent inp) (bi_collapsible inp)) io))
                                         (snd (block_output_margins st (mkInput (bi_known inp) (bi_parent inp) (bi_collapsible inp)) io))
                                         (block_can_collapse_through st (mkInput (bi_known inp) (bi_parent inp) (bi_collapsible inp)) (io_results io)))))))).
        { intros Pm items. apply inflow_closed. intros s ars. cbv zeta. destruct (is_compute_size (bi_mode inp)); [apply Pr|].
          apply abs_closed; [exact Hqs|]. intros c. apply hidden_closed. apply Pr. }
        destruct (is_compute_size (bi_mode inp)); [|apply Hmain]. destruct (s_h (bi_known inp)); [apply Pr|apply Hmain]. }
      destruct (s_w (bi_known inp)); [apply Hafter|]. apply cw_closed. intros m. apply Hafter.
    Qed.
  End Closed.

  Theorem block_alg_WF pre abs_child (Hqs : AbsChildQS abs_child) st children inp :
    WFAlg (BIn T) (ChildOut T) (BLayout T) bmode (block_alg pre abs_child st children inp).
  Proof.
    unfold block_alg. apply block_inner_closed; [intros; apply WF_ret| |intros; apply WF_set; assumption|exact Hqs].
    intros c i k Em Hk. apply WF_query; [rewrite Em; discriminate|exact Hk].
  Qed.

  Theorem block_alg_HQ pre abs_child (Hqs : AbsChildQS abs_child) st children inp :
    NoHiddenSize (BIn T) (ChildOut T) (BLayout T) bmode (bnones children) (block_alg pre abs_child st children inp).
  Proof.
    unfold block_alg. apply block_inner_closed; [intros; apply NHS_ret| |intros; apply NHS_set; assumption|exact Hqs].
    intros c i k Em Hk. apply NHS_query; [rewrite Em; discriminate|exact Hk].
  Qed.

  (* ------------------------------------------------------------------ H1 *)
  Lemma cw_Vis aw : forall items mx (k : T -> BAlg) p, (forall m, Vis p (k m)) -> Vis p (content_width_alg aw items mx k).
  Proof.
    intros items mx k p Hk. apply (cw_closed (Vis p)); [|exact Hk]. intros c i kk _ Hkk. apply Vis_query_any. exact Hkk.
  Qed.

  Lemma inflow_Vis Pm : forall items st acc (k : State T -> list (AItem * ItemResult T) -> BAlg) p,
    (forall s ars, map fst ars = rev (map fst acc) ++ items -> Vis (minus p (inodes items)) (k s ars)) ->
    Vis p (inflow_alg Pm st items acc k).
  Proof.
    induction items as [|a rest IH]; intros st acc k p Hk; cbn [inflow_alg].
    - apply Hk. rewrite map_rev, app_nil_r. reflexivity.
    - unfold inodes in *. cbn [filter] in Hk. destruct (is_absi a) eqn:Ea; cbn [negb] in Hk.
      + apply IH. intros s ars E. apply Hk. rewrite E. cbn [map fst rev]. rewrite <- app_assoc. reflexivity.
      + apply Vis_qs; [reflexivity|]. intros co. eexists _, _. split; [reflexivity|].
        apply IH. intros s ars E. cbn [map FI.minus] in Hk. apply Hk. rewrite E. cbn [map fst rev]. rewrite <- app_assoc. reflexivity.
  Qed.

  Lemma abs_Vis abs_child (Hqs : AbsChildQS abs_child) st sz : forall ars content (k : BSize T -> BAlg) p,
    (forall c, Vis (minus p (anodes (map fst ars))) (k c)) -> Vis p (abs_pass abs_child st sz ars content k).
  Proof.
    induction ars as [|[a r] rest IH]; intros content k p Hk; cbn [abs_pass]; [apply Hk|].
    unfold anodes in *. cbn [map fst filter] in Hk. destruct (is_absi a) eqn:Ea; [|apply IH; exact Hk].
    destruct (Hqs st sz a r (fun contribution => abs_pass abs_child st sz rest (sz_fmax content contribution) k))
      as (i & kk & Em & -> & Hkk).
    apply Vis_qs; [exact Em|]. intros o. destruct (Hkk o) as (l & v & ->). eexists _, _. split; [reflexivity|].
    apply IH. intros c. cbn [map FI.minus] in Hk. apply Hk.
  Qed.

  Lemma hidden_Vis : forall flags order k p, Vis (minus p (hnodes flags order)) k -> Vis p (hidden_pass flags order k).
  Proof.
    induction flags as [|h r IH]; intros order k p Hk; cbn [hidden_pass hnodes] in *; [exact Hk|].
    destruct h; [|apply IH; exact Hk]. apply Vis_qs; [reflexivity|]. intros _. eexists _, _. split; [reflexivity|].
    apply IH. exact Hk.
  Qed.

  Theorem block_inner_H1 abs_child (Hqs : AbsChildQS abs_child) st children inp :
    bi_mode inp = PerformLayout -> Vis (seq 0 (length children)) (block_inner_alg abs_child st children inp).
  Proof.
    intros Em. unfold block_inner_alg. cbv zeta. rewrite Em. cbn [is_compute_size].
    set (binp := mkInput (bi_known inp) (bi_parent inp) (bi_collapsible inp)).
    set (items := block_alg_items children (block_node_inner_size st binp)).
    assert (Hafter : forall outer_w, Vis (seq 0 (length children))
      (let Pm := block_params st binp outer_w in
       inflow_alg Pm (init_state Pm) items []
         (fun stF ars =>
            let io := inflow_finish Pm stF (map snd ars) in
            let outer_h := block_outer_height st binp (io_height io) in
            let sz := mkSize outer_w outer_h in
            abs_pass abs_child st sz ars sz_zero
              (fun abs_content =>
                 hidden_pass (map (s_hidden bs_bgm) children) 0
                   (Ret (mkOut sz (sz_fmax (io_content_size io) abs_content)
                               (fst (block_output_margins st binp io)) (snd (block_output_margins st binp io))
                               (block_can_collapse_through st binp (io_results io)))))))).
    { intros outer_w. cbv zeta. apply inflow_Vis. intros s ars E. cbn [rev map app] in E.
      apply abs_Vis; [exact Hqs|]. intros c. apply hidden_Vis. rewrite E.
      rewrite FI.minus3_nil; [apply Vis_ret|]. intros x Hx. apply in_seq in Hx. apply passes_cover. lia. }
    destruct (s_w (bi_known inp)); [apply Hafter|]. apply cw_Vis. intros m. apply Hafter.
  Qed.

  (* ------------------------------------------------------------------ H3 *)
  Lemma cw_SL none aw : forall items mx (k : T -> BAlg) p, Forall (fun a => none (ai_node a) = false) items ->
    (forall m, SL none p (k m)) -> SL none p (content_width_alg aw items mx k).
  Proof.
    induction items as [|a rest IH]; intros mx k p Hn Hk; cbn [content_width_alg]; [apply Hk|].
    apply Forall_cons_iff in Hn. destruct Hn as [Ha Hn].
    destruct (is_absi a); [apply IH; assumption|]. cbv zeta.
    destruct (s_w (sz_maybe_clamp (it_size (ai_item a)) (it_min_size (ai_item a)) (it_max_size (ai_item a)))); [apply IH; assumption|].
    apply SL_query_visible; [exact Ha|]. intros o. apply IH; assumption.
  Qed.

  Lemma inflow_SL none Pm : forall items st acc (k : State T -> list (AItem * ItemResult T) -> BAlg) p,
    (forall s ars, map fst ars = rev (map fst acc) ++ items -> SL none (minus p (inodes items)) (k s ars)) ->
    SL none p (inflow_alg Pm st items acc k).
  Proof.
    induction items as [|a rest IH]; intros st acc k p Hk; cbn [inflow_alg].
    - apply Hk. rewrite map_rev, app_nil_r. reflexivity.
    - unfold inodes in *. cbn [filter] in Hk. destruct (is_absi a) eqn:Ea; cbn [negb] in Hk.
      + apply IH. intros s ars E. apply Hk. rewrite E. cbn [map fst rev]. rewrite <- app_assoc. reflexivity.
      + apply SL_qs. intros co. eexists _, _. split; [reflexivity|].
        apply IH. intros s ars E. cbn [map FI.minus] in Hk. apply Hk. rewrite E. cbn [map fst rev]. rewrite <- app_assoc. reflexivity.
  Qed.

  Lemma abs_SL none abs_child (Hqs : AbsChildQS abs_child) st sz : forall ars content (k : BSize T -> BAlg) p,
    (forall c, SL none (minus p (anodes (map fst ars))) (k c)) -> SL none p (abs_pass abs_child st sz ars content k).
  Proof.
    induction ars as [|[a r] rest IH]; intros content k p Hk; cbn [abs_pass]; [apply Hk|].
    unfold anodes in *. cbn [map fst filter] in Hk. destruct (is_absi a) eqn:Ea; [|apply IH; exact Hk].
    destruct (Hqs st sz a r (fun contribution => abs_pass abs_child st sz rest (sz_fmax content contribution) k))
      as (i & kk & Em & -> & Hkk).
    apply SL_qs. intros o. destruct (Hkk o) as (l & v & ->). eexists _, _. split; [reflexivity|].
    apply IH. intros c. cbn [map FI.minus] in Hk. apply Hk.
  Qed.

  Lemma hidden_SL none : forall flags order k p, SL none (minus p (hnodes flags order)) k -> SL none p (hidden_pass flags order k).
  Proof.
    induction flags as [|h r IH]; intros order k p Hk; cbn [hidden_pass hnodes] in *; [exact Hk|].
    destruct h; [|apply IH; exact Hk]. apply SL_qs. intros _. eexists _, _. split; [reflexivity|]. apply IH. exact Hk.
  Qed.

  Theorem block_inner_H3 abs_child (Hqs : AbsChildQS abs_child) st children inp :
    bi_mode inp = PerformLayout -> SL (bnones children) (seq 0 (length children)) (block_inner_alg abs_child st children inp).
  Proof.
    intros Em. unfold block_inner_alg. cbv zeta. rewrite Em. cbn [is_compute_size].
    set (binp := mkInput (bi_known inp) (bi_parent inp) (bi_collapsible inp)).
    set (items := block_alg_items children (block_node_inner_size st binp)).
    assert (Hafter : forall outer_w, SL (bnones children) (seq 0 (length children))
      (let Pm := block_params st binp outer_w in
       inflow_alg Pm (init_state Pm) items []
         (fun stF ars =>
            let io := inflow_finish Pm stF (map snd ars) in
            let outer_h := block_outer_height st binp (io_height io) in
            let sz := mkSize outer_w outer_h in
            abs_pass abs_child st sz ars sz_zero
              (fun abs_content =>
                 hidden_pass (map (s_hidden bs_bgm) children) 0
                   (Ret (mkOut sz (sz_fmax (io_content_size io) abs_content)
                               (fst (block_output_margins st binp io)) (snd (block_output_margins st binp io))
                               (block_can_collapse_through st binp (io_results io)))))))).
    { intros outer_w. cbv zeta. apply inflow_SL. intros s ars E. cbn [rev map app] in E.
      apply abs_SL; [exact Hqs|]. intros c. apply hidden_SL. rewrite E.
      rewrite FI.minus3_nil; [apply SL_ret|]. intros x Hx. apply in_seq in Hx. apply passes_cover. lia. }
    destruct (s_w (bi_known inp)); [apply Hafter|]. apply cw_SL; [|intros m; apply Hafter].
    apply Forall_forall. intros a Hin. eapply items_not_none. exact Hin.
  Qed.

  Theorem block_alg_H1 pre abs_child (Hqs : AbsChildQS abs_child) (Hpre : forall s i, bi_mode (pre s i) = bi_mode i) st children inp :
    bi_mode inp = PerformLayout -> Vis (seq 0 (length children)) (block_alg pre abs_child st children inp).
  Proof. intros Em. unfold block_alg. apply block_inner_H1; [exact Hqs|]. rewrite Hpre. exact Em. Qed.

  Theorem block_alg_H3 pre abs_child (Hqs : AbsChildQS abs_child) (Hpre : forall s i, bi_mode (pre s i) = bi_mode i) st children inp :
    bi_mode inp = PerformLayout -> SL (bnones children) (seq 0 (length children)) (block_alg pre abs_child st children inp).
  Proof. intros Em. unfold block_alg. apply block_inner_H3; [exact Hqs|]. rewrite Hpre. exact Em. Qed.
End BlockIface.
