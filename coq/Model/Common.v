(* Common numeric vocabulary of the layout models, generic over `Num`.
     Model/Types.v    Size / Rect / Point / Line, LengthPercentage(Auto) / Dimension, AvailableSpace
     Gen/MathGen.v    (regenerated from /repo on every run) MaybeMath tables  maybe_{min,max,clamp,add,sub}_{oo,of,fo,af,ao},
                      maybe_resolve_{lp,lpa,dim}, resolve_or_zero_{lp,lpa,dim}, avail_{into_option,maybe_set,
                      map_definite_value,from_option}, maybe_apply_aspect_ratio
     here             the generic lifts of those tables to Size / Rect (hand-transcribed from the generic impls in
                      util/math.rs, util/resolve.rs, geometry.rs; fingerprinted by translator/gen_math.py)
   Definitions only.  The order of the floating point operations is the order of the Rust source. *)
From Coq Require Import List.
From TV Require Export Num.Num Model.Types Gen.MathGen.

Section Geometry.
  Context {A B C D : Type}.

  (* geometry.rs: Size::map, Size::zip_map (and the three-argument shape of maybe_clamp) *)
  Definition size_map (f : A -> B) (s : Size A) : Size B := mkSize (f (width s)) (f (height s)).
  Definition size_zip_map (f : A -> B -> C) (s : Size A) (o : Size B) : Size C :=
    mkSize (f (width s) (width o)) (f (height s) (height o)).
  Definition size_zip_map3 (f : A -> B -> C -> D) (s : Size A) (o : Size B) (p : Size C) : Size D :=
    mkSize (f (width s) (width o) (width p)) (f (height s) (height o) (height p)).

  Definition rect_map (f : A -> B) (r : Rect A) : Rect B :=
    mkRect (f (r_left r)) (f (r_right r)) (f (r_top r)) (f (r_bottom r)).
  Definition rect_zip_map (f : A -> B -> C) (r : Rect A) (o : Rect B) : Rect C :=
    mkRect (f (r_left r) (r_left o)) (f (r_right r) (r_right o)) (f (r_top r) (r_top o)) (f (r_bottom r) (r_bottom o)).

  Definition point_map (f : A -> B) (p : Point A) : Point B := mkPoint (f (px p)) (f (py p)).
  (* Point::transpose *)
  Definition point_transpose (p : Point A) : Point A := mkPoint (py p) (px p).

End Geometry.

Section OptionGeometry.
  Context {A : Type}.
  (* Size<Option<T>>::or / unwrap_or *)
  Definition opt_or (a b : option A) : option A := match a with Some _ => a | None => b end.
  Definition opt_unwrap_or (a : option A) (d : A) : A := match a with Some x => x | None => d end.
  Definition size_or (s o : Size (option A)) : Size (option A) := size_zip_map opt_or s o.
  Definition size_unwrap_or (s : Size (option A)) (d : Size A) : Size A := size_zip_map opt_unwrap_or s d.
  Definition size_NONE : Size (option A) := mkSize None None.
  Definition point_NONE : Point (option A) := mkPoint None None.
End OptionGeometry.

Section Numeric.
  Context {T : Type} `{Num T}.

  Definition size_ZERO : Size T := mkSize zero zero.
  Definition point_ZERO : Point T := mkPoint zero zero.
  Definition rect_ZERO : Rect T := mkRect zero zero zero zero.

  (* impl Add for Size / Rect *)
  Definition size_add (a b : Size T) : Size T := size_zip_map add a b.
  Definition rect_add (a b : Rect T) : Rect T := rect_zip_map add a b.

  (* Rect::horizontal_axis_sum = left + right, vertical_axis_sum = top + bottom, sum_axes *)
  Definition horizontal_axis_sum (r : Rect T) : T := add (r_left r) (r_right r).
  Definition vertical_axis_sum (r : Rect T) : T := add (r_top r) (r_bottom r).
  Definition sum_axes (r : Rect T) : Size T := mkSize (horizontal_axis_sum r) (vertical_axis_sum r).

  (* impl MaybeMath<Size<In>, Size<Out>> for Size<T>: componentwise *)
  Definition size_maybe_min_oo := size_zip_map (@maybe_min_oo T _).
  Definition size_maybe_max_oo := size_zip_map (@maybe_max_oo T _).
  Definition size_maybe_clamp_oo := size_zip_map3 (@maybe_clamp_oo T _).
  Definition size_maybe_add_oo := size_zip_map (@maybe_add_oo T _).
  Definition size_maybe_sub_oo := size_zip_map (@maybe_sub_oo T _).
  Definition size_maybe_min_of := size_zip_map (@maybe_min_of T _).
  Definition size_maybe_max_of := size_zip_map (@maybe_max_of T _).
  Definition size_maybe_clamp_of := size_zip_map3 (@maybe_clamp_of T _).
  Definition size_maybe_add_of := size_zip_map (@maybe_add_of T _).
  Definition size_maybe_sub_of := size_zip_map (@maybe_sub_of T _).
  Definition size_maybe_min_fo := size_zip_map (@maybe_min_fo T _).
  Definition size_maybe_max_fo := size_zip_map (@maybe_max_fo T _).
  Definition size_maybe_clamp_fo := size_zip_map3 (@maybe_clamp_fo T _).
  Definition size_maybe_add_fo := size_zip_map (@maybe_add_fo T _).
  Definition size_maybe_sub_fo := size_zip_map (@maybe_sub_fo T _).
  Definition size_maybe_sub_af := size_zip_map (@maybe_sub_af T _).
  Definition size_maybe_sub_ao := size_zip_map (@maybe_sub_ao T _).

  (* impl MaybeResolve<Size<In>, Size<Out>> for Size<T> *)
  Definition size_maybe_resolve_dim (s : Size (Dimension T)) (ctx : Size (option T)) : Size (option T) :=
    size_zip_map maybe_resolve_dim s ctx.

  (* impl ResolveOrZero<Option<f32>, Rect<Out>> for Rect<T>: every side against the same (inline) basis *)
  Definition rect_resolve_or_zero_lp (r : Rect (LengthPercentage T)) (ctx : option T) : Rect T :=
    rect_map (fun v => resolve_or_zero_lp v ctx) r.
  Definition rect_resolve_or_zero_lpa (r : Rect (LengthPercentageAuto T)) (ctx : option T) : Rect T :=
    rect_map (fun v => resolve_or_zero_lpa v ctx) r.
  (* impl ResolveOrZero<Size<In>, Rect<Out>> for Rect<T>: left/right against the width, top/bottom against the height *)
  Definition rect_resolve_or_zero_lp_size (r : Rect (LengthPercentage T)) (ctx : Size (option T)) : Rect T :=
    mkRect (resolve_or_zero_lp (r_left r) (width ctx)) (resolve_or_zero_lp (r_right r) (width ctx))
           (resolve_or_zero_lp (r_top r) (height ctx)) (resolve_or_zero_lp (r_bottom r) (height ctx)).
  Definition rect_resolve_or_zero_lpa_size (r : Rect (LengthPercentageAuto T)) (ctx : Size (option T)) : Rect T :=
    mkRect (resolve_or_zero_lpa (r_left r) (width ctx)) (resolve_or_zero_lpa (r_right r) (width ctx))
           (resolve_or_zero_lpa (r_top r) (height ctx)) (resolve_or_zero_lpa (r_bottom r) (height ctx)).

  (* impl Size<AvailableSpace>: into_options, maybe_set *)
  Definition size_into_options (s : Size (AvailableSpace T)) : Size (option T) := size_map avail_into_option s.
  Definition size_avail_maybe_set (s : Size (AvailableSpace T)) (v : Size (option T)) : Size (AvailableSpace T) :=
    size_zip_map avail_maybe_set s v.

  (* `matches!(x, Some(h) if h > 0.0)` *)
  Definition opt_gt_zero (x : option T) : bool := match x with Some h => gtb h zero | None => false end.
End Numeric.
