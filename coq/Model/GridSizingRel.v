(* The interface between the two halves of the relational reading of compute_grid_layout (definitions only):
     SizingRel k          the sizing program `m_size_grid` (steps 6-7: both track sizing passes, container size, percentage re-resolution,
                          re-runs) is relational at scale k: related container style / preprocessing record / input / initial state give
                          programs in lockstep (Model/GridAlgRel.v ProgRel) that return related `Sized` records and the SAME continue flag
     thresholds_scale k   the two absolute constants of the grid track kernels (distribute_space_up_to_limits THRESHOLD = 0.01, the 1e-6 of
                          distribute_item_space_to_base_size) are invariant under scaling by k.  TRUE at k = 1 (C12), FALSE for k <> 1: the known
                          finding of C04 (Props/C04.v C04_grid_maximise_refuted). *)
From Coq Require Import QArith List Bool.
From TV Require Import Num.Num Num.QNum Model.Common Model.Leaf Gen.GridTracksGen Model.GridTracks Model.GridAlgBase Model.GridAlg.
From TV Require Import Model.Scale Model.ScaleGrid Model.FlexAlgBase Model.FlexAlgRel Model.GridAlgRel.

Definition sized_flag_rel (k : Q) (a a' : @Sized XQ * bool) : Prop := sized_rel k (fst a) (fst a') /\ snd a = snd a'.

Definition SizingRel (k : Q) : Prop :=
  forall st st' P P' i i' s0 s0', gstyle_wrel k st st' -> pre_rel k P P' -> fin_rel k i i' -> sstate_rel k s0 s0' ->
    ProgRel k (sized_flag_rel k) (m_size_grid st P i s0) (m_size_grid st' P' i' s0').

Definition thresholds_scale (k : Q) : Prop := sc k (threshold (T := XQ)) threshold /\ sc k (base_threshold (T := XQ)) base_threshold.

(* the relations of the algorithm-level statements *)
Notation GAlgRel k := (EngineRel.AlgRel (GIn XQ) (LayoutOutput XQ) (GLay XQ) (fin_rel k) (output_rel k) (flay_rel k)).
