(* Proofs about Model/FlexBase.v (determine_flex_base_size) and the composition of the lines with the main-axis kernel.
   1. case order of the flex base size (any `Num`): definite flex-basis, else definite main size (incl. the aspect-ratio
      transfer), else the child's measured max-content (min-content) size; the automatic minimum size.
   2. over XQ: the hypothetical inner main size is the loop's clamp of the flex base size -- the premise
      `hyp_inner = clamp(flex_basis)` of C07_exhausted -- whenever max_size is absent, or max_size >= padding+border, or
      the resolved minimum >= padding+border; false otherwise (finding F-C07-pbfloor).
   3. main_axis_lines: the lines keep children, order and static fields; the order law holds within every line. *)
From Coq Require Import ZArith QArith Bool List Lia Lqa.
From TV Require Import Num.Num Num.QNum Model.Common Model.Leaf Gen.FlexGen Model.Flex Model.FlexLines Model.FlexBase
                       Model.FlexContainer Proofs.FlexQ Proofs.FlexProofs Proofs.FlexLinesProofs.
Import ListNotations.

(* ------------------------------------------------------------------------------------------ 1. any Num *)
Section Cases.
  Context {T : Type} `{Num T}.

  (* A: a definite flex-basis is the flex base size (before the padding+border floor) *)
  Lemma base_case_A (k : Constants T) avail (c : Child T) ci b :
    be_style_basis (base_env k avail c ci) = Some b ->
    flex_base_size k avail c ci (base_env k avail c ci) = b.
  Proof. unfold flex_base_size. intros ->. reflexivity. Qed.

  (* B (and "definite main size"): no definite flex-basis, definite main size *)
  Lemma base_case_B (k : Constants T) avail (c : Child T) ci s :
    be_style_basis (base_env k avail c ci) = None -> s_main (k_row k) (ci_size ci) = Some s ->
    flex_base_size k avail c ci (base_env k avail c ci) = s.
  Proof. unfold flex_base_size. intros -> ->. reflexivity. Qed.

  (* C/E: otherwise the child is measured: ComputeSize, ContentSize, known dimensions = size with the main axis cleared
     (+ stretched cross size), max-content in the main axis unless the container itself is sized under min-content *)
  Lemma base_case_E (k : Constants T) avail (c : Child T) ci :
    let e := base_env k avail c ci in
    be_style_basis e = None -> s_main (k_row k) (ci_size ci) = None ->
    flex_base_size k avail c ci e =
      s_main (k_row k)
        (ch_layout c (mkInput ComputeSize ContentSize (be_known e) (be_parent e)
                              (s_of_mc (k_row k) (if avail_is_min_content (s_main (k_row k) avail) then MinContent else MaxContent)
                                       (be_cross_avail e)))).
  Proof. cbn zeta. unfold flex_base_size. intros -> ->. reflexivity. Qed.

  (* the flex-basis style: auto -> none; a length -> that length (+ padding+border of the main axis for content-box) *)
  Lemma style_basis_auto (k : Constants T) avail (c : Child T) ci :
    ch_flex_basis c = Auto -> be_style_basis (base_env k avail c ci) = None.
  Proof. unfold base_env. cbn. intros ->. reflexivity. Qed.

  Lemma style_basis_length_border_box (k : Constants T) avail (c : Child T) ci v :
    ch_flex_basis c = Length v -> box_sizing (ch_style c) = BorderBox ->
    be_style_basis (base_env k avail c ci) = Some (add v (s_main (k_row k) size_ZERO)).
  Proof. unfold base_env. cbn. intros -> ->. reflexivity. Qed.

  (* B proper: the aspect-ratio transfer happens in generate_anonymous_flex_items: auto main size, definite cross size *)
  Lemma aspect_ratio_main_size (k : Constants T) (c : Child T) r v :
    aspect_ratio (ch_style c) = Some r -> box_sizing (ch_style c) = BorderBox ->
    s_main (k_row k) (size (ch_style c)) = Auto -> s_cross (k_row k) (size (ch_style c)) = Length v ->
    s_main (k_row k) (ci_size (child_info k c)) =
      Some (add (if k_row k then mul v r else div v r) zero).
  Proof.
    unfold child_info, resolved_min_max. cbn. intros -> ->.
    destruct (size (ch_style c)) as [w h]. destruct (k_row k); cbn; intros -> ->; cbn; reflexivity.
  Qed.

  (* the resolved minimum main size: an explicit min-size; else 0 for a scroll container (overflow hidden / scroll in the main
     axis); else the automatic minimum min(min-content size, specified size, max size), floored by padding+border *)
  Lemma resolved_min_explicit (k : Constants T) avail (c : Child T) ci m :
    s_main (k_row k) (ci_min ci) = Some m ->
    resolved_minimum_main_size k c ci (base_env k avail c ci) = m.
  Proof.
    unfold resolved_minimum_main_size. destruct (ci_min ci) as [w h]. destruct (k_row k); cbn; intros ->; reflexivity.
  Qed.

  Lemma resolved_min_scroll_container (k : Constants T) avail (c : Child T) ci :
    s_main (k_row k) (ci_min ci) = None ->
    is_scroll_container (if k_row k then px (overflow (ch_style c)) else py (overflow (ch_style c))) = true ->
    resolved_minimum_main_size k c ci (base_env k avail c ci) = zero.
  Proof.
    unfold resolved_minimum_main_size, automatic_min_of_overflow. destruct (ci_min ci) as [w h].
    destruct (k_row k); cbn; intros -> ->; reflexivity.
  Qed.

  Lemma resolved_min_automatic (k : Constants T) avail (c : Child T) ci :
    let e := base_env k avail c ci in
    let row := k_row k in
    s_main row (ci_min ci) = None ->
    is_scroll_container (if row then px (overflow (ch_style c)) else py (overflow (ch_style c))) = false ->
    resolved_minimum_main_size k c ci e =
      fmax (maybe_min_fo
              (maybe_min_fo
                 (s_main row (ch_layout c (mkInput ComputeSize ContentSize (be_known e) (be_parent e)
                                                   (s_with_cross row (mkSize MinContent MinContent) (be_cross_avail e)))))
                 (s_main row (ci_size ci)))
              (s_main row (ci_max ci)))
           (s_main row (sum_axes (rect_add (ci_padding ci) (ci_border ci)))).
  Proof.
    cbn zeta. unfold resolved_minimum_main_size, automatic_min_of_overflow. destruct (ci_min ci) as [w h].
    destruct (k_row k); cbn; intros -> ->; reflexivity.
  Qed.
End Cases.

(* ------------------------------------------------------------------------------------------ 2. XQ *)
Open Scope Q_scope.

Definition fin_rect (r : Rect XQ) : Prop := finite (r_left r) /\ finite (r_right r) /\ finite (r_top r) /\ finite (r_bottom r).
Definition nonneg_rect (r : Rect XQ) : Prop := 0 <= val (r_left r) /\ 0 <= val (r_right r) /\ 0 <= val (r_top r) /\ 0 <= val (r_bottom r).

(* padding + border of the main axis, as a rational *)
Definition qpb (row : bool) (ci : ChildInfo XQ) : Q :=
  val (r_main_start row (ci_padding ci)) + val (r_main_end row (ci_padding ci)) +
  val (r_main_start row (ci_border ci)) + val (r_main_end row (ci_border ci)).

(* what the theorem needs to know about one child: the measured / resolved quantities are finite, padding and border are
   not negative *)
Definition base_fin (k : Constants XQ) avail (c : Child XQ) (ci : ChildInfo XQ) : Prop :=
  let e := base_env k avail c ci in
  finite (flex_base_size k avail c ci e) /\ finite (resolved_minimum_main_size k c ci e) /\
  fin_opt (s_main (k_row k) (ci_max ci)) /\ finite (ch_grow c) /\ finite (ch_shrink c) /\
  fin_rect (ci_margin ci) /\ fin_rect (ci_padding ci) /\ fin_rect (ci_border ci) /\
  nonneg_rect (ci_padding ci) /\ nonneg_rect (ci_border ci).

(* the class on which hypothetical size = clamp(flex base size): no max size, or neither bound lies below padding+border *)
Definition pb_class (k : Constants XQ) avail (c : Child XQ) (ci : ChildInfo XQ) : Prop :=
  let row := k_row k in
  match s_main row (ci_max ci) with
  | None => True
  | Some m => qpb row ci <= val m \/ qpb row ci <= val (resolved_minimum_main_size k c ci (base_env k avail c ci))
  end.

Lemma rect_main_fin row (r : Rect XQ) : fin_rect r ->
  finite (r_main_start row r) /\ finite (r_main_end row r) /\ finite (main_axis_sum row r) /\
  val (main_axis_sum row r) = val (r_main_start row r) + val (r_main_end row r).
Proof.
  intros [A [B [C D]]]. unfold r_main_start, r_main_end, main_axis_sum, horizontal_axis_sum, vertical_axis_sum.
  destruct row.
  - destruct (add_fin _ _ A B). tauto.
  - destruct (add_fin _ _ C D). tauto.
Qed.

Lemma rect_main_nonneg row (r : Rect XQ) : nonneg_rect r -> 0 <= val (r_main_start row r) /\ 0 <= val (r_main_end row r).
Proof. intros [A [B [C D]]]. unfold r_main_start, r_main_end. destruct row; tauto. Qed.

Lemma pb_axes_fin row (p b : Rect XQ) : fin_rect p -> fin_rect b ->
  finite (s_main row (sum_axes (rect_add p b))) /\
  val (s_main row (sum_axes (rect_add p b))) ==
    val (r_main_start row p) + val (r_main_end row p) + val (r_main_start row b) + val (r_main_end row b).
Proof.
  intros [A [B [C D]]] [A' [B' [C' D']]].
  unfold s_main, sum_axes, rect_add, rect_zip_map, horizontal_axis_sum, vertical_axis_sum, r_main_start, r_main_end.
  destruct row; cbn [width height r_left r_right r_top r_bottom].
  - destruct (add_fin _ _ A A') as [F1 V1]. destruct (add_fin _ _ B B') as [F2 V2]. destruct (add_fin _ _ F1 F2) as [F3 V3].
    split; [assumption|]. rewrite V3, V1, V2. lra.
  - destruct (add_fin _ _ C C') as [F1 V1]. destruct (add_fin _ _ D D') as [F2 V2]. destruct (add_fin _ _ F1 F2) as [F3 V3].
    split; [assumption|]. rewrite V3, V1, V2. lra.
Qed.

Theorem hyp_is_clamped_basis (k : Constants XQ) avail (c : Child XQ) (ci : ChildInfo XQ) :
  base_fin k avail c ci -> pb_class k avail c ci ->
  let it := determine_flex_base_size k avail c ci in
  exh_prem it /\
  qb it == qmx (val (flex_base_size k avail c ci (base_env k avail c ci))) (qpb (k_row k) ci) /\
  qib it == qb it - qpb (k_row k) ci /\
  qmin it = val (resolved_minimum_main_size k c ci (base_env k avail c ci)).
Proof.
  intros [Fb [Fm [Fx [Fg [Fs [Fmar [Fpad [Fbor [Npad Nbor]]]]]]]]] Hc. cbn zeta.
  set (row := k_row k) in *.
  destruct (rect_main_fin row _ Fmar) as [M1 [M2 [M3 M4]]].
  destruct (rect_main_fin row _ Fpad) as [P1 [P2 [P3 P4]]].
  destruct (rect_main_fin row _ Fbor) as [B1 [B2 [B3 B4]]].
  destruct (rect_main_nonneg row _ Npad) as [NP1 NP2]. destruct (rect_main_nonneg row _ Nbor) as [NB1 NB2].
  destruct (pb_axes_fin row _ _ Fpad Fbor) as [A1 A2].
  unfold determine_flex_base_size. fold row.
  set (e := base_env k avail c ci) in *.
  set (raw := flex_base_size k avail c ci e) in *.
  set (rmin := resolved_minimum_main_size k c ci e) in *.
  set (pbs := add (main_axis_sum row (ci_padding ci)) (main_axis_sum row (ci_border ci))).
  set (pba := s_main row (sum_axes (rect_add (ci_padding ci) (ci_border ci)))) in *.
  destruct (add_fin _ _ P3 B3) as [S1 S2]. fold pbs in S1, S2.
  assert (Vpbs : val pbs == qpb row ci) by (rewrite S2, P4, B4; unfold qpb; lra).
  assert (Vpba : val pba == qpb row ci) by (rewrite A2; unfold qpb; lra).
  assert (Npb : 0 <= qpb row ci) by (unfold qpb; lra).
  destruct (fmax_fin raw pbs Fb S1) as [FB VB]. set (fb := fmax raw pbs) in *.
  destruct (sub_fin fb _ FB P3) as [I1 I2]. destruct (sub_fin _ _ I1 B3) as [I3 I4].
  destruct (fmax_fin rmin pba Fm A1) as [FH VH]. set (hmin := fmax rmin pba) in *.
  assert (Fhyp : finite (maybe_clamp_fo fb (Some hmin) (s_main row (ci_max ci))) /\
                 val (maybe_clamp_fo fb (Some hmin) (s_main row (ci_max ci))) ==
                   qclamp (val rmin) (option_map val (s_main row (ci_max ci))) (val fb)).
  { unfold pb_class in Hc. fold row e rmin in Hc. unfold qclamp, maybe_clamp_fo.
    destruct (s_main row (ci_max ci)) as [m|]; simpl option_map; cbv iota.
    - simpl in Fx. destruct (fmin_fin fb m FB Fx) as [N1 N2]. destruct (fmax_fin _ hmin N1 FH) as [X1 X2].
      split; [assumption|]. rewrite X2, N2, VH, VB.
      destruct Hc as [Hc|Hc]; qcases; lra.
    - destruct (fmax_fin fb hmin FB FH) as [X1 X2]. split; [assumption|]. rewrite X2, VH, VB. qcases; lra. }
  destruct Fhyp as [Fhyp Vhyp]. set (hyp := maybe_clamp_fo fb (Some hmin) (s_main row (ci_max ci))) in *.
  destruct (add_fin hyp _ Fhyp M3) as [O1 O2].
  split; [|split; [|split]].
  - unfold exh_prem, item_fin, qh, qcl, qb, qmin, qmaxo, qho, qm. fi_simpl.
    repeat split; try assumption; try exact fin_zero.
    + rewrite O2, M4. reflexivity.
  - unfold qb. fi_simpl. fold row e raw pbs fb. rewrite VB. qcases; lra.
  - unfold qib, qb. fi_simpl. rewrite I4, I2, P4, B4. unfold qpb. lra.
  - reflexivity.
Qed.

(* ------------------------------------------------------------------------------------------ 3. lines + kernel *)
Lemma map_option_Forall2 {A B} (f : A -> option B) (P : A -> B -> Prop) :
  (forall a b, f a = Some b -> P a b) -> forall l r, map_option f l = Some r -> Forall2 P l r.
Proof.
  intros Hf. induction l as [|a l IH]; intros r E; simpl in E.
  - inversion E. constructor.
  - destruct (f a) as [b|] eqn:Ea; [|discriminate]. destruct (map_option f l) as [r'|] eqn:El; [|discriminate].
    inversion E. constructor; [apply Hf; assumption | apply IH; reflexivity].
Qed.

Lemma flex_loop_static (k : LoopCtx XQ) : forall fuel (items res : list Item),
  flex_loop fuel k items = Some res -> Forall2 static_eq items res.
Proof.
  induction fuel as [|fuel IH]; simpl; intros items res E; [discriminate|].
  destruct (forallb fi_frozen items).
  - inversion E. apply Forall2_static_refl.
  - eapply Forall2_static_trans; [apply loop_body_static | apply IH; exact E].
Qed.

Lemma freeze_inflexible_static e g s (c : Item) : static_eq c (freeze_inflexible e g s c).
Proof.
  unfold freeze_inflexible.
  match goal with |- context [if ?b then _ else _] => destruct b end; repeat split.
Qed.

(* resolve_flexible_lengths never touches the static fields (whatever the inputs) *)
Lemma resolve_static (items : list Item) (gap : XQ) (M : option XQ) res :
  resolve_flexible_lengths items gap M = Some res -> Forall2 static_eq items res.
Proof.
  unfold resolve_flexible_lengths.
  set (f := freeze_inflexible _ _ _).
  assert (S0 : Forall2 static_eq items (map f items)) by (apply Forall2_static_map; intro c; apply freeze_inflexible_static).
  match goal with |- context [if ?b then _ else _] => destruct b end.
  - intros E. inversion E. subst. exact S0.
  - intros E. eapply Forall2_static_trans; [exact S0|]. eapply flex_loop_static. exact E.
Qed.

Definition same_work (w w' : Work XQ) : Prop :=
  w_child w' = w_child w /\ w_info w' = w_info w /\ static_eq (w_item w) (w_item w').

Lemma Forall2_combine_map {A B} (P : A -> A -> Prop) (g : A -> B) (mk : A -> B -> A) (Q : B -> B -> Prop) :
  (forall a b, Q (g a) b -> P a (mk a b)) ->
  forall (l : list A) (r : list B), Forall2 Q (map g l) r -> Forall2 P l (map (fun '(a, b) => mk a b) (combine l r)).
Proof.
  intros Hp. induction l as [|a l IH]; intros r F; inversion F; subst; simpl; constructor; auto.
Qed.

Theorem main_axis_lines_spec (k : Constants XQ) avail (items : list (Work XQ)) lines :
  main_axis_lines k avail items = Some lines ->
  let row := k_row k in
  Forall2 (Forall2 same_work)
          (collect_flex_lines w_hyp_outer (k_wrap k) (s_main row (k_max k)) (s_main row (k_min k)) (s_main row avail)
                              (s_main row (k_gap k)) items)
          lines.
Proof.
  unfold main_axis_lines. intros E. cbn zeta. eapply map_option_Forall2; [|exact E].
  intros ln b Eb. cbv beta in Eb.
  destruct (resolve_flexible_lengths (map w_item ln) (s_main (k_row k) (k_gap k)) (s_main (k_row k) (k_inner k))) as [its|] eqn:Er;
    [|discriminate].
  inversion Eb. subst b. pose proof (resolve_static _ _ _ _ Er) as S.
  apply (Forall2_combine_map same_work w_item (fun w it => with_item w it) static_eq); [|exact S].
  intros a it Hs. unfold same_work, with_item. simpl. auto.
Qed.

Lemma Forall2_same_children (l r : list (Work XQ)) : Forall2 same_work l r -> map w_child r = map w_child l.
Proof. induction 1 as [|a b l r [E _] _ IH]; simpl; congruence. Qed.

Lemma Forall2_Forall2_children (l r : list (list (Work XQ))) :
  Forall2 (Forall2 same_work) l r -> map (map w_child) r = map (map w_child) l.
Proof. induction 1 as [|a b l r E _ IH]; simpl; [reflexivity|]. rewrite (Forall2_same_children _ _ E), IH. reflexivity. Qed.

Lemma concat_map_map {A B} (f : A -> B) (l : list (list A)) : concat (map (map f) l) = map f (concat l).
Proof. induction l; simpl; [reflexivity|]. rewrite map_app. congruence. Qed.

(* the children of the lines, concatenated, are the children of the container in document order; no line is empty *)
Theorem main_axis_lines_partition (k : Constants XQ) avail (items : list (Work XQ)) lines :
  main_axis_lines k avail items = Some lines ->
  concat (map (map w_child) lines) = map w_child items /\
  (items <> [] -> Forall (fun l => l <> []) lines).
Proof.
  intros E. pose proof (main_axis_lines_spec k avail items lines E) as S. cbn zeta in S.
  destruct (lines_partition w_hyp_outer (k_wrap k) (s_main (k_row k) (k_max k)) (s_main (k_row k) (k_min k))
                            (s_main (k_row k) avail) (s_main (k_row k) (k_gap k)) items) as [P1 [P2 _]].
  split.
  - rewrite (Forall2_Forall2_children _ _ S), concat_map_map, P1. reflexivity.
  - intros N. specialize (P2 N). revert P2. clear -S. induction S as [|a b l r E _ IH]; intros F; [constructor|].
    inversion F; subst. constructor; [|apply IH; assumption].
    destruct E; [congruence | discriminate].
Qed.

(* ------------------------------------------------------------------------------------------ 4. cross axis: the lines are stacked *)
(* final_layout_pass walks the lines (creation order; reversed for wrap-reverse) with the accumulator total_offset_cross;
   the line box of a line is [start + offset_cross, start + offset_cross + cross_size].  `l` = the (offset_cross, cross_size)
   pairs in walking order. *)
Definition line_fin (x : XQ * XQ) : Prop := finite (fst x) /\ finite (snd x) /\ 0 <= val (snd x).

Lemma line_starts_lower (gap : Q) : 0 <= gap -> forall (l : list (XQ * XQ)),
  (forall x, In x l -> line_fin x /\ gap <= val (fst x)) -> forall total, finite total ->
  Forall (fun '(x, s) => finite s /\ val total <= val s /\ gap <= val (fst x)) (combine l (line_starts total l)).
Proof.
  intros Hg. induction l as [|[o c] l IH]; intros Hl total Ft; simpl; constructor.
  - destruct (Hl (o, c) (or_introl eq_refl)) as [_ Ho]. split; [assumption|]. split; [lra | exact Ho].
  - destruct (Hl (o, c) (or_introl eq_refl)) as [[Fo [Fc Pc]] Ho]. simpl in *.
    destruct (add_fin o c Fo Fc) as [A1 A2]. destruct (add_fin total _ Ft A1) as [B1 B2].
    specialize (IH (fun x Hx => Hl x (or_intror Hx)) _ B1).
    eapply Forall_impl; [|exact IH]. intros [x s] [Fs [Ls Gx]]. split; [assumption|]. rewrite B2, A2 in Ls. split; [lra | exact Gx].
Qed.

Lemma line_starts_pairs (gap : Q) : 0 <= gap -> forall (l : list (XQ * XQ)),
  (forall x, In x l -> line_fin x) ->
  (match l with [] => True | _ :: r => forall x, In x r -> gap <= val (fst x) end) ->
  forall total, finite total ->
  ForallOrdPairs (fun a b => val (snd a) + val (fst (fst a)) + val (snd (fst a)) + gap <= val (snd b) + val (fst (fst b)))
                 (combine l (line_starts total l)).
Proof.
  intros Hg. induction l as [|[o c] l IH]; intros Hl Ho total Ft; simpl; constructor.
  - destruct (Hl (o, c) (or_introl eq_refl)) as [Fo [Fc Pc]]. simpl in *.
    destruct (add_fin o c Fo Fc) as [A1 A2]. destruct (add_fin total _ Ft A1) as [B1 B2].
    assert (H1 : forall x, In x l -> line_fin x /\ gap <= val (fst x)).
    { intros x Hx. split; [apply Hl; right; assumption | apply Ho; assumption]. }
    pose proof (line_starts_lower gap Hg l H1 _ B1) as L.
    eapply Forall_impl; [|exact L]. intros [x s] [Fs [Ls Gx]]. simpl. rewrite B2, A2 in Ls. lra.
  - destruct (Hl (o, c) (or_introl eq_refl)) as [Fo [Fc Pc]]. simpl in *.
    destruct (add_fin o c Fo Fc) as [A1 A2]. destruct (add_fin total _ Ft A1) as [B1 B2].
    apply IH; [intros x Hx; apply Hl; right; assumption| |exact B1].
    destruct l as [|y r]; [exact I|]. intros x Hx. apply Ho. right. assumption.
Qed.

(* with the offsets align_flex_lines_per_align_content computes (first line in walking order: is_first) *)
Theorem lines_cross_stacked (free gap total : XQ) (mode : AlignContent) (rv : bool) (css : list XQ) :
  finite free -> finite gap -> 0 <= val gap -> finite total ->
  (forall c, In c css -> finite c /\ 0 <= val c) ->
  let n := zlen css in
  let offs := map_first (fun _ : XQ => compute_alignment_offset free n gap mode rv true)
                        (fun _ : XQ => compute_alignment_offset free n gap mode rv false) css in
  let l := combine offs css in
  ForallOrdPairs (fun a b => val (snd a) + val (fst (fst a)) + val (snd (fst a)) + val gap <= val (snd b) + val (fst (fst b)))
                 (combine l (line_starts total l)).
Proof.
  intros Ff Fg Hg Ft Hc. cbn zeta.
  assert (F1 : (1 <= zlen css)%Z -> finite (compute_alignment_offset free (zlen css) gap mode rv true))
    by (intro; apply alignment_offset_first_fin; assumption).
  assert (F2 : (2 <= zlen css)%Z -> finite (compute_alignment_offset free (zlen css) gap mode rv false) /\
                                    val gap <= val (compute_alignment_offset free (zlen css) gap mode rv false))
    by (intro; apply alignment_offset_ge_gap; assumption).
  set (o1 := compute_alignment_offset free (zlen css) gap mode rv true) in *.
  set (o2 := compute_alignment_offset free (zlen css) gap mode rv false) in *.
  assert (L2 : forall c0 c1 r, css = c0 :: c1 :: r -> (2 <= zlen css)%Z) by (intros; subst; unfold zlen; simpl length; lia).
  assert (L1 : forall c0 r, css = c0 :: r -> (1 <= zlen css)%Z) by (intros; subst; unfold zlen; simpl length; lia).
  clearbody o1 o2.
  apply line_starts_pairs; try assumption.
  - intros [o c] Hx. destruct css as [|c0 r]; [destruct Hx|]. cbn [map_first combine In] in Hx.
    destruct Hx as [E|Hx].
    + inversion E; subst. destruct (Hc c (or_introl eq_refl)) as [Fc Pc]. unfold line_fin. simpl.
      split; [|split; assumption]. eapply F1, L1. reflexivity.
    + pose proof (in_combine_l _ _ _ _ Hx) as Ho. pose proof (in_combine_r _ _ _ _ Hx) as Hcc.
      apply in_map_iff in Ho. destruct Ho as [y [<- Hy]].
      destruct (Hc c (or_intror Hcc)) as [Fc Pc]. unfold line_fin. simpl fst. simpl snd.
      split; [|split; assumption]. destruct r as [|c1 r]; [destruct Hy|]. eapply F2, L2. reflexivity.
  - destruct css as [|c0 r]; [exact I|]. cbn [map_first combine]. intros [o c] Hx.
    pose proof (in_combine_l _ _ _ _ Hx) as Ho. apply in_map_iff in Ho. destruct Ho as [y [<- Hy]]. simpl fst.
    destruct r as [|c1 r]; [destruct Hy|]. eapply F2, L2. reflexivity.
Qed.

(* ------------------------------------------------------------------------------------------ 5. compositions *)
(* C07_exhausted with its premise `hyp_inner = clamp(flex_basis)` discharged for items built by determine_flex_base_size *)
Theorem exhausted_from_styles (k : Constants XQ) avail (children : list (Child XQ)) (gap M : XQ) :
  let items := map (fun c => determine_flex_base_size k avail c (child_info k c)) children in
  finite gap -> finite M ->
  (forall c, In c children -> base_fin k avail c (child_info k c) /\ pb_class k avail c (child_info k c)) ->
  let gaps := val (sum_axis_gaps gap (zlen items)) in
  let hyp_total := gaps + qsum qho items in
  (hyp_total < val M -> forall c, In c items -> grow_ok c) ->
  (val M < hyp_total -> forall c, In c items -> shrink_ok c) ->
  exists res, resolve_flexible_lengths items gap (Some M) = Some res /\ Forall2 static_eq items res /\
    (forall c, In c res -> fi_frozen c = true /\ item_fin c /\ qot c == qt c + qm c) /\
    (gaps + qsum qot res == val M \/
     (hyp_total < val M /\ forall c, In c res -> ~ qg c == 0 -> at_max c) \/
     (val M < hyp_total /\ forall c, In c res -> ~ qs c == 0 -> ~ qib c == 0 -> at_min c)).
Proof.
  intros items Fg FM Hc. apply exhausted; try assumption.
  intros it Hit. unfold items in Hit. apply in_map_iff in Hit. destruct Hit as [c [<- Hin]].
  destruct (Hc c Hin) as [B P]. apply (hyp_is_clamped_basis k avail c (child_info k c) B P).
Qed.

(* the order law within every line of a multi-line container *)
Theorem order_no_overlap_lines (k : Constants XQ) avail (items : list (Work XQ)) lines :
  main_axis_lines k avail items = Some lines ->
  concat (map (map w_child) lines) = map w_child items /\
  (items <> [] -> Forall (fun l => l <> []) lines) /\
  forall ln, In ln lines -> forall (inner start : XQ) (sizes : list XQ),
    let gap := s_main (k_row k) (k_gap k) in
    finite gap -> 0 <= val gap -> finite inner -> finite start ->
    (forall w, In w ln -> oprem (w_item w)) ->
    length sizes = length ln -> (forall s, In s sizes -> finite s /\ 0 <= val s) ->
    let its := map w_item ln in
    let items' := distribute_remaining_free_space its gap inner (k_justify k) (k_reverse k) in
    let pos := line_positions start (k_reverse k) (combine items' sizes) in
    Forall2 (fun c c' => fi_margin_start c' = fi_margin_start c /\ fi_margin_end c' = fi_margin_end c) its items' /\
    ForallOrdPairs (fun a b => if k_reverse k then sepR (val gap) b a else sepR (val gap) a b) (combine (combine items' sizes) pos).
Proof.
  intros E. destruct (main_axis_lines_partition k avail items lines E) as [P1 P2].
  split; [exact P1|]. split; [exact P2|].
  intros ln Hln inner start sizes gap Fg Pg Fi Fs Ho Hl Hs. cbn zeta.
  apply order_no_overlap; try assumption.
  - intros c Hc. apply in_map_iff in Hc. destruct Hc as [w [<- Hw]]. apply Ho. assumption.
  - rewrite map_length. assumption.
Qed.
