"""Shared by C16, C01 and C02: the whole-tree correspondence of the block engine WITH THE REAL CACHE (wave 6c, notes/REALCACHE.md).

`vh blocktree cases <seed> <n> <start> real` lays the random trees of the exact-key correspondence (lib/props/_blocktree.py) out through
`TaffyTree::compute_layout_with_measure` WITHOUT the exact-key hook -- the cache users get: one final-layout entry, nine measure slots,
the lossy compatibility test -- and prints, after every pass and for every node, the 21 layout integers, the number of
compute_cached_layout calls on the node, how many of them the cache answered (event-trace hook) and the number of measure-function
calls for the node (counted by the measure closure per NodeId).  `Model/BlockEngineRealRun.run_case_real` decodes the same case and
runs compute_root_layout + `memo_real` (Model/EngineReal.v: the engine skeleton over a cache interface, instantiated with
src/tree/cache.rs's get / store / clear = Model/Cache.v over the key projection) with the block algorithm and the leaf kernel over F32
and must reproduce ALL of it: bit-exact layouts, count-exact queries / hits / measure calls.  The model additionally reports the number
of LOSSY hits (ghost state: the answering entry was stored for another complete input; complete inputs are compared with the
REPRESENTATION equality of binary32, Model/TaffyKey.v f32_seqb -- an equality of inputs, unlike IEEE `==`): the class "no lossy hit" is
the one on which `C01_real_block_equals_exact_when_no_lossy_hit_partial` (no premise about the key) makes every pass of the real-cache
run return the output the exact-key memo returns.  The check ENFORCES the consequence the harness can observe: no tree without a lossy
hit lays out differently from the exact-key run (`L` lines of `vh blocktree cases .. real`); a violation is a broken correspondence.

`vh blocktree chains`: 576 deterministic chains of block containers (depth 1..16) over a measured leaf, same format.

Debugging: `python3 -m lib.props._blockreal <seed> <n> [start]` / `python3 -m lib.props._blockreal chains`."""
import sys

from ..common import *
from ..stages import *
from . import _blocktree as bt

REC = bt.LAY_LEN + 3
CNT = ['queries', 'cache_hits', 'measure_calls']


def describe_diff(c, a, b):
    if len(a) != len(b):
        return 'lengths differ: impl %d model %d ints (model head %s)' % (len(a), len(b), b[:3])
    nn = len(bt.decode_nodes(c))
    for i, (x, y) in enumerate(zip(a, b)):
        if x != y:
            node, fld = divmod(i, REC)
            if fld >= bt.LAY_LEN:
                return 'pass %d node %d COUNT %s: impl %d model %d' % (node // nn, node % nn, CNT[fld - bt.LAY_LEN], x, y)
            fx = x if fld == 0 else bt._f(x)
            fy = y if fld == 0 else bt._f(y)
            return 'pass %d node %d field %s: impl %r model %r' % (node // nn, node % nn, bt.FIELDS[fld], fx, fy)
    return 'equal'


def generate(binp, seed, n, start=0):
    rc, out = vh(binp, ['blocktree', 'cases', seed, n, start, 'real'], timeout=300)
    cases, impl = parse_cr(out)
    differ = [int(l.split()[1]) for l in out.split('\n') if l.startswith('L ')]
    if rc != 0 or not cases or len(differ) != len(cases):
        raise RuntimeError('vh blocktree cases .. real failed: ' + out[-600:])
    return cases, impl, differ


def generate_chains(binp):
    rc, out = vh(binp, ['blocktree', 'chains'], timeout=300)
    cases, impl = parse_cr(out)
    qs = [[int(x) for x in l.split()[1:]] for l in out.split('\n') if l.startswith('Q ')]
    skipped = [int(l.split()[1]) for l in out.split('\n') if l.startswith('SKIP ')]
    if rc != 0 or 'DONE' not in out or len(qs) != len(cases):
        raise RuntimeError('vh blocktree chains failed: ' + out[-600:])
    return cases, impl, qs, skipped


def evaluate(tag, cases, timeout=900):
    with Lock('coq'):
        rcm, outm, _ = coq_make(['Model/BlockEngineRealRun.vo'])
    if rcm != 0:
        raise RuntimeError(outm[-1500:])
    order = sorted(range(len(cases)), key=lambda i: -len(cases[i]))
    nshards = max(1, min(16, (len(cases) + 19) // 20))
    perm2 = []
    for s in range(nshards):
        perm2 += order[s::nshards]
    model_p = run_model(tag, 'From TV Require Import Model.BlockEngineRealRun.', 'run_case_real', [cases[i] for i in perm2], scope='Z',
                        elem='list Z', shards=16, timeout=timeout, batch=200)
    model = [None] * len(cases)
    for i, m in zip(perm2, model_p):
        model[i] = m
    # the two leading integers (lossy hits, evaluations) are the model's own
    return [m[2:] if len(m) >= 2 else m for m in model], [m[0] if len(m) >= 2 else -1 for m in model], [m[1] if len(m) >= 2 else -1 for m in model]


def _hist(vals):
    h = {}
    for v in vals:
        h[v] = h.get(v, 0) + 1
    return {str(k): h[k] for k in sorted(h)}


def leaf_counts(c, a):
    """measure-call counts of the nodes that have a measure function or are leaves: [(pass, node, count)]"""
    nodes = bt.decode_nodes(c)
    nn = len(nodes)
    out = []
    for r in range(len(a) // REC):
        p, k = divmod(r, nn)
        if nodes[k][1][57] == 0:
            out.append((p, k, a[r * REC + bt.LAY_LEN + 2]))
    return out


def real_tree_k(rep, pid, binp, seed, n):
    """random trees, real cache: layouts + counts.  Returns the disagreements."""
    t0 = time.time()
    try:
        cases, impl, differ = generate(binp, seed, n)
        model, lossy, evals = evaluate(pid + 'br', cases)
    except RuntimeError as ex:
        rep.add_broken('correspondence', 'block engine with the REAL cache, whole-tree K (vh blocktree cases .. real)', str(ex)[-1500:])
        return []
    bad = diff_results(rep, 'whole tree of block containers and leaves through TaffyTree::compute_layout_with_measure with the REAL cache (no '
                            'exact-key hook): unrounded layouts of every node + per node the numbers of compute_cached_layout calls, cache '
                            'hits and measure-function calls of every pass, vs Model.BlockEngineRealRun.run_case_real = compute_root_layout + '
                            'memo_real (Model/EngineReal.v) over F32', cases, impl, model, max_report=3)
    nq = nh = nm = 0
    leafc = []
    for c, a in zip(cases, impl):
        for r in range(len(a) // REC):
            nq += a[r * REC + bt.LAY_LEN]
            nh += a[r * REC + bt.LAY_LEN + 1]
            nm += a[r * REC + bt.LAY_LEN + 2]
        leafc += [x[2] for x in leaf_counts(c, a)]
    no_lossy = [i for i in range(len(cases)) if lossy[i] == 0]
    hits_of = lambda a: sum(a[r * REC + bt.LAY_LEN + 1] for r in range(len(a) // REC))

    def interior(c, a):
        nn = len(bt.decode_nodes(c))
        return any(a[r * REC + bt.LAY_LEN + 1] and r % nn != 0 for r in range(len(a) // REC))
    with_hit = [i for i in no_lossy if hits_of(impl[i]) > 0]
    # theorem + correspondence: a real-cache run without lossy hit returns what the exact-key run returns.  The harness lays every
    # tree out twice (hook off / hook on) and prints how many layout integers differ: on a tree without lossy hit that must be 0
    contradicting = [i for i in no_lossy if differ[i]]
    for i in contradicting[:3]:
        rep.add_broken('correspondence', 'a tree WITHOUT lossy hit (model ghost count 0) lays out differently from the exact-key run',
                       {'what': 'C01_real_block_equals_exact_when_no_lossy_hit_partial + the whole-tree correspondence say the real-cache run '
                                'equals the exact-key run here; the implementation\'s two runs differ in %d layout integers '
                                '(vh blocktree case %d %d)' % (differ[i], seed, i), 'case': cases[i][:40]})
    rep.cov['blocktree_real_cache'] = {
        'trees': len(cases), 'disagreements': len(bad), 'seconds': round(time.time() - t0, 1),
        'layout_fields_compared': sum(len(a) // REC * bt.LAY_LEN for a in impl),
        'counters_compared': sum(len(a) // REC * 3 for a in impl),
        'queries': nq, 'cache_hits': nh, 'measure_calls': nm, 'model_evaluations': sum(e for e in evals if e >= 0),
        'measure_calls_per_leaf_per_pass_distribution': _hist(leafc),
        'lossy_hits_total': sum(l for l in lossy if l >= 0),
        'lossy_hits_per_tree_distribution': _hist(lossy),
        'lossy_hits_counted_with': 'the representation equality of binary32 on complete inputs (Model/TaffyKey.v f32_seqb)',
        'trees_without_lossy_hit': len(no_lossy),
        'trees_without_lossy_hit_note': 'the class on which C01_real_block_equals_exact_when_no_lossy_hit_partial makes the real-cache run return '
                                        'what the cache-free evaluation / the exact-key memo returns; only the trees WITH a cache hit are '
                                        'informative (without any hit the statement compares two cache-free evaluations)',
        'trees_without_lossy_hit_but_with_a_cache_hit': len(with_hit),
        'of_which_with_a_hit_below_the_root': sum(1 for i in with_hit if interior(cases[i], impl[i])),
        'non_lossy_hits_in_those_trees': sum(hits_of(impl[i]) for i in with_hit),
        'single_node_trees_without_lossy_hit': sum(1 for i in no_lossy if len(bt.decode_nodes(cases[i])) == 1),
        'trees_whose_layout_differs_from_the_exact_key_run': sum(1 for d in differ if d),
        'of_which_without_lossy_hit': len(contradicting),
        'of_which_without_lossy_hit_is_checked': 'must be 0: a tree without lossy hit that differs from the exact-key run is a broken correspondence',
        'first_disagreements': ['idx %d: %s (vh blocktree case %d %d)' % (cases.index(c), describe_diff(c, a, b), seed, cases.index(c))
                                for c, a, b in bad[:5]],
    }
    return bad


def real_chain_k(rep, pid, binp):
    """deterministic block chains, real cache.  Returns the disagreements."""
    t0 = time.time()
    try:
        cases, impl, qs, skipped = generate_chains(binp)
        model, lossy, evals = evaluate(pid + 'bc', cases)
    except RuntimeError as ex:
        rep.add_broken('correspondence', 'block engine with the REAL cache, chain K (vh blocktree chains)', str(ex)[-1500:])
        return []
    bad = diff_results(rep, 'chains of block containers (depth 1..16) over a measured leaf, REAL cache: layouts + query / hit / measure counts '
                            'vs Model.BlockEngineRealRun.run_case_real', cases, impl, model, max_report=3)
    by_depth = {}
    for c, a, q in zip(cases, impl, qs):
        depth = len(bt.decode_nodes(c)) - 1
        by_depth.setdefault(depth, []).append(a[-1])
    rep.cov['block_chains_real_cache'] = {
        'chains': len(cases), 'skipped_over_query_limit': skipped, 'disagreements': len(bad), 'seconds': round(time.time() - t0, 1),
        'leaf_measure_calls_by_depth': {str(d): _hist(v) for d, v in sorted(by_depth.items())},
        'max_leaf_measure_calls': max(a[-1] for a in impl),
        'total_queries_by_depth_max': {str(d): max(q[1] for c, q in zip(cases, qs) if len(bt.decode_nodes(c)) - 1 == d) for d in sorted(by_depth)},
        'lossy_hits_per_chain_distribution': _hist(lossy),
        'first_disagreements': ['chain %d: %s' % (qs[cases.index(c)][0], describe_diff(c, a, b)) for c, a, b in bad[:5]],
    }
    return bad


def lossy_witness(rep, binp):
    """Replays the model witness C01_real_lossy_hit_refuted_on_a_block_tree (Props/C01.v `lossy_block_case` = `vh blocktree case 2 649`)
    on the implementation: the generator still produces that input, the real-cache run differs from the exact-key run, and both are what
    the theorem says (the integers are read from the Props file)."""
    src = pins_strip(open(os.path.join(COQ, 'Props', 'C01.v')).read())
    m = re.search(r'Definition lossy_block_case : list Z :=\s*\[([^\]]*)\]', src)
    t = re.search(r'Theorem C01_real_lossy_hit_refuted_on_a_block_tree :(.*?)Proof\.', src, re.S)
    if not m or not t:
        rep.add_broken('witness', 'C01_real_lossy_hit_refuted_on_a_block_tree', 'cannot find the witness in Props/C01.v')
        return
    case = [int(x) for x in m.group(1).replace('\n', ' ').split(';')]
    halves = t.group(1).split('run_case_real lossy_block_case')
    ints = lambda txt: [int(x) for x in re.findall(r'-?\d+', re.sub(r'%Z', '', txt.split('=', 1)[1]))]
    want_exact, want_real = ints(halves[0]), ints(halves[1])[2:]
    rc1, out1 = vh(binp, ['blocktree', 'cases', 2, 1, 649], timeout=60)
    rc2, out2 = vh(binp, ['blocktree', 'cases', 2, 1, 649, 'real'], timeout=60)
    c1, r1 = parse_cr(out1)
    c2, r2 = parse_cr(out2)
    ok_input = bool(c1) and c1[0] == case
    rep.cov['lossy_block_witness'] = {'input_regenerated': ok_input, 'exact_run_as_stated': bool(r1) and r1[0] == want_exact,
                                      'real_run_as_stated': bool(r2) and r2[0] == want_real, 'real_differs_from_exact': 'L 0' not in out2}
    if not ok_input:
        rep.add_broken('witness', 'C01_real_lossy_hit_refuted_on_a_block_tree', 'vh blocktree case 2 649 no longer generates the stated input')
    elif r1[0] != want_exact or r2[0] != want_real:
        rep.add_broken('witness', 'C01_real_lossy_hit_refuted_on_a_block_tree',
                       'the implementation no longer behaves as the model witness says: exact %s real %s' % (r1[0] == want_exact, r2[0] == want_real))
    else:
        rep.known.append('lossy-cache-key: model witness C01_real_lossy_hit_refuted_on_a_block_tree replayed (one leaf with percentage padding, two '
                         'passes: the real cache keeps content size 93.53125 x 43.53125, exact key / fresh tree 70.75 x 20.75)')


def pins_strip(src):
    from ..pins import strip_comments
    return strip_comments(src)


if __name__ == '__main__':
    rc, out, binp, dt = build_harness('release')
    if rc != 0:
        print(out[-2000:])
        sys.exit(1)
    t0 = time.time()
    if sys.argv[1] == 'chains':
        cases, impl, qs, skipped = generate_chains(binp)
        start, seed = 0, 0
        differ = [0] * len(cases)
        model, lossy, evals = evaluate('brdbg', cases)
    else:
        seed, n = int(sys.argv[1]), int(sys.argv[2])
        start = int(sys.argv[3]) if len(sys.argv) > 3 else 0
        cases, impl, differ = generate(binp, seed, n, start)
        model, lossy, evals = evaluate('brdbg', cases)
    print('model evaluated in %.1fs' % (time.time() - t0))
    nbad = 0
    for i, (c, a, b) in enumerate(zip(cases, impl, model)):
        if a != b:
            nbad += 1
            if nbad <= 25:
                print('idx %d (%d nodes, lossy %d, differs-from-exact %d): %s' % (start + i, len(bt.decode_nodes(c)), lossy[i], differ[i], describe_diff(c, a, b)))
    print('%d / %d disagree; lossy-hit distribution %s; trees without lossy hit %d, of which differing from exact %d; differing from exact %d' % (
        nbad, len(cases), _hist(lossy), sum(1 for l in lossy if l == 0), sum(1 for l, d in zip(lossy, differ) if l == 0 and d),
        sum(1 for d in differ if d)))
