(* The FRONT of compute_grid_layout in lockstep (Model/GridAlg.v grid_core / grid_main up to the call of the sizing program): the four views
   of the child list, the explicit track counts, placement (EQUAL on both sides: it reads grid lines only), track initialisation
   (Proofs/ScaleGrid.v initialize_grid_tracks_homog) and the initial GridItems (make_item). *)
From Coq Require Import QArith Bool List ZArith Lia.
From TV Require Import Num.Num Num.QNum Model.Common Model.Leaf Gen.GridTracksGen Model.GridTracks Model.GridIntrinsic.
From TV Require Import Model.FiltersBase Gen.FiltersGen Model.ItemFilters Model.GridAlgBase Model.GridAlg Model.FlexAlgBase Model.FlexAlgRel Model.GridAlgRel.
From TV Require Import Model.Scale Model.ScaleGrid Model.Engine Model.EngineRel.
From TV Require Import Proofs.ScalePrim Proofs.ScaleKit Proofs.ScaleProofs Proofs.ScaleGrid Proofs.GridRelKit Proofs.GridStyleRel.
Import ListNotations.
Close Scope Z_scope.

Ltac wopen H :=
  destruct H as (Wdisp & Wpos & Wov & Wsw & War & Wmar & Wtc & Wtr & Wac & Warow & Wflow & Wgap & Wai & Wji & Wacn & Wjc & Wrow & Wcol & Was &
                 Wjs & Wrep & Wpre & Wdef & Wres & Wcap & Wabs).

(* both fail, or both succeed with related values *)
Definition res_rel {X} (R : X -> X -> Prop) (a a' : PB.res X) : Prop :=
  match a, a' with PB.Ok x, PB.Ok x' => R x x' | PB.Err _, PB.Err _ => True | _, _ => False end.

Lemma rel_mapM {X Y} (R : Y -> Y -> Prop) (f f' : X -> PB.res Y) l :
  (forall x, res_rel R (f x) (f' x)) -> res_rel (Forall2 R) (PL.mapM f l) (PL.mapM f' l).
Proof.
  intros Hf. induction l as [|x r IH]; cbn [PL.mapM]; [constructor|].
  pose proof (Hf x) as Hx. unfold PB.bind. destruct (f x), (f' x); cbn [res_rel] in Hx; try contradiction; [|exact I].
  destruct (PL.mapM f r), (PL.mapM f' r); cbn [res_rel] in IH |- *; try contradiction; [|exact I]. constructor; assumption.
Qed.

Section Front.
  Variable k : Q.
  Hypothesis Hk : (0 < k)%Q.
  Notation L := (sc k).
  Notation O := (op_rel (sc k)).
  Notation W := (gstyle_wrel k).

  (* ---- what the child iterators test *)
  Lemma w_bgm s s' : W s s' -> g_bgm s' = g_bgm s.
  Proof. intros H. wopen H. unfold g_bgm, g_gdisplay. rewrite Wdisp. reflexivity. Qed.
  Lemma w_position s s' : W s s' -> g_position s' = g_position s.
  Proof. intros H. wopen H. unfold g_position. rewrite Wpos. reflexivity. Qed.
  Lemma w_child s s' : W s s' -> g_child s' = g_child s.
  Proof. intros H. wopen H. unfold g_child. rewrite Wrow, Wcol. reflexivity. Qed.
  Lemma w_is_none s s' : W s s' -> g_is_none s' = g_is_none s.
  Proof. intros H. unfold g_is_none, s_hidden. rewrite (w_bgm _ _ H). reflexivity. Qed.
  Lemma w_visible_absolute s s' : W s s' -> g_visible_absolute s' = g_visible_absolute s.
  Proof. intros H. unfold g_visible_absolute, s_visible_absolute, s_hidden, s_absolute. rewrite (w_bgm _ _ H), (w_position _ _ H). reflexivity. Qed.
  Lemma w_in_flow s s' : W s s' -> g_in_flow s' = g_in_flow s.
  Proof. intros H. unfold g_in_flow, s_in_flow, s_hidden, s_absolute. rewrite (w_bgm _ _ H), (w_position _ _ H). reflexivity. Qed.

  (* ---- the four views of the child list *)
  Lemma estimate_styles_wrel st st' : Forall2 W st st' -> estimate_styles st' = estimate_styles st.
  Proof.
    unfold estimate_styles, grid_estimate_children. induction 1 as [|a b l l' Hab Hl IH]; [reflexivity|].
    cbn [map filter]. rewrite (w_bgm _ _ Hab). destruct (negb _); cbn [map]; rewrite IH; [rewrite (w_child _ _ Hab)|]; reflexivity.
  Qed.

  Lemma in_flow_styles_wrel st st' : Forall2 W st st' -> Forall2 (inflow_rel k) (in_flow_styles st) (in_flow_styles st').
  Proof.
    unfold in_flow_styles, grid_in_flow_children, g_enumerate. generalize 0.
    intros n Hr. revert n. induction Hr as [|a b l l' Hab Hl IH]; intros n; [constructor|].
    cbn [g_enumerate_from map filter]. rewrite (w_bgm _ _ Hab), (w_position _ _ Hab).
    destruct (_ && _); cbn [map]; [constructor; [split; [reflexivity|exact Hab]|apply IH]|apply IH].
  Qed.

  Lemma flags_wrel st st' : Forall2 W st st' -> map g_in_flow st' = map g_in_flow st.
  Proof. induction 1 as [|a b l l' Hab Hl IH]; [reflexivity|]. cbn [map]. rewrite IH, (w_in_flow _ _ Hab). reflexivity. Qed.

  Lemma oof_wrel st st' : Forall2 W st st' -> Forall2 (oof_rel k) (map oof_view st) (map oof_view st').
  Proof.
    induction 1 as [|a b l l' Hab Hl IH]; [constructor|]. cbn [map]. constructor; [|exact IH].
    unfold oof_view. rewrite (w_is_none _ _ Hab), (w_visible_absolute _ _ Hab).
    destruct (g_is_none a); [exact I|]. destruct (g_visible_absolute a); [exact Hab|exact I].
  Qed.

  (* ---- explicit track counts *)
  Lemma rel_lp_sfn g g' : lp_rel k g g' -> sfn_rel k (lp_sfn g) (lp_sfn g').
  Proof. destruct g, g'; cbn; auto. Qed.

  Lemma explicit_counts_wrel s s' P P' : W s s' -> pre_rel k P P' -> explicit_counts s' P' = explicit_counts s P.
  Proof.
    intros Hs HP. wopen Hs. destruct HP as (Hpad & Hbor & Hpb & Hmn & Hmx & Hpref & Hgut & Hins & Hga & Hout & Hin).
    unfold explicit_counts.
    set (af := size_maybe_sub_of _ (sum_axes (p_inset P))). set (af' := size_maybe_sub_of _ (sum_axes (p_inset P'))).
    assert (Haf : sz_rel O af af') by (subst af af'; unfold_lifts; hm k Hk).
    clearbody af af'.
    assert (Emax : forall a, (match maybe_resolve_dim (get_ax (size (gs_core s')) a) (get_ax af' a),
                                    maybe_resolve_dim (get_ax (max_size (gs_core s')) a) (get_ax af' a) with None, None => false | _, _ => true end)
                           = (match maybe_resolve_dim (get_ax (size (gs_core s)) a) (get_ax af a),
                                    maybe_resolve_dim (get_ax (max_size (gs_core s)) a) (get_ax af a) with None, None => false | _, _ => true end)).
    { intros a. pose proof (Wdef a (get_ax af a) (get_ax af' a) (rel_get_ax _ _ _ a Haf)) as E. unfold dims_definite, dim_definite in E.
      injection E as E1 E2.
      destruct (maybe_resolve_dim (get_ax (size (gs_core s')) a) (get_ax af' a)), (maybe_resolve_dim (get_ax (size (gs_core s)) a) (get_ax af a));
        try discriminate; try reflexivity.
      destruct (maybe_resolve_dim (get_ax (max_size (gs_core s')) a) (get_ax af' a)), (maybe_resolve_dim (get_ax (max_size (gs_core s)) a) (get_ax af a));
        try discriminate; reflexivity. }
    rewrite (Emax Inline), (Emax Block).
    rewrite (explicit_grid_size_invariant k Hk _ _ _ _ _ _ _ Wtc (proj1 Haf) (rel_lp_sfn _ _ (proj1 Wgap))),
            (explicit_grid_size_invariant k Hk _ _ _ _ _ _ _ Wtr (proj2 Haf) (rel_lp_sfn _ _ (proj2 Wgap))).
    reflexivity.
  Qed.

  (* ---- placement reads the grid lines and the auto-flow only: EQUAL results *)
  Lemma place_wrel s s' ec er est inflow inflow' : W s s' -> Forall2 (inflow_rel k) inflow inflow' -> place s' ec er est inflow' = place s ec er est inflow.
  Proof.
    intros Hs Hin. wopen Hs. unfold place. rewrite Wflow.
    assert (E : map (fun ic : nat * GStyle XQ => (Z.of_nat (fst ic), g_child (snd ic))) inflow'
                = map (fun ic : nat * GStyle XQ => (Z.of_nat (fst ic), g_child (snd ic))) inflow).
    { induction Hin as [|a b l l' [E1 E2] Hl IH]; [reflexivity|]. cbn [map]. rewrite IH, E1, (w_child _ _ E2). reflexivity. }
    rewrite E. reflexivity.
  Qed.

  (* ---- the initial items *)
  Lemma gstyle_rel_default d p : gstyle_rel k (default_gstyle (T := XQ) d p) (default_gstyle d p).
  Proof.
    unfold gstyle_rel, default_gstyle, default_core, style_rel. cbn.
    repeat match goal with |- _ /\ _ => split end; try reflexivity; try exact I; try apply sc_zero; try constructor;
      cbn; repeat match goal with |- _ /\ _ => split end; first [exact I|apply sc_zero].
  Qed.
  Lemma wrel_bare_none : W bare_none_gstyle bare_none_gstyle.
  Proof. apply (gwrel_of_rel k Hk). apply gstyle_rel_default. Qed.

  Lemma style_at_wrel inflow inflow' node : Forall2 (inflow_rel k) inflow inflow' -> W (style_at inflow node) (style_at inflow' node).
  Proof.
    unfold style_at. induction 1 as [|a b l l' [E1 E2] Hl IH]; cbn [find]; [apply wrel_bare_none|].
    rewrite E1. destruct (Nat.eqb (fst a) node); [exact E2|exact IH].
  Qed.

  Lemma rel_has_intrinsic_sizing_function t t' : track_rel k t t' -> has_intrinsic_sizing_function t' = has_intrinsic_sizing_function t.
  Proof. intros Ht. track_open Ht. unfold has_intrinsic_sizing_function. rewrite (rel_is_intrinsic k _ _ Hmin), (rel_is_intrinsic k _ _ Hmax). reflexivity. Qed.

  Lemma rel_crosses (p : track XQ -> bool) ix ts ts' : (forall t t', track_rel k t t' -> p t' = p t) -> tracks_rel k ts ts' ->
    crosses p ix ts' = crosses p ix ts.
  Proof. intros Hp Hts. unfold crosses. apply (rel_existsb (track_rel k)); [exact Hp|]. apply rel_firstn. apply rel_skipn. exact Hts. Qed.

  Lemma icache_rel_empty : icache_rel k ic_empty ic_empty.
  Proof. unfold icache_rel, ic_empty. cbn. repeat split; exact I. Qed.

  Lemma rel_make_item st st' inflow inflow' cc rc cols cols' rows rows' it :
    W st st' -> Forall2 (inflow_rel k) inflow inflow' -> tracks_rel k cols cols' -> tracks_rel k rows rows' ->
    res_rel (gitem_rel k) (make_item st inflow cc rc cols rows it) (make_item st' inflow' cc rc cols' rows' it).
  Proof.
    intros Hst Hin Hc Hr. pose proof (style_at_wrel _ _ (Z.to_nat (PL.i_index it)) Hin) as Hcs. wopen Hst.
    unfold make_item, PB.bind. destruct (ix_of (PL.i_col it) cc) as [cix|]; [|exact I]. destruct (ix_of (PL.i_row it) rc) as [rix|]; [|exact I].
    cbn [res_rel]. pose proof Hcs as Hcs0. destruct Hcs0 as (_ & _ & _ & _ & _ & _ & _ & _ & _ & _ & _ & _ & _ & _ & _ & _ & _ & _ & Eas & Ejs & _).
    unfold gitem_rel.
    cbn [g_node g_style g_line g_align g_justify g_ix g_xflex g_xintr g_baseline g_shim g_cache].
    rewrite Eas, Ejs, Wai, Wji,
      (rel_crosses _ cix _ _ (rel_is_flexible k) Hc), (rel_crosses _ rix _ _ (rel_is_flexible k) Hr),
      (rel_crosses _ cix _ _ rel_has_intrinsic_sizing_function Hc), (rel_crosses _ rix _ _ rel_has_intrinsic_sizing_function Hr).
    repeat match goal with |- _ /\ _ => split end; try reflexivity; first [exact Hcs|exact I|apply sc_zero|apply icache_rel_empty].
  Qed.
End Front.
