(* Fuel sufficiency, structurally counted loops (any `Num` instance, no premise about the numbers):
     m_batch_loop      (Model/GridAlg.v, fuel S (length items))    each batch advances index_offset, which is < length items
     m_baseline_rows   (Model/GridAlg.v, fuel length sorted)       each row removes at least its first item
     batch_loop        (Model/GridIntrinsic.v, fuel S (length items)): Proofs/GridIntrinsicProofs.v intrinsic_terminates
   The programs are compared with `peq` (Model/FuelDefs.v): same tree calls, same leaves. *)
From Coq Require Import ZArith Bool List Lia Permutation.
From TV Require Import Num.Num Model.Common Model.Leaf Gen.GridTracksGen Model.GridTracks Model.GridIntrinsic Model.GridAlgBase Model.GridAlg
                       Model.FuelDefs Proofs.GridIntrinsicProofs Proofs.GridAlgProg.
Import ListNotations.
Close Scope Z_scope.
Close Scope N_scope.

Section Structural.
  Context {T : Type} `{Num T}.
  Notation GItem := (@GItem T).
  Notation track := (track T).
  Notation Prog := (@Prog T).

  Lemma peq_refl {A} (p : Prog A) : peq p p.
  Proof. induction p as [a|c kn pa av ax k IH|c pa k IH]; constructor; auto. Qed.

  Lemma peq_sym {A} (p q : Prog A) : peq p q -> peq q p.
  Proof. induction 1; constructor; auto. Qed.

  Lemma peq_trans {A} (p q r : Prog A) : peq p q -> peq q r -> peq p r.
  Proof.
    intros Hpq. revert r. induction Hpq as [a|c kn pa av ax k k' Hk IH|c pa k k' Hk IH]; intros r Hqr.
    - exact Hqr.
    - inversion Hqr; subst. constructor. intros v. apply IH. auto.
    - inversion Hqr; subst. constructor. intros h b. apply IH. auto.
  Qed.

  (* the two continuations need to agree only on the values the program can return *)
  Lemma peq_bind_good {A B} (Q : A -> Prop) (p : Prog A) (f g : A -> Prog B) :
    PGood (fun _ => True) true Q p -> (forall a, Q a -> peq (f a) (g a)) -> peq (pbind p f) (pbind p g).
  Proof.
    intros Hp Hfg. induction Hp as [a Ha|c kn pa av ax k Hc Hk IH|c pa k Hb Hc Hk IH]; cbn [pbind].
    - apply Hfg. exact Ha.
    - constructor. exact IH.
    - constructor. exact IH.
  Qed.

  Lemma peq_bind {A B} (p : Prog A) (f g : A -> Prog B) : (forall a, peq (f a) (g a)) -> peq (pbind p f) (pbind p g).
  Proof. intros Hfg. induction p as [a|c kn pa av ax k IH|c pa k IH]; cbn [pbind]; [apply Hfg|constructor; auto|constructor; auto]. Qed.

  Lemma peq_bind_cong {A B} (p q : Prog A) (f g : A -> Prog B) :
    peq p q -> (forall a, peq (f a) (g a)) -> peq (pbind p f) (pbind q g).
  Proof. intros Hpq Hfg. induction Hpq; cbn [pbind]; [apply Hfg|constructor; auto|constructor; auto]. Qed.

  Lemma all_IOK (l : list GItem) : Forall (IOK (fun _ => True)) l.
  Proof. apply Forall_forall. intros g _. exact I. Qed.

  (* ---- m_batch_loop *)
  Section Axis.
    Variable ax : GAxis.
    Variable inner : Size (option T).
    Variable avail : avail_space T.
    Variable fp : bool.
    Variable ot : list track.
    Variable oa : T.

    Lemma m_batch_loop_any_fuel ffs : forall f1 f2 off (items : list GItem) tracks,
      length items - off < f1 -> length items - off < f2 ->
      peq (m_batch_loop ax inner avail fp ot oa f1 ffs off items tracks) (m_batch_loop ax inner avail fp ot oa f2 ffs off items tracks).
    Proof.
      induction f1 as [|f1 IH]; intros f2 off items tracks H1 H2; [lia|]. destruct f2 as [|f2]; [lia|].
      cbn [m_batch_loop]. destruct (next_batch off (map (view ax) items)) as [[next is_flex]|] eqn:En; [|apply peq_refl].
      destruct (next_batch_bounds _ _ _ _ En) as [Hlt Hlen]. rewrite map_length in Hlen. cbv zeta.
      eapply peq_bind_good; [apply pg_process_batch; apply all_IOK|]. intros [ts b'] E. cbn [snd] in E.
      destruct is_flex; [apply peq_refl|].
      assert (El : length (firstn off items ++ b' ++ skipn next items) = length items).
      { pose proof (splice_nodes items b' off next ltac:(lia) E) as Es.
        apply (f_equal (@length nat)) in Es. rewrite !map_length in Es. exact Es. }
      apply IH; rewrite El; lia.
    Qed.

    (* the call of m_resolve_intrinsic *)
    Theorem m_batch_loop_fuel_suffices ffs (items : list GItem) tracks extra :
      let sorted := sort_by (fun a b => item_lt (view ax a) (view ax b)) items in
      peq (m_batch_loop ax inner avail fp ot oa (S (length items) + extra) ffs 0 sorted tracks)
          (m_batch_loop ax inner avail fp ot oa (S (length items)) ffs 0 sorted tracks).
    Proof.
      cbv zeta. assert (El : length (sort_by (fun a b => item_lt (view ax a) (view ax b)) items) = length items)
        by (apply Permutation_length; apply sort_by_perm).
      apply m_batch_loop_any_fuel; rewrite El; lia.
    Qed.
  End Axis.

  (* ---- m_baseline_rows *)
  Lemma take_row_head_length (g : GItem) l :
    length (snd (take_row (PB.l_start (get_ax (g_line g) Block)) (g :: l))) <= length l.
  Proof.
    cbn [take_row]. rewrite Z.eqb_refl. pose proof (take_row_length (PB.l_start (get_ax (g_line g) Block)) l) as Hl.
    destruct (take_row _ l) as [a b]. cbn [snd] in *. exact Hl.
  Qed.

  Lemma m_baseline_rows_any_fuel inner : forall f1 f2 (l : list GItem), length l <= f1 -> length l <= f2 ->
    peq (m_baseline_rows f1 inner l) (m_baseline_rows f2 inner l).
  Proof.
    induction f1 as [|f1 IH]; intros f2 l H1 H2.
    - destruct l; [|cbn in H1; lia]. destruct f2; cbn [m_baseline_rows]; apply peq_refl.
    - destruct l as [|g l]; [destruct f2; cbn [m_baseline_rows]; apply peq_refl|].
      destruct f2 as [|f2]; [cbn in H2; lia|]. cbn [m_baseline_rows].
      pose proof (take_row_head_length g l) as Hr.
      destruct (take_row (PB.l_start (get_ax (g_line g) Block)) (g :: l)) as [row rest]. cbn [snd length] in *.
      apply peq_bind. intros row'. apply peq_bind_cong; [|intros a; apply peq_refl]. apply IH; lia.
  Qed.

  (* the call of m_resolve_item_baselines *)
  Theorem m_baseline_rows_fuel_suffices inner (items : list GItem) extra :
    let sorted := sort_by (fun a b => Z.ltb (PB.l_start (get_ax (g_line a) Block)) (PB.l_start (get_ax (g_line b) Block))) items in
    peq (m_baseline_rows (length sorted + extra) inner sorted) (m_baseline_rows (length sorted) inner sorted).
  Proof. cbv zeta. apply m_baseline_rows_any_fuel; lia. Qed.
End Structural.
