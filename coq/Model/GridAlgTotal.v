(* compute_grid_layout with a TOTAL stand-in for the panics of the Rust code.  Model/GridAlg.v `grid_alg` returns `Ret panic_out` at once
   where the Rust code panics (checked arithmetic of placement; an absolute child's grid line outside the implicit grid:
   OriginZeroLine::into_track_vec_index asserts) -- a panic aborts the whole compute_layout call, the implementation has no behaviour
   there, so what stands in for it is a free choice.  `grid_alg_total` chooses a stand-in that keeps the interface hypotheses of the
   engine theorems (WF, H1, H3, HQ, and NS where it holds) unconditional: exactly where `grid_no_panic` fails it gives every child the
   canonical hidden-child query + `Layout::with_order` (in PerformLayout mode) and returns `panic_out`; everywhere else it IS `grid_alg`.
   The whole-tree correspondence (`vh taffytree`) never compares such an evaluation: the harness skips trees on which the implementation
   panics, and the runner prints a marker when the stand-in is evaluated.  Definitions only. *)
From Coq Require Import ZArith Bool List.
From TV Require Import Model.Common Model.Leaf Model.GridAlgBase Model.GridAlg.
From TV Require Model.Engine.
Import ListNotations.
Close Scope Z_scope.

Section GridAlgTotal.
  Context {T : Type} `{Num T}.
  Notation Alg := (Engine.Alg (GIn T) (LayoutOutput T) (GLay T)).

  Fixpoint visit_from (k n : nat) (rest : Alg) : Alg :=
    match n with
    | O => rest
    | S m => Engine.Query _ _ _ k hidden_child_input
                          (fun _ => Engine.SetLayout _ _ _ k (g_with_order k) (visit_from (S k) m rest))
    end.

  Definition panic_alg (n : nat) (inp : GIn T) : Alg :=
    match gi_mode inp with
    | Engine.PerformLayout => visit_from 0 n (Engine.Ret _ _ _ panic_out)
    | _ => Engine.Ret _ _ _ panic_out
    end.

  Definition grid_alg_total (st : GStyle T) (children : list (GStyle T)) (inp : GIn T) : Alg :=
    if grid_no_panic st children inp then grid_alg st children inp else panic_alg (length children) inp.
End GridAlgTotal.
