From Coq Require Import NArith List Bool.
From TV Require Import Model.Tree Proofs.TreeProofs.
Theorem C14_stub : True. Proof. exact stub. Qed.
Print Assumptions C14_stub.
