(* Totality of the REAL-CACHE engines the whole-tree correspondences run: Proofs/EngineRealTotal.v `gmemo_total` (any cache implementation)
   instantiated with Proofs/TaffyTotal.v `real_algo_bounded` / `bl_algo_bounded`:
     trl_memo_total   Model/TaffyEngineReal.v `trl_memo teq` (complete engine, real cache of src/tree/cache.rs)
     blr_memo_total   Model/BlockEngineReal.v `blr_memo teq pre abs_child` (block containers + leaves), abs_child AbsChildLocal
   for every ghost equality `teq`, every cache content / counters / stored layouts and every input: fuel >= height suffices. *)
From Coq Require Import ZArith Bool List Arith Lia.
From TV Require Import Num.Num.
From TV Require Import Model.Engine Model.EngineReal Proofs.EngineTotal Proofs.EngineRealTotal Proofs.TaffyTotal.
From TV Require Model.Common Model.Leaf Model.FlexAlgBase Model.BlockFlexEngine Model.TaffyEngine Model.TaffyRoot Model.TaffyEngineReal.
From TV Require Model.Block Model.BlockAlg Model.BlockEngine Model.BlockEngineReal Model.BlockAbs Proofs.BlockAbsLocal.
Import ListNotations.

Section TaffyReal.
  Import Model.Common Model.Leaf Model.FlexAlgBase Model.BlockFlexEngine Model.TaffyEngine Model.TaffyRoot Model.TaffyEngineReal.
  Context {T : Type} `{Num T}.

  Theorem trl_memo_total teq fuel (t : @trtree T) i :
    gheight (TStyle T) (FLay T) (rcache (FIn T) (LayoutOutput T)) t <= fuel -> exists o t', trl_memo teq fuel t i = Some (o, t').
  Proof. unfold trl_memo, memo_real. apply gmemo_total. intros s st j. apply real_algo_bounded. Qed.
End TaffyReal.

Section BlockReal.
  Import Model.Block Model.BlockAlg Model.BlockEngine Model.BlockEngineReal.
  Context {T : Type} `{Num T}.

  Theorem blr_memo_total teq pre abs_child (Hloc : AbsChildLocal abs_child) fuel (t : @brtree T) i :
    gheight (BNode T) (BLayout T) (rcache (BIn T) (ChildOut T)) t <= fuel -> exists o t', blr_memo teq pre abs_child fuel t i = Some (o, t').
  Proof. unfold blr_memo, memo_real. apply gmemo_total. intros s st j. apply bl_algo_bounded. exact Hloc. Qed.
End BlockReal.
