//! C15 / C16 search oracles on the implementation.
//! `vh c15 oracle <seed> <start> <n>`: random histories; after every layout: no box-generating node under the root (outside
//! display:none regions) is dirty, and laying out again with the same available space calls the measure function zero
//! times; around every mutation of a node without display:none ancestor: the node and each ancestor are dirty afterwards
//! and the dirty status of every other pre-existing node is unchanged.
//! `vh c16 oracle <seed> <start> <n>`: fresh trees up to a few hundred nodes: measure calls <= 64 x node count; single-child
//! chains of every display mix: measure calls on the leaf do not grow with depth.
use crate::hist::*;
use crate::rng::Rng;
use crate::treegen::*;
use taffy::prelude::*;

fn hidden_region(w: &World, n: NodeId) -> bool {
    // n is display:none or has a display:none ancestor
    let mut cur = Some(n);
    while let Some(c) = cur {
        if w.t.style(c).unwrap().display == Display::None {
            return true;
        }
        cur = w.t.parent(c);
    }
    false
}

fn has_hidden_proper_ancestor(w: &World, n: NodeId) -> bool {
    match w.t.parent(n) {
        Some(p) => hidden_region(w, p),
        None => false,
    }
}

fn ancestors_and_self(w: &World, n: NodeId) -> Vec<NodeId> {
    let mut v = vec![n];
    let mut cur = w.t.parent(n);
    while let Some(c) = cur {
        v.push(c);
        cur = w.t.parent(c);
    }
    v
}

pub fn c15_history(seed: u64, idx: u64) -> (Vec<String>, u64, u64) {
    let mut rng = Rng::new(seed.wrapping_mul(0x9E37_79B9).wrapping_add(idx) ^ 0xC15);
    let mut cfg = GenCfg::default();
    cfg.max_nodes = 10;
    cfg.p_hidden = 100;
    let spec = tree(&mut rng, &cfg);
    let (mut w, _root) = World::new(&spec);
    let mut fails = vec![];
    let (mut nlay, mut nmut) = (0u64, 0u64);
    let nops = 6 + rng.below(24);
    for step in 0..nops {
        let op = if step == 0 { Op::Layout(0, avail(&mut rng, &cfg)) } else { gen_op(&mut rng, &cfg, &w) };
        // targets of the mark_dirty the mutator ends with (pool indices), evaluated BEFORE the op
        let targets: Vec<NodeId> = match &op {
            Op::SetStyle(i, _) | Op::SetCtx(i, _) | Op::MarkDirty(i) => w.pool.get(*i).copied().flatten().into_iter().collect(),
            Op::AddLeaf(p, ..) | Op::InsertLeaf(p, ..) | Op::RemoveChildAt(p, _) | Op::ReplaceChildAt(p, ..) | Op::Rotate(p) | Op::DropChild(p, _) => {
                w.pool.get(*p).copied().flatten().into_iter().collect()
            }
            Op::Reparent(n, p) => {
                let mut v = vec![];
                if let Some(n) = w.pool.get(*n).copied().flatten() {
                    if let Some(old) = w.t.parent(n) {
                        v.push(old);
                    }
                }
                if let Some(p) = w.pool.get(*p).copied().flatten() {
                    v.push(p);
                }
                v
            }
            Op::Remove(i) => w.pool.get(*i).copied().flatten().and_then(|n| w.t.parent(n)).into_iter().collect(),
            _ => vec![],
        };
        let live_before: Vec<NodeId> = w.live().iter().map(|i| w.pool[*i].unwrap()).collect();
        let dirty_before: Vec<bool> = live_before.iter().map(|n| w.t.dirty(*n).unwrap()).collect();
        // expected dirty set: targets (when they have no display:none proper ancestor) and their ancestors, computed on the
        // tree BEFORE the op for detaching ops and AFTER for attaching ones; both are covered by taking ancestors before and after
        let mut expect_dirty: Vec<NodeId> = vec![];
        let visible: Vec<bool> = targets.iter().map(|t| !has_hidden_proper_ancestor(&w, *t)).collect();
        for (t, v) in targets.iter().zip(visible.iter()) {
            if *v {
                expect_dirty.extend(ancestors_and_self(&w, *t));
            }
        }
        let applied = w.apply(&op);
        if !applied {
            continue;
        }
        match &op {
            Op::Layout(i, a) => {
                nlay += 1;
                let r = w.pool[*i].unwrap();
                let mut nodes = vec![];
                w.subtree(r, &mut nodes);
                for n in &nodes {
                    if !hidden_region(&w, *n) && w.t.dirty(*n).unwrap() {
                        fails.push(format!("{step} box-generating node under the root is dirty after compute_layout"));
                        break;
                    }
                }
                MEASURE_CALLS.with(|c| c.set(0));
                compute(&mut w.t, r, *a);
                let calls = MEASURE_CALLS.with(|c| c.get());
                // the property's premise: same available space; NaN-free by construction of the generator
                if calls != 0 {
                    fails.push(format!("{step} second compute_layout with the same available space invoked measure {calls} times"));
                }
            }
            Op::Rounding(_) => {}
            _ => {
                if targets.is_empty() || !visible.iter().all(|v| *v) {
                    continue;
                }
                nmut += 1;
                for t in &targets {
                    if w.pool.iter().any(|x| *x == Some(*t)) {
                        expect_dirty.extend(ancestors_and_self(&w, *t));
                    }
                }
                for (n, before) in live_before.iter().zip(dirty_before.iter()) {
                    if !w.pool.iter().any(|x| *x == Some(*n)) {
                        continue; // removed by the op
                    }
                    let now = w.t.dirty(*n).unwrap();
                    if expect_dirty.contains(n) {
                        if !now {
                            fails.push(format!("{step} {:?}: mutated node or ancestor is not dirty", op_name(&op)));
                        }
                    } else if now != *before {
                        fails.push(format!("{step} {:?}: dirty status of an unrelated node changed {} -> {}", op_name(&op), before, now));
                    }
                }
            }
        }
        if !fails.is_empty() {
            break;
        }
    }
    (fails, nlay, nmut)
}

fn op_name(op: &Op) -> &'static str {
    match op {
        Op::SetStyle(..) => "set_style",
        Op::AddLeaf(..) => "add_child",
        Op::InsertLeaf(..) => "insert_child_at_index",
        Op::RemoveChildAt(..) => "remove_child_at_index",
        Op::ReplaceChildAt(..) => "replace_child_at_index",
        Op::Rotate(..) => "set_children",
        Op::DropChild(..) => "set_children (one child dropped)",
        Op::Reparent(..) => "reparent (remove_child+add_child or adopting set_children)",
        Op::Remove(..) => "remove",
        Op::SetCtx(..) => "set_node_context",
        Op::MarkDirty(..) => "mark_dirty",
        Op::Rounding(..) => "rounding",
        Op::Layout(..) => "compute_layout",
    }
}

// ---------------------------------------------------------------- C16

fn count_nodes(s: &NodeSpec) -> usize {
    s.count()
}

pub fn c16_tree(seed: u64, idx: u64) -> Option<String> {
    let mut rng = Rng::new(seed.wrapping_mul(0x9E37_79B9).wrapping_add(idx) ^ 0xC16);
    let mut cfg = GenCfg::default();
    cfg.max_nodes = 20 + (idx % 8) as usize * 40;
    cfg.max_depth = 3 + (idx % 5) as usize;
    cfg.max_children = 3 + (idx % 6) as usize;
    let spec = tree(&mut rng, &cfg);
    let a = avail(&mut rng, &cfg);
    let mut t: TaffyTree<Ctx> = TaffyTree::new();
    let mut ids = vec![];
    let root = build(&mut t, &spec, &mut ids);
    MEASURE_CALLS.with(|c| c.set(0));
    compute(&mut t, root, a);
    let calls = MEASURE_CALLS.with(|c| c.get());
    let n = count_nodes(&spec) as u64;
    if calls > 64 * n {
        return Some(format!("{calls} measure calls for {n} nodes (bound 64 x {n})"));
    }
    None
}

/// single-child chain of `depth` containers with displays chosen by `mix`, ending in a measured leaf
fn chain(depth: usize, mix: u64, styles: &[Style], leaf: &Style) -> NodeSpec {
    let mut node = NodeSpec { style: leaf.clone(), ctx: Some(Ctx::Text(17, 8.0)), children: vec![] };
    for d in 0..depth {
        let k = ((mix >> (2 * (d % 16))) & 3) as usize % styles.len();
        node = NodeSpec { style: styles[k].clone(), ctx: None, children: vec![node] };
    }
    node
}

pub fn c16_chain(seed: u64, idx: u64) -> Option<String> {
    let mut rng = Rng::new(seed.wrapping_mul(0x9E37_79B9).wrapping_add(idx) ^ 0xC16C);
    let mut cfg = GenCfg::default();
    cfg.p_hidden = 0;
    cfg.p_absolute = 0;
    if let Ok(v) = std::env::var("C16_CLASS") {
        // restricted style class (see lib/props/c16.py): bit 0 no percent, 1 no aspect, 2 no min/max, 3 no content-box,
        // 4 no overflow, 5 no wrap, 6 no grid templates
        let m: u32 = v.parse().unwrap();
        cfg.percent = m & 1 == 0;
        cfg.aspect = m & 2 == 0;
        cfg.minmax = m & 4 == 0;
        cfg.content_box = m & 8 == 0;
        cfg.overflow = m & 16 == 0;
        cfg.wrap = m & 32 == 0;
        cfg.grid_templates = m & 64 == 0;
    }
    // container styles of the chain: one per display, random but fixed for all depths
    let mut styles = vec![];
    for d in [Display::Flex, Display::Grid, Display::Block] {
        let mut s = style(&mut rng, &cfg, false, false);
        s.display = d;
        s.position = Position::Relative;
        styles.push(s);
    }
    let mut leaf = style(&mut rng, &cfg, false, true);
    leaf.position = Position::Relative;
    if leaf.display == Display::None {
        leaf.display = Display::Block;
    }
    let mix = rng.next();
    let a = avail(&mut rng, &cfg);
    let mut counts = vec![];
    for depth in [8usize, 16, 32, 64] {
        let spec = chain(depth, mix, &styles, &leaf);
        let mut t: TaffyTree<Ctx> = TaffyTree::new();
        let mut ids = vec![];
        let root = build(&mut t, &spec, &mut ids);
        MEASURE_CALLS.with(|c| c.set(0));
        compute(&mut t, root, a);
        counts.push(MEASURE_CALLS.with(|c| c.get()));
    }
    // "does not grow with the depth": the count at depth 64 is not larger than at depth 16 (period of the display mix)
    if counts[3] > counts[1] || counts[2] > counts[1] {
        return Some(format!("leaf measure calls grow with chain depth: depths 8/16/32/64 -> {:?}", counts));
    }
    if counts[3] > 64 {
        return Some(format!("leaf of a depth-64 chain measured {} times", counts[3]));
    }
    None
}

/// Structured chain corpus: every level is one of a few typical container styles (period-3 mixes), typical leaves.
pub fn typical_styles() -> Vec<Style> {
    let mut v = vec![];
    for d in [Display::Flex, Display::Grid, Display::Block] {
        for variant in [0, 2, 3] {
            let mut s = Style { display: d, ..Default::default() };
            match variant {
                0 => {}
                1 => {
                    s.padding = Rect { left: length(4.0), right: length(4.0), top: length(2.0), bottom: length(2.0) };
                    s.flex_direction = FlexDirection::Column;
                }
                2 => {
                    s.size = Size { width: length(200.0), height: auto() };
                    s.align_items = Some(AlignItems::Center);
                    s.flex_grow = 1.0;
                }
                _ => {
                    s.margin = Rect { left: length(3.0), right: length(3.0), top: length(3.0), bottom: length(3.0) };
                    s.flex_direction = FlexDirection::Column;
                    s.flex_wrap = FlexWrap::Wrap;
                    s.min_size = Size { width: length(10.0), height: auto() };
                    s.grid_template_columns = vec![fr(1.0)];
                }
            }
            v.push(s);
        }
    }
    v
}

pub fn c16_typical(idx: u64) -> Option<String> {
    let styles = typical_styles();
    let n = styles.len() as u64; // 9
    let (a, b, c) = (idx % n, (idx / n) % n, (idx / (n * n)) % n);
    let which_leaf = (idx / (n * n * n)) % 3;
    let which_avail = (idx / (n * n * n * 3)) % 3;
    let leaf = match which_leaf {
        0 => Style::default(),
        1 => Style { flex_grow: 1.0, ..Default::default() },
        _ => Style { size: Size { width: length(50.0), height: auto() }, ..Default::default() },
    };
    let avail = match which_avail {
        0 => Size::MAX_CONTENT,
        1 => Size { width: AvailableSpace::Definite(300.0), height: AvailableSpace::Definite(200.0) },
        _ => Size { width: AvailableSpace::MinContent, height: AvailableSpace::MaxContent },
    };
    let mut counts = vec![];
    for depth in [9usize, 18, 36, 63] {
        let mut node = NodeSpec { style: leaf.clone(), ctx: Some(Ctx::Text(17, 8.0)), children: vec![] };
        for d in 0..depth {
            let k = [a, b, c][d % 3] as usize;
            node = NodeSpec { style: styles[k].clone(), ctx: None, children: vec![node] };
        }
        let mut t: TaffyTree<Ctx> = TaffyTree::new();
        let mut ids = vec![];
        let root = build(&mut t, &node, &mut ids);
        MEASURE_CALLS.with(|c| c.set(0));
        MEASURE_LIMIT.with(|c| c.set(64 * (depth as u64 + 1) + 1));
        #[cfg(taffy_verif)]
        {
            taffy::verif_hooks::reset_queries();
            taffy::verif_hooks::set_query_limit(200_000);
        }
        let r = std::panic::catch_unwind(std::panic::AssertUnwindSafe(|| compute(&mut t, root, avail)));
        #[cfg(taffy_verif)]
        taffy::verif_hooks::set_query_limit(u64::MAX);
        MEASURE_LIMIT.with(|c| c.set(u64::MAX));
        counts.push(MEASURE_CALLS.with(|c| c.get()));
        if r.is_err() || counts[counts.len() - 1] > 64 * (depth as u64 + 1) {
            break;
        }
    }
    let last = *counts.last().unwrap();
    if counts.len() < 4 || last > counts[1] {
        return Some(format!(
            "counts={} mix ({a},{b},{c}) leaf {which_leaf} avail {which_avail}: leaf measure calls at depths 9/18/36/63",
            counts.iter().map(|x| x.to_string()).collect::<Vec<_>>().join(",")
        ));
    }
    None
}

/// Chains whose levels ALTERNATE between two variants of one container style (margins 0 / 4 on one side, a max-size on one axis
/// growing with the level), non-stretch alignment, a text-like leaf, one axis of the available space definite and far larger
/// than every max-size: successive queries of one container then differ only in a definite available space, the situation
/// in which two queries can fall into the same cache slot.  216 chains, depths 8 / 16 / 32.
pub fn c16_alternating(idx: u64) -> Option<String> {
    let kind = idx % 4;
    let align = (idx / 4) % 3;
    let side = (idx / 12) % 2;
    let clamp = (idx / 24) % 3;
    let which_avail = (idx / 72) % 3;
    let avail = match which_avail {
        0 => Size { width: AvailableSpace::MaxContent, height: AvailableSpace::Definite(5000.0) },
        1 => Size { width: AvailableSpace::Definite(5000.0), height: AvailableSpace::MaxContent },
        _ => Size::MAX_CONTENT,
    };
    let m = |px: f32| {
        if side == 0 {
            Rect { left: zero(), right: zero(), top: length(px), bottom: zero() }
        } else {
            Rect { left: length(px), right: zero(), top: zero(), bottom: zero() }
        }
    };
    let mut counts = vec![];
    for depth in [8usize, 16, 32] {
        let leaf_style = Style { margin: m(4.0), max_size: Size { width: auto(), height: length(380.0) }, ..Default::default() };
        let mut node = NodeSpec { style: leaf_style, ctx: Some(Ctx::Text(17, 8.0)), children: vec![] };
        for level in 0..depth {
            let mut s = Style { margin: m(if level % 2 == 0 { 0.0 } else { 4.0 }), ..Default::default() };
            match kind {
                0 => s.display = Display::Flex,
                1 => {
                    s.display = Display::Flex;
                    s.flex_direction = FlexDirection::Column;
                }
                2 => s.display = Display::Grid,
                _ => s.display = Display::Block,
            }
            s.align_items = [Some(AlignItems::FlexStart), Some(AlignItems::Center), None][align as usize];
            let grow = 400.0 + 20.0 * level as f32;
            match clamp {
                0 => s.max_size = Size { width: auto(), height: length(grow) },
                1 => s.max_size = Size { width: length(grow), height: auto() },
                _ => {}
            }
            node = NodeSpec { style: s, ctx: None, children: vec![node] };
        }
        let mut t: TaffyTree<Ctx> = TaffyTree::new();
        let mut ids = vec![];
        let root = build(&mut t, &node, &mut ids);
        MEASURE_CALLS.with(|c| c.set(0));
        MEASURE_LIMIT.with(|c| c.set(64 * (depth as u64 + 1) + 1));
        #[cfg(taffy_verif)]
        {
            taffy::verif_hooks::reset_queries();
            taffy::verif_hooks::set_query_limit(200_000);
        }
        let r = std::panic::catch_unwind(std::panic::AssertUnwindSafe(|| compute(&mut t, root, avail)));
        #[cfg(taffy_verif)]
        taffy::verif_hooks::set_query_limit(u64::MAX);
        MEASURE_LIMIT.with(|c| c.set(u64::MAX));
        counts.push(MEASURE_CALLS.with(|c| c.get()));
        if r.is_err() || counts[counts.len() - 1] > 64 * (depth as u64 + 1) {
            break;
        }
    }
    let last = *counts.last().unwrap();
    if counts.len() < 3 || last > counts[1] {
        return Some(format!(
            "counts={} kind {kind} (0 flex row, 1 flex column, 2 grid, 3 block) align {align} (0 start, 1 center, 2 default) margin side {side} clamp {clamp} (0 max-height, 1 max-width, 2 none) avail {which_avail}: leaf measure calls at depths 8/16/32",
            counts.iter().map(|x| x.to_string()).collect::<Vec<_>>().join(",")
        ));
    }
    None
}

/// Chains of ONE container kind in which every level has the same style, sweeping the ENUM-valued properties that decide which
/// child queries a container issues (random and "typical" corpora fix most of them at their defaults): grid chains over
/// grid-auto-flow x align-items x justify-items (4 x 4 x 4), flex chains over flex-direction x align-items x flex-wrap (4 x 4 x 3),
/// each under three available spaces, text leaf, depths 6 / 12 / 24.  336 chains.
pub fn c16_enumsweep(idx: u64) -> Option<String> {
    let which_avail = idx % 3;
    let k = idx / 3; // 0..112
    let aligns = [None, Some(AlignItems::Start), Some(AlignItems::Center), Some(AlignItems::Stretch)];
    let mut s = Style::default();
    let desc;
    if k < 64 {
        let (f, a, j) = (k % 4, (k / 4) % 4, (k / 16) % 4);
        s.display = Display::Grid;
        s.grid_auto_flow = [GridAutoFlow::Row, GridAutoFlow::Column, GridAutoFlow::RowDense, GridAutoFlow::ColumnDense][f as usize];
        s.align_items = aligns[a as usize];
        s.justify_items = aligns[j as usize];
        desc = format!("grid auto-flow {f} (0 row, 1 column, 2 row dense, 3 column dense) align-items {a} justify-items {j} (0 default, 1 start, 2 center, 3 stretch)");
    } else {
        let k = k - 64;
        let (d, a, w) = (k % 4, (k / 4) % 4, (k / 16) % 3);
        s.display = Display::Flex;
        s.flex_direction = [FlexDirection::Row, FlexDirection::Column, FlexDirection::RowReverse, FlexDirection::ColumnReverse][d as usize];
        s.align_items = aligns[a as usize];
        s.flex_wrap = [FlexWrap::NoWrap, FlexWrap::Wrap, FlexWrap::WrapReverse][w as usize];
        desc = format!("flex direction {d} (0 row, 1 column, 2 row-reverse, 3 column-reverse) align-items {a} (0 default, 1 start, 2 center, 3 stretch) wrap {w}");
    }
    let avail = match which_avail {
        0 => Size::MAX_CONTENT,
        1 => Size { width: AvailableSpace::Definite(300.0), height: AvailableSpace::Definite(200.0) },
        _ => Size { width: AvailableSpace::MinContent, height: AvailableSpace::MaxContent },
    };
    let mut counts = vec![];
    for depth in [6usize, 12, 24] {
        let mut node = NodeSpec { style: Style::default(), ctx: Some(Ctx::Text(17, 8.0)), children: vec![] };
        for _ in 0..depth {
            node = NodeSpec { style: s.clone(), ctx: None, children: vec![node] };
        }
        let mut t: TaffyTree<Ctx> = TaffyTree::new();
        let mut ids = vec![];
        let root = build(&mut t, &node, &mut ids);
        MEASURE_CALLS.with(|c| c.set(0));
        MEASURE_LIMIT.with(|c| c.set(64 * (depth as u64 + 1) + 1));
        #[cfg(taffy_verif)]
        {
            taffy::verif_hooks::reset_queries();
            taffy::verif_hooks::set_query_limit(200_000);
        }
        let r = std::panic::catch_unwind(std::panic::AssertUnwindSafe(|| compute(&mut t, root, avail)));
        #[cfg(taffy_verif)]
        taffy::verif_hooks::set_query_limit(u64::MAX);
        MEASURE_LIMIT.with(|c| c.set(u64::MAX));
        counts.push(MEASURE_CALLS.with(|c| c.get()));
        if r.is_err() || counts[counts.len() - 1] > 64 * (depth as u64 + 1) {
            break;
        }
    }
    let last = *counts.last().unwrap();
    if counts.len() < 3 || last > counts[0] {
        return Some(format!(
            "counts={} {desc} avail {which_avail}: leaf measure calls at depths 6/12/24",
            counts.iter().map(|x| x.to_string()).collect::<Vec<_>>().join(",")
        ));
    }
    None
}

/// Extreme-value corpus: trees whose sizes overflow f32 (content-box width f32::MAX plus padding f32::MAX gives +inf) or are
/// huge but finite.  The laziness clauses must hold for them like for any other tree: a second layout with the same available
/// space makes no measure call, and no node is dirty after a pass.  Prints one `FAIL extreme <k> ...` line per violated clause.
pub fn c15_extreme() {
    let huge_leaf = |w: f32, pad: f32| Style {
        box_sizing: BoxSizing::ContentBox,
        size: Size { width: length(w), height: auto() },
        padding: Rect { left: length(pad), right: zero(), top: zero(), bottom: zero() },
        flex_shrink: 0.0,
        ..Default::default()
    };
    let mut k = 0;
    for (w, pad) in [(f32::MAX, f32::MAX), (f32::MAX, 0.0), (1.0e30, 1.0e30), (3.0e38, 1.0e38)] {
        for outer in [Display::Flex, Display::Block, Display::Grid] {
            k += 1;
            let mut t: TaffyTree<Ctx> = TaffyTree::new();
            t.disable_rounding();
            let huge = t.new_leaf_with_context(huge_leaf(w, pad), Ctx::Fixed(30.0, 20.0)).unwrap();
            let normal = t.new_leaf_with_context(Style { flex_shrink: 0.0, ..Default::default() }, Ctx::Fixed(30.0, 20.0)).unwrap();
            let row = t.new_with_children(Style { display: outer, ..Default::default() }, &[huge, normal]).unwrap();
            let root = t.new_with_children(Style { display: Display::Flex, flex_direction: FlexDirection::Column, ..Default::default() }, &[row]).unwrap();
            let all = [root, row, huge, normal];
            let r = std::panic::catch_unwind(std::panic::AssertUnwindSafe(|| {
                compute(&mut t, root, Size::MAX_CONTENT);
                let dirty: Vec<usize> = (0..4).filter(|i| t.dirty(all[*i]).unwrap()).collect();
                MEASURE_CALLS.with(|c| c.set(0));
                compute(&mut t, root, Size::MAX_CONTENT);
                (dirty, MEASURE_CALLS.with(|c| c.get()))
            }));
            match r {
                Ok((dirty, calls)) => {
                    if !dirty.is_empty() {
                        println!("FAIL extreme {k} width {w:e} padding {pad:e} in a {outer:?} container: nodes {dirty:?} (0 root, 1 container, 2 huge leaf, 3 normal leaf) are dirty right after compute_layout");
                    }
                    if calls != 0 {
                        println!("FAIL extreme {k} width {w:e} padding {pad:e} in a {outer:?} container: a second compute_layout of the unchanged tree made {calls} measure calls");
                    }
                }
                Err(_) => println!("SKIP extreme {k} (layout panics: C03's business)"),
            }
        }
    }
    println!("EXTREME {k}");
}

pub fn main15(args: &[String]) {
    std::panic::set_hook(Box::new(|_| {}));
    if args[0] == "extreme" {
        c15_extreme();
        return;
    }
    let seed: u64 = args[1].parse().unwrap();
    let start: u64 = args[2].parse().unwrap();
    let n: u64 = args[3].parse().unwrap();
    let (mut l, mut m) = (0, 0);
    for idx in start..start + n {
        match std::panic::catch_unwind(|| c15_history(seed, idx)) {
            Ok((fails, nl, nm)) => {
                l += nl;
                m += nm;
                for f in fails {
                    println!("FAIL {idx} {f}");
                }
            }
            Err(_) => println!("PANIC {idx}"),
        }
    }
    println!("DONE {n} {l} {m}");
}

pub fn main16(args: &[String]) {
    std::panic::set_hook(Box::new(|_| {}));
    let seed: u64 = args[1].parse().unwrap();
    let start: u64 = args[2].parse().unwrap();
    let n: u64 = args[3].parse().unwrap();
    #[cfg(taffy_verif)]
    taffy::verif_hooks::set_exact_key(args.get(4).map(|s| s == "1").unwrap_or(false));
    if args[0] == "typical" || args[0] == "alternating" || args[0] == "enumsweep" {
        let family: &'static str = match args[0].as_str() { "typical" => "typical", "alternating" => "alternating", _ => "enumsweep" };
        let handles: Vec<_> = (0..16u64)
            .map(|t| {
                std::thread::spawn(move || {
                    let mut out = vec![];
                    let mut idx = start + t;
                    while idx < start + n {
                        if let Ok(Some(m)) = std::panic::catch_unwind(|| match family {
                            "alternating" => c16_alternating(idx),
                            "enumsweep" => c16_enumsweep(idx),
                            _ => c16_typical(idx),
                        }) {
                            out.push(format!("FAIL {idx} {family} {m}"));
                        }
                        idx += 16;
                    }
                    out
                })
            })
            .collect();
        let mut all: Vec<String> = handles.into_iter().flat_map(|h| h.join().unwrap()).collect();
        all.sort_by_key(|l| l.split_whitespace().nth(1).unwrap().parse::<u64>().unwrap());
        for l in all {
            println!("{l}");
        }
        println!("DONE {n}");
        return;
    }
    for idx in start..start + n {
        let trees_only = std::env::var("C16_TREES_ONLY").is_ok();
        match std::panic::catch_unwind(|| (c16_tree(seed, idx), if trees_only { None } else { c16_chain(seed, idx) })) {
            Ok((a, b)) => {
                if let Some(m) = a {
                    println!("FAIL {idx} tree {m}");
                }
                if let Some(m) = b {
                    println!("FAIL {idx} chain {m}");
                }
            }
            Err(_) => println!("PANIC {idx}"),
        }
    }
    println!("DONE {n}");
}
