(* The grid container algorithm (src/compute/grid/mod.rs `compute_grid_layout`, all of it) as a RESUMPTION over the engine
   interface of Model/Engine.v (`Alg`: Query a child / SetLayout on a child / Ret), any `Num` instance.  Definitions only.

     Rust                                                                  resumption
     tree.measure_child_size(child, kd, parent, avail, sizing, axis, FALSE)  Query child (mkGIn ComputeSize sizing axis kd parent avail FALSE),
                                                                           the continuation reads `.size.get_abs(axis)`
     tree.perform_child_layout(child, kd, parent, avail, sizing, FALSE)     Query child (mkGIn PerformLayout sizing Both kd parent avail FALSE)
     tree.set_unrounded_layout(child, &layout)                              SetLayout child layout
     tree.get_grid_child_style(child)                                       the child-style list argument

   Structure.  Everything up to and including track sizing and its re-runs (steps 1-7 of compute_grid_layout) talks to the tree
   only through GridItem::{min,max}_content_contribution (measure_child_size) and resolve_item_baselines (perform_child_layout):
   that phase is written in a small free monad `Prog` whose only effects are these two calls (`PMeasure`, `PBaseline`), and is
   turned into a resumption by `run`.  `run` is given the predicate "child c is in flow" and addresses a query only to such a
   child (a query to any other index is skipped with a zero answer): in the sizing phase every tree call is on `item.node` and the
   items are the in-flow children, so the guard never fires -- the correspondence check would see a missing query if it did --
   and it makes "the sizing phase only talks to in-flow children" true by construction.  The final phase (alignment, positioning
   of the in-flow items, of the hidden and of the absolute children, the container baseline) is written directly as a resumption.

   Components tied to the source elsewhere and reused here:
     child iterators          Gen/FiltersGen.v grid_estimate_children / grid_in_flow_children   (T: translated closures)
     estimate + placement     Model/Placement.v compute_grid_size_estimate / place_grid_items   (C08; tables T in Gen/PlacementGen.v)
     explicit grid, track initialisation, 11.4, 11.6-11.8, align_tracks       Model/GridTracks.v   (C09)
     11.5 distribution kernels (to_base, to_limit, flushes, batching)         Model/GridIntrinsic.v   (C09 stage 2)
     align_and_position_item  Gen/AbsPosGen.v grid_resolve / grid_known / grid_place            (T: translated for C11)
     MaybeMath / resolve tables                                                Gen/MathGen.v          (T)
   Transcribed here (float operations in source order), because no model covered them: the container preprocessing of
   compute_grid_layout, GridItem::{known_dimensions, available_space(_cached), margins_axis_sums_with_baseline_shims,
   min/max_content_contribution(_cached), minimum_contribution(_cached)} with their caches, IntrisicSizeMeasurer, the ORDER in which
   resolve_intrinsic_track_sizes / expand_flexible_tracks ask for contributions, compute_alignment_gutter_adjustment,
   resolve_item_baselines, the re-run logic (short-circuiting `.any`), percentage re-resolution, the absolute children's grid area,
   the container baseline.
   Deviations: `max_by(total_cmp)` is an IEEE `<` fold keeping the last maximum (differs only for NaN / signed zeros); loops carry
   the fuel of Model/GridTracks.v / GridIntrinsic.v (enough: C09); a panic of the Rust code (checked arithmetic of placement, an
   absolute child's line outside the implicit grid) is `Ret panic_out`.  calc() and named lines are out of scope. *)
From Coq Require Import ZArith NArith Bool List.
From TV Require Import Model.Common Model.Leaf Gen.GridTracksGen Model.GridTracks Model.GridIntrinsic.
From TV Require Import Model.FiltersBase Gen.FiltersGen Model.ItemFilters Model.GridAlgBase.
From TV Require Gen.PlacementGen.
Import ListNotations.
Close Scope Z_scope.
Close Scope N_scope.
Open Scope nat_scope.

Module PG := PlacementGen.

Section GridAlg.
  Context {T : Type} `{Num T}.
  Local Open Scope num_scope.

  Notation Alg := (Engine.Alg (GIn T) (LayoutOutput T) (GLay T)).
  Notation Ret := (Engine.Ret (GIn T) (LayoutOutput T) (GLay T)).
  Notation Query := (Engine.Query (GIn T) (LayoutOutput T) (GLay T)).
  Notation SetLayout := (Engine.SetLayout (GIn T) (LayoutOutput T) (GLay T)).
  Notation track := (track T).

  (* ================================================================================================ the sizing monad *)

  Inductive Prog (A : Type) : Type :=
  | PRet (a : A)
    (* tree.measure_child_size(c, known, parent, avail, InherentSize, axis, FALSE) *)
  | PMeasure (c : nat) (known parent : Size (option T)) (avail : Size (AvailableSpace T)) (ax : GAxis) (k : T -> Prog A)
    (* tree.perform_child_layout(c, NONE, parent, MIN_CONTENT, InherentSize, FALSE): the answer's size.height and first_baselines.y *)
  | PBaseline (c : nat) (parent : Size (option T)) (k : T -> option T -> Prog A).
  Arguments PRet {A}. Arguments PMeasure {A}. Arguments PBaseline {A}.

  Fixpoint pbind {A B} (p : Prog A) (g : A -> Prog B) : Prog B :=
    match p with
    | PRet a => g a
    | PMeasure c kn pa av ax k => PMeasure c kn pa av ax (fun v => pbind (k v) g)
    | PBaseline c pa k => PBaseline c pa (fun h b => pbind (k h b) g)
    end.

  Notation "'do' ' p <- m ;; k" := (pbind m (fun p => k)) (at level 200, p pattern, m at level 100, k at level 200).
  Notation "'do' x <- m ;; k" := (pbind m (fun x => k)) (at level 200, x name, m at level 100, k at level 200).

  (* a loop over a list that threads a state and may replace each element *)
  Fixpoint pmap_acc {S X} (f : S -> X -> Prog (S * X)) (l : list X) (s : S) : Prog (S * list X) :=
    match l with
    | [] => PRet (s, [])
    | x :: r => do '(s1, x1) <- f s x ;; do '(s2, r2) <- pmap_acc f r s1 ;; PRet (s2, x1 :: r2)
    end.

  Definition line_false : Line bool := mkLine false false.
  Definition measure_input (known parent : Size (option T)) (avail : Size (AvailableSpace T)) (ax : GAxis) : GIn T :=
    mkGIn Engine.ComputeSize InherentSize (req_of ax) known parent avail line_false.
  Definition baseline_input (parent : Size (option T)) : GIn T :=
    mkGIn Engine.PerformLayout InherentSize AxBoth size_NONE parent (mkSize MinContent MinContent) line_false.

  (* the resumption of a sizing program; `ok c`: child c is in flow *)
  Fixpoint run {A} (ok : nat -> bool) (p : Prog A) (k : A -> Alg) : Alg :=
    match p with
    | PRet a => k a
    | PMeasure c kn pa av ax f =>
        if ok c then Query c (measure_input kn pa av ax) (fun o => run ok (f (get_ax (out_size o) ax)) k)
        else run ok (f zero) k
    | PBaseline c pa f =>
        if ok c then Query c (baseline_input pa) (fun o => run ok (f (height (out_size o)) (py (first_baselines o))) k)
        else run ok (f zero None) k
    end.

  (* ================================================================================================ grid items *)

  (* the four caches of a GridItem *)
  Record ICache := mkIC {
    ic_avail : option (Size (option T));      (* available_space_cache *)
    ic_min : Size (option T);                 (* min_content_contribution_cache *)
    ic_minimum : Size (option T);             (* minimum_contribution_cache *)
    ic_max : Size (option T);                 (* max_content_contribution_cache *)
  }.
  Definition ic_empty : ICache := mkIC None size_NONE size_NONE size_NONE.

  (* GridItem: per-axis fields are a Size (width = the column / inline axis) *)
  Record GItem := mkGItem {
    g_node : nat;                             (* node = source_order: the child's index *)
    g_style : GStyle T;
    g_line : Size (PB.Ln Z);                  (* column / row: origin-zero lines from placement *)
    g_align : AE.AlignItems; g_justify : AE.AlignItems;     (* align_self / justify_self, defaulted by the container's *_items *)
    g_ix : Size (nat * nat);                  (* column_indexes / row_indexes *)
    g_xflex : Size bool; g_xintr : Size bool; (* crosses_flexible_* / crosses_intrinsic_* *)
    g_baseline : option T; g_shim : T;
    g_cache : ICache;
  }.
  Definition set_cache (g : GItem) (c : ICache) : GItem :=
    mkGItem (g_node g) (g_style g) (g_line g) (g_align g) (g_justify g) (g_ix g) (g_xflex g) (g_xintr g) (g_baseline g) (g_shim g) c.
  Definition set_baseline (g : GItem) (b : option T) : GItem :=
    mkGItem (g_node g) (g_style g) (g_line g) (g_align g) (g_justify g) (g_ix g) (g_xflex g) (g_xintr g) b (g_shim g) (g_cache g).
  Definition set_shim (g : GItem) (s : T) : GItem :=
    mkGItem (g_node g) (g_style g) (g_line g) (g_align g) (g_justify g) (g_ix g) (g_xflex g) (g_xintr g) (g_baseline g) s (g_cache g).
  Definition set_ix_flags (g : GItem) (ix : Size (nat * nat)) (xf xi : Size bool) : GItem :=
    mkGItem (g_node g) (g_style g) (g_line g) (g_align g) (g_justify g) ix xf xi (g_baseline g) (g_shim g) (g_cache g).

  Definition set_ic_avail (g : GItem) (a : option (Size (option T))) : GItem :=
    let c := g_cache g in set_cache g (mkIC a (ic_min c) (ic_minimum c) (ic_max c)).
  Definition set_ic_min (g : GItem) (ax : GAxis) (v : option T) : GItem :=
    let c := g_cache g in set_cache g (mkIC (ic_avail c) (set_ax (ic_min c) ax v) (ic_minimum c) (ic_max c)).
  Definition set_ic_minimum (g : GItem) (ax : GAxis) (v : option T) : GItem :=
    let c := g_cache g in set_cache g (mkIC (ic_avail c) (ic_min c) (set_ax (ic_minimum c) ax v) (ic_max c)).
  Definition set_ic_max (g : GItem) (ax : GAxis) (v : option T) : GItem :=
    let c := g_cache g in set_cache g (mkIC (ic_avail c) (ic_min c) (ic_minimum c) (set_ax (ic_max c) ax v)).

  Definition g_core (g : GItem) : Style T := gs_core (g_style g).
  Definition ai_is_baseline (a : AE.AlignItems) : bool := AE.AlignItems_eqb a AE.AI_Baseline.
  Definition ai_is_stretch (a : AE.AlignItems) : bool := AE.AlignItems_eqb a AE.AI_Stretch.
  Definition lpa_is_auto (d : LengthPercentageAuto T) : bool := match d with Auto => true | _ => false end.

  (* Line<OriginZeroLine>::span *)
  Definition ln_span (l : PB.Ln Z) : nat := match PG.line_span l with PB.Ok z => Z.to_nat z | PB.Err _ => 0 end.

  (* what Model/GridIntrinsic.v reads of an item in one axis (the margin is added separately, where IntrisicSizeMeasurer does) *)
  Definition view (ax : GAxis) (g : GItem) : item T :=
    let ln := get_ax (g_line g) ax in
    mk_item (g_node g) (PB.l_start ln) (ln_span ln) (fst (get_ax (g_ix g) ax)) (snd (get_ax (g_ix g) ax))
            (get_ax (g_xflex g) ax) (get_ax (g_xintr g) ax)
            (is_scroll_container (point_get_ax (overflow (g_core g)) ax)) zero.

  (* a stable insertion sort (slice::sort_by / sort_by_key are stable) *)
  Fixpoint insert_by {X} (lt : X -> X -> bool) (x : X) (l : list X) : list X :=
    match l with
    | [] => [x]
    | y :: r => if lt x y then x :: y :: r else y :: insert_by lt x r
    end.
  Definition sort_by {X} (lt : X -> X -> bool) (l : list X) : list X := fold_left (fun acc x => insert_by lt x acc) l [].

  (* ================================================================================================ item contributions (grid_item.rs) *)

  (* GridItem::margins_axis_sums_with_baseline_shims *)
  Definition item_margin_sums (inner_w : option T) (g : GItem) : Size T :=
    let m := margin (g_core g) in
    sum_axes (mkRect (resolve_or_zero_lpa (r_left m) (Some zero)) (resolve_or_zero_lpa (r_right m) (Some zero))
                     (resolve_or_zero_lpa (r_top m) inner_w + g_shim g) (resolve_or_zero_lpa (r_bottom m) inner_w)).

  (* GridItem::known_dimensions *)
  Definition item_known_dimensions (inner : Size (option T)) (area : Size (option T)) (g : GItem) : Size (option T) :=
    let c := g_core g in
    let margins := item_margin_sums (width inner) g in
    let ar := aspect_ratio c in
    let pad := rect_resolve_or_zero_lp_size (padding c) area in
    let bor := rect_resolve_or_zero_lp_size (border c) area in
    let pbs := sum_axes (rect_add pad bor) in
    let bsa := match box_sizing c with ContentBox => pbs | BorderBox => size_ZERO end in
    let inherent := size_maybe_add_of (maybe_apply_aspect_ratio (size_maybe_resolve_dim (size c) area) ar) bsa in
    let mn := size_maybe_add_of (maybe_apply_aspect_ratio (size_maybe_resolve_dim (min_size c) area) ar) bsa in
    let mx := size_maybe_add_of (maybe_apply_aspect_ratio (size_maybe_resolve_dim (max_size c) area) ar) bsa in
    let area_minus := size_maybe_sub_of area margins in
    let w := opt_or (width inherent)
                    (if negb (lpa_is_auto (r_left (margin c))) && negb (lpa_is_auto (r_right (margin c))) && ai_is_stretch (g_justify g)
                     then width area_minus else None) in
    let s1 := maybe_apply_aspect_ratio (mkSize w (height inherent)) ar in
    let h := opt_or (height s1)
                    (if negb (lpa_is_auto (r_top (margin c))) && negb (lpa_is_auto (r_bottom (margin c))) && ai_is_stretch (g_align g)
                     then height area_minus else None) in
    let s2 := maybe_apply_aspect_ratio (mkSize (width s1) h) ar in
    size_maybe_clamp_oo s2 mn mx.

  (* Iterator::sum::<Option<f32>> *)
  Fixpoint all_some (l : list (option T)) : option (list T) :=
    match l with
    | [] => Some []
    | Some v :: r => match all_some r with Some vs => Some (v :: vs) | None => None end
    | None :: _ => None
    end.
  Definition osum (l : list (option T)) : option T := option_map fsum (all_some l).

  Fixpoint enum_from {X} (i : nat) (l : list X) : list (nat * X) :=
    match l with [] => [] | x :: r => (i, x) :: enum_from (S i) r end.

  (* GridTrack::content_alignment_adjustment: track_sizing_algorithm stores ONE value on the tracks 2, 4, .. of the other axis
     (when there are more than 3); `adj` is that value (0.0 until it is first stored) *)
  Definition adj_at (adj : T) (i : nat) : T := if Nat.even i && Nat.leb 2 i then adj else zero.

  (* get_track_size_estimate: the first column pass uses the max track sizing function, every other pass the base size *)
  Definition track_estimate (first_pass : bool) (t : track) (parent : option T) : option T :=
    if first_pass then definite_value parent (maxf t) else Some (base_size t).

  (* GridItem::available_space *)
  Definition item_available_space (ax : GAxis) (first_pass : bool) (other_tracks : list track) (other_adj : T)
             (other_avail : option T) (g : GItem) : Size (option T) :=
    let '(s, e) := get_ax (g_ix g) (other_ax ax) in
    let rng := firstn (e - S s) (skipn (S s) (enum_from 0 other_tracks)) in
    let v := osum (map (fun '(i, t) => option_map (fun sz => sz + adj_at other_adj i) (track_estimate first_pass t other_avail)) rng) in
    set_ax size_NONE (other_ax ax) v.

  Definition space_avail (dflt : AvailableSpace T) (space : Size (option T)) : Size (AvailableSpace T) :=
    size_map (fun o => match o with Some s => Types.Definite s | None => dflt end) space.

  (* GridItem::spanned_fixed_track_limit is Model/GridIntrinsic.v's *)

  Section Axis.
    Variable ax : GAxis.
    Variable inner : Size (option T).          (* inner_node_size *)
    Variable avail : avail_space T.            (* axis_available_grid_space *)
    Variable first_pass : bool.
    Variable other_tracks : list track.
    Variable other_adj : T.

    Notation axis_inner := (get_ax inner ax).

    (* GridItem::available_space_cached, as IntrisicSizeMeasurer::available_space calls it *)
    Definition avail_cached (g : GItem) : Size (option T) * GItem :=
      match ic_avail (g_cache g) with
      | Some a => (a, g)
      | None =>
          let a := item_available_space ax first_pass other_tracks other_adj (get_ax inner (other_ax ax)) g in
          (a, set_ic_avail g (Some a))
      end.

    (* GridItem::min_content_contribution / max_content_contribution *)
    Definition min_content_contribution (g : GItem) (space : Size (option T)) : Prog T :=
      PMeasure (g_node g) (item_known_dimensions inner space g) inner (space_avail MinContent space) ax (fun v => PRet v).
    Definition max_content_contribution (g : GItem) (space : Size (option T)) : Prog T :=
      PMeasure (g_node g) (item_known_dimensions inner space g) inner (space_avail MaxContent space) ax (fun v => PRet v).

    Definition min_content_contribution_cached (g : GItem) (space : Size (option T)) : Prog (T * GItem) :=
      match get_ax (ic_min (g_cache g)) ax with
      | Some v => PRet (v, g)
      | None => do v <- min_content_contribution g space ;; PRet (v, set_ic_min g ax (Some v))
      end.
    Definition max_content_contribution_cached (g : GItem) (space : Size (option T)) : Prog (T * GItem) :=
      match get_ax (ic_max (g_cache g)) ax with
      | Some v => PRet (v, g)
      | None => do v <- max_content_contribution g space ;; PRet (v, set_ic_max g ax (Some v))
      end.

    (* GridItem::minimum_contribution; `tracks` = ALL tracks of the axis *)
    Definition minimum_contribution (g : GItem) (tracks : list track) (space : Size (option T)) : Prog (T * GItem) :=
      let c := g_core g in
      let pad := rect_resolve_or_zero_lp_size (padding c) inner in
      let bor := rect_resolve_or_zero_lp_size (border c) inner in
      let pbs := sum_axes (rect_add pad bor) in
      let bsa := match box_sizing c with ContentBox => pbs | BorderBox => size_ZERO end in
      let ar := aspect_ratio c in
      let from_size := get_ax (size_maybe_add_of (maybe_apply_aspect_ratio (size_maybe_resolve_dim (size c) inner) ar) bsa) ax in
      let from_min := get_ax (size_maybe_add_of (maybe_apply_aspect_ratio (size_maybe_resolve_dim (min_size c) inner) ar) bsa) ax in
      let from_overflow := if is_scroll_container (point_get_ax (overflow c) ax) then Some zero else None in
      do '(sz, g1) <-
        match opt_or from_size (opt_or from_min from_overflow) with
        | Some v => PRet (v, g)
        | None =>
            let spans_auto_min_track := existsb (fun t => is_auto (minf t)) tracks in
            let only_span_one_track := Nat.eqb (range_len (view ax g)) 1 in
            let spans_a_flexible_track := existsb (fun t => is_fr (maxf t)) tracks in
            if spans_auto_min_track && (only_span_one_track || negb spans_a_flexible_track) then
              do '(mc, g1) <- min_content_contribution_cached g space ;;
              PRet (if gs_replaced (g_style g)
                    then maybe_min_fo (maybe_min_fo mc (maybe_resolve_dim (get_ax (size c) ax) (Some zero)))
                                      (maybe_resolve_dim (get_ax (max_size c) ax) (Some zero))
                    else mc, g1)
            else PRet (zero, g)
        end ;;
      PRet (maybe_min_fo sz (spanned_fixed_track_limit axis_inner (view ax g1) tracks), g1).

    Definition minimum_contribution_cached (g : GItem) (tracks : list track) (space : Size (option T)) : Prog (T * GItem) :=
      match get_ax (ic_minimum (g_cache g)) ax with
      | Some v => PRet (v, g)
      | None => do '(v, g1) <- minimum_contribution g tracks space ;; PRet (v, set_ic_minimum g1 ax (Some v))
      end.

    (* ---- IntrisicSizeMeasurer: cached available space, cached contribution, + the margin sum of the axis *)
    Definition margin_ax (g : GItem) : T := get_ax (item_margin_sums (width inner) g) ax.
    Definition m_min_content (g : GItem) : Prog (T * GItem) :=
      let '(space, g0) := avail_cached g in
      let m := margin_ax g0 in
      do '(v, g1) <- min_content_contribution_cached g0 space ;; PRet (v + m, g1).
    Definition m_max_content (g : GItem) : Prog (T * GItem) :=
      let '(space, g0) := avail_cached g in
      let m := margin_ax g0 in
      do '(v, g1) <- max_content_contribution_cached g0 space ;; PRet (v + m, g1).
    Definition m_minimum (g : GItem) (tracks : list track) : Prog (T * GItem) :=
      let '(space, g0) := avail_cached g in
      let m := margin_ax g0 in
      do '(v, g1) <- minimum_contribution_cached g0 tracks space ;; PRet (v + m, g1).

    Definition g_scroll (g : GItem) : bool := is_scroll_container (point_get_ax (overflow (g_core g)) ax).
    Definition avail_is_intrinsic : bool := match avail with GridTracks.Definite _ => false | _ => true end.

    (* the QUIRK of steps 2 and 3.1: minimum contribution first, then the min-content contribution *)
    Definition m_intrinsic_minimum_space (g : GItem) (tracks : list track) (limit : GItem -> option T) : Prog (T * GItem) :=
      if avail_is_intrinsic && negb (g_scroll g) then
        do '(axis_minimum_size, g1) <- m_minimum g tracks ;;
        do '(axis_min_content_size, g2) <- m_min_content g1 ;;
        PRet (fmax (maybe_min_fo axis_min_content_size (limit g2)) axis_minimum_size, g2)
      else m_minimum g tracks.

    (* ---- 11.5 step 2: one item of a span-1 batch that crosses no flexible track *)
    Definition m_span1_item (tracks : list track) (g : GItem) : Prog (list track * GItem) :=
      let idx := S (fst (get_ax (g_ix g) ax)) in
      match nth_error tracks idx with
      | None => PRet (tracks, g)          (* out of bounds: a panic; excluded by placement *)
      | Some t =>
          do '(new_base_size, g1) <-
            match minf t with
            | SMinContent => do '(v, g1) <- m_min_content g ;; PRet (fmax (base_size t) v, g1)
            | SPercent _ =>
                if GridIntrinsic.is_none axis_inner then do '(v, g1) <- m_min_content g ;; PRet (fmax (base_size t) v, g1)
                else PRet (base_size t, g)
            | SMaxContent => do '(v, g1) <- m_max_content g ;; PRet (fmax (base_size t) v, g1)
            | SAuto =>
                do '(space, g1) <- m_intrinsic_minimum_space g tracks (fun _ => definite_limit axis_inner (maxf t)) ;;
                PRet (fmax (base_size t) space, g1)
            | _ => PRet (base_size t, g)
            end ;;
          let t1 := set_base t new_base_size in
          do '(t2, g2) <-
            (if is_fit_content (maxf t1) then
               do '(p1, g2) <- (if negb (g_scroll g1)
                             then do '(v, g2) <- m_min_content g1 ;; PRet (fmax (limit_planned t1) v, g2)
                             else PRet (limit_planned t1, g1)) ;;
               let fit_content_limit := fit_content_limit axis_inner t1 in
               do '(mx, g3) <- m_max_content g2 ;;
               PRet (set_limit_planned t1 (fmax p1 (fmin mx fit_content_limit)), g3)
             else if is_max_content_alike (maxf t1) || (uses_percentage (maxf t1) && GridIntrinsic.is_none axis_inner) then
               do '(mx, g2) <- m_max_content g1 ;; PRet (set_limit_planned t1 (fmax (limit_planned t1) mx), g2)
             else if is_intrinsic (maxf t1) then
               do '(mn, g2) <- m_min_content g1 ;; PRet (set_limit_planned t1 (fmax (limit_planned t1) mn), g2)
             else PRet (t1, g1)) ;;
          PRet (update_nth idx (fun _ => t2) tracks, g2)
      end.

    Definition m_span1_batch (batch : list GItem) (tracks : list track) : Prog (list track * list GItem) :=
      do '(ts, batch') <- pmap_acc m_span1_item batch tracks ;; PRet (span1_finish ts, batch').

    (* ---- 11.5 step 3 / 4: the general batch *)
    Section Batch.
      Variable is_flex : bool.
      Variable use_flex_factor : bool.

      Definition m_step_minimums (batch : list GItem) (tracks : list track) : Prog (list track * list GItem) :=
        do '(ts, b) <- pmap_acc (fun ts g =>
                       if get_ax (g_xintr g) ax then
                         do '(space, g1) <- m_intrinsic_minimum_space g ts (fun g' => spanned_track_limit axis_inner (view ax g') ts) ;;
                         PRet (to_base is_flex use_flex_factor (view ax g1) space (has_intrinsic_min axis_inner)
                                       (scroll_limit axis_inner (view ax g1)) CMinimum ts, g1)
                       else PRet (ts, g)) batch tracks ;;
        PRet (flush_planned_base ts, b).

      Definition m_step_content_minimums (batch : list GItem) (tracks : list track) : Prog (list track * list GItem) :=
        do '(ts, b) <- pmap_acc (fun ts g =>
                       do '(space, g1) <- m_min_content g ;;
                       PRet (to_base is_flex use_flex_factor (view ax g1) space (fun t => is_min_or_max_content (minf t))
                                     (scroll_limit axis_inner (view ax g1)) CMinimum ts, g1)) batch tracks ;;
        PRet (flush_planned_base ts, b).

      Definition m_step_max_content_minimums (batch : list GItem) (tracks : list track) : Prog (list track * list GItem) :=
        match avail with
        | MaxContentA =>
            do '(ts, b) <- pmap_acc (fun ts g =>
                           do '(axis_max_content_size, g1) <- m_max_content g ;;
                           let limit := spanned_track_limit axis_inner (view ax g1) ts in
                           let space := maybe_min_fo axis_max_content_size limit in
                           PRet (if existsb has_max_content_min (item_slice (view ax g1) ts)
                                 then to_base is_flex use_flex_factor (view ax g1) space has_max_content_min (fun _ => infinity) CMaximum ts
                                 else to_base is_flex use_flex_factor (view ax g1) space has_auto_min
                                              (fit_content_limited_growth_limit axis_inner) CMaximum ts, g1)) batch tracks ;;
            PRet (flush_planned_base ts, b)
        | _ => PRet (tracks, batch)
        end.

      Definition m_step_max_content_all (batch : list GItem) (tracks : list track) : Prog (list track * list GItem) :=
        do '(ts, b) <- pmap_acc (fun ts g =>
                       do '(space, g1) <- m_max_content g ;;
                       PRet (to_base is_flex use_flex_factor (view ax g1) space has_max_content_min growth_limit CMaximum ts, g1))
                    batch tracks ;;
        PRet (flush_planned_base ts, b).

      Definition m_step_intrinsic_maximums (batch : list GItem) (tracks : list track) : Prog (list track * list GItem) :=
        do '(ts, b) <- pmap_acc (fun ts g =>
                       do '(space, g1) <- m_min_content g ;;
                       PRet (to_limit axis_inner (view ax g1) space (fun t => negb (has_definite_value axis_inner (maxf t))) ts, g1))
                    batch tracks ;;
        PRet (flush_planned_growth_limit_increases true ts, b).

      Definition m_step_max_content_maximums (batch : list GItem) (tracks : list track) : Prog (list track * list GItem) :=
        do '(ts, b) <- pmap_acc (fun ts g =>
                       do '(space, g1) <- m_max_content g ;;
                       PRet (to_limit axis_inner (view ax g1) space (has_max_content_max axis_inner) ts, g1))
                    batch tracks ;;
        PRet (flush_planned_growth_limit_increases false ts, b).

      Definition m_general_batch (batch : list GItem) (tracks : list track) : Prog (list track * list GItem) :=
        do '(ts1, b1) <- m_step_minimums batch tracks ;;
        do '(ts2, b2) <- m_step_content_minimums b1 ts1 ;;
        do '(ts3, b3) <- m_step_max_content_minimums b2 ts2 ;;
        do '(ts4, b4) <- m_step_max_content_all b3 ts3 ;;
        let ts5 := fix_growth_limits ts4 in
        if is_flex then PRet (ts5, b4)
        else
          do '(ts6, b6) <- m_step_intrinsic_maximums b4 ts5 ;;
          m_step_max_content_maximums b6 ts6.
    End Batch.

    Definition m_process_batch (flex_factor_sum : T) (batch : list GItem) (is_flex : bool) (tracks : list track)
      : Prog (list track * list GItem) :=
      let batch_span := match batch with g :: _ => it_span (view ax g) | [] => 1%nat end in
      if negb is_flex && Nat.eqb batch_span 1%nat then m_span1_batch batch tracks
      else m_general_batch is_flex (is_flex && neb flex_factor_sum zero) batch tracks.

    Fixpoint m_batch_loop (fuel : nat) (flex_factor_sum : T) (index_offset : nat) (items : list GItem) (tracks : list track)
      : Prog (list track * list GItem) :=
      match fuel with
      | O => PRet (tracks, items)
      | S f =>
          match next_batch index_offset (map (view ax) items) with
          | None => PRet (tracks, items)
          | Some (next, is_flex) =>
              let batch := firstn (next - index_offset) (skipn index_offset items) in
              do '(tracks', batch') <- m_process_batch flex_factor_sum batch is_flex tracks ;;
              let items' := firstn index_offset items ++ batch' ++ skipn next items in
              if is_flex then PRet (tracks', items') else m_batch_loop f flex_factor_sum next items' tracks'
          end
      end.

    (* resolve_intrinsic_track_sizes: the sort is kept (the items vector stays sorted for the next pass) *)
    Definition m_resolve_intrinsic (items : list GItem) (tracks : list track) : Prog (list track * list GItem) :=
      let sorted := sort_by (fun a b => item_lt (view ax a) (view ax b)) items in
      let flex_factor_sum := fsum (map flex_factor tracks) in
      do '(ts, items') <- m_batch_loop (S (length items)) flex_factor_sum 0 sorted tracks ;;
      PRet (finish_infinite_limits ts, items').

    (* expand_flexible_tracks: under a max-content constraint the cached max-content contribution (WITHOUT margins, available space
       NONE when it has to be measured) of every item crossing a flexible track *)
    Definition m_flex_items (avail_exp : avail_space T) (items : list GItem) : Prog (list (nat * nat * T) * list GItem) :=
      match avail_exp with
      | MaxContentA =>
          do '(acc, items') <- pmap_acc (fun acc g =>
                               if get_ax (g_xflex g) ax then
                                 do '(v, g1) <- max_content_contribution_cached g size_NONE ;;
                                 PRet (acc ++ [(range_start (view ax g1), range_len (view ax g1), v)], g1)
                               else PRet (acc, g)) items [] ;;
          PRet (acc, items')
      | _ => PRet ([], items)
      end.
  End Axis.

  (* compute_alignment_gutter_adjustment *)
  Definition outer_gutter_weight (a : align_content) : nat :=
    match a with AStretch | ASpaceBetween => 0 | _ => 1 end.
  Definition inner_gutter_weight (a : align_content) : nat :=
    match a with ASpaceBetween => 1 | ASpaceAround => 2 | ASpaceEvenly => 1 | _ => 0 end.
  Definition compute_alignment_gutter_adjustment (alignment : align_content) (axis_inner : option T) (first_pass : bool)
             (tracks : list track) : T :=
    if Nat.leb (length tracks) 1 then zero
    else if Nat.eqb (inner_gutter_weight alignment) 0 then zero
    else
      match axis_inner with
      | Some size =>
          let free_space := match osum (map (fun t => track_estimate first_pass t (Some size)) tracks) with
                            | Some s => fmax zero (size - s)
                            | None => zero
                            end in
          let weighted_track_count := (Nat.div (length tracks - 3) 2 * inner_gutter_weight alignment + 2 * outer_gutter_weight alignment)%nat in
          (free_space / of_Z (Z.of_nat weighted_track_count)) * of_Z (Z.of_nat (inner_gutter_weight alignment))
      | None => zero
      end.

  (* resolve_item_baselines (axis Inline: rows of the other axis) *)
  Fixpoint take_row (start : Z) (l : list GItem) : list GItem * list GItem :=
    match l with
    | [] => ([], [])
    | g :: r => if Z.eqb (PB.l_start (get_ax (g_line g) Block)) start
                then let '(a, b) := take_row start r in (g :: a, b) else ([], l)
    end.
  Definition m_baseline_row (inner : Size (option T)) (row : list GItem) : Prog (list GItem) :=
    if Nat.leb (length (filter (fun g => ai_is_baseline (g_align g)) row)) 1 then PRet row
    else
      do '(_, row1) <- pmap_acc (fun (_ : unit) g =>
                      PBaseline (g_node g) inner (fun h b =>
                        PRet (tt, set_baseline g (Some (opt_unwrap_or b h
                                                        + resolve_or_zero_lpa (r_top (margin (g_core g))) (width inner))))))
                    row tt ;;
      let row_max_baseline := max_by_last (map (fun g => opt_unwrap_or (g_baseline g) zero) row1) in
      PRet (map (fun g => set_shim g (row_max_baseline - opt_unwrap_or (g_baseline g) zero)) row1).
  Fixpoint m_baseline_rows (fuel : nat) (inner : Size (option T)) (l : list GItem) : Prog (list GItem) :=
    match fuel, l with
    | O, _ => PRet l
    | _, [] => PRet []
    | S f, g :: _ =>
        let '(row, rest) := take_row (PB.l_start (get_ax (g_line g) Block)) l in
        do row' <- m_baseline_row inner row ;; do rest' <- m_baseline_rows f inner rest ;; PRet (row' ++ rest')
    end.
  Definition m_resolve_item_baselines (inner : Size (option T)) (items : list GItem) : Prog (list GItem) :=
    let sorted := sort_by (fun a b => Z.ltb (PB.l_start (get_ax (g_line a) Block)) (PB.l_start (get_ax (g_line b) Block))) items in
    m_baseline_rows (length sorted) inner sorted.

  (* the state the sizing passes share: both track vectors, the alignment adjustment stored on each, the items *)
  Record SState := mkSS { ss_cols : list track; ss_rows : list track; ss_adj_cols : T; ss_adj_rows : T; ss_items : list GItem }.
  Definition ss_tracks (s : SState) (ax : GAxis) : list track := match ax with Inline => ss_cols s | Block => ss_rows s end.
  Definition ss_adj (s : SState) (ax : GAxis) : T := match ax with Inline => ss_adj_cols s | Block => ss_adj_rows s end.
  Definition ss_set (s : SState) (ax : GAxis) (ts : list track) (other_adj : T) (items : list GItem) : SState :=
    match ax with
    | Inline => mkSS ts (ss_rows s) (ss_adj_cols s) other_adj items
    | Block => mkSS (ss_cols s) ts other_adj (ss_adj_rows s) items
    end.
  Definition ss_set_items (s : SState) (items : list GItem) : SState := mkSS (ss_cols s) (ss_rows s) (ss_adj_cols s) (ss_adj_rows s) items.

  Definition is_stretch_content (a : align_content) : bool := match a with AStretch => true | _ => false end.
  Definition to_track_avail (a : AvailableSpace T) : avail_space T :=
    match a with Types.Definite v => GridTracks.Definite v | MinContent => MinContentA | MaxContent => MaxContentA end.

  (* track_sizing_algorithm *)
  Definition m_track_sizing (ax : GAxis) (axis_min axis_max : option T) (axis_alignment other_alignment : align_content)
             (grid_avail : Size (AvailableSpace T)) (inner : Size (option T)) (first_pass has_baseline : bool) (s : SState) : Prog SState :=
    let axis_inner := get_ax inner ax in
    let avail := to_track_avail (get_ax grid_avail ax) in
    let ts0 := initialize_track_sizes axis_inner (ss_tracks s ax) in
    do items1 <- (if has_baseline then m_resolve_item_baselines inner (ss_items s) else PRet (ss_items s)) ;;
    let other_tracks := ss_tracks s (other_ax ax) in
    if forallb (fun t => base_size t =? growth_limit t) ts0 then PRet (ss_set s ax ts0 (ss_adj s (other_ax ax)) items1)
    else
      let adj := compute_alignment_gutter_adjustment other_alignment (get_ax inner (other_ax ax)) first_pass other_tracks in
      let other_adj := if Nat.ltb 3 (length other_tracks) then adj else ss_adj s (other_ax ax) in
      do '(ts1, items2) <- m_resolve_intrinsic ax inner avail first_pass other_tracks other_adj items1 ts0 ;;
      let ts2 := maximise_tracks axis_inner avail ts1 in
      let avail_exp := match axis_inner with
                       | Some sz => GridTracks.Definite sz
                       | None => match avail with MinContentA => MinContentA | _ => MaxContentA end
                       end in
      do '(flex_items, items3) <- m_flex_items ax inner avail_exp items2 ;;
      let ts3 := expand_flexible_tracks axis_min axis_max avail_exp flex_items ts2 in
      let ts4 := if is_stretch_content axis_alignment then stretch_auto_tracks axis_min avail_exp ts3 else ts3 in
      PRet (ss_set s ax ts4 other_adj items3).

  (* ================================================================================================ compute_grid_layout: steps 1-7 *)

  (* what is computed from the container's own style and the input before any child is looked at (l.50-138) *)
  Record Pre := mkPre {
    p_padding : Rect T; p_border : Rect T; p_pb_size : Size T;
    p_min : Size (option T); p_max : Size (option T); p_pref : Size (option T);
    p_gutter : Point T; p_inset : Rect T;
    p_grid_avail : Size (AvailableSpace T); p_outer : Size (option T); p_inner : Size (option T);
  }.
  Definition grid_pre (st : GStyle T) (inp : GIn T) : Pre :=
    let c := gs_core st in
    let parent := gi_parent inp in
    let ar := aspect_ratio c in
    let pad := rect_resolve_or_zero_lp (padding c) (width parent) in
    let bor := rect_resolve_or_zero_lp (border c) (width parent) in
    let pb := rect_add pad bor in
    let pbs := sum_axes pb in
    let bsa := match box_sizing c with ContentBox => pbs | BorderBox => size_ZERO end in
    let mn := size_maybe_add_of (maybe_apply_aspect_ratio (size_maybe_resolve_dim (min_size c) parent) ar) bsa in
    let mx := size_maybe_add_of (maybe_apply_aspect_ratio (size_maybe_resolve_dim (max_size c) parent) ar) bsa in
    let pref := match gi_sizing inp with
                | InherentSize => size_maybe_add_of (maybe_apply_aspect_ratio (size_maybe_resolve_dim (size c) parent) ar) bsa
                | ContentSize => size_NONE
                end in
    let gutter := point_map (fun o => match o with Scroll => scrollbar_width c | _ => zero end) (point_transpose (overflow c)) in
    let inset := mkRect (r_left pb) (r_right pb + px gutter) (r_top pb) (r_bottom pb + py gutter) in
    let kp := size_or (gi_known inp) pref in
    let cas := size_zip_map (@maybe_max_af T _)
                 (size_zip_map3 (@maybe_clamp_ao T _)
                    (size_zip_map (fun o a => match o with Some v => Types.Definite v | None => a end) kp (gi_avail inp)) mn mx) pbs in
    let grid_avail := mkSize (avail_map_definite_value (width cas) (fun space => space - horizontal_axis_sum inset))
                             (avail_map_definite_value (height cas) (fun space => space - vertical_axis_sum inset)) in
    let outer := size_maybe_max_of (size_maybe_clamp_oo kp mn mx) pbs in
    let inner := mkSize (option_map (fun space => space - horizontal_axis_sum inset) (width outer))
                        (option_map (fun space => space - vertical_axis_sum inset) (height outer)) in
    mkPre pad bor pbs mn mx pref gutter inset grid_avail outer inner.

  (* LayoutOutput::from_outer_size *)
  Definition from_outer_size (s : Size T) : LayoutOutput T := mkOutput s size_ZERO point_NONE margin_set_ZERO margin_set_ZERO false.
  (* what stands for a panic of the Rust code *)
  Definition panic_out : LayoutOutput T := from_outer_size size_ZERO.

  (* the explicit track counts (step 2) *)
  Definition explicit_counts (st : GStyle T) (P : Pre) : N * N :=
    let c := gs_core st in
    let auto_fit := size_maybe_sub_of
                      (size_maybe_max_of (size_maybe_clamp_oo (size_or (size_or (p_outer P) (p_max P)) (p_min P)) (p_min P) (p_max P)) (p_pb_size P))
                      (sum_axes (p_inset P)) in
    let is_max (a : GAxis) : bool :=
      let ctx := get_ax auto_fit a in
      match maybe_resolve_dim (get_ax (size c) a) ctx, maybe_resolve_dim (get_ax (max_size c) a) ctx with
      | None, None => false | _, _ => true end in
    (explicit_grid_size (gs_template_columns st) (width auto_fit) (lp_sfn (width (gs_gap st))) (is_max Inline),
     explicit_grid_size (gs_template_rows st) (height auto_fit) (lp_sfn (height (gs_gap st))) (is_max Block)).

  (* the three things compute_grid_layout derives from the child-style list:
     - the styles that feed the size estimate (translated closure get_child_styles_iter),
     - the in-flow children handed to placement (translated closure in_flow_children_iter),
     - the children as the final loop sees them (the whole list: hidden / absolute tests there) *)
  Definition estimate_styles (children : list (GStyle T)) : list PL.child :=
    map g_child (grid_estimate_children (fun s : GStyle T => s) g_position g_bgm children).
  Definition in_flow_styles (children : list (GStyle T)) : list (nat * GStyle T) :=
    map (fun ics : nat * GStyle T * GStyle T => (fst (fst ics), snd ics))
        (grid_in_flow_children (fun s : GStyle T => s) g_position g_bgm children).

  Definition tc_of (c : PB.TrackCounts) : track_counts :=
    mk_counts (Z.to_N (PB.tc_neg c)) (Z.to_N (PB.tc_explicit c)) (Z.to_N (PB.tc_pos c)).

  (* CellOccupancyMatrix::column_is_occupied / row_is_occupied *)
  Definition column_is_occupied (m : PL.matrix) (i : N) : bool :=
    existsb (fun row => match nth_error row (N.to_nat i) with Some PB.Unoccupied | None => false | Some _ => true end) (PL.m_inner m).
  Definition row_is_occupied (m : PL.matrix) (i : N) : bool :=
    match nth_error (PL.m_inner m) (N.to_nat i) with
    | Some row => existsb (fun c => match c with PB.Unoccupied => false | _ => true end) row
    | None => false
    end.

  (* steps 3-4: estimate, occupancy matrix, placement -- the items in PLACEMENT order.  `est`: the placement styles that feed the
     estimate; `inflow`: the in-flow children (index, style) *)
  Definition place (st : GStyle T) (ec er : N) (est : list PL.child) (inflow : list (nat * GStyle T)) : PB.res (PL.matrix * list PL.item) :=
    PB.bind (PL.compute_grid_size_estimate (Z.of_N ec) (Z.of_N er) est) (fun '(est_c, est_r) =>
    PB.bind (PL.with_track_counts est_c est_r) (fun m0 =>
    PL.place_grid_items m0 (map (fun ic : nat * GStyle T => (Z.of_nat (fst ic), g_child (snd ic))) inflow) (gs_flow st))).

  (* the style place_grid_items builds the GridItem from: the one the in-flow iterator carries for that index *)
  Definition style_at (inflow : list (nat * GStyle T)) (node : nat) : GStyle T :=
    match find (fun ic : nat * GStyle T => Nat.eqb (fst ic) node) inflow with Some ic => snd ic | None => bare_none_gstyle end.

  (* GridItem::new_with_placement_style_and_order + resolve_item_track_indexes + determine_if_item_crosses_flexible_or_intrinsic_tracks *)
  Definition ix_of (ln : PB.Ln Z) (counts : PB.TrackCounts) : PB.res (nat * nat) :=
    PB.bind (PG.into_track_vec_index (PB.l_start ln) counts) (fun s =>
    PB.bind (PG.into_track_vec_index (PB.l_end ln) counts) (fun e => PB.Ok (Z.to_nat s, Z.to_nat e))).
  Definition crosses (p : track -> bool) (ix : nat * nat) (tracks : list track) : bool :=
    existsb p (firstn (snd ix - S (fst ix)) (skipn (S (fst ix)) tracks)).
  Definition make_item (st : GStyle T) (inflow : list (nat * GStyle T)) (col_counts row_counts : PB.TrackCounts)
             (cols rows : list track) (it : PL.item) : PB.res GItem :=
    let node := Z.to_nat (PL.i_index it) in
    let cs := style_at inflow node in
    PB.bind (ix_of (PL.i_col it) col_counts) (fun cix =>
    PB.bind (ix_of (PL.i_row it) row_counts) (fun rix =>
    PB.Ok (mkGItem node cs (mkSize (PL.i_col it) (PL.i_row it))
                   (opt_unwrap_or (gs_align_self cs) (opt_unwrap_or (gs_align_items st) AE.AI_Stretch))
                   (opt_unwrap_or (gs_justify_self cs) (opt_unwrap_or (gs_justify_items st) AE.AI_Stretch))
                   (mkSize cix rix)
                   (mkSize (crosses is_flexible cix cols) (crosses is_flexible rix rows))
                   (mkSize (crosses has_intrinsic_sizing_function cix cols) (crosses has_intrinsic_sizing_function rix rows))
                   None zero ic_empty))).

  Definition track_uses_percentage (t : track) : bool :=
    (match minf t with SPercent _ => true | _ => false end) || uses_percentage (maxf t).

  (* step 7: percentage tracks of an axis whose available grid space is indefinite *)
  Definition reresolve_percent (content : T) (tracks : list track) : list track :=
    map (fun t =>
           let mn := match minf t with SPercent v => Some (v * content) | _ => None end in
           let mx := match maxf t with SPercent v => Some (v * content) | _ => None end in
           set_base t (maybe_clamp_fo (base_size t) mn mx)) tracks.

  (* the `.filter(crosses_intrinsic_column).any(|item| ..)` of the re-run test: stops at the first item whose min-content
     contribution changed; the items after it are not touched *)
  Fixpoint m_rerun_any (ax : GAxis) (inner : Size (option T)) (other_tracks : list track) (other_adj : T) (items : list GItem)
    : Prog (bool * list GItem) :=
    match items with
    | [] => PRet (false, [])
    | g :: r =>
        if width (g_xintr g) then       (* crosses_intrinsic_column, in BOTH re-run tests *)
          let space := item_available_space ax false other_tracks other_adj (get_ax inner (other_ax ax)) g in
          do v <- min_content_contribution ax inner g space ;;
          let has_changed := negb (opt_eqb (Some v) (get_ax (ic_min (g_cache g)) ax)) in
          let g1 := set_ic_minimum (set_ic_max (set_ic_min (set_ic_avail g (Some space)) ax (Some v)) ax None) ax None in
          if has_changed then PRet (true, g1 :: r)
          else do '(b, r') <- m_rerun_any ax inner other_tracks other_adj r ;; PRet (b, g1 :: r')
        else do '(b, r') <- m_rerun_any ax inner other_tracks other_adj r ;; PRet (b, g :: r')
    end.
  Definition clear_axis_caches (ax : GAxis) (g : GItem) : GItem :=
    set_ic_minimum (set_ic_max (set_ic_min (set_ic_avail g None) ax None) ax None) ax None.

  Definition avail_is_definite (a : AvailableSpace T) : bool := match a with Types.Definite _ => true | _ => false end.

  (* what the sizing phase hands to the final phase *)
  Record Sized := mkSized {
    z_state : SState;
    z_border_box : Size T;
    z_content_box : Size T;
  }.

  Definition container_size (P : Pre) (inp : GIn T) (col_sum row_sum : T) : Size T * Size T :=
    let rs := size_or (gi_known inp) (p_pref P) in
    let bb := mkSize (fmax (maybe_clamp_fo (opt_unwrap_or (width rs) (col_sum + horizontal_axis_sum (p_inset P))) (width (p_min P)) (width (p_max P)))
                           (width (p_pb_size P)))
                     (fmax (maybe_clamp_fo (opt_unwrap_or (height rs) (row_sum + vertical_axis_sum (p_inset P))) (height (p_min P)) (height (p_max P)))
                           (height (p_pb_size P))) in
    (bb, mkSize (fmax zero (width bb - horizontal_axis_sum (p_inset P))) (fmax zero (height bb - vertical_axis_sum (p_inset P)))).

  (* steps 6-7 of compute_grid_layout: the two sizing passes, the container size, (unless only the size is asked for) the
     percentage re-resolution and the re-runs.  The result: Some = continue with the final phase, None = return this size *)
  Definition m_size_grid (st : GStyle T) (P : Pre) (inp : GIn T) (s0 : SState) : Prog (Sized * bool) :=
    let jc := opt_unwrap_or (gs_justify_content st) AStretch in
    let ac := opt_unwrap_or (gs_align_content st) AStretch in
    let has_baseline := existsb (fun g => ai_is_baseline (g_align g)) (ss_items s0) in
    let ga := p_grid_avail P in
    let inner0 := p_inner P in
    do s1 <- m_track_sizing Inline (width (p_min P)) (width (p_max P)) jc ac ga inner0 true has_baseline s0 ;;
    let initial_column_sum := fsum (map base_size (ss_cols s1)) in
    let inner1 := mkSize (opt_or (width inner0) (Some initial_column_sum)) (height inner0) in
    let s1' := ss_set_items s1 (map (fun g => set_ic_avail g None) (ss_items s1)) in
    do s2 <- m_track_sizing Block (height (p_min P)) (height (p_max P)) ac jc ga inner1 false false s1' ;;
    let initial_row_sum := fsum (map base_size (ss_rows s2)) in
    let inner2 := mkSize (width inner1) (opt_or (height inner1) (Some initial_row_sum)) in
    let '(bb, cb) := container_size P inp initial_column_sum initial_row_sum in
    match gi_mode inp with
    | Engine.ComputeSize => PRet (mkSized s2 bb cb, false)
    | _ =>
        let cols3 := if avail_is_definite (width ga) then ss_cols s2 else reresolve_percent (width cb) (ss_cols s2) in
        let rows3 := if avail_is_definite (height ga) then ss_rows s2 else reresolve_percent (height cb) (ss_rows s2) in
        let s3 := mkSS cols3 rows3 (ss_adj_cols s2) (ss_adj_rows s2) (ss_items s2) in
        let has_percentage_column := existsb track_uses_percentage cols3 in
        let parent_width_indefinite := negb (avail_is_definite (width (gi_avail inp))) in
        do '(rerun_column_sizing, s4) <-
          (if parent_width_indefinite && has_percentage_column
           then PRet (true, ss_set_items s3 (map (clear_axis_caches Inline) (ss_items s3)))
           else do '(b, items') <- m_rerun_any Inline inner2 rows3 (ss_adj_rows s3) (ss_items s3) ;; PRet (b, ss_set_items s3 items')) ;;
        if rerun_column_sizing then
          do s5 <- m_track_sizing Inline (width (p_min P)) (width (p_max P)) jc ac ga inner2 false has_baseline s4 ;;
          let has_percentage_row := existsb track_uses_percentage (ss_rows s5) in
          let parent_height_indefinite := negb (avail_is_definite (height (gi_avail inp))) in
          do '(rerun_row_sizing, s6) <-
            (if parent_height_indefinite && has_percentage_row
             then PRet (true, ss_set_items s5 (map (clear_axis_caches Block) (ss_items s5)))
             else do '(b, items') <- m_rerun_any Block inner2 (ss_cols s5) (ss_adj_cols s5) (ss_items s5) ;; PRet (b, ss_set_items s5 items')) ;;
          if rerun_row_sizing then
            do s7 <- m_track_sizing Block (height (p_min P)) (height (p_max P)) ac jc ga inner2 false false s6 ;;
            PRet (mkSized s7 bb cb, true)
          else PRet (mkSized s6 bb cb, true)
        else PRet (mkSized s4 bb cb, true)
    end.

  (* ================================================================================================ the final phase (steps 8-9) *)

  Definition to_ae_ib (st : GStyle T) : AB.InBoth (option AE.AlignItems) := AB.mkInBoth (gs_justify_items st) (gs_align_items st).

  Definition track_offset (tracks : list track) (i : nat) : T := match nth_error tracks i with Some t => offset t | None => zero end.

  (* the input of the one query of align_and_position_item *)
  Definition position_query_input (area : AB.Rect T) (cas : AB.InBoth (option AE.AlignItems)) (shim : T) (cs : GStyle T) : GIn T :=
    let i := AG.grid_resolve area (abs_style cs) in
    let area_size := mkSize (AB.r_right area - AB.r_left area) (AB.r_bottom area - AB.r_top area) in
    let mg := AB.ai_margin i in
    let minus := mkSize (AG.maybe_sub_FO (AG.maybe_sub_FO (width area_size) (AB.r_left mg)) (AB.r_right mg))
                        (AG.maybe_sub_FO (AG.maybe_sub_FO (height area_size) (AB.r_top mg)) (AB.r_bottom mg) - shim) in
    mkGIn Engine.PerformLayout InherentSize AxBoth (c_size (AG.grid_known area cas shim i)) (size_map Some area_size)
          (size_map (fun v => Types.Definite v) minus) line_false.

  (* the Layout stored for the child, given the answer *)
  Definition position_layout (area : AB.Rect T) (cas : AB.InBoth (option AE.AlignItems)) (shim : T) (cs : GStyle T) (order : nat)
             (o : LayoutOutput T) : GLay T :=
    let i := AG.grid_resolve area (abs_style cs) in
    let r := AG.grid_place area cas shim i (a_size (out_size o)) in
    let ov := overflow (gs_core cs) in
    let sw := scrollbar_width (gs_core cs) in
    mkGLay (Z.of_nat order) (c_point (AB.o_location r)) (c_size (AB.o_size r)) (out_content_size o)
           (mkSize (if is_scroll (py ov) then sw else zero) (if is_scroll (px ov) then sw else zero))
           (c_rect (AB.ai_border i)) (c_rect (AB.ai_padding i)) (c_rect (AB.o_margin r)).

  (* compute_content_size_contribution *)
  Definition content_size_contribution (cs : GStyle T) (l : GLay T) : Size T :=
    let ov := overflow (gs_core cs) in
    let w := match px ov with Visible => fmax (width (gl_size l)) (width (gl_content_size l)) | _ => width (gl_size l) end in
    let h := match py ov with Visible => fmax (height (gl_size l)) (height (gl_content_size l)) | _ => height (gl_size l) end in
    if gtb w zero && gtb h zero then mkSize (px (gl_location l) + w) (py (gl_location l) + h) else size_ZERO.
  Definition size_f32_max (a b : Size T) : Size T := mkSize (fmax (width a) (width b)) (fmax (height a) (height b)).

  (* the records the in-flow pass keeps for the container baseline: (item, y_position, height) *)
  Definition Placed : Type := (GItem * T * T)%type.

  (* "Position in-flow children": items in source order, `index` = position in that list *)
  Fixpoint inflow_pass (cas : AB.InBoth (option AE.AlignItems)) (cols rows : list track) (items : list GItem) (index : nat)
           (content : Size T) (acc : list Placed) (k : Size T -> list Placed -> Alg) : Alg :=
    match items with
    | [] => k content (rev acc)
    | g :: rest =>
        let '(cs_, ce) := width (g_ix g) in
        let '(rs, re) := height (g_ix g) in
        let area := AB.mkRect (track_offset cols (S cs_)) (track_offset cols ce) (track_offset rows (S rs)) (track_offset rows re) in
        Query (g_node g) (position_query_input area cas (g_shim g) (g_style g))
              (fun o => let l := position_layout area cas (g_shim g) (g_style g) index o in
                        SetLayout (g_node g) l
                                  (inflow_pass cas cols rows rest (S index)
                                               (size_f32_max content (content_size_contribution (g_style g) l))
                                               ((g, py (gl_location l), height (gl_size l)) :: acc) k))
    end.

  (* OriginZeroLine placement of an absolute child: Line<OriginZeroGridPlacement>::resolve_absolutely_positioned_grid_tracks *)
  Definition resolve_absolutely_positioned_grid_tracks (ln : PB.Ln PB.GP) : PB.res (option Z * option Z) :=
    match PB.l_start ln, PB.l_end ln with
    | PB.Line t1, PB.Line t2 =>
        if Z.eqb t1 t2 then PB.bind (PB.ozl_add_u16 t1 1) (fun e => PB.Ok (Some t1, Some e))
        else PB.Ok (Some (Z.min t1 t2), Some (Z.max t1 t2))
    | PB.Line t, PB.Span sp => PB.bind (PB.ozl_add_u16 t sp) (fun e => PB.Ok (Some t, Some e))
    | PB.Line t, PB.Auto => PB.Ok (Some t, None)
    | PB.Span sp, PB.Line t => PB.bind (PB.ozl_sub_u16 t sp) (fun s => PB.Ok (Some s, Some t))
    | PB.Auto, PB.Line t => PB.Ok (None, Some t)
    | _, _ => PB.Ok (None, None)
    end.
  Definition opt_index (l : option Z) (counts : PB.TrackCounts) : PB.res (option nat) :=
    match l with
    | Some z => PB.bind (PG.into_track_vec_index z counts) (fun i => PB.Ok (Some (Z.to_nat i)))
    | None => PB.Ok None
    end.
  (* maybe_col_indexes / maybe_row_indexes *)
  Definition abs_indexes (ln : PB.Ln PB.GP) (counts : PB.TrackCounts) : PB.res (option nat * option nat) :=
    PB.bind (PG.into_origin_zero ln (PB.tc_explicit counts)) (fun oz =>
    PB.bind (resolve_absolutely_positioned_grid_tracks oz) (fun '(s, e) =>
    PB.bind (opt_index s counts) (fun si => PB.bind (opt_index e counts) (fun ei => PB.Ok (si, ei))))).

  Definition abs_area (P : Pre) (bb : Size T) (cols rows : list track) (cix rix : option nat * option nat) : AB.Rect T :=
    let of (tracks : list track) (i : option nat) (d : T) := match i with Some n => track_offset tracks n | None => d end in
    AB.mkRect (of cols (fst cix) (r_left (p_border P)))
              (of cols (snd cix) (width bb - r_right (p_border P) - px (p_gutter P)))
              (of rows (fst rix) (r_top (p_border P)))
              (of rows (snd rix) (height bb - r_bottom (p_border P) - py (p_gutter P))).

  Definition hidden_child_input : GIn T :=
    mkGIn Engine.PerformLayout InherentSize AxBoth size_NONE size_NONE (mkSize MaxContent MaxContent) line_false.

  (* what the final loop reads of a child: display:none / box-generating and absolute (with its style) / neither *)
  Inductive OofChild := OHidden | OAbs (cs : GStyle T) | OSkip.
  Definition oof_view (cs : GStyle T) : OofChild :=
    if g_is_none cs then OHidden else if g_visible_absolute cs then OAbs cs else OSkip.

  (* "Position hidden and absolutely positioned children": `children` = the suffix of the child list still to visit, `index` = the
     index of its head *)
  Fixpoint out_of_flow_pass (P : Pre) (cas : AB.InBoth (option AE.AlignItems)) (col_counts row_counts : PB.TrackCounts) (bb : Size T)
           (cols rows : list track) (children : list OofChild) (index order : nat) (content : Size T) (k : Size T -> Alg) : Alg :=
    match children with
    | [] => k content
    | OHidden :: rest =>
        Query index hidden_child_input
              (fun _ => SetLayout index (g_with_order order)
                                  (out_of_flow_pass P cas col_counts row_counts bb cols rows rest (S index) (S order) content k))
    | OAbs cs :: rest =>
        match abs_indexes (gs_column cs) col_counts, abs_indexes (gs_row cs) row_counts with
        | PB.Ok cix, PB.Ok rix =>
            let area := abs_area P bb cols rows cix rix in
            Query index (position_query_input area cas zero cs)
                  (fun o => let l := position_layout area cas zero cs order o in
                            SetLayout index l
                                      (out_of_flow_pass P cas col_counts row_counts bb cols rows rest (S index) (S order)
                                                        (size_f32_max content (content_size_contribution cs l)) k))
        | _, _ => Ret panic_out
        end
    | OSkip :: rest => out_of_flow_pass P cas col_counts row_counts bb cols rows rest (S index) order content k
    end.

  (* the grid container baseline *)
  Definition container_baseline (placed : list Placed) : option T :=
    let sorted := sort_by (fun a b : Placed => Nat.ltb (fst (height (g_ix (fst (fst a))))) (fst (height (g_ix (fst (fst b)))))) placed in
    match sorted with
    | [] => None
    | p0 :: _ =>
        let first_row := fst (height (g_ix (fst (fst p0)))) in
        let first_row_items := (fix take (l : list Placed) : list Placed :=
                                  match l with
                                  | [] => []
                                  | p :: r => if Nat.eqb (fst (height (g_ix (fst (fst p))))) first_row then p :: take r else []
                                  end) sorted in
        let pick := match find (fun p : Placed => ai_is_baseline (g_align (fst (fst p)))) first_row_items with
                    | Some p => p
                    | None => p0
                    end in
        let '(g, y, h) := pick in
        Some (y + opt_unwrap_or (g_baseline g) h)
    end.

  (* ================================================================================================ compute_grid_layout *)

  Definition grid_main (st : GStyle T) (P : Pre) (est : list PL.child) (inflow : list (nat * GStyle T)) (flags : list bool)
             (oof : list OofChild) (inp : GIn T) : Alg :=
    let '(ec, er) := explicit_counts st P in
    match place st ec er est inflow with
    | PB.Err _ => Ret panic_out
    | PB.Ok (m, placed_items) =>
        let col_counts := PL.track_counts m PB.Horizontal in
        let row_counts := PL.track_counts m PB.Vertical in
        let cols0 := initialize_grid_tracks (tc_of col_counts) (gs_template_columns st) (gs_auto_columns st)
                                            (lp_sfn (width (gs_gap st))) (column_is_occupied m) in
        let rows0 := initialize_grid_tracks (tc_of row_counts) (gs_template_rows st) (gs_auto_rows st)
                                            (lp_sfn (height (gs_gap st))) (row_is_occupied m) in
        match PL.mapM (make_item st inflow col_counts row_counts cols0 rows0) placed_items with
        | PB.Err _ => Ret panic_out
        | PB.Ok items0 =>
            run (fun c => nth c flags false) (m_size_grid st P inp (mkSS cols0 rows0 zero zero items0))
                (fun '(z, continue) =>
                   if negb continue then Ret (from_outer_size (z_border_box z))
                   else
                     let s := z_state z in
                     let jc := opt_unwrap_or (gs_justify_content st) AStretch in
                     let ac := opt_unwrap_or (gs_align_content st) AStretch in
                     let cols := align_tracks (width (z_content_box z)) (r_left (p_padding P)) (r_left (p_border P)) (ss_cols s) jc in
                     let rows := align_tracks (height (z_content_box z)) (r_top (p_padding P)) (r_top (p_border P)) (ss_rows s) ac in
                     let items := sort_by (fun a b => Nat.ltb (g_node a) (g_node b)) (ss_items s) in
                     let cas := to_ae_ib st in
                     inflow_pass cas cols rows items 0 size_ZERO []
                       (fun content placed =>
                          out_of_flow_pass P cas col_counts row_counts (z_border_box z) cols rows oof 0 (length items) content
                            (fun content' =>
                               match container_baseline placed with
                               | None => Ret (from_outer_size (z_border_box z))
                               | Some b => Ret (mkOutput (z_border_box z) content' (mkPoint None (Some b))
                                                         margin_set_ZERO margin_set_ZERO false)
                               end)))
        end
    end.

  (* compute_grid_layout, given the four things it derives from the child-style list:
     `est` the placement styles feeding the size estimate, `inflow` the in-flow children (index, style), `flags` which indices are
     in flow, `oof` the children as the final loop sees them *)
  Definition grid_core (st : GStyle T) (est : list PL.child) (inflow : list (nat * GStyle T)) (flags : list bool) (oof : list OofChild)
             (inp : GIn T) : Alg :=
    let P := grid_pre st inp in
    match gi_mode inp, width (p_outer P), height (p_outer P) with
    | Engine.ComputeSize, Some w, Some h => Ret (from_outer_size (mkSize w h))
    | _, _, _ => grid_main st P est inflow flags oof inp
    end.

  Definition grid_alg (st : GStyle T) (children : list (GStyle T)) (inp : GIn T) : Alg :=
    grid_core st (estimate_styles children) (in_flow_styles children) (map g_in_flow children) (map oof_view children) inp.

  (* the Rust code does not panic on this container: placement's checked arithmetic succeeds and every box-generating absolute
     child's lines lie inside the implicit grid (into_track_vec_index asserts it) *)
  Definition oof_ok (col_counts row_counts : PB.TrackCounts) (c : OofChild) : bool :=
    match c with
    | OAbs cs => match abs_indexes (gs_column cs) col_counts, abs_indexes (gs_row cs) row_counts with
                 | PB.Ok _, PB.Ok _ => true | _, _ => false end
    | _ => true
    end.
  Definition grid_no_panic (st : GStyle T) (children : list (GStyle T)) (inp : GIn T) : bool :=
    let P := grid_pre st inp in
    let '(ec, er) := explicit_counts st P in
    match place st ec er (estimate_styles children) (in_flow_styles children) with
    | PB.Err _ => false
    | PB.Ok (m, placed_items) =>
        let col_counts := PL.track_counts m PB.Horizontal in
        let row_counts := PL.track_counts m PB.Vertical in
        let cols0 := initialize_grid_tracks (tc_of col_counts) (gs_template_columns st) (gs_auto_columns st)
                                            (lp_sfn (width (gs_gap st))) (column_is_occupied m) in
        let rows0 := initialize_grid_tracks (tc_of row_counts) (gs_template_rows st) (gs_auto_rows st)
                                            (lp_sfn (height (gs_gap st))) (row_is_occupied m) in
        match PL.mapM (make_item st (in_flow_styles children) col_counts row_counts cols0 rows0) placed_items with
        | PB.Err _ => false
        | PB.Ok _ => forallb (oof_ok col_counts row_counts) (map oof_view children)
        end
    end.
End GridAlg.

Arguments OHidden {T}.
Arguments OSkip {T}.
Arguments PRet {T A}.
Arguments PMeasure {T A}.
Arguments PBaseline {T A}.
