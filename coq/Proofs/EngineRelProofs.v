(* The engine skeleton is relationally parametric in its algorithms (Model/EngineRel.v):

     AlgoRel algo algo'  ->  related skeletons / trees and related inputs give
         plain_rel   related outputs of the cache-free evaluation (both fail or both succeed, with the SAME fuel)
         memo_rel    related outputs AND related trees (every node: related style, cache entries, stored layout) of the
                     memoised evaluation, from ANY pair of related trees (related caches, e.g. after a common history);
                     needs the memo key to respect the relation on inputs (key_rel)
         fresh_rel   freshly built trees over related skeletons are related
         trel_at     pointwise reading: the two trees have a node at the same paths, related there
         passes_rel  any sequence of layout passes with related inputs keeps the trees related

   Hypotheses on the relations: run mode and display:none are invariant (mode_rel, none_rel), LayoutOutput::HIDDEN and
   the zero layout are related to themselves.  Nothing numeric. *)
From Coq Require Import List Bool Arith Lia.
From TV Require Import Model.Engine Model.EngineRel Proofs.EngineMemo Proofs.EngineBlind.
Import ListNotations.

Section EngineRelProofs.
  Variables (S In Out Lay : Type).
  Variable mode : In -> RunMode.
  Variable in_eqb : In -> In -> bool.
  Variable is_none : S -> bool.
  Variable hidden_out : Out.
  Variable zero_lay : Lay.
  Variables algo algo' : S -> list S -> In -> Alg In Out Lay.

  Variable RS : S -> S -> Prop.
  Variable RI : In -> In -> Prop.
  Variable RO : Out -> Out -> Prop.
  Variable RL : Lay -> Lay -> Prop.
  Hypothesis mode_rel : forall i i', RI i i' -> mode i' = mode i.
  Hypothesis none_rel : forall s s', RS s s' -> is_none s' = is_none s.
  Hypothesis hidden_rel : RO hidden_out hidden_out.
  Hypothesis zero_rel : RL zero_lay zero_lay.

  Notation tree := (tree S In Out Lay).
  Notation sk := (sk S).
  Notation Alg := (Alg In Out Lay).
  Notation cache := (cache In Out).
  Notation Node := (Node S In Out Lay).
  Notation SNode := (SNode S).
  Notation plainL := (plain S In Out Lay mode is_none hidden_out algo).
  Notation plainR := (plain S In Out Lay mode is_none hidden_out algo').
  Notation memoL := (memo S In Out Lay mode in_eqb is_none hidden_out zero_lay algo).
  Notation memoR := (memo S In Out Lay mode in_eqb is_none hidden_out zero_lay algo').
  Notation run_plain := (run_plain S In Out Lay).
  Notation run_memo := (run_memo S In Out Lay).
  Notation hide := (hide S In Out Lay zero_lay).
  Notation fresh := (fresh S In Out Lay zero_lay).
  Notation cget := (cget In Out mode in_eqb).
  Notation cstore := (cstore In Out mode).
  Notation cempty := (cempty In Out).
  Notation style_of := (style_of S In Out Lay).
  Notation lay_of := (lay_of S In Out Lay).
  Notation set_lay := (set_lay S In Out Lay).
  Notation sstyle := (sstyle S).
  Notation AlgRel := (AlgRel In Out Lay RI RO RL).
  Notation AlgoRel := (AlgoRel S In Out Lay RS RI RO RL).
  Notation skrel := (skrel S RS).
  Notation trel := (trel S In Out Lay RS RI RO RL).
  Notation crel := (crel In Out RI RO).
  Notation erel := (erel In Out RI RO).
  Notation res_rel := (res_rel S In Out Lay RS RI RO RL).
  Notation resL_rel := (resL_rel S In Out Lay RS RI RO RL).

  (* ---------------------------------------------------------------------------- skeletons, cache-free evaluation *)

  Lemma skrel_style a b : skrel a b -> RS (sstyle a) (sstyle b).
  Proof. intros H. destruct H. assumption. Qed.
  Lemma Forall2_skrel_style kids kids' : Forall2 skrel kids kids' -> Forall2 RS (map sstyle kids) (map sstyle kids').
  Proof. intros H. induction H; cbn; constructor; [apply skrel_style; assumption|assumption]. Qed.

  Lemma run_plain_rel (ev ev' : sk -> In -> option Out) :
    (forall t t' i i', skrel t t' -> RI i i' -> oprel RO (ev t i) (ev' t' i')) ->
    forall a a', AlgRel a a' -> forall kids kids', Forall2 skrel kids kids' ->
      oprel RO (run_plain ev kids a) (run_plain ev' kids' a').
  Proof.
    intros Hev a a' H. induction H as [o o' Ho|c i i' k k' Hi Hk IH|c l l' k k' Hl Hk IH]; intros kids kids' HK; cbn.
    - exact Ho.
    - pose proof (Forall2_nth_error_rel skrel kids kids' c HK) as Hn.
      destruct (nth_error kids c) as [t|], (nth_error kids' c) as [t'|]; try contradiction; [|exact I].
      specialize (Hev t t' i i' Hn Hi). unfold oprel in Hev.
      destruct (ev t i) as [o1|], (ev' t' i') as [o1'|]; try contradiction; [|exact I].
      apply (IH o1 o1' Hev). exact HK.
    - pose proof (Forall2_nth_error_rel skrel kids kids' c HK) as Hn.
      destruct (nth_error kids c) as [t|], (nth_error kids' c) as [t'|]; try contradiction; [|exact I].
      apply IH. exact HK.
  Qed.

  Theorem plain_rel : AlgoRel algo algo' ->
    forall f t t' i i', skrel t t' -> RI i i' -> oprel RO (plainL f t i) (plainR f t' i').
  Proof.
    intros HA. induction f as [|f IH]; intros t t' i i' H Hi; [exact I|].
    destruct H as [s s' kids kids' Hs HK]. cbn [Engine.plain].
    rewrite (mode_rel _ _ Hi), (none_rel _ _ Hs).
    assert (Hbody : oprel RO (if is_none s then Some hidden_out else run_plain (plainL f) kids (algo s (map sstyle kids) i))
                            (if is_none s then Some hidden_out else run_plain (plainR f) kids' (algo' s' (map sstyle kids') i'))).
    { destruct (is_none s); [exact hidden_rel|].
      apply run_plain_rel; [exact IH| |exact HK]. apply HA; [exact Hs|apply Forall2_skrel_style; exact HK|exact Hi]. }
    destruct (mode i); try exact Hbody. exact hidden_rel.
  Qed.

  (* ---------------------------------------------------------------------------- trees *)

  Lemma crel_empty : crel cempty cempty.
  Proof. split; [exact I|constructor]. Qed.

  Lemma trel_style a b : trel a b -> RS (style_of a) (style_of b).
  Proof. intros H. destruct H. assumption. Qed.
  Lemma Forall2_trel_style kids kids' : Forall2 trel kids kids' -> Forall2 RS (map style_of kids) (map style_of kids').
  Proof. intros H. induction H; cbn; constructor; [apply trel_style; assumption|assumption]. Qed.

  Lemma trel_set_lay a b l l' : trel a b -> RL l l' -> trel (set_lay a l) (set_lay b l').
  Proof. intros H Hl. destruct H. cbn. constructor; assumption. Qed.

  Lemma tree_ind6 (P : tree -> Prop) :
    (forall s c l kids, Forall P kids -> P (Node s c l kids)) -> forall t, P t.
  Proof.
    intros H. fix IH 1. intros [s c l kids]. apply H.
    induction kids as [|k kids IHk]; constructor; [apply IH | exact IHk].
  Qed.

  Lemma trel_hide : forall a b, trel a b -> trel (hide a) (hide b).
  Proof.
    induction a as [s c l kids IH] using tree_ind6. intros b H.
    inversion H as [s0 s' c0 c' l0 l' k0 kids' Hs Hc Hl HK]; subst; cbn.
    constructor; [exact Hs|exact crel_empty|exact zero_rel|].
    clear H. induction HK as [|x y r r' Hxy Hr IHr]; cbn; constructor.
    - inversion IH; subst. auto.
    - apply IHr. inversion IH; subst. assumption.
  Qed.
  Lemma Forall2_trel_hide kids kids' : Forall2 trel kids kids' -> Forall2 trel (map hide kids) (map hide kids').
  Proof. intros H. induction H; cbn; constructor; [apply trel_hide; assumption|assumption]. Qed.

  Lemma sk_ind3 (P : sk -> Prop) :
    (forall s kids, Forall P kids -> P (SNode s kids)) -> forall t, P t.
  Proof.
    intros H. fix IH 1. intros [s kids]. apply H.
    induction kids as [|k kids IHk]; constructor; [apply IH | exact IHk].
  Qed.

  Theorem fresh_rel : forall k k', skrel k k' -> trel (fresh k) (fresh k').
  Proof.
    induction k as [s kids IH] using sk_ind3. intros k' H.
    inversion H as [s0 s' k0 kids' Hs HK]; subst; cbn.
    constructor; [exact Hs|exact crel_empty|exact zero_rel|].
    clear H. induction HK as [|x y r r' Hxy Hr IHr]; cbn; constructor.
    - inversion IH; subst. auto.
    - apply IHr. inversion IH; subst. assumption.
  Qed.

  (* reading trel pointwise: the two trees have nodes at the same paths, related there *)
  Theorem trel_at : forall p t t', trel t t' ->
    oprel (fun u u' => trel u u' /\ node_rel S In Out Lay RS RI RO RL u u')
         (Engine.subtree S In Out Lay t p) (Engine.subtree S In Out Lay t' p).
  Proof.
    induction p as [|x p IH]; intros t t' H; cbn.
    - split; [exact H|]. destruct H as [s s' c c' l l' kids kids' Hs Hc Hl HK]. cbn.
      split; [exact Hs|split; [exact Hl|exact Hc]].
    - destruct H as [s s' c c' l l' kids kids' Hs Hc Hl HK]. cbn.
      pose proof (Forall2_nth_error_rel trel kids kids' x HK) as Hn.
      destruct (nth_error kids x) as [ch|], (nth_error kids' x) as [ch'|]; try contradiction; [|exact I].
      apply IH. exact Hn.
  Qed.

  (* ... and as lists: the stored layouts of all nodes, in preorder *)
  Theorem trel_lays : forall t t', trel t t' -> Forall2 RL (lays S In Out Lay t) (lays S In Out Lay t').
  Proof.
    induction t as [s c l kids IH] using tree_ind6. intros t' H.
    inversion H as [s0 s' c0 c' l0 l' k0 kids' Hs Hc Hl HK]; subst; cbn [lays].
    constructor; [exact Hl|]. clear H. induction HK as [|x y r r' Hxy Hr IHr]; cbn [flat_map]; [constructor|].
    apply Forall2_app.
    - inversion IH; subst. auto.
    - apply IHr. inversion IH; subst. assumption.
  Qed.

  (* ---------------------------------------------------------------------------- memoised evaluation *)

  Section Memo.
    (* the memo key respects the relation on inputs *)
    Hypothesis key_rel : forall i1 i1' i2 i2', RI i1 i1' -> RI i2 i2' -> in_eqb i1' i2' = in_eqb i1 i2.

    Lemma assoc_rel l l' i i' : Forall2 erel l l' -> RI i i' ->
      oprel RO (assoc In Out in_eqb l i) (assoc In Out in_eqb l' i').
    Proof.
      intros H Hi. induction H as [|[i1 o1] [i2 o2] l l' [Hk Ho] Hl IH]; cbn; [exact I|].
      cbn in Hk, Ho. rewrite (key_rel _ _ _ _ Hk Hi). destruct (in_eqb i1 i); [exact Ho|exact IH].
    Qed.

    Lemma cget_rel c c' i i' : crel c c' -> RI i i' -> oprel RO (cget c i) (cget c' i').
    Proof.
      intros [Hf Hm] Hi. unfold Engine.cget. rewrite (mode_rel _ _ Hi). destruct (mode i).
      - destruct (final In Out c) as [[i1 o1]|], (final In Out c') as [[i2 o2]|]; cbn in Hf; try contradiction; [|exact I].
        destruct Hf as [Hk Ho]. cbn in Hk, Ho. rewrite (key_rel _ _ _ _ Hk Hi). destruct (in_eqb i1 i); [exact Ho|exact I].
      - apply assoc_rel; assumption.
      - exact I.
    Qed.

    Lemma cstore_rel c c' i i' o o' : crel c c' -> RI i i' -> RO o o' -> crel (cstore c i o) (cstore c' i' o').
    Proof.
      intros [Hf Hm] Hi Ho. unfold Engine.cstore. rewrite (mode_rel _ _ Hi). destruct (mode i); split; cbn; try assumption.
      - split; assumption.
      - constructor; [split; assumption|exact Hm].
    Qed.

    Lemma run_memo_rel (ev ev' : tree -> In -> option (Out * tree)) :
      (forall t t' i i', trel t t' -> RI i i' -> oprel res_rel (ev t i) (ev' t' i')) ->
      forall a a', AlgRel a a' -> forall kids kids', Forall2 trel kids kids' ->
        oprel resL_rel (run_memo ev kids a) (run_memo ev' kids' a').
    Proof.
      intros Hev a a' H. induction H as [o o' Ho|c i i' k k' Hi Hk IH|c l l' k k' Hl Hk IH]; intros kids kids' HK; cbn.
      - split; [exact Ho|exact HK].
      - pose proof (Forall2_nth_error_rel trel kids kids' c HK) as Hn.
        destruct (nth_error kids c) as [t|], (nth_error kids' c) as [t'|]; try contradiction; [|exact I].
        specialize (Hev t t' i i' Hn Hi). unfold oprel in Hev.
        destruct (ev t i) as [[o1 t1]|], (ev' t' i') as [[o1' t1']|]; try contradiction; [|exact I].
        destruct Hev as [Ho Ht]. cbn [fst snd] in Ho, Ht.
        apply (IH o1 o1' Ho). apply Forall2_replace_nth; assumption.
      - pose proof (Forall2_nth_error_rel trel kids kids' c HK) as Hn.
        destruct (nth_error kids c) as [t|], (nth_error kids' c) as [t'|]; try contradiction; [|exact I].
        apply IH. apply Forall2_replace_nth; [exact HK|]. apply trel_set_lay; assumption.
    Qed.

    Theorem memo_rel : AlgoRel algo algo' ->
      forall f t t' i i', trel t t' -> RI i i' -> oprel res_rel (memoL f t i) (memoR f t' i').
    Proof.
      intros HA. induction f as [|f IH]; intros t t' i i' H Hi; [exact I|].
      pose proof H as Htt. destruct H as [s s' c c' l l' kids kids' Hs Hc Hl HK]. cbn [Engine.memo].
      rewrite (mode_rel _ _ Hi), (none_rel _ _ Hs).
      assert (Hbody : oprel res_rel
                (match cget c i with
                 | Some o0 => Some (o0, Node s c l kids)
                 | None => if is_none s then Some (hidden_out, Node s (cstore cempty i hidden_out) zero_lay (map hide kids))
                           else match run_memo (memoL f) kids (algo s (map style_of kids) i) with
                                | Some (o0, kids1) => Some (o0, Node s (cstore c i o0) l kids1)
                                | None => None end
                 end)
                (match cget c' i' with
                 | Some o0 => Some (o0, Node s' c' l' kids')
                 | None => if is_none s then Some (hidden_out, Node s' (cstore cempty i' hidden_out) zero_lay (map hide kids'))
                           else match run_memo (memoR f) kids' (algo' s' (map style_of kids') i') with
                                | Some (o0, kids1) => Some (o0, Node s' (cstore c' i' o0) l' kids1)
                                | None => None end
                 end)).
      { pose proof (cget_rel c c' i i' Hc Hi) as Hg. unfold oprel in Hg.
        destruct (cget c i) as [o1|], (cget c' i') as [o1'|]; try contradiction.
        - split; [exact Hg|exact Htt].
        - destruct (is_none s).
          + split; [exact hidden_rel|]. cbn [snd].
            constructor; [exact Hs|apply cstore_rel; [exact crel_empty|exact Hi|exact hidden_rel]|exact zero_rel|
                          apply Forall2_trel_hide; exact HK].
          + pose proof (run_memo_rel (memoL f) (memoR f) IH _ _
                          (HA s s' _ _ i i' Hs (Forall2_trel_style _ _ HK) Hi) kids kids' HK) as Hr.
            unfold oprel in Hr.
            destruct (run_memo (memoL f) kids _) as [[o1 k1]|], (run_memo (memoR f) kids' _) as [[o1' k1']|];
              try contradiction; [|exact I].
            destruct Hr as [Ho Hk1]. cbn [fst snd] in Ho, Hk1. split; [exact Ho|]. cbn [snd].
            constructor; [exact Hs|apply cstore_rel; assumption|exact Hl|exact Hk1]. }
      destruct (mode i); try exact Hbody.
      split; [exact hidden_rel|]. cbn [snd]. apply (trel_hide (Node s c l kids) (Node s' c' l' kids')). exact Htt.
    Qed.

    (* the simplest instance: one pass over freshly built trees *)
    Corollary memo_fresh_rel : AlgoRel algo algo' ->
      forall f k k' i i', skrel k k' -> RI i i' -> oprel res_rel (memoL f (fresh k) i) (memoR f (fresh k') i').
    Proof. intros HA f k k' i i' Hk Hi. apply memo_rel; [exact HA|apply fresh_rel; exact Hk|exact Hi]. Qed.

    (* any sequence of layout passes (compute_layout calls) with related root inputs keeps the trees related *)
    Definition pass (al : S -> list S -> In -> Alg) (t : tree) (fi : nat * In) : tree :=
      step S In Out Lay mode in_eqb is_none hidden_out zero_lay al t (OLayout S In Out Lay (fst fi) (snd fi)).

    Theorem passes_rel : AlgoRel algo algo' ->
      forall ps ps', Forall2 (fun p p' => fst p = fst p' /\ RI (snd p) (snd p')) ps ps' ->
      forall t t', trel t t' -> trel (fold_left (pass algo) ps t) (fold_left (pass algo') ps' t').
    Proof.
      intros HA ps ps' H. induction H as [|[f i] [f' i'] ps ps' [Ef Hi] Hps IH]; intros t t' Ht; cbn [fold_left]; [exact Ht|].
      cbn [fst snd] in Ef, Hi. subst f'. apply IH. unfold pass. cbn [Engine.step fst snd].
      pose proof (memo_rel HA f t t' i i' Ht Hi) as Hm. unfold oprel in Hm.
      destruct (memoL f t i) as [[o t1]|], (memoR f t' i') as [[o' t1']|]; try contradiction; [|exact Ht].
      destruct Hm as [_ Ht1]. exact Ht1.
    Qed.
  End Memo.
End EngineRelProofs.

(* ------------------------------------------------------------------------------------ closure properties of AlgoRel *)

Section Closure.
  Variables (S In Out Lay : Type).
  Variable RS : S -> S -> Prop.
  Variable RI : In -> In -> Prop.
  Variable RO : Out -> Out -> Prop.
  Variable RL : Lay -> Lay -> Prop.

  (* dispatch on an invariant of the node (its own style and child styles): TaffyView::compute_child_layout's match on
     (display, has_children) *)
  Lemma AlgoRel_dispatch (sel : S -> list S -> bool) (a1 a1' a2 a2' : S -> list S -> In -> Alg In Out Lay) :
    (forall s s' st st', RS s s' -> Forall2 RS st st' -> sel s' st' = sel s st) ->
    AlgoRel S In Out Lay RS RI RO RL a1 a1' -> AlgoRel S In Out Lay RS RI RO RL a2 a2' ->
    AlgoRel S In Out Lay RS RI RO RL (fun s st i => if sel s st then a1 s st i else a2 s st i)
                                     (fun s st i => if sel s st then a1' s st i else a2' s st i).
  Proof.
    intros Hsel H1 H2 s s' st st' i i' Hs Hst Hi. rewrite (Hsel _ _ _ _ Hs Hst).
    destruct (sel s st); [apply H1|apply H2]; assumption.
  Qed.

  (* an algorithm that never talks to its children (a leaf) *)
  Lemma AlgoRel_leaf (leaf leaf' : S -> In -> Out) :
    (forall s s' i i', RS s s' -> RI i i' -> RO (leaf s i) (leaf' s' i')) ->
    AlgoRel S In Out Lay RS RI RO RL (fun s _ i => Ret In Out Lay (leaf s i)) (fun s _ i => Ret In Out Lay (leaf' s i)).
  Proof. intros H s s' st st' i i' Hs _ Hi. apply AR_ret. apply H; assumption. Qed.

  (* rewriting the styles at selected paths by a function whose graph is inside RS (on the selected nodes) *)
  Lemma map_from_rel {A B} (R : A -> B -> Prop) (f : nat -> A -> B) l :
    Forall (fun x => forall n, R x (f n x)) l -> forall n, Forall2 R l (map_from f n l).
  Proof. induction 1 as [|x l Hx Hl IH]; intros n; cbn; constructor; [apply Hx|apply IH]. Qed.

  Theorem skrel_map_where (g : S -> S) (P : S -> Prop) :
    (forall s, P s -> RS s s) -> (forall s, P s -> RS s (g s)) ->
    forall t w, sk_all S P t -> skrel S RS t (sk_map_where S g w t).
  Proof.
    intros Hrefl Hg. induction t as [s kids IH] using sk_ind3. intros w Hall. cbn [sk_map_where].
    inversion Hall as [s0 k0 Hs Hkids]; subst.
    constructor; [destruct (w []); auto|].
    apply map_from_rel. clear -IH Hkids. induction IH as [|x l Hx Hl IHl]; constructor.
    - intros n. apply Hx. inversion Hkids; assumption.
    - apply IHl. inversion Hkids; assumption.
  Qed.
End Closure.
