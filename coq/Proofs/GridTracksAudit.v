(* C09 (audit, wave 5c): the explicit track count without the `e = 0` escape, and computed instances of the premises of the
   numeric theorems (restart of find_size_of_fr, a maximise loop that iterates twice, the 11.5 theorems' side conditions). *)
From Coq Require Import ZArith NArith QArith Bool List Lia.
From TV Require Import Num.Num Num.QNum Gen.GridTracksGen Model.GridTracks Model.GridIntrinsic Proofs.GridTracksProofs
  Proofs.GridIntrinsicProofs.
Import ListNotations.

(* exactly when the count is 0, and what it is otherwise *)
Theorem explicit_count_exact : forall (T : Type) `{Num T} (template : list (tsf T)) inner gap mx,
  let e := explicit_grid_size template inner gap mx in
  (template = [] \/ existsb has_empty_repetition template = true \/ template_is_valid template = false -> e = 0%N) /\
  (template <> [] -> existsb has_empty_repetition template = false -> template_is_valid template = true ->
   (n_auto template = 0%nat /\ e = spec_count 0 template) \/
   (n_auto template = 1%nat /\ e = spec_count (num_repetitions template inner gap mx) template)).
Proof.
  intros T N template inner gap mx e. split.
  - intros [->|[Hh|Hv]]; [reflexivity| |]; subst e; unfold explicit_grid_size; destruct template; try reflexivity.
    + rewrite Hh. reflexivity.
    + destruct (existsb has_empty_repetition (t :: template)); [reflexivity|]. rewrite Hv. reflexivity.
  - intros Hne Hh Hv.
    assert (Hn : n_auto template = 0%nat \/ n_auto template = 1%nat \/ (2 <= n_auto template)%nat) by lia.
    assert (He : e = if N.eqb (auto_repetition_count template) 0 then non_auto_count_explicit template
                     else (non_auto_count_explicit template
                           + N.of_nat (length (repetition_definition template)) * num_repetitions template inner gap mx)%N).
    { subst e. unfold explicit_grid_size. destruct template as [|t0 tl]; [congruence|]. rewrite Hh, Hv. reflexivity. }
    assert (Ha : auto_repetition_count template = N.of_nat (n_auto template)) by reflexivity.
    destruct Hn as [Hn|[Hn|Hn]].
    + left. split; [exact Hn|]. rewrite He, Ha, Hn. change (N.eqb (N.of_nat 0) 0) with true. cbv iota. apply non_auto_is_spec0.
    + right. split; [exact Hn|]. rewrite He, Ha, Hn. change (N.eqb (N.of_nat 1) 0) with false. cbv iota.
      rewrite (spec_count_reps _ _ Hn), non_auto_is_spec0. reflexivity.
    + exfalso. unfold template_is_valid in Hv. rewrite Ha in Hv. cbv zeta in Hv.
      assert (H0 : N.eqb (N.of_nat (n_auto template)) 0 = false) by (apply N.eqb_neq; lia).
      assert (H1 : N.eqb (N.of_nat (n_auto template)) 1 = false) by (apply N.eqb_neq; lia).
      rewrite H0, H1 in Hv. discriminate Hv.
Qed.
