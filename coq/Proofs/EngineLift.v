(* Proofs/EngineLift.v: `lift` and `style_comap` (Model/EngineLift.v) preserve the interface premises of C05 / C06 (HiddenBlind,
   AbsBlind), provided the conversions respect the "equal up to content size" relations.  No axiom: nothing here needs `lift id a = a`. *)
From Coq Require Import List Bool Arith.
From TV Require Import Model.Engine Model.EngineLift Proofs.EngineMemo Proofs.EngineBlind Proofs.EngineAbs.
Import ListNotations.

Section Lift.
  Variables (In1 Out1 Lay1 In2 Out2 Lay2 : Type).
  Variable fi : In1 -> In2.
  Variable po : Out2 -> Out1.
  Variable eo : Out1 -> Out2.
  Variable el : Lay1 -> Lay2.
  Notation lift := (lift In1 Out1 Lay1 In2 Out2 Lay2 fi po eo el).

  Variables (oeq1 : Out1 -> Out1 -> Prop) (leq1 : Lay1 -> Lay1 -> Prop) (oeq2 : Out2 -> Out2 -> Prop) (leq2 : Lay2 -> Lay2 -> Prop).
  Hypothesis po_eq : forall o o', oeq2 o o' -> oeq1 (po o) (po o').
  Hypothesis eo_eq : forall o o', oeq1 o o' -> oeq2 (eo o) (eo o').
  Hypothesis el_eq : forall l l', leq1 l l' -> leq2 (el l) (el l').

  Lemma ABis_lift m a a' : ABis In1 Out1 Lay1 oeq1 leq1 m a a' -> ABis In2 Out2 Lay2 oeq2 leq2 m (lift a) (lift a').
  Proof.
    induction 1 as [o o' Ho|c i k k' Hc Hk IH|c l l' k k' Hc Hl Hk IH|c i k a' Hc Hk IH|c i a k' Hc Hk IH|c l k a' Hc Hk IH|c l a k' Hc Hk IH];
      cbn [EngineLift.lift].
    - apply AB_ret. apply eo_eq. exact Ho.
    - apply AB_query; [exact Hc|]. intros o o' Ho. apply IH. apply po_eq. exact Ho.
    - apply AB_set; [exact Hc|apply el_eq; exact Hl|exact IH].
    - apply AB_query_l; [exact Hc|]. intros o. apply IH.
    - apply AB_query_r; [exact Hc|]. intros o. apply IH.
    - apply AB_set_l; [exact Hc|exact IH].
    - apply AB_set_r; [exact Hc|exact IH].
  Qed.

  Variable S : Type.
  Variable bi : In2 -> In1.
  Notation lift_algo := (lift_algo In1 Out1 Lay1 In2 Out2 Lay2 fi po eo el S bi).

  Lemma AbsBlind_lift algo ab : AbsBlind S In1 Out1 Lay1 algo ab oeq1 leq1 -> AbsBlind S In2 Out2 Lay2 (lift_algo algo) ab oeq2 leq2.
  Proof. intros HB s st st' i Hr. unfold EngineLift.lift_algo. apply ABis_lift. apply HB. exact Hr. Qed.

  Lemma HiddenBlind_lift is_none algo : HiddenBlind S In1 Out1 Lay1 is_none algo -> HiddenBlind S In2 Out2 Lay2 is_none (lift_algo algo).
  Proof.
    intros (V & view & algo' & Hv & Ha). exists V, view, (fun s vs i => lift (algo' s vs (bi i))). split; [exact Hv|].
    intros s st i. unfold EngineLift.lift_algo. rewrite Ha. reflexivity.
  Qed.
End Lift.

Section StyleComap.
  Variables (S1 S2 In Out Lay : Type).
  Variable g : S2 -> S1.
  Notation style_comap := (style_comap S1 S2 In Out Lay g).

  Lemma HiddenBlind_comap is_none1 is_none2 algo : (forall s, is_none1 (g s) = is_none2 s) ->
    HiddenBlind S1 In Out Lay is_none1 algo -> HiddenBlind S2 In Out Lay is_none2 (style_comap algo).
  Proof.
    intros Hn (V & view & algo' & Hv & Ha). exists V, (fun s => view (g s)), (fun s vs i => algo' (g s) vs i). split.
    - intros a b Ea Eb. apply Hv; rewrite Hn; assumption.
    - intros s st i. unfold style_comap. rewrite Ha, map_map. reflexivity.
  Qed.

  Lemma AbsBlind_comap ab1 ab2 (oeq : Out -> Out -> Prop) (leq : Lay -> Lay -> Prop) algo : (forall s, ab1 (g s) = ab2 s) ->
    AbsBlind S1 In Out Lay algo ab1 oeq leq -> AbsBlind S2 In Out Lay (style_comap algo) ab2 oeq leq.
  Proof.
    intros Hab HB s st st' i Hr. unfold style_comap.
    assert (Hm : forall c, abmask S2 ab2 st c = abmask S1 ab1 (map g st) c).
    { intros c. unfold abmask. rewrite nth_error_map. destruct (nth_error st c); cbn; [rewrite Hab|]; reflexivity. }
    assert (Hr' : Forall2 (arel S1 ab1) (map g st) (map g st')).
    { clear -Hr Hab. induction Hr as [|a b l l' Hab' Hl IH]; cbn; constructor; [|exact IH].
      destruct Hab' as [->|[A B]]; [left; reflexivity|right; rewrite !Hab; split; assumption]. }
    specialize (HB (g s) (map g st) (map g st') i Hr').
    clear -HB Hm. revert HB. generalize (algo (g s) (map g st) i), (algo (g s) (map g st') i). intros a a' HB.
    (* the two masks agree pointwise *)
    induction HB as [o o' Ho|c j k k' Hc Hk IH|c l l' k k' Hc Hl Hk IH|c j k a' Hc Hk IH|c j a k' Hc Hk IH|c l k a' Hc Hk IH|c l a k' Hc Hk IH].
    - apply AB_ret. exact Ho.
    - apply AB_query; [rewrite Hm; exact Hc|exact IH].
    - apply AB_set; [rewrite Hm; exact Hc|exact Hl|exact IH].
    - apply AB_query_l; [rewrite Hm; exact Hc|exact IH].
    - apply AB_query_r; [rewrite Hm; exact Hc|exact IH].
    - apply AB_set_l; [rewrite Hm; exact Hc|exact IH].
    - apply AB_set_r; [rewrite Hm; exact Hc|exact IH].
  Qed.
End StyleComap.

(* dispatch on the node's own style, three ways (the two-way forms are in Proofs/BlockAlgBlind.v) *)
Lemma HiddenBlind_dispatch2 (S In Out Lay : Type) (is_none sel : S -> bool) (a1 a2 : S -> list S -> In -> Alg In Out Lay) :
  HiddenBlind S In Out Lay is_none a1 -> HiddenBlind S In Out Lay is_none a2 ->
  HiddenBlind S In Out Lay is_none (fun s st i => if sel s then a1 s st i else a2 s st i).
Proof.
  intros (V1 & v1 & b1 & Hv1 & Hb1) (V2 & v2 & b2 & Hv2 & Hb2).
  exists (V1 * V2)%type, (fun s => (v1 s, v2 s)), (fun s vs i => if sel s then b1 s (map fst vs) i else b2 s (map snd vs) i).
  split.
  - intros a b Ha Hb. rewrite (Hv1 a b Ha Hb), (Hv2 a b Ha Hb). reflexivity.
  - intros s st i. rewrite !map_map. cbn [fst snd]. rewrite Hb1, Hb2.
    replace (map (fun x => v1 x) st) with (map v1 st) by reflexivity.
    replace (map (fun x => v2 x) st) with (map v2 st) by reflexivity. reflexivity.
Qed.

Lemma AbsBlind_dispatch2 (S In Out Lay : Type) (sel : S -> bool) (a1 a2 : S -> list S -> In -> Alg In Out Lay) ab oeq leq :
  AbsBlind S In Out Lay a1 ab oeq leq -> AbsBlind S In Out Lay a2 ab oeq leq ->
  AbsBlind S In Out Lay (fun s st i => if sel s then a1 s st i else a2 s st i) ab oeq leq.
Proof. intros H1 H2 s st st' i Hr. destruct (sel s); [apply H1|apply H2]; exact Hr. Qed.
