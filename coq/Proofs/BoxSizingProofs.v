(* Property C12: the box-sizing idiom, the leaf kernel and the root known-dimension computation are invariant under the
   content-box -> border-box rewrite of Model/BoxSizing.v.  Over exact rationals; equality is `xeq` (the rational
   `(l + pb) + 0` and `l + pb` are equal as numbers, not as terms), so the first part is the statement that every
   operation the leaf kernel uses respects `xeq`. *)
From Coq Require Import QArith Lqa Bool List ZArith Setoid.
From TV Require Import Num.QNum Model.Common Model.Leaf Model.Root Model.BoxSizing Proofs.LeafAxis.
Import ListNotations.

(* ------------------------------------------------------------------------------------------------------------ *)
(** * `xeq` is an equivalence that every XQ operation respects (no finiteness needed) *)

Lemma xeq_sym a b : xeq a b -> xeq b a.
Proof. destruct a, b; cbn; auto. intro; symmetry; assumption. Qed.
Lemma xeq_trans a b c : xeq a b -> xeq b c -> xeq a c.
Proof. destruct a, b, c; cbn; try tauto. intros; etransitivity; eassumption. Qed.

Lemma x_add_xeq a a' b b' : xeq a a' -> xeq b b' -> xeq (x_add a b) (x_add a' b').
Proof. destruct a, a', b, b'; cbn; try tauto. intros E1 E2; rewrite E1, E2; reflexivity. Qed.
Lemma x_neg_xeq a a' : xeq a a' -> xeq (x_neg a) (x_neg a').
Proof. destruct a, a'; cbn; try tauto. intros E1; rewrite E1; reflexivity. Qed.
Lemma x_sub_xeq a a' b b' : xeq a a' -> xeq b b' -> xeq (x_sub a b) (x_sub a' b').
Proof. intros. unfold x_sub. apply x_add_xeq; [assumption | apply x_neg_xeq; assumption]. Qed.
Lemma x_ltb_xeq a a' b b' : xeq a a' -> xeq b b' -> x_ltb a b = x_ltb a' b'.
Proof. destruct a, a', b, b'; cbn; try tauto. intros E1 E2; rewrite E1, E2; reflexivity. Qed.
Lemma x_leb_xeq' a a' b b' : xeq a a' -> xeq b b' -> x_leb a b = x_leb a' b'.
Proof. destruct a, a', b, b'; cbn; try tauto. intros E1 E2; rewrite E1, E2; reflexivity. Qed.
Lemma x_eqb_xeq a a' b b' : xeq a a' -> xeq b b' -> x_eqb a b = x_eqb a' b'.
Proof. destruct a, a', b, b'; cbn; try tauto. intros E1 E2; rewrite E1, E2; reflexivity. Qed.
Lemma x_is_nan_xeq a a' : xeq a a' -> x_is_nan a = x_is_nan a'.
Proof. destruct a, a'; cbn; tauto. Qed.
Lemma x_max_xeq a a' b b' : xeq a a' -> xeq b b' -> xeq (x_max a b) (x_max a' b').
Proof.
  intros E1 E2. unfold x_max. rewrite (x_is_nan_xeq _ _ E1), (x_is_nan_xeq _ _ E2), (x_ltb_xeq _ _ _ _ E1 E2).
  destruct (x_is_nan a'), (x_is_nan b'), (x_ltb a' b'); assumption.
Qed.
Lemma x_min_xeq a a' b b' : xeq a a' -> xeq b b' -> xeq (x_min a b) (x_min a' b').
Proof.
  intros E1 E2. unfold x_min. rewrite (x_is_nan_xeq _ _ E1), (x_is_nan_xeq _ _ E2), (x_ltb_xeq _ _ _ _ E2 E1).
  destruct (x_is_nan a'), (x_is_nan b'), (x_ltb b' a'); assumption.
Qed.
Lemma x_add_zero a : xeq (x_add a (Fin 0)) a.
Proof. destruct a; cbn; auto. ring. Qed.

(* ---- lifts to Option / AvailableSpace / Size *)
Lemma opt_xeq_refl o : opt_xeq o o.
Proof. destruct o; cbn; auto using xeq_refl. Qed.
Lemma avail_xeq_refl a : avail_xeq a a.
Proof. destruct a; cbn; auto using xeq_refl. Qed.
Lemma size_rel_refl {A} (R : A -> A -> Prop) (s : Size A) : (forall x, R x x) -> size_rel R s s.
Proof. intro Rr; split; apply Rr. Qed.

Ltac opt2 := repeat match goal with
  | H : opt_xeq ?a ?b |- _ => destruct a, b; cbn [opt_xeq] in H; try contradiction
  | H : avail_xeq ?a ?b |- _ => destruct a, b; cbn [avail_xeq] in H; try contradiction
  end.
#[local] Hint Resolve xeq_refl x_add_xeq x_sub_xeq x_max_xeq x_min_xeq opt_xeq_refl avail_xeq_refl : xq.

Lemma maybe_add_of_xeq o o' b b' : opt_xeq o o' -> xeq b b' -> opt_xeq (maybe_add_of o b) (maybe_add_of o' b').
Proof. intros; opt2; cbn; auto with xq. Qed.
Lemma maybe_sub_of_xeq o o' b b' : opt_xeq o o' -> xeq b b' -> opt_xeq (maybe_sub_of o b) (maybe_sub_of o' b').
Proof. intros; opt2; cbn; auto with xq. Qed.
Lemma maybe_max_of_xeq o o' b b' : opt_xeq o o' -> xeq b b' -> opt_xeq (maybe_max_of o b) (maybe_max_of o' b').
Proof. intros; opt2; cbn; auto with xq. Qed.
Lemma maybe_max_fo_xeq a a' o o' : xeq a a' -> opt_xeq o o' -> xeq (maybe_max_fo a o) (maybe_max_fo a' o').
Proof. intros; opt2; cbn; auto with xq. Qed.
Lemma maybe_min_fo_xeq a a' o o' : xeq a a' -> opt_xeq o o' -> xeq (maybe_min_fo a o) (maybe_min_fo a' o').
Proof. intros; opt2; cbn; auto with xq. Qed.
Lemma maybe_clamp_fo_xeq a a' m m' x x' :
  xeq a a' -> opt_xeq m m' -> opt_xeq x x' -> xeq (maybe_clamp_fo a m x) (maybe_clamp_fo a' m' x').
Proof. intros; opt2; cbn; auto with xq. Qed.
Lemma maybe_clamp_oo_xeq a a' m m' x x' :
  opt_xeq a a' -> opt_xeq m m' -> opt_xeq x x' -> opt_xeq (maybe_clamp_oo a m x) (maybe_clamp_oo a' m' x').
Proof. intros; opt2; cbn; auto with xq. Qed.
Lemma opt_or_xeq (a a' b b' : option XQ) : opt_xeq a a' -> opt_xeq b b' -> opt_xeq (opt_or a b) (opt_or a' b').
Proof. intros; opt2; cbn; auto with xq. Qed.
Lemma opt_unwrap_or_xeq (a a' : option XQ) d d' : opt_xeq a a' -> xeq d d' -> xeq (opt_unwrap_or a d) (opt_unwrap_or a' d').
Proof. intros; opt2; cbn; auto with xq. Qed.
Lemma opt_gt_zero_xeq (a a' : option XQ) : opt_xeq a a' -> opt_gt_zero a = opt_gt_zero a'.
Proof. intros; opt2; auto. exact (x_ltb_xeq (Fin 0) (Fin 0) _ _ (xeq_refl _) H). Qed.
Lemma maybe_sub_af_xeq a a' b b' : avail_xeq a a' -> xeq b b' -> avail_xeq (maybe_sub_af a b) (maybe_sub_af a' b').
Proof. intros; opt2; cbn; auto with xq. Qed.
Lemma avail_maybe_set_xeq a a' o o' : avail_xeq a a' -> opt_xeq o o' -> avail_xeq (avail_maybe_set a o) (avail_maybe_set a' o').
Proof. intros; opt2; cbn; auto with xq. Qed.
Lemma avail_map_definite_value_xeq a a' (f f' : XQ -> XQ) :
  avail_xeq a a' -> (forall x x', xeq x x' -> xeq (f x) (f' x')) -> avail_xeq (avail_map_definite_value a f) (avail_map_definite_value a' f').
Proof. intros; opt2; cbn; auto with xq. Qed.
Lemma opt_definite_xeq (o o' : option XQ) a a' :
  opt_xeq o o' -> avail_xeq a a' -> avail_xeq (opt_unwrap_or (option_map (@Definite XQ) o) a) (opt_unwrap_or (option_map (@Definite XQ) o') a').
Proof. intros; opt2; cbn; auto with xq. Qed.

(* ------------------------------------------------------------------------------------------------------------ *)
(** * The idiom *)

Lemma idiom_dim pb d ctx : dim_not_percent d = true ->
  opt_xeq (bs_resolve ContentBox pb d ctx) (bs_resolve BorderBox pb (grow_dim pb d) ctx).
Proof.
  destruct d; cbn; intro E; try discriminate; auto.
  apply xeq_sym, x_add_zero.
Qed.

Lemma idiom_length pb l ctx :
  opt_xeq (bs_resolve ContentBox pb (Length l) ctx) (bs_resolve BorderBox pb (Length (x_add l pb)) ctx).
Proof. exact (idiom_dim pb (Length l) ctx eq_refl). Qed.

Lemma idiom_auto bs pb ctx : bs_resolve bs pb (@Auto XQ) ctx = None.
Proof. reflexivity. Qed.

Lemma idiom_size pb raw ctx : size_forallb dim_not_percent raw = true ->
  size_rel opt_xeq (bs_resolve_size ContentBox pb raw ctx) (bs_resolve_size BorderBox pb (grow_size pb raw) ctx).
Proof.
  destruct raw as [w h]. unfold size_forallb. cbn [width height]. intro E. apply andb_prop in E. destruct E as [Ew Eh].
  split; cbn [width height bs_resolve_size size_maybe_add_of size_zip_map size_maybe_resolve_dim grow_size bs_adjustment_size size_ZERO].
  - exact (idiom_dim (width pb) w (width ctx) Ew).
  - exact (idiom_dim (height pb) h (height ctx) Eh).
Qed.

Lemma idiom_size_ar pb raw ctx : size_forallb dim_not_percent raw = true ->
  size_rel opt_xeq (bs_resolve_size_ar ContentBox pb raw ctx None) (bs_resolve_size_ar BorderBox pb (grow_size pb raw) ctx None).
Proof. exact (idiom_size pb raw ctx). Qed.

(* the restriction to lengths is needed: a percentage is left alone by the rewrite and then misses padding+border *)
Lemma idiom_percent_counterexample :
  exists pb p ctx, ~ opt_xeq (bs_resolve ContentBox pb (Percent p) ctx) (bs_resolve BorderBox pb (grow_dim pb (Percent p)) ctx).
Proof. exists (Fin 10), (Fin (1 # 2)), (Some (Fin 100)). cbn. intro E. vm_compute in E. discriminate. Qed.

(* flex_basis: the main-axis component *)
Lemma idiom_flex_basis pb is_row fb ctx : dim_not_percent fb = true ->
  opt_xeq (flex_basis_resolve ContentBox pb is_row fb ctx)
          (flex_basis_resolve BorderBox pb is_row (flex_basis_to_border_box pb is_row fb) ctx).
Proof.
  intro E. unfold flex_basis_resolve, flex_basis_to_border_box. cbn [bs_adjustment_size].
  replace (size_main is_row size_ZERO) with (Fin 0) by (destruct is_row; reflexivity).
  exact (idiom_dim (size_main is_row pb) fb ctx E).
Qed.

(* ------------------------------------------------------------------------------------------------------------ *)
(** * The leaf kernel (Model/Leaf.v): the prefix that consumes the adjustment is a function of the `bs_resolve`d sizes *)

Definition leaf_pb (i : LayoutInput XQ) (st : Style XQ) : Size XQ :=
  sum_axes (rect_add (rect_resolve_or_zero_lp (padding st) (width (parent_size i)))
                     (rect_resolve_or_zero_lp (border st) (width (parent_size i)))).

Ltac env_unfold i st := unfold leaf_env; destruct (sizing_mode i), (box_sizing st); reflexivity.

Lemma leaf_env_node_size i st :
  le_node_size (leaf_env i st) =
  match sizing_mode i with
  | ContentSize => known_dimensions i
  | InherentSize => size_or (known_dimensions i)
                            (bs_resolve_size_ar (box_sizing st) (leaf_pb i st) (size st) (parent_size i) (aspect_ratio st))
  end.
Proof. env_unfold i st. Qed.
Lemma leaf_env_node_min_size i st :
  le_node_min_size (leaf_env i st) =
  match sizing_mode i with
  | ContentSize => size_NONE
  | InherentSize => bs_resolve_size_ar (box_sizing st) (leaf_pb i st) (min_size st) (parent_size i) (aspect_ratio st)
  end.
Proof. env_unfold i st. Qed.
Lemma leaf_env_node_max_size i st :
  le_node_max_size (leaf_env i st) =
  match sizing_mode i with
  | ContentSize => size_NONE
  | InherentSize => bs_resolve_size (box_sizing st) (leaf_pb i st) (max_size st) (parent_size i)
  end.
Proof. env_unfold i st. Qed.
Lemma leaf_env_aspect_ratio i st :
  le_aspect_ratio (leaf_env i st) = match sizing_mode i with ContentSize => None | InherentSize => aspect_ratio st end.
Proof. env_unfold i st. Qed.
Lemma leaf_env_margin i st : le_margin (leaf_env i st) = rect_resolve_or_zero_lpa (margin st) (width (parent_size i)).
Proof. env_unfold i st. Qed.
Lemma leaf_env_padding i st : le_padding (leaf_env i st) = rect_resolve_or_zero_lp (padding st) (width (parent_size i)).
Proof. env_unfold i st. Qed.
Lemma leaf_env_border i st : le_border (leaf_env i st) = rect_resolve_or_zero_lp (border st) (width (parent_size i)).
Proof. env_unfold i st. Qed.
Lemma leaf_env_padding_border i st :
  le_padding_border (leaf_env i st) = rect_add (le_padding (leaf_env i st)) (le_border (leaf_env i st)).
Proof. env_unfold i st. Qed.
Lemma leaf_env_inset i st :
  le_content_box_inset (leaf_env i st) =
  let pb := le_padding_border (leaf_env i st) in
  let g := point_map (fun o => match o with Scroll => scrollbar_width st | _ => Fin 0 end) (point_transpose (overflow st)) in
  mkRect (r_left pb) (x_add (r_right pb) (px g)) (r_top pb) (x_add (r_bottom pb) (py g)).
Proof. env_unfold i st. Qed.
Lemma leaf_env_prevent i st :
  le_prevent_collapse (leaf_env i st) =
  (negb (is_block st) || is_scroll_container (px (overflow st)) || is_scroll_container (py (overflow st))
   || match position st with Absolute => true | Relative => false end
   || x_ltb (Fin 0) (r_top (le_padding (leaf_env i st))) || x_ltb (Fin 0) (r_bottom (le_padding (leaf_env i st)))
   || x_ltb (Fin 0) (r_top (le_border (leaf_env i st))) || x_ltb (Fin 0) (r_bottom (le_border (leaf_env i st)))
   || opt_gt_zero (height (le_node_size (leaf_env i st))) || opt_gt_zero (height (le_node_min_size (leaf_env i st)))).
Proof. env_unfold i st. Qed.

(* ---- eligibility, unpacked *)
Lemma eligible_parts st : eligible st ->
  box_sizing st = ContentBox /\ rect_forallb (@lp_is_length XQ) (padding st) = true /\ rect_forallb (@lp_is_length XQ) (border st) = true /\
  aspect_ratio st = None /\ size_forallb (@dim_not_percent XQ) (size st) = true /\ size_forallb (@dim_not_percent XQ) (min_size st) = true /\
  size_forallb (@dim_not_percent XQ) (max_size st) = true.
Proof.
  unfold eligible, eligibleb. intro E.
  repeat (apply andb_prop in E; let E2 := fresh "E" in destruct E as [E E2]).
  repeat split; try assumption.
  - destruct (box_sizing st); [discriminate | reflexivity].
  - destruct (aspect_ratio st); [discriminate | reflexivity].
Qed.

Lemma lp_length_ctx (v : LengthPercentage XQ) c c' : lp_is_length v = true -> resolve_or_zero_lp v c = resolve_or_zero_lp v c'.
Proof. destruct v; [reflexivity | discriminate]. Qed.
Lemma rect_lp_length_ctx r c c' :
  rect_forallb (@lp_is_length XQ) r = true -> rect_resolve_or_zero_lp r c = rect_resolve_or_zero_lp r c'.
Proof.
  unfold rect_forallb. intro E. repeat (apply andb_prop in E; let E2 := fresh "E" in destruct E as [E E2]).
  unfold rect_resolve_or_zero_lp, rect_map.
  rewrite (lp_length_ctx (r_left r) c c'), (lp_length_ctx (r_right r) c c'), (lp_length_ctx (r_top r) c c'),
    (lp_length_ctx (r_bottom r) c c') by assumption. reflexivity.
Qed.
Lemma leaf_pb_eligible i st : eligible st -> leaf_pb i st = style_pb st.
Proof.
  intro E. destruct (eligible_parts st E) as (_ & Ep & Eb & _).
  unfold leaf_pb, style_pb.
  rewrite (rect_lp_length_ctx (padding st) (width (parent_size i)) None Ep),
          (rect_lp_length_ctx (border st) (width (parent_size i)) None Eb). reflexivity.
Qed.

(* ---- results up to xeq *)
Definition marginset_xeq (a b : MarginSet XQ) : Prop :=
  xeq (ms_positive a) (ms_positive b) /\ xeq (ms_negative a) (ms_negative b).
Definition output_xeq (a b : LayoutOutput XQ) : Prop :=
  size_rel xeq (out_size a) (out_size b) /\ size_rel xeq (out_content_size a) (out_content_size b) /\
  opt_xeq (px (first_baselines a)) (px (first_baselines b)) /\ opt_xeq (py (first_baselines a)) (py (first_baselines b)) /\
  marginset_xeq (top_margin a) (top_margin b) /\ marginset_xeq (bottom_margin a) (bottom_margin b) /\
  margins_can_collapse_through a = margins_can_collapse_through b.
Definition call_xeq (a b : MeasureCall XQ) : Prop :=
  size_rel opt_xeq (fst a) (fst b) /\ size_rel avail_xeq (snd a) (snd b).
Definition result_xeq (a b : option (LayoutOutput XQ * list (MeasureCall XQ))) : Prop :=
  match a, b with
  | Some (o, c), Some (o', c') => output_xeq o o' /\ Forall2 call_xeq c c'
  | None, None => True
  | _, _ => False
  end.
(* a measure function that does not distinguish equal rationals *)
Definition measure_respects_xeq (m : MeasureFn XQ) : Prop :=
  forall k k' a a', size_rel opt_xeq k k' -> size_rel avail_xeq a a' -> size_rel xeq (m k a) (m k' a').
(* inputs that agree up to xeq in the known dimensions *)
Definition input_xeq (i i' : LayoutInput XQ) : Prop :=
  run_mode i = run_mode i' /\ sizing_mode i = sizing_mode i' /\ size_rel opt_xeq (known_dimensions i) (known_dimensions i') /\
  parent_size i = parent_size i' /\ available_space i = available_space i'.
Lemma input_xeq_refl i : input_xeq i i.
Proof. repeat split; auto using opt_xeq_refl. Qed.

Definition env_xeq (e e' : @LeafEnv XQ) : Prop :=
  le_margin e = le_margin e' /\ le_padding e = le_padding e' /\ le_border e = le_border e' /\
  le_padding_border e = le_padding_border e' /\
  size_rel opt_xeq (le_node_size e) (le_node_size e') /\ size_rel opt_xeq (le_node_min_size e) (le_node_min_size e') /\
  size_rel opt_xeq (le_node_max_size e) (le_node_max_size e') /\
  le_aspect_ratio e = None /\ le_aspect_ratio e' = None /\
  le_content_box_inset e = le_content_box_inset e' /\ le_prevent_collapse e = le_prevent_collapse e'.

Lemma size_rel_sym {A} (R : A -> A -> Prop) a b : (forall x y, R x y -> R y x) -> size_rel R a b -> size_rel R b a.
Proof. intros S [? ?]; split; auto. Qed.
Lemma opt_xeq_sym a b : opt_xeq a b -> opt_xeq b a.
Proof. destruct a, b; cbn; auto using xeq_sym. Qed.
Lemma size_or_xeq (a a' b b' : Size (option XQ)) :
  size_rel opt_xeq a a' -> size_rel opt_xeq b b' -> size_rel opt_xeq (size_or a b) (size_or a' b').
Proof. intros [? ?] [? ?]; split; cbn; apply opt_or_xeq; assumption. Qed.

(* the rewritten style read by the leaf kernel: same environment up to xeq *)
Lemma leaf_env_rewrite i i' st : input_xeq i i' -> eligible st -> env_xeq (leaf_env i (to_border_box st)) (leaf_env i' st).
Proof.
  intros (Erm & Esm & Ekd & Eps & Eav) El.
  destruct (eligible_parts st El) as (Ebs & Ep & Eb & Ear & Esz & Emn & Emx).
  assert (Epb : leaf_pb i (to_border_box st) = style_pb st) by (exact (leaf_pb_eligible i st El)).
  assert (Epb' : leaf_pb i' st = style_pb st) by (exact (leaf_pb_eligible i' st El)).
  assert (Nsz : size_rel opt_xeq (le_node_size (leaf_env i (to_border_box st))) (le_node_size (leaf_env i' st))).
  { rewrite !leaf_env_node_size. cbn [to_border_box box_sizing size min_size max_size aspect_ratio]. rewrite <- Esm, Epb, Epb', Ebs, Ear, <- Eps. destruct (sizing_mode i); [assumption|].
    apply size_or_xeq; [assumption|]. apply size_rel_sym; [exact opt_xeq_sym|].
    exact (idiom_size_ar (style_pb st) (size st) (parent_size i) Esz). }
  assert (Nmn : size_rel opt_xeq (le_node_min_size (leaf_env i (to_border_box st))) (le_node_min_size (leaf_env i' st))).
  { rewrite !leaf_env_node_min_size. cbn [to_border_box box_sizing size min_size max_size aspect_ratio]. rewrite <- Esm, Epb, Epb', Ebs, Ear, <- Eps. destruct (sizing_mode i); [split; exact I|].
    apply size_rel_sym; [exact opt_xeq_sym|].
    exact (idiom_size_ar (style_pb st) (min_size st) (parent_size i) Emn). }
  assert (Nmx : size_rel opt_xeq (le_node_max_size (leaf_env i (to_border_box st))) (le_node_max_size (leaf_env i' st))).
  { rewrite !leaf_env_node_max_size. cbn [to_border_box box_sizing size min_size max_size aspect_ratio]. rewrite <- Esm, Epb, Epb', Ebs, <- Eps. destruct (sizing_mode i); [split; exact I|].
    apply size_rel_sym; [exact opt_xeq_sym|].
    exact (idiom_size (style_pb st) (max_size st) (parent_size i) Emx). }
  assert (Pd : le_padding (leaf_env i (to_border_box st)) = le_padding (leaf_env i' st)).
  { rewrite !leaf_env_padding, Eps. reflexivity. }
  assert (Bd : le_border (leaf_env i (to_border_box st)) = le_border (leaf_env i' st)).
  { rewrite !leaf_env_border, Eps. reflexivity. }
  assert (PB : le_padding_border (leaf_env i (to_border_box st)) = le_padding_border (leaf_env i' st)).
  { rewrite !leaf_env_padding_border, Pd, Bd. reflexivity. }
  unfold env_xeq. repeat split; try assumption; try apply Nsz; try apply Nmn; try apply Nmx.
  - rewrite !leaf_env_margin, Eps. reflexivity.
  - rewrite leaf_env_aspect_ratio. cbn [aspect_ratio to_border_box]. rewrite Ear. destruct (sizing_mode i); reflexivity.
  - rewrite leaf_env_aspect_ratio, Ear. destruct (sizing_mode i'); reflexivity.
  - rewrite !leaf_env_inset, PB. reflexivity.
  - rewrite !leaf_env_prevent, Pd, Bd.
    rewrite (opt_gt_zero_xeq _ _ (proj2 Nsz)), (opt_gt_zero_xeq _ _ (proj2 Nmn)). reflexivity.
Qed.

(* ---- the rest of the leaf kernel respects xeq *)
Lemma output_of_size_xeq (s s' : Size XQ) :
  size_rel xeq s s' ->
  output_xeq (mkOutput s size_ZERO point_NONE margin_set_ZERO margin_set_ZERO false)
             (mkOutput s' size_ZERO point_NONE margin_set_ZERO margin_set_ZERO false).
Proof. intro E. repeat split; cbn; auto; try apply E; reflexivity. Qed.

Lemma leaf_early_xeq i i' e e' :
  input_xeq i i' -> env_xeq e e' ->
  match leaf_early i e, leaf_early i' e' with
  | Some o, Some o' => output_xeq o o'
  | None, None => True
  | _, _ => False
  end.
Proof.
  intros (Erm & Esm & Ekd & Eps & Eav) (Em & Ep & Eb & Epb & Ens & Emn & Emx & Ea & Ea' & Ei & Epr).
  unfold leaf_early. rewrite <- Erm, <- Epr, <- Epb. destruct (run_mode i); try exact I.
  destruct (le_prevent_collapse e); try exact I.
  destruct Ens as [Ew Eh], Emn as [Emw Emh], Emx as [Exw Exh].
  destruct (width (le_node_size e)) as [w|], (width (le_node_size e')) as [w'|]; cbn [opt_xeq] in Ew; try contradiction; try exact I.
  destruct (height (le_node_size e)) as [h|], (height (le_node_size e')) as [h'|]; cbn [opt_xeq] in Eh; try contradiction; try exact I.
  apply output_of_size_xeq. split; cbn [width height size_maybe_max_fo size_maybe_clamp_fo size_zip_map size_zip_map3 size_map].
  - apply maybe_max_fo_xeq; [apply maybe_clamp_fo_xeq; assumption | apply opt_xeq_refl].
  - apply maybe_max_fo_xeq; [apply maybe_clamp_fo_xeq; assumption | apply opt_xeq_refl].
Qed.

Lemma leaf_available_space_xeq i i' e e' :
  input_xeq i i' -> env_xeq e e' -> size_rel avail_xeq (leaf_available_space i e) (leaf_available_space i' e').
Proof.
  intros (Erm & Esm & [Ekw Ekh] & Eps & Eav) (Em & Ep & Eb & Epb & [Ew Eh] & [Emw Emh] & [Exw Exh] & Ea & Ea' & Ei & Epr).
  unfold leaf_available_space. rewrite <- Eav, <- Em, <- Ei.
  split; cbn [width height].
  - apply avail_map_definite_value_xeq.
    + apply avail_maybe_set_xeq; [apply avail_maybe_set_xeq; [apply maybe_sub_af_xeq|]|]; auto using xeq_refl.
      apply opt_definite_xeq; auto using avail_xeq_refl.
    + intros x x' Ex. apply x_sub_xeq; [apply maybe_clamp_fo_xeq; assumption | apply xeq_refl].
  - apply avail_map_definite_value_xeq.
    + apply avail_maybe_set_xeq; [apply avail_maybe_set_xeq; [apply maybe_sub_af_xeq|]|]; auto using xeq_refl.
      apply opt_definite_xeq; auto using avail_xeq_refl.
    + intros x x' Ex. apply x_sub_xeq; [apply maybe_clamp_fo_xeq; assumption | apply xeq_refl].
Qed.

Lemma leaf_finish_xeq i i' e e' m m' :
  input_xeq i i' -> env_xeq e e' -> size_rel xeq m m' -> output_xeq (leaf_finish i e m) (leaf_finish i' e' m').
Proof.
  intros (Erm & Esm & [Ekw Ekh] & Eps & Eav) (Em & Ep & Eb & Epb & [Ew Eh] & [Emw Emh] & [Exw Exh] & Ea & Ea' & Ei & Epr) [Emw' Emh'].
  unfold leaf_finish. rewrite Ea, Ea', <- Ep, <- Epb, <- Ei, <- Epr.
  cbn [option_map opt_unwrap_or].
  set (cw := maybe_clamp_fo (opt_unwrap_or (opt_or (width (known_dimensions i)) (width (le_node_size e)))
                                           (x_add (width m) (horizontal_axis_sum (le_content_box_inset e))))
                            (width (le_node_min_size e)) (width (le_node_max_size e))).
  set (cw' := maybe_clamp_fo (opt_unwrap_or (opt_or (width (known_dimensions i')) (width (le_node_size e')))
                                            (x_add (width m') (horizontal_axis_sum (le_content_box_inset e))))
                             (width (le_node_min_size e')) (width (le_node_max_size e'))).
  set (ch := maybe_clamp_fo (opt_unwrap_or (opt_or (height (known_dimensions i)) (height (le_node_size e)))
                                           (x_add (height m) (vertical_axis_sum (le_content_box_inset e))))
                            (height (le_node_min_size e)) (height (le_node_max_size e))).
  set (ch' := maybe_clamp_fo (opt_unwrap_or (opt_or (height (known_dimensions i')) (height (le_node_size e')))
                                            (x_add (height m') (vertical_axis_sum (le_content_box_inset e))))
                             (height (le_node_min_size e')) (height (le_node_max_size e'))).
  assert (Cw : xeq cw cw').
  { apply maybe_clamp_fo_xeq; try assumption. apply opt_unwrap_or_xeq; [apply opt_or_xeq; assumption|].
    apply x_add_xeq; [assumption | apply xeq_refl]. }
  assert (Ch : xeq ch ch').
  { apply maybe_clamp_fo_xeq; try assumption. apply opt_unwrap_or_xeq; [apply opt_or_xeq; assumption|].
    apply x_add_xeq; [assumption | apply xeq_refl]. }
  assert (Sw : xeq (maybe_max_fo cw (Some (horizontal_axis_sum (le_padding_border e))))
                   (maybe_max_fo cw' (Some (horizontal_axis_sum (le_padding_border e))))).
  { apply maybe_max_fo_xeq; [assumption | apply opt_xeq_refl]. }
  assert (Sh : xeq (maybe_max_fo (x_max ch (Fin 0)) (Some (vertical_axis_sum (le_padding_border e))))
                   (maybe_max_fo (x_max ch' (Fin 0)) (Some (vertical_axis_sum (le_padding_border e))))).
  { apply maybe_max_fo_xeq; [apply x_max_xeq; [assumption | apply xeq_refl] | apply opt_xeq_refl]. }
  repeat split; try exact I; try (apply xeq_refl); try assumption.
  - cbn. apply x_add_xeq; [assumption | apply xeq_refl].
  - cbn. apply x_add_xeq; [assumption | apply xeq_refl].
  - cbn [margins_can_collapse_through].
    f_equal. f_equal.
    + exact (x_eqb_xeq _ _ _ _ Sh (xeq_refl _)).
    + exact (x_eqb_xeq _ _ _ _ Emh' (xeq_refl _)).
Qed.

Lemma compute_leaf_layout_xeq i i' e_st st measure :
  e_st = to_border_box st -> input_xeq i i' -> eligible st -> measure_respects_xeq measure ->
  result_xeq (compute_leaf_layout i e_st measure) (compute_leaf_layout i' st measure).
Proof.
  intros -> Ei El Hm.
  pose proof (leaf_env_rewrite i i' st Ei El) as Ee.
  unfold compute_leaf_layout.
  pose proof (leaf_early_xeq i i' _ _ Ei Ee) as Early.
  destruct (leaf_early i (leaf_env i (to_border_box st))) as [o|], (leaf_early i' (leaf_env i' st)) as [o'|]; try contradiction.
  - split; [assumption | constructor].
  - pose proof (leaf_available_space_xeq i i' _ _ Ei Ee) as Eav.
    unfold leaf_measure_known. pose proof Ei as Ei0. destruct Ei as (Erm & Esm & Ekd & Eps & Eavs). rewrite <- Erm.
    destruct (run_mode i); cbn [result_xeq]; try exact I.
    + split.
      * apply leaf_finish_xeq; [exact Ei0 | assumption |].
        apply Hm; [split; exact I | assumption].
      * constructor; [| constructor]. split; [split; exact I | assumption].
    + split.
      * apply leaf_finish_xeq; [exact Ei0 | assumption |].
        apply Hm; assumption.
      * constructor; [| constructor]. split; assumption.
Qed.

(* the leaf kernel, every run mode / sizing mode / input *)
Lemma leaf_invariant i st measure : eligible st -> measure_respects_xeq measure ->
  result_xeq (compute_leaf_layout i (to_border_box st) measure) (compute_leaf_layout i st measure).
Proof. intros. apply compute_leaf_layout_xeq; auto using input_xeq_refl. Qed.

(* ------------------------------------------------------------------------------------------------------------ *)
(** * The root (Model/Root.v): known dimensions, and the whole one-node tree *)

Lemma root_known_dimensions_unfold st av :
  root_known_dimensions st av =
  if is_block st then
    let parent_size := size_into_options av in
    let pb := sum_axes (rect_add (rect_resolve_or_zero_lp (padding st) (width parent_size))
                                 (rect_resolve_or_zero_lp (border st) (width parent_size))) in
    let mn := bs_resolve_size_ar (box_sizing st) pb (min_size st) parent_size (aspect_ratio st) in
    let mx := bs_resolve_size_ar (box_sizing st) pb (max_size st) parent_size (aspect_ratio st) in
    let sz := bs_resolve_size_ar (box_sizing st) pb (size st) parent_size (aspect_ratio st) in
    size_maybe_max_of
      (size_or (size_or (size_or size_NONE
                  (size_zip_map (fun mn mx => match mn, mx with
                                              | Some mn, Some mx => if x_leb mx mn then Some mn else None
                                              | _, _ => None
                                              end) mn mx))
                  (size_maybe_clamp_oo sz mn mx))
               (mkSize (maybe_sub_of (avail_into_option (width av))
                                     (horizontal_axis_sum (rect_resolve_or_zero_lpa (margin st) (width parent_size)))) None))
      pb
  else size_NONE.
Proof. unfold root_known_dimensions. destruct (is_block st), (box_sizing st); reflexivity. Qed.

Lemma forced_xeq (m m' x x' : option XQ) : opt_xeq m m' -> opt_xeq x x' ->
  opt_xeq (match m, x with Some mn, Some mx => if x_leb mx mn then Some mn else None | _, _ => None end)
          (match m', x' with Some mn, Some mx => if x_leb mx mn then Some mn else None | _, _ => None end).
Proof.
  intros E1 E2. destruct m, m', x, x'; cbn [opt_xeq] in *; try contradiction; try exact I.
  rewrite (x_leb_xeq' _ _ _ _ E2 E1). match goal with |- context [if ?b then _ else _] => destruct b end; cbn; auto.
Qed.

Lemma root_known_dimensions_invariant st av : eligible st ->
  size_rel opt_xeq (root_known_dimensions (to_border_box st) av) (root_known_dimensions st av).
Proof.
  intro El. destruct (eligible_parts st El) as (Ebs & Ep & Eb & Ear & Esz & Emn & Emx).
  rewrite !root_known_dimensions_unfold.
  cbn [to_border_box box_sizing size min_size max_size aspect_ratio padding border margin is_block display].
  change (is_block (to_border_box st)) with (is_block st).
  destruct (is_block st); [| split; exact I].
  cbv zeta.
  rewrite (rect_lp_length_ctx (padding st) (width (size_into_options av)) None Ep),
          (rect_lp_length_ctx (border st) (width (size_into_options av)) None Eb).
  fold (style_pb st). rewrite Ebs, Ear.
  pose proof (size_rel_sym _ _ _ opt_xeq_sym (idiom_size_ar (style_pb st) (size st) (size_into_options av) Esz)) as [Sw Sh].
  pose proof (size_rel_sym _ _ _ opt_xeq_sym (idiom_size_ar (style_pb st) (min_size st) (size_into_options av) Emn)) as [Mw Mh].
  pose proof (size_rel_sym _ _ _ opt_xeq_sym (idiom_size_ar (style_pb st) (max_size st) (size_into_options av) Emx)) as [Xw Xh].
  split; cbn [width height size_maybe_max_of size_or size_zip_map size_maybe_clamp_oo size_zip_map3 size_NONE].
  - apply maybe_max_of_xeq; [| apply xeq_refl].
    apply opt_or_xeq; [| apply opt_xeq_refl].
    apply opt_or_xeq; [apply opt_or_xeq; [exact I | apply forced_xeq; assumption] | apply maybe_clamp_oo_xeq; assumption].
  - apply maybe_max_of_xeq; [| apply xeq_refl].
    apply opt_or_xeq; [| apply opt_xeq_refl].
    apply opt_or_xeq; [apply opt_or_xeq; [exact I | apply forced_xeq; assumption] | apply maybe_clamp_oo_xeq; assumption].
Qed.

(* the unrounded layout of a one-node tree *)
Definition root_result_xeq (a b : option (Layout XQ * list (MeasureCall XQ))) : Prop :=
  match a, b with
  | Some (l, c), Some (l', c') => layout_xeq l l' /\ Forall2 call_xeq c c'
  | None, None => True
  | _, _ => False
  end.

Lemma rect_rel_refl (r : Rect XQ) : rect_rel xeq r r.
Proof. repeat split; apply xeq_refl. Qed.

Lemma root_assemble_xeq st av o o' : output_xeq o o' ->
  layout_xeq (root_assemble (to_border_box st) av o) (root_assemble st av o').
Proof.
  intros (Es & Ec & _). unfold root_assemble, layout_xeq.
  cbn [to_border_box padding border margin overflow scrollbar_width l_order l_location l_size l_content_size l_scrollbar_size
       l_border l_padding l_margin px py point_ZERO].
  repeat split; try apply xeq_refl; try apply Es; try apply Ec.
Qed.

Lemma root_leaf_invariant st measure av : eligible st -> measure_respects_xeq measure ->
  root_result_xeq (root_leaf (to_border_box st) measure av) (root_leaf st measure av).
Proof.
  intros El Hm. unfold root_leaf, childless_child_layout.
  cbn [run_mode root_input]. change (display (to_border_box st)) with (display st).
  assert (Ei : input_xeq (root_input (to_border_box st) av) (root_input st av)).
  { repeat split; try reflexivity; apply (root_known_dimensions_invariant st av El). }
  pose proof (compute_leaf_layout_xeq _ _ _ st measure eq_refl Ei El Hm) as R.
  destruct (display st).
  1-3: destruct (compute_leaf_layout (root_input (to_border_box st) av) (to_border_box st) measure) as [[o c]|],
                (compute_leaf_layout (root_input st av) st measure) as [[o' c']|]; cbn [result_xeq] in R; try contradiction; try exact I;
       destruct R as [Ro Rc]; split; [apply root_assemble_xeq; assumption | assumption].
  split; [| constructor]. apply root_assemble_xeq. repeat split; cbn; auto; reflexivity.
Qed.

(* ------------------------------------------------------------------------------------------------------------ *)
(** * The omission: GridItem::minimum_contribution caps a compressible replaced item by its RAW size / max_size *)

Definition lp0 : LengthPercentage XQ := LpLength (Fin 0).
Definition lpa0 : LengthPercentageAuto XQ := Length (Fin 0).
(* content-box, padding 5 + 5 horizontally, max-width 10 *)
Definition cmp_style : Style XQ :=
  mkStyle DBlock Relative ContentBox (mkPoint Visible Visible) (Fin 0)
          (mkSize Auto Auto) (mkSize Auto Auto) (mkSize (Length (Fin 10)) Auto) None
          (mkRect lpa0 lpa0 lpa0 lpa0) (mkRect (LpLength (Fin 5)) (LpLength (Fin 5)) lp0 lp0) (mkRect lp0 lp0 lp0 lp0).

Lemma cmp_style_eligible : eligible cmp_style.
Proof. reflexivity. Qed.

(* a min-content contribution of 20 (= the item's border-box width after its own max-width clamp: 10 + 10) is capped to 10
   in content-box mode and to 20 after the rewrite *)
Lemma compressible_cap_refuted :
  exists st c, eligible st /\
    ~ xeq (compressible_cap (width (size st)) (width (max_size st)) c)
          (compressible_cap (width (size (to_border_box st))) (width (max_size (to_border_box st))) c).
Proof.
  exists cmp_style, (Fin 20). split; [reflexivity|]. vm_compute. discriminate.
Qed.

(* with the idiom the branch would be invariant *)
Lemma compressible_cap_adjusted_invariant pb sz mx c : dim_not_percent sz = true -> dim_not_percent mx = true ->
  xeq (compressible_cap_adjusted ContentBox pb sz mx c) (compressible_cap_adjusted BorderBox pb (grow_dim pb sz) (grow_dim pb mx) c).
Proof.
  intros Es Em. unfold compressible_cap_adjusted.
  apply maybe_min_fo_xeq; [apply maybe_min_fo_xeq; [apply xeq_refl|] |]; apply idiom_dim; assumption.
Qed.

(* the whole per-axis function: invariant unless the item is compressible-replaced AND has a length max_size *)
Lemma minimum_contribution_invariant pb sz mn mx ctx amin ucb compressible mc limit :
  dim_not_percent sz = true -> dim_not_percent mn = true -> dim_not_percent mx = true ->
  compressible = false \/ mx = Auto ->
  xeq (minimum_contribution_axis ContentBox pb sz mn mx ctx amin ucb compressible mc limit)
      (minimum_contribution_axis BorderBox pb (grow_dim pb sz) (grow_dim pb mn) (grow_dim pb mx) ctx amin ucb compressible mc limit).
Proof.
  intros Es En Ex Hc. unfold minimum_contribution_axis.
  apply maybe_min_fo_xeq; [| apply opt_xeq_refl].
  pose proof (opt_or_xeq _ _ _ _ (opt_or_xeq _ _ _ _ (idiom_dim pb sz ctx Es) (idiom_dim pb mn ctx En)) (opt_xeq_refl amin)) as S.
  destruct (opt_or (opt_or (bs_resolve ContentBox pb sz ctx) (bs_resolve ContentBox pb mn ctx)) amin) as [v|] eqn:E1,
           (opt_or (opt_or (bs_resolve BorderBox pb (grow_dim pb sz) ctx) (bs_resolve BorderBox pb (grow_dim pb mn) ctx)) amin) as [v'|];
    cbn [opt_xeq] in S; try contradiction; [assumption|].
  destruct ucb; [| apply xeq_refl].
  (* the size suggestion was None: `size` is auto *)
  assert (sz = Auto) as ->.
  { destruct sz; [reflexivity | discriminate E1 | discriminate Es]. }
  destruct Hc as [-> | ->]; apply xeq_refl.
Qed.

Lemma minimum_contribution_refuted :
  exists pb mx mc,
    ~ xeq (minimum_contribution_axis ContentBox pb Auto Auto mx None None true true mc None)
          (minimum_contribution_axis BorderBox pb (grow_dim pb Auto) (grow_dim pb Auto) (grow_dim pb mx) None None true true mc None).
Proof. exists (Fin 10), (Length (Fin 10)), (Fin 20). vm_compute. discriminate. Qed.

(* ------------------------------------------------------------------------------------------------------------ *)
(** * The premises are satisfiable *)

Definition ex12_style : Style XQ :=
  mkStyle DBlock Relative ContentBox (mkPoint Visible Scroll) (Fin 12)
          (mkSize (Length (Fin 40)) Auto) (mkSize Auto (Length (Fin 5))) (mkSize (Length (Fin 90)) (Length (Fin 60))) None
          (mkRect lpa0 Auto lpa0 lpa0)
          (mkRect (LpLength (Fin 1)) (LpLength (Fin 2)) (LpLength (Fin 3)) (LpLength (Fin 4)))
          (mkRect (LpLength (Fin 1)) (LpLength (Fin 1)) (LpLength (Fin 1)) (LpLength (Fin 1))).
Lemma ex12_style_eligible : eligible ex12_style.
Proof. reflexivity. Qed.
(* the rewrite really changes the style: 40 -> 40 + 5, min-height 5 -> 5 + 9 *)
Lemma ex12_style_rewritten :
  size (to_border_box ex12_style) = mkSize (Length (x_add (Fin 40) (Fin 5))) Auto /\
  min_size (to_border_box ex12_style) = mkSize Auto (Length (x_add (Fin 5) (Fin 9))).
Proof. vm_compute. split; reflexivity. Qed.

(* measure functions that respect xeq: constants, and "known dimension or a default" *)
Lemma measure_const_respects s : measure_respects_xeq (fun _ _ => s).
Proof. intros k k' a a' _ _. split; apply xeq_refl. Qed.
Definition measure_known_or (d : Size XQ) : MeasureFn XQ :=
  fun k _ => mkSize (opt_unwrap_or (width k) (width d)) (opt_unwrap_or (height k) (height d)).
Lemma measure_known_or_respects d : measure_respects_xeq (measure_known_or d).
Proof. intros k k' a a' [Ew Eh] _. split; cbn; apply opt_unwrap_or_xeq; auto using xeq_refl. Qed.
