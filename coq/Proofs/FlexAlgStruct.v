(* Structure of the flex resumption (Model/FlexAlg.v), independent of every arithmetic fact.

     lists        regroup / zip_total / per_line keep the nodes of the work items; the final walk visits exactly the items
     pipeline     normal form of the TRANSLATED `flex_generate_items` (Gen/FiltersGen.v): the in-flow children, in order, with their index;
                  the three classes of children (in-flow items / box-generating absolute / display:none) partition the child list
     shape        `Pre` (measuring and baseline queries addressed to in-flow items) and `QSL` (for each node of a list: one query, then the
                  layout is stored) and the SHAPE THEOREM: flex_alg s st i is
                        Pre .. (ComputeSize: Ret  |  otherwise: QSL walk (QSL absolute (QSL hidden Ret)))
                  with the walk a list with the same members as the in-flow children, the absolute list the box-generating absolute
                  children, the hidden list the display:none children, the hidden queries canonical and the hidden layouts with_order.

   Proofs/FlexAlgIface.v derives WF / H1 / H3 / HQ / SetsZeroOnHidden / NS (partial) from the shape alone. *)
From Coq Require Import ZArith Bool List Lia.
From TV Require Import Model.Common Model.Leaf Gen.FlexGen Model.Flex Model.FlexLines Model.FlexBase Model.FlexContainer.
From TV Require Import Model.FiltersBase Gen.FiltersGen Model.ItemFilters Model.FlexAlgBase Model.FlexAlgAbs Model.FlexAlg.
From TV Require Model.Engine.
Import ListNotations.
Close Scope Z_scope.

(* ------------------------------------------------------------------------------------------------ lists *)

Lemma concat_regroup {A} (lens : list nat) : forall l : list A, concat (regroup lens l) = l.
Proof.
  induction lens as [|n r IH]; intros l; cbn [regroup].
  - destruct l; cbn; [reflexivity|]. rewrite app_nil_r. reflexivity.
  - cbn [concat]. rewrite IH. apply firstn_skipn.
Qed.

Lemma map_zip_total {A X B} (g : A -> B) (f : A -> X -> A) : (forall a x, g (f a x) = g a) ->
  forall ws xs, map g (zip_total f ws xs) = map g ws.
Proof.
  intros Hf. induction ws as [|w r IH]; intros [|x xr]; cbn; try reflexivity. rewrite Hf, IH. reflexivity.
Qed.

Lemma map_map_lines_from {A B} (h : A -> B) (g : nat -> list A -> list A) : (forall i ln, map h (g i ln) = map h ln) ->
  forall lines i, map h (concat (map_lines_from i g lines)) = map h (concat lines).
Proof.
  intros Hg. induction lines as [|ln r IH]; intros i; cbn [map_lines_from concat]; [reflexivity|].
  rewrite !map_app, Hg, IH. reflexivity.
Qed.

Lemma map_per_line {A B} (h : A -> B) lens (g : nat -> list A -> list A) ws :
  (forall i ln, map h (g i ln) = map h ln) -> map h (per_line lens g ws) = map h ws.
Proof. intros Hg. unfold per_line. rewrite (map_map_lines_from h g Hg), concat_regroup. reflexivity. Qed.

(* ------------------------------------------------------------------------------------------------ enumerate *)

Lemma In_enumerate_from_iff {A} (l : list A) : forall k c s,
  In (c, s) (g_enumerate_from k l) <-> k <= c /\ nth_error l (c - k) = Some s.
Proof.
  induction l as [|x l IH]; intros k c s; cbn [g_enumerate_from].
  - split; [intros []|]. intros [_ Hn]. destruct (c - k); discriminate.
  - split.
    + intros [E|Hin].
      * injection E as <- <-. split; [lia|]. replace (k - k) with 0 by lia. reflexivity.
      * apply IH in Hin. destruct Hin as [Hle Hn]. split; [lia|].
        replace (c - k) with (S (c - S k)) by lia. exact Hn.
    + intros [Hle Hn]. destruct (Nat.eq_dec c k) as [->|Hne].
      * left. replace (k - k) with 0 in Hn by lia. cbn in Hn. injection Hn as ->. reflexivity.
      * right. apply IH. split; [lia|]. replace (c - k) with (S (c - S k)) in Hn by lia. exact Hn.
Qed.

Lemma In_enumerate_iff {A} (l : list A) c s : In (c, s) (g_enumerate l) <-> nth_error l c = Some s.
Proof.
  unfold g_enumerate. rewrite In_enumerate_from_iff. replace (c - 0) with c by lia. split; [intros [_ E]; exact E|intros E; split; [lia|exact E]].
Qed.

(* ------------------------------------------------------------------------------------------------ the item pipeline *)

Section Pipeline.
  Context {C S I : Type}.
  Variable position : S -> GPosition.
  Variable bgm : S -> GBoxGenerationMode.

  Definition in_flow_enum (f : C -> S) (n : nat) (cs : list C) : list (nat * C) :=
    filter (fun ic => s_in_flow position bgm (f (snd ic))) (g_enumerate_from n cs).

  (* generate_anonymous_flex_items, as translated: the in-flow children in document order, each with its index *)
  Lemma flex_generate_items_nf (f : C -> S) (build : nat -> C -> S -> I) cs :
    flex_generate_items f position bgm build cs = map (fun ic => build (fst ic) (snd ic) (f (snd ic))) (in_flow_enum f 0 cs).
  Proof.
    unfold flex_generate_items, g_enumerate, in_flow_enum, s_in_flow, s_hidden, s_absolute, g_is_none, g_is_absolute. generalize 0.
    induction cs as [|c cs IH]; intros n; [reflexivity|].
    cbn [g_enumerate_from map filter snd].
    destruct (position (f c)) eqn:Ep, (bgm (f c)) eqn:Eb;
      repeat (progress (cbn; rewrite ?Ep, ?Eb)); first [apply IH | f_equal; apply IH].
  Qed.
End Pipeline.

Section Classes.
  Context {T : Type} `{Num T}.
  Notation FS := (FStyle T).

  (* the class of the child at a position *)
  Definition in_flow_at (st : list FS) (c : nat) : Prop :=
    exists sc, nth_error st c = Some sc /\ s_hidden f_bgm sc = false /\ s_absolute f_position sc = false.
  Definition abs_at (st : list FS) (c : nat) : Prop :=
    exists sc, nth_error st c = Some sc /\ s_hidden f_bgm sc = false /\ s_absolute f_position sc = true.
  Definition hidden_at (st : list FS) (c : nat) : Prop :=
    exists sc, nth_error st c = Some sc /\ s_hidden f_bgm sc = true.

  Definition item_nodes (st : list FS) : list nat := map fst (in_flow_enum (@f_position T) (@f_bgm T) (fun s : FS => s) 0 st).
  Definition abs_nodes (st : list FS) : list nat := map fst (abs_children st).
  Fixpoint flag_nodes (flags : list bool) (order : nat) : list nat :=
    match flags with
    | [] => []
    | h :: r => if h then order :: flag_nodes r (S order) else flag_nodes r (S order)
    end.
  Definition hidden_nodes (st : list FS) : list nat := flag_nodes (hidden_flags st) 0.

  Lemma item_nodes_iff st c : In c (item_nodes st) <-> in_flow_at st c.
  Proof.
    unfold item_nodes, in_flow_enum, in_flow_at. rewrite in_map_iff. split.
    - intros [[i sc] [E Hin]]. cbn in E. subst i. apply filter_In in Hin. destruct Hin as [Hin Hf].
      apply (In_enumerate_iff st c sc) in Hin. cbn [snd] in Hf. unfold s_in_flow in Hf.
      apply andb_true_iff in Hf. destruct Hf as [A B]. exists sc. split; [exact Hin|].
      split; [destruct (s_hidden f_bgm sc); [discriminate|reflexivity]|destruct (s_absolute f_position sc); [discriminate|reflexivity]].
    - intros (sc & Hn & A & B). exists (c, sc). split; [reflexivity|]. apply filter_In. split.
      + apply (In_enumerate_iff st c sc). exact Hn.
      + cbn [snd]. unfold s_in_flow. rewrite A, B. reflexivity.
  Qed.

  Lemma abs_nodes_iff st c : In c (abs_nodes st) <-> abs_at st c.
  Proof.
    unfold abs_nodes, abs_children, abs_at. rewrite in_map_iff. split.
    - intros [[i sc] [E Hin]]. cbn in E. subst i. apply filter_In in Hin. destruct Hin as [Hin Hf].
      apply (In_enumerate_iff st c sc) in Hin. cbn [snd] in Hf. exists sc. split; [exact Hin|].
      destruct (s_hidden f_bgm sc), (s_absolute f_position sc); cbn in Hf; try discriminate. split; reflexivity.
    - intros (sc & Hn & A & B). exists (c, sc). split; [reflexivity|]. apply filter_In. split.
      + apply (In_enumerate_iff st c sc). exact Hn.
      + cbn [snd]. rewrite A, B. reflexivity.
  Qed.

  Lemma abs_children_sound (st : list FS) (x : nat * FS) : In x (abs_children st) ->
    nth_error st (fst x) = Some (snd x) /\ s_hidden f_bgm (snd x) = false /\ s_absolute f_position (snd x) = true.
  Proof.
    unfold abs_children. intros Hin. apply filter_In in Hin. destruct Hin as [Hin Hf]. destruct x as [i sc].
    apply (In_enumerate_iff st i sc) in Hin. cbn [fst snd] in *. split; [exact Hin|].
    destruct (s_hidden f_bgm sc), (s_absolute f_position sc); cbn in Hf; try discriminate. split; reflexivity.
  Qed.

  Lemma flag_nodes_iff flags : forall order c, In c (flag_nodes flags order) <-> order <= c /\ nth_error flags (c - order) = Some true.
  Proof.
    induction flags as [|h r IH]; intros order c; cbn [flag_nodes].
    - split; [intros []|]. intros [_ E]. destruct (c - order); discriminate.
    - assert (Hrest : In c (flag_nodes r (S order)) <-> S order <= c /\ nth_error (h :: r) (c - order) = Some true).
      { rewrite IH. split; intros [A B]; (split; [exact A|]).
        - replace (c - order) with (S (c - S order)) by lia. exact B.
        - replace (c - order) with (S (c - S order)) in B by lia. exact B. }
      destruct h.
      + cbn [In]. rewrite Hrest. split.
        * intros [<-|[A B]]; [split; [lia|]; replace (order - order) with 0 by lia; reflexivity|split; [lia|exact B]].
        * intros [A B]. destruct (Nat.eq_dec order c) as [E|Hne]; [left; exact E|right; split; [lia|exact B]].
      + rewrite Hrest. split; intros [A B]; (split; [|exact B]); [lia|].
        destruct (Nat.eq_dec order c) as [<-|Hne]; [|lia]. replace (order - order) with 0 in B by lia. discriminate.
  Qed.

  Lemma hidden_nodes_iff st c : In c (hidden_nodes st) <-> hidden_at st c.
  Proof.
    unfold hidden_nodes, hidden_flags, hidden_at. rewrite flag_nodes_iff. replace (c - 0) with c by lia. rewrite nth_error_map. split.
    - intros [_ E]. destruct (nth_error st c) as [sc|]; [|discriminate]. cbn in E. injection E as E. exists sc. split; [reflexivity|exact E].
    - intros (sc & -> & E). cbn. rewrite E. split; [lia|reflexivity].
  Qed.

  (* every child belongs to one of the three classes *)
  Lemma classes_cover st c : c < length st -> in_flow_at st c \/ abs_at st c \/ hidden_at st c.
  Proof.
    intros Hc. destruct (nth_error st c) as [sc|] eqn:E; [|apply nth_error_None in E; lia].
    destruct (s_hidden f_bgm sc) eqn:A; [right; right; exists sc; split; assumption|].
    destruct (s_absolute f_position sc) eqn:B; [right; left|left]; exists sc; repeat split; assumption.
  Qed.

  (* ... and to one only; a display:none child is visited once by the hidden loop *)
  Lemma classes_disjoint st c : hidden_at st c -> ~ in_flow_at st c /\ ~ abs_at st c.
  Proof.
    intros (sc & E & A). split; intros (sc' & E' & A' & _); rewrite E in E'; injection E' as <-; congruence.
  Qed.

  Lemma flag_nodes_lower flags : forall order c, In c (flag_nodes flags order) -> order <= c.
  Proof. intros order c Hin. apply flag_nodes_iff in Hin. tauto. Qed.

  Lemma flag_nodes_NoDup flags : forall order, NoDup (flag_nodes flags order).
  Proof.
    induction flags as [|h r IH]; intros order; cbn [flag_nodes]; [constructor|].
    destruct h; [|apply IH]. constructor; [|apply IH].
    intros Hin. apply flag_nodes_lower in Hin. lia.
  Qed.

  Lemma hidden_nodes_NoDup st : NoDup (hidden_nodes st).
  Proof. apply flag_nodes_NoDup. Qed.

  Lemma in_flow_not_none st c : in_flow_at st c -> forall sc, nth_error st c = Some sc -> f_is_none sc = false.
  Proof. intros (sc & E & A & _) sc' E'. rewrite E in E'. injection E' as <-. exact A. Qed.
  Lemma abs_not_none st c : abs_at st c -> forall sc, nth_error st c = Some sc -> f_is_none sc = false.
  Proof. intros (sc & E & A & _) sc' E'. rewrite E in E'. injection E' as <-. exact A. Qed.
End Classes.

(* ------------------------------------------------------------------------------------------------ work items keep their node *)

Section Nodes.
  Context {T : Type} `{Num T}.
  Notation W := (@WItem T).

  (* what never changes of a work item: its node and whether it is baseline-aligned *)
  Definition w_key (w : W) : nat * bool := (w_node w, w_baseline_align w).

  Lemma key_base_upd k av (w : W) a : w_key (base_upd k av w a) = w_key w.
  Proof. unfold base_upd. destruct a as [|a1 [|a2 r]]; reflexivity. Qed.
  Lemma key_intrinsic_upd k (w : W) a : w_key (intrinsic_upd k w a) = w_key w.
  Proof. reflexivity. Qed.
  Lemma key_hyp_cross_upd k (w : W) a : w_key (hyp_cross_upd k w a) = w_key w.
  Proof. reflexivity. Qed.
  Lemma key_baseline_upd (w : W) a : w_key (baseline_upd w a) = w_key w.
  Proof. unfold baseline_upd. destruct a; reflexivity. Qed.

  Lemma keys_resolve_line k (ln : list W) : map w_key (resolve_line k ln) = map w_key ln.
  Proof.
    unfold resolve_line. destruct (resolve_flexible_lengths _ _ _); [|reflexivity].
    apply map_zip_total. intros a x. reflexivity.
  Qed.
  Lemma keys_mark_baseline_line k (ln : list W) : map w_key (mark_baseline_line k ln) = map w_key ln.
  Proof. unfold mark_baseline_line. rewrite map_map. reflexivity. Qed.
  Lemma keys_distribute_line k im (ln : list W) : map w_key (distribute_line k im ln) = map w_key ln.
  Proof. unfold distribute_line. apply map_zip_total. intros a x. reflexivity. Qed.
  Lemma keys_map_used_cross k lc (ln : list W) : map w_key (map (used_cross_upd k lc) ln) = map w_key ln.
  Proof. rewrite map_map. reflexivity. Qed.
  Lemma keys_map_cross_margins k lc mb (ln : list W) : map w_key (map (cross_margins_upd k lc mb) ln) = map w_key ln.
  Proof.
    rewrite map_map. apply map_ext. intros w. unfold cross_margins_upd.
    destruct (r_cross_start _ _ && r_cross_end _ _); [reflexivity|].
    destruct (r_cross_start _ _); [reflexivity|]. destruct (r_cross_end _ _); reflexivity.
  Qed.

  Lemma keys_nodes (ws ws' : list W) : map w_key ws' = map w_key ws -> map w_node ws' = map w_node ws.
  Proof. intros E. apply (f_equal (map fst)) in E. rewrite !map_map in E. exact E. Qed.

  (* calculate_children_base_lines lays out only baseline-aligned items, and only in rows *)
  Lemma mark_baseline_line_spec k (ln : list W) :
    Forall (fun w => w_ask_baseline w = true -> k_row k = true /\ w_baseline_align w = true) (mark_baseline_line k ln).
  Proof.
    unfold mark_baseline_line. apply Forall_forall. intros w' Hin. apply in_map_iff in Hin. destruct Hin as [w [<- _]].
    cbn. intros E. apply andb_true_iff in E. destruct E as [E1 E2]. apply andb_true_iff in E1. destruct E1 as [E1 _]. split; assumption.
  Qed.

  Lemma Forall_per_line {A} (P : A -> Prop) lens (g : nat -> list A -> list A) ws :
    (forall i ln, Forall P (g i ln)) -> Forall P (per_line lens g ws).
  Proof.
    intros Hg. unfold per_line. generalize 0. induction (regroup lens ws) as [|ln r IH]; intros i; cbn [map_lines_from concat]; [constructor|].
    apply Forall_app. split; [apply Hg|apply IH].
  Qed.

  (* the final walk visits exactly the items of the lines *)
  Lemma walk_line_nodes k fl lo tc (ln : list W) c : In c (map wk_node (walk_line k fl lo tc ln)) <-> In c (map w_node ln).
  Proof.
    unfold walk_line, maybe_rev.
    assert (G : forall l : list W,
      In c (map wk_node (match l with [] => [] | w :: r => mkWalk w lo tc true fl :: map (fun w' => mkWalk w' lo tc false fl) r end))
      <-> In c (map w_node l)).
    { intros [|w r]; [reflexivity|]. cbn [map In wk_node wk_item]. rewrite map_map. cbn [wk_node wk_item]. reflexivity. }
    rewrite G. destruct (k_reverse k); [|reflexivity]. rewrite map_rev, <- in_rev. reflexivity.
  Qed.

  Lemma walk_lines_nodes k offsets starts : forall (lines : list (list W)) i c,
    In c (map wk_node (concat (walk_lines_from k i lines offsets starts))) <-> In c (map w_node (concat lines)).
  Proof.
    induction lines as [|ln r IH]; intros i c; cbn [walk_lines_from concat]; [reflexivity|].
    rewrite !map_app, !in_app_iff, walk_line_nodes, IH. reflexivity.
  Qed.

  Lemma In_concat_rev {A} (ls : list (list A)) x : In x (concat (rev ls)) <-> In x (concat ls).
  Proof.
    rewrite !in_concat. split; intros (l & Hl & Hx); exists l; (split; [|exact Hx]); [apply in_rev; exact Hl|apply in_rev in Hl; exact Hl].
  Qed.

  Lemma walk_lines_rev_nodes k b (lines : list (list W)) offsets starts c :
    In c (map wk_node (concat (maybe_rev b (walk_lines_from k 0 lines offsets starts)))) <-> In c (map w_node (concat lines)).
  Proof.
    rewrite <- (walk_lines_nodes k offsets starts lines 0 c). unfold maybe_rev.
    destruct b; [|reflexivity].
    rewrite !in_map_iff. split; intros (x & E & Hx); exists x; (split; [exact E|]); apply In_concat_rev; exact Hx.
  Qed.

  Lemma final_walk_nodes k (lines : list (list W)) offsets cs c :
    In c (map wk_node (final_walk k lines offsets cs)) <-> In c (map w_node (concat lines)).
  Proof. unfold final_walk. apply walk_lines_rev_nodes. Qed.
End Nodes.

(* ------------------------------------------------------------------------------------------------ shapes *)

Section Shape.
  Context {T : Type} `{Num T}.
  Notation Out := (LayoutOutput T).
  Notation Alg := (Engine.Alg (FIn T) Out (FLay T)).
  Notation Ret := (Engine.Ret (FIn T) Out (FLay T)).
  Notation Query := (Engine.Query (FIn T) Out (FLay T)).
  Notation SetLayout := (Engine.SetLayout (FIn T) Out (FLay T)).
  Notation W := (@WItem T).

  (* measuring queries (ComputeSize) and -- only when BL holds -- baseline queries (PerformLayout), all addressed to IN-children,
     followed by a Tail *)
  Inductive Pre (IN : nat -> Prop) (BL : Prop) (Tail : Alg -> Prop) : Alg -> Prop :=
  | Pre_tail a : Tail a -> Pre IN BL Tail a
  | Pre_size c i k : IN c -> qi_mode i = Engine.ComputeSize -> (forall o, Pre IN BL Tail (k o)) -> Pre IN BL Tail (Query c i k)
  | Pre_base c i k : BL -> IN c -> qi_mode i = Engine.PerformLayout -> qi_sizing i = ContentSize ->
                     (forall o, Pre IN BL Tail (k o)) -> Pre IN BL Tail (Query c i k).

  (* for each node of the list, in order: one query satisfying qok, then a layout satisfying lok is stored; then K *)
  Inductive QSL (qok : nat -> FIn T -> Prop) (lok : nat -> FLay T -> Prop) (K : Alg -> Prop) : list nat -> Alg -> Prop :=
  | QSL_nil a : K a -> QSL qok lok K [] a
  | QSL_cons c L i lay k : qok c i -> (forall o, lok c (lay o)) -> (forall o, QSL qok lok K L (k o)) ->
                           QSL qok lok K (c :: L) (Query c i (fun o => SetLayout c (lay o) (k o))).

  (* the same with a query whose ANSWER IS IGNORED: neither the stored layout nor what follows depends on it *)
  Inductive QSLc (qok : nat -> FIn T -> Prop) (lok : nat -> FLay T -> Prop) (K : Alg -> Prop) : list nat -> Alg -> Prop :=
  | QSLc_nil a : K a -> QSLc qok lok K [] a
  | QSLc_cons c L i l k : qok c i -> lok c l -> QSLc qok lok K L k ->
                          QSLc qok lok K (c :: L) (Query c i (fun _ => SetLayout c l k)).

  Lemma QSLc_QSL qok lok K L a : QSLc qok lok K L a -> QSL qok lok K L a.
  Proof.
    induction 1 as [a Ha|c L i l k Hq Hl Hk IH]; [apply QSL_nil; exact Ha|].
    apply (QSL_cons qok lok K c L i (fun _ => l) (fun _ => k)); [exact Hq|intros _; exact Hl|intros _; exact IH].
  Qed.

  Definition IsRet (a : Alg) : Prop := exists o, a = Ret o.

  Lemma Pre_mono (IN : nat -> Prop) (BL : Prop) (Tail Tail' : Alg -> Prop) a : (forall x, Tail x -> Tail' x) -> Pre IN BL Tail a -> Pre IN BL Tail' a.
  Proof.
    intros Hi. induction 1 as [a Ht|c i k Hc Hm Hk IH|c i k Hb Hc Hm Hs Hk IH];
      [apply Pre_tail; auto|apply Pre_size; auto|apply Pre_base; auto].
  Qed.
  (* sequencing: a Pre whose tail is again a Pre *)
  Lemma Pre_join (IN : nat -> Prop) (BL : Prop) (Tail : Alg -> Prop) a : Pre IN BL (Pre IN BL Tail) a -> Pre IN BL Tail a.
  Proof.
    induction 1 as [a Ht|c i k Hc Hm Hk IH|c i k Hb Hc Hm Hs Hk IH]; [exact Ht|apply Pre_size; auto|apply Pre_base; auto].
  Qed.

  (* ---- the combinators have these shapes *)

  Lemma qseq_pre (IN : nat -> Prop) (BL : Prop) (Tail : Alg -> Prop) c (Hc : IN c) : forall is acc k,
    Forall (fun i => qi_mode i = Engine.ComputeSize \/ (BL /\ qi_mode i = Engine.PerformLayout /\ qi_sizing i = ContentSize)) is ->
    (forall answers, Pre IN BL Tail (k answers)) -> Pre IN BL Tail (qseq c is acc k).
  Proof.
    induction is as [|i r IH]; intros acc k Hi Hk; cbn [qseq]; [apply Hk|].
    inversion Hi as [|? ? Hi1 Hir]; subst. destruct Hi1 as [Hm|(Hb & Hm & Hs)].
    - apply Pre_size; [exact Hc|exact Hm|]. intros o. apply IH; assumption.
    - apply Pre_base; [exact Hb|exact Hc|exact Hm|exact Hs|]. intros o. apply IH; assumption.
  Qed.

  Lemma qmap_pre (IN : nat -> Prop) (BL : Prop) (Tail : Alg -> Prop) (asks : W -> list (FIn T)) (upd : W -> list Ans -> W) :
    (forall w a, w_key (upd w a) = w_key w) ->
    forall ws k,
      Forall (fun w => IN (w_node w)) ws ->
      Forall (fun w => Forall (fun i => qi_mode i = Engine.ComputeSize \/
                                        (BL /\ qi_mode i = Engine.PerformLayout /\ qi_sizing i = ContentSize)) (asks w)) ws ->
      (forall ws', map w_key ws' = map w_key ws -> Pre IN BL Tail (k ws')) ->
      Pre IN BL Tail (qmap w_node asks upd ws k).
  Proof.
    intros Hupd. induction ws as [|w r IH]; intros k Hin Hq Hk; cbn [qmap]; [apply Hk; reflexivity|].
    inversion Hin as [|? ? Hin1 Hinr]; subst. inversion Hq as [|? ? Hq1 Hqr]; subst.
    apply qseq_pre; [exact Hin1|exact Hq1|]. intros answers. apply IH; [exact Hinr|exact Hqr|].
    intros r' Hr'. apply Hk. cbn [map]. rewrite Hupd, Hr'. reflexivity.
  Qed.

  Lemma qsloop_qsl {X St : Type} (node : X -> nat) (ask : X -> St -> FIn T) (lay : X -> St -> Out -> FLay T) (step : X -> St -> Out -> St)
        (qok : nat -> FIn T -> Prop) (lok : nat -> FLay T -> Prop) (K : Alg -> Prop) :
    forall (ws : list X) (st : St) k,
      (forall w st, In w ws -> qok (node w) (ask w st)) ->
      (forall w st o, In w ws -> lok (node w) (lay w st o)) ->
      (forall st', K (k st')) ->
      QSL qok lok K (map node ws) (qsloop node ask lay step ws st k).
  Proof.
    induction ws as [|w r IH]; intros st k Hq Hl Hk; cbn [qsloop map]; [apply QSL_nil; apply Hk|].
    apply (QSL_cons qok lok K (node w) (map node r) (ask w st) (lay w st)
                    (fun o => qsloop node ask lay step r (step w st o) k)).
    - apply Hq. left. reflexivity.
    - intros o. apply Hl. left. reflexivity.
    - intros o. apply IH; [|intros; apply Hl; right; assumption|exact Hk]. intros; apply Hq; right; assumption.
  Qed.

  Lemma hidden_pass_qsl (K : Alg -> Prop) k : K k -> forall flags order,
    QSLc (fun _ i => i = hidden_child_input) (fun c l => l = f_with_order c) K (flag_nodes flags order) (hidden_pass flags order k).
  Proof.
    intros Hk. induction flags as [|h r IH]; intros order; cbn [hidden_pass flag_nodes]; [apply QSLc_nil; exact Hk|].
    destruct h; [|apply IH].
    apply QSLc_cons; [reflexivity|reflexivity|apply IH].
  Qed.

  (* ---- every query input the preliminary part builds has the mode the shape asks for *)

  Lemma base_asks_modes (BL : Prop) k av (w : W) :
    Forall (fun i : FIn T => qi_mode i = Engine.ComputeSize \/ (BL /\ qi_mode i = Engine.PerformLayout /\ qi_sizing i = ContentSize))
           (base_asks k av w).
  Proof.
    unfold base_asks. apply Forall_app. split; [destruct (need_basis_query _ _ _); [|constructor]|]; repeat constructor.
  Qed.
  Lemma intrinsic_asks_modes (BL : Prop) k av (w : W) :
    Forall (fun i : FIn T => qi_mode i = Engine.ComputeSize \/ (BL /\ qi_mode i = Engine.PerformLayout /\ qi_sizing i = ContentSize))
           (intrinsic_asks k av w).
  Proof. unfold intrinsic_asks. destruct (intrinsic_shortcut k w); repeat constructor. Qed.
  Lemma hyp_cross_asks_modes (BL : Prop) k av cm (w : W) :
    Forall (fun i : FIn T => qi_mode i = Engine.ComputeSize \/ (BL /\ qi_mode i = Engine.PerformLayout /\ qi_sizing i = ContentSize))
           (hyp_cross_asks k av cm w).
  Proof. unfold hyp_cross_asks. destruct (child_cross_of k w); repeat constructor. Qed.
  Lemma baseline_asks_modes (BL : Prop) k kd av cm (w : W) : (w_ask_baseline w = true -> BL) ->
    Forall (fun i : FIn T => qi_mode i = Engine.ComputeSize \/ (BL /\ qi_mode i = Engine.PerformLayout /\ qi_sizing i = ContentSize))
           (baseline_asks k kd av cm w).
  Proof.
    intros Hb. unfold baseline_asks. destruct (w_ask_baseline w); [|constructor].
    constructor; [|constructor]. right. split; [apply Hb; reflexivity|split; reflexivity].
  Qed.
End Shape.
