(* H1, H3 and NS for the grid resumption (Model/GridAlg.v `grid_alg`):
     grid_alg_H1          a PerformLayout evaluation performs a PerformLayout query on EVERY child (Visits)
     grid_alg_H3          ... and stores every child's layout after its last query (SetsLast)
                          -- both under `grid_no_panic s st i = true` (the Rust code does not panic on this container: where it does,
                          the model returns `panic_out` at once)
     grid_alg_NS_partial  a ComputeSize evaluation issues only size queries and stores nothing, provided no baseline alignment is in play
     grid_alg_NS_refuted  over XQ: with two baseline-aligned items in one row the ComputeSize evaluation begins with PerformLayout queries
                          (track_sizing.rs resolve_item_baselines l.491, called before the ComputeSize return of grid/mod.rs l.315)
   No arithmetic fact is used (the refutation is a computation). *)
From Coq Require Import ZArith QArith Bool List Lia Permutation.
From TV Require Import Num.QNum.
From TV Require Import Model.Common Model.Leaf Gen.GridTracksGen Model.GridTracks Model.GridIntrinsic.
From TV Require Import Model.FiltersBase Gen.FiltersGen Model.ItemFilters Model.GridAlgBase Model.GridAlg.
From TV Require Import Proofs.GridAlgProg Proofs.GridAlgStruct Proofs.GridAlgIface.
From TV Require Import Model.Engine Model.EngineLayouts Proofs.EngineDirty Proofs.EngineNoScribble Proofs.EngineHidden.
From TV Require Proofs.FlexAlgIface.
Import ListNotations.
Close Scope Z_scope.
Close Scope N_scope.
Close Scope Q_scope.

Module FI := FlexAlgIface.

Section Visits.
  Context {T : Type} `{Num T}.
  Notation GS := (GStyle T).
  Notation GItem := (@GItem T).
  Notation Out := (LayoutOutput T).
  Notation Alg := (Engine.Alg (GIn T) Out (GLay T)).
  Notation Query := (Engine.Query (GIn T) Out (GLay T)).
  Notation SetLayout := (Engine.SetLayout (GIn T) Out (GLay T)).
  Notation Ret := (Engine.Ret (GIn T) Out (GLay T)).
  Notation gmode := (@FlexAlgBase.qi_mode T).
  Notation gnones := (nones GS g_is_none).
  Notation Vis := (Visits (GIn T) Out (GLay T) gmode).
  Notation SL := (SetsLast (GIn T) Out (GLay T)).
  Notation minus := FI.minus.

  (* the indices the final loop visits: display:none and box-generating absolute children *)
  Fixpoint oof_nodes (views : list (@OofChild T)) (index : nat) : list nat :=
    match views with
    | [] => []
    | OSkip :: r => oof_nodes r (S index)
    | _ :: r => index :: oof_nodes r (S index)
    end.

  Lemma oof_nodes_in (st : list GS) : forall index c, index <= c -> c < index + length st ->
    (exists s, nth_error st (c - index) = Some s /\ (g_is_none s = true \/ g_visible_absolute s = true)) ->
    In c (oof_nodes (map oof_view st) index).
  Proof.
    induction st as [|s st IH]; intros index c Hle Hlt (x & Hx & Hc); [destruct (c - index); discriminate|].
    cbn [map oof_nodes]. destruct (Nat.eq_dec c index) as [->|Hne].
    - rewrite Nat.sub_diag in Hx. injection Hx as <-. unfold oof_view.
      destruct (g_is_none s); [left; reflexivity|]. destruct Hc as [Hc|Hc]; [discriminate|]. rewrite Hc. left. reflexivity.
    - assert (Hin : In c (oof_nodes (map oof_view st) (S index))).
      { apply IH; [lia|cbn [length] in Hlt; lia|]. exists x. split; [|exact Hc].
        replace (c - index) with (S (c - S index)) in Hx by lia. exact Hx. }
      destruct (oof_view s); [right; exact Hin|right; exact Hin|exact Hin].
  Qed.

  Lemma oof_view_cases (cs : GS) :
    (g_is_none cs = true /\ oof_view cs = OHidden) \/
    (g_is_none cs = false /\ g_visible_absolute cs = true /\ oof_view cs = OAbs cs) \/
    (g_is_none cs = false /\ g_visible_absolute cs = false /\ oof_view cs = OSkip).
  Proof. unfold oof_view. destruct (g_is_none cs); [left; tauto|]. destruct (g_visible_absolute cs); [right; left; tauto|right; right; tauto]. Qed.

  Lemma position_input_mode area cas shim (cs : GS) : gi_mode (position_query_input area cas shim cs) = PerformLayout.
  Proof. reflexivity. Qed.

  Section WithChildren.
    Variable st : list GS.
    Notation N := (in_flow_at st).
    Notation ok := (fun c => nth c (map g_in_flow st) false).

    (* ---------------------------------------------------------------------------------------------- H1 *)

    Lemma run_Vis bl A (Q : A -> Prop) (p : Prog A) (k : A -> Alg) pend :
      PGood N bl Q p -> (forall a, Q a -> Vis pend (k a)) -> Vis pend (run ok p k).
    Proof.
      apply (run_closed N bl ok (N_ok st) (Vis pend)).
      - intros c kn pa av ax f Hc Hf. apply Vis_query. exact Hf.
      - intros c pa f Hc _ Hf. apply FI.Visits_query_any. exact Hf.
    Qed.

    Lemma inflow_pass_Vis cas cols rows : forall items index content acc (k : Size T -> list Placed -> Alg) pend,
      (forall c pl, Vis (minus pend (map g_node items)) (k c pl)) -> Vis pend (inflow_pass cas cols rows items index content acc k).
    Proof.
      induction items as [|g items IH]; intros index content acc k pend Hk; cbn [inflow_pass]; [apply Hk|].
      destruct (width (g_ix g)) as [cs_ ce]. destruct (height (g_ix g)) as [rs re].
      apply Vis_query. intros o. rewrite position_input_mode. apply Vis_set. apply IH. exact Hk.
    Qed.

    Lemma oof_pass_Vis P cas cc rc bb cols rows : forall views index order content (k : Size T -> Alg) pend,
      forallb (oof_ok cc rc) views = true ->
      (forall c, Vis (minus pend (oof_nodes views index)) (k c)) ->
      Vis pend (out_of_flow_pass P cas cc rc bb cols rows views index order content k).
    Proof.
      induction views as [|v views IH]; intros index order content k pend Hok Hk; cbn [out_of_flow_pass]; [apply Hk|].
      cbn [forallb] in Hok. apply andb_true_iff in Hok. destruct Hok as [Hv Hok]. destruct v as [|cs|].
      - apply Vis_query. intros _. rewrite hidden_input_mode. apply Vis_set. apply IH; [exact Hok|exact Hk].
      - cbn [oof_ok] in Hv. destruct (abs_indexes (gs_column cs) cc) as [cix|]; [|discriminate].
        destruct (abs_indexes (gs_row cs) rc) as [rix|]; [|discriminate].
        apply Vis_query. intros o. rewrite position_input_mode. apply Vis_set. apply IH; [exact Hok|exact Hk].
      - apply IH; [exact Hok|exact Hk].
    Qed.

    (* ---------------------------------------------------------------------------------------------- H3 *)

    Lemma run_SL bl A (Q : A -> Prop) (p : Prog A) (k : A -> Alg) pend :
      PGood N bl Q p -> (forall a, Q a -> SL (gnones st) pend (k a)) -> SL (gnones st) pend (run ok p k).
    Proof.
      apply (run_closed N bl ok (N_ok st) (SL (gnones st) pend)).
      - intros c kn pa av ax f Hc Hf. apply SL_query. rewrite (in_flow_nones st c Hc). exact Hf.
      - intros c pa f Hc _ Hf. apply SL_query. rewrite (in_flow_nones st c Hc). exact Hf.
    Qed.

    Lemma inflow_pass_SL cas cols rows : forall items index content acc (k : Size T -> list Placed -> Alg) pend,
      Forall (IOK N) items ->
      (forall c pl, SL (gnones st) (minus pend (map g_node items)) (k c pl)) ->
      SL (gnones st) pend (inflow_pass cas cols rows items index content acc k).
    Proof.
      induction items as [|g items IH]; intros index content acc k pend Hi Hk; cbn [inflow_pass]; [apply Hk|].
      inversion Hi as [|? ? Hg Hi']; subst.
      destruct (width (g_ix g)) as [cs_ ce]. destruct (height (g_ix g)) as [rs re].
      apply SL_query. intros o. rewrite (in_flow_nones st _ Hg). apply SL_set. apply IH; [exact Hi'|exact Hk].
    Qed.

    Lemma oof_pass_SL P cas cc rc bb cols rows : forall (suffix : list GS) index order content (k : Size T -> Alg) pend,
      (forall j s, nth_error suffix j = Some s -> nth_error st (index + j) = Some s) ->
      forallb (oof_ok cc rc) (map oof_view suffix) = true ->
      (forall c, SL (gnones st) (minus pend (oof_nodes (map oof_view suffix) index)) (k c)) ->
      SL (gnones st) pend (out_of_flow_pass P cas cc rc bb cols rows (map oof_view suffix) index order content k).
    Proof.
      induction suffix as [|cs suffix IH]; intros index order content k pend Hn Hok Hk; cbn [map out_of_flow_pass]; [apply Hk|].
      assert (Hcs : nth_error st index = Some cs) by (rewrite <- (Nat.add_0_r index); apply Hn; reflexivity).
      assert (Hn' : forall j s, nth_error suffix j = Some s -> nth_error st (S index + j) = Some s).
      { intros j s Hj. replace (S index + j) with (index + S j) by lia. apply Hn. exact Hj. }
      cbn [map forallb] in Hok. apply andb_true_iff in Hok. destruct Hok as [Hv Hok].
      cbn [map oof_nodes] in Hk.
      destruct (oof_view_cases cs) as [(En & Ev)|[(En & Ea & Ev)|(En & Ea & Ev)]]; rewrite Ev in *.
      - apply SL_query. intros _. replace (gnones st index) with true by (unfold nones; rewrite Hcs; symmetry; exact En).
        apply SL_set. rewrite FI.remove_cons_same. apply IH; [exact Hn'|exact Hok|exact Hk].
      - cbn [oof_ok] in Hv. destruct (abs_indexes (gs_column cs) cc) as [cix|]; [|discriminate].
        destruct (abs_indexes (gs_row cs) rc) as [rix|]; [|discriminate].
        apply SL_query. intros o. replace (gnones st index) with false by (unfold nones; rewrite Hcs; symmetry; exact En).
        apply SL_set. apply IH; [exact Hn'|exact Hok|exact Hk].
      - apply IH; [exact Hn'|exact Hok|exact Hk].
    Qed.

    (* every child index is a node of the source-ordered final items, or is visited by the final loop *)
    Lemma all_covered (items : list GItem) :
      Permutation (map g_node items) (map fst (in_flow_styles st)) ->
      minus (minus (seq 0 (length st)) (map g_node items)) (oof_nodes (map oof_view st) 0) = [].
    Proof.
      intros Hp. destruct (minus _ _) as [|x l] eqn:E; [reflexivity|exfalso].
      assert (Hin : In x (minus (minus (seq 0 (length st)) (map g_node items)) (oof_nodes (map oof_view st) 0))) by (rewrite E; left; reflexivity).
      rewrite !FI.In_minus in Hin. destruct Hin as [[Hs N1] N2]. apply in_seq in Hs.
      destruct (classes_cover st x) as [A|[(s & Hs' & A)|(s & Hs' & A)]]; [lia| | |].
      - apply N1. eapply Permutation_in; [apply Permutation_sym; exact Hp|]. apply in_flow_styles_fst. exact A.
      - apply N2. apply oof_nodes_in; [lia|lia|]. exists s. rewrite Nat.sub_0_r. split; [exact Hs'|left; exact A].
      - apply N2. apply oof_nodes_in; [lia|lia|]. exists s. rewrite Nat.sub_0_r. split; [exact Hs'|right; exact A].
    Qed.

    (* the PerformLayout evaluation, up to the property of its tail *)
    Lemma grid_alg_layout_closed (Pr : list nat -> Alg -> Prop) (s : GS) (i : GIn T) :
      (forall o, Pr [] (Ret o)) ->
      (forall A (Q : A -> Prop) (p : Prog A) (k : A -> Alg) pend,
         PGood N true Q p -> (forall a, Q a -> Pr pend (k a)) -> Pr pend (run ok p k)) ->
      (forall cas cols rows items index content acc (k : Size T -> list Placed -> Alg) pend, Forall (IOK N) items ->
         (forall c pl, Pr (minus pend (map g_node items)) (k c pl)) -> Pr pend (inflow_pass cas cols rows items index content acc k)) ->
      (forall P cas cc rc bb cols rows order content (k : Size T -> Alg) pend,
         forallb (oof_ok cc rc) (map oof_view st) = true ->
         (forall c, Pr (minus pend (oof_nodes (map oof_view st) 0)) (k c)) ->
         Pr pend (out_of_flow_pass P cas cc rc bb cols rows (map oof_view st) 0 order content k)) ->
      grid_no_panic s st i = true -> gi_mode i = PerformLayout -> Pr (seq 0 (length st)) (grid_alg s st i).
    Proof.
      intros Hret Hrun Hin Hoof Hnp Em. unfold grid_alg, grid_core, grid_main. unfold grid_no_panic in Hnp. cbv zeta in *. rewrite Em.
      destruct (explicit_counts s (grid_pre s i)) as [ec er].
      destruct (place s ec er (estimate_styles st) (in_flow_styles st)) as [[m placed]|e] eqn:Ep; [|discriminate].
      destruct (PL.mapM _ placed) as [items0|e] eqn:Em0; [|discriminate].
      destruct (items0_perm st _ _ _ _ _ _ _ _ _ _ Ep Em0) as [Hperm Hiok].
      eapply Hrun; [apply pg_size_grid; [intros _; reflexivity|exact Hiok]|].
      intros [z continue] (Hz & Hc & _). cbn [fst snd] in *. unfold SPerm in Hz. cbn [ss_items] in Hz.
      rewrite (Hc Em). cbn [negb].
      assert (Hp : Permutation (map g_node (sort_by (fun a b => Nat.ltb (g_node a) (g_node b)) (ss_items (z_state z))))
                               (map fst (in_flow_styles st))).
      { eapply perm_trans; [apply Permutation_map; apply sort_by_perm|]. eapply perm_trans; [exact Hz|exact Hperm]. }
      apply Hin.
      - eapply nodes_IOK; [|exact Hiok]. eapply perm_trans; [apply Permutation_map; apply sort_by_perm|exact Hz].
      - intros content placed_. apply Hoof; [exact Hnp|]. intros c. rewrite (all_covered _ Hp).
        destruct (container_baseline placed_); apply Hret.
    Qed.

    Theorem grid_alg_H1 (s : GS) (i : GIn T) :
      grid_no_panic s st i = true -> gi_mode i = PerformLayout -> Vis (seq 0 (length st)) (grid_alg s st i).
    Proof.
      apply (grid_alg_layout_closed Vis).
      - intros o. apply Vis_ret.
      - intros A Q p k pend. apply run_Vis.
      - intros cas cols rows items index content acc k pend _. apply inflow_pass_Vis.
      - intros P cas cc rc bb cols rows order content k pend. apply oof_pass_Vis.
    Qed.

    Theorem grid_alg_H3 (s : GS) (i : GIn T) :
      grid_no_panic s st i = true -> gi_mode i = PerformLayout -> SL (gnones st) (seq 0 (length st)) (grid_alg s st i).
    Proof.
      apply (grid_alg_layout_closed (SL (gnones st))).
      - intros o. apply SL_ret.
      - intros A Q p k pend. apply run_SL.
      - intros cas cols rows items index content acc k pend. apply inflow_pass_SL.
      - intros P cas cc rc bb cols rows order content k pend. apply (oof_pass_SL P cas cc rc bb cols rows st 0).
        intros j x Hj. exact Hj.
    Qed.

    (* ---------------------------------------------------------------------------------------------- NS *)

    Notation SO := (SizeOnly (GIn T) Out (GLay T) gmode).

    Definition not_baseline (a : option AE.AlignItems) : Prop := a <> Some AE.AI_Baseline.

    Lemma style_at_in inflow node : style_at inflow node = bare_none_gstyle \/ In (style_at inflow node) (map snd inflow).
    Proof.
      unfold style_at. destruct (find _ inflow) as [[c x]|] eqn:E; [|left; reflexivity].
      right. apply find_some in E. destruct E as [Hin _]. apply in_map_iff. exists (c, x). split; [reflexivity|exact Hin].
    Qed.

    Lemma no_baseline_items (s : GS) cc rc cols rows placed items0 :
      not_baseline (gs_align_items s) -> Forall (fun sc => not_baseline (gs_align_self sc)) st ->
      PL.mapM (make_item s (in_flow_styles st) cc rc cols rows) placed = PB.Ok items0 ->
      existsb (fun g => ai_is_baseline (g_align g)) items0 = false.
    Proof.
      intros Hs Hst Em. apply mapM_ok_inv in Em. induction Em as [|it g l l' Hg _ IH]; [reflexivity|].
      cbn [existsb]. rewrite IH, orb_false_r. unfold make_item in Hg. cbv zeta in Hg.
      destruct (ix_of (PL.i_col it) cc) as [cix|]; [|discriminate]. destruct (ix_of (PL.i_row it) rc) as [rix|]; [|discriminate].
      cbn [PB.bind] in Hg. injection Hg as <-. cbn [g_align].
      assert (Hcs : not_baseline (gs_align_self (style_at (in_flow_styles st) (Z.to_nat (PL.i_index it))))).
      { destruct (style_at_in (in_flow_styles st) (Z.to_nat (PL.i_index it))) as [E|Hin].
        - rewrite E. discriminate.
        - apply in_map_iff in Hin. destruct Hin as [[c x] [E Hin]]. cbn [snd] in E. subst x.
          apply in_flow_styles_iff in Hin. destruct Hin as [Hn _]. rewrite Forall_forall in Hst. apply Hst. eapply nth_error_In. exact Hn. }
      unfold not_baseline in *. destruct (gs_align_self (style_at (in_flow_styles st) (Z.to_nat (PL.i_index it)))) as [a|]; cbn [opt_unwrap_or].
      - destruct a; try reflexivity. exfalso. apply Hcs. reflexivity.
      - destruct (gs_align_items s) as [a|]; cbn [opt_unwrap_or]; [|reflexivity]. destruct a; try reflexivity. exfalso. apply Hs. reflexivity.
    Qed.

    Theorem grid_alg_NS_partial (s : GS) (i : GIn T) :
      not_baseline (gs_align_items s) -> Forall (fun sc => not_baseline (gs_align_self sc)) st ->
      gi_mode i = ComputeSize -> SO (grid_alg s st i).
    Proof.
      intros Hs Hst Em. unfold grid_alg, grid_core, grid_main. cbv zeta. rewrite Em.
      assert (Hmain : SO
        (let '(ec, er) := explicit_counts s (grid_pre s i) in
         match place s ec er (estimate_styles st) (in_flow_styles st) with
         | PB.Err _ => Ret panic_out
         | PB.Ok (m, placed_items) =>
             match PL.mapM (make_item s (in_flow_styles st) (PL.track_counts m PB.Horizontal) (PL.track_counts m PB.Vertical)
                                      (initialize_grid_tracks (tc_of (PL.track_counts m PB.Horizontal)) (gs_template_columns s) (gs_auto_columns s)
                                                              (lp_sfn (width (gs_gap s))) (column_is_occupied m))
                                      (initialize_grid_tracks (tc_of (PL.track_counts m PB.Vertical)) (gs_template_rows s) (gs_auto_rows s)
                                                              (lp_sfn (height (gs_gap s))) (row_is_occupied m))) placed_items with
             | PB.Err _ => Ret panic_out
             | PB.Ok items0 =>
                 run ok (m_size_grid s (grid_pre s i) i
                           (mkSS (initialize_grid_tracks (tc_of (PL.track_counts m PB.Horizontal)) (gs_template_columns s) (gs_auto_columns s)
                                                         (lp_sfn (width (gs_gap s))) (column_is_occupied m))
                                 (initialize_grid_tracks (tc_of (PL.track_counts m PB.Vertical)) (gs_template_rows s) (gs_auto_rows s)
                                                         (lp_sfn (height (gs_gap s))) (row_is_occupied m)) zero zero items0))
                     (fun '(z, continue) =>
                        if negb continue then Ret (from_outer_size (z_border_box z))
                        else
                          inflow_pass (to_ae_ib s)
                            (align_tracks (width (z_content_box z)) (r_left (p_padding (grid_pre s i))) (r_left (p_border (grid_pre s i))) (ss_cols (z_state z))
                                          (opt_unwrap_or (gs_justify_content s) AStretch))
                            (align_tracks (height (z_content_box z)) (r_top (p_padding (grid_pre s i))) (r_top (p_border (grid_pre s i))) (ss_rows (z_state z))
                                          (opt_unwrap_or (gs_align_content s) AStretch))
                            (sort_by (fun a b => Nat.ltb (g_node a) (g_node b)) (ss_items (z_state z))) 0 size_ZERO []
                            (fun content placed =>
                               out_of_flow_pass (grid_pre s i) (to_ae_ib s) (PL.track_counts m PB.Horizontal) (PL.track_counts m PB.Vertical) (z_border_box z)
                                 (align_tracks (width (z_content_box z)) (r_left (p_padding (grid_pre s i))) (r_left (p_border (grid_pre s i))) (ss_cols (z_state z))
                                               (opt_unwrap_or (gs_justify_content s) AStretch))
                                 (align_tracks (height (z_content_box z)) (r_top (p_padding (grid_pre s i))) (r_top (p_border (grid_pre s i))) (ss_rows (z_state z))
                                               (opt_unwrap_or (gs_align_content s) AStretch))
                                 (map oof_view st) 0 (length (sort_by (fun a b => Nat.ltb (g_node a) (g_node b)) (ss_items (z_state z)))) content
                                 (fun content' =>
                                    match container_baseline placed with
                                    | None => Ret (from_outer_size (z_border_box z))
                                    | Some b => Ret (mkOutput (z_border_box z) content' (mkPoint None (Some b)) margin_set_ZERO margin_set_ZERO false)
                                    end)))
             end
         end)).
      { destruct (explicit_counts s (grid_pre s i)) as [ec er].
        destruct (place s ec er (estimate_styles st) (in_flow_styles st)) as [[m placed]|e] eqn:Ep; [|apply SO_ret].
        destruct (PL.mapM _ placed) as [items0|e] eqn:Em0; [|apply SO_ret].
        destruct (items0_perm st _ _ _ _ _ _ _ _ _ _ Ep Em0) as [_ Hiok].
        pose proof (no_baseline_items s _ _ _ _ _ _ Hs Hst Em0) as Hnb.
        apply (run_closed N false ok (N_ok st) SO) with (Q := fun r : Sized * bool => snd r = false).
        - intros c kn pa av ax f Hc Hf. apply SO_query; [reflexivity|exact Hf].
        - intros c pa f _ Hb. discriminate.
        - eapply PGood_weaken; [apply pg_size_grid; [cbn [ss_items]; rewrite Hnb; discriminate|exact Hiok]|].
          intros [z c] (_ & _ & Hc). apply Hc. exact Em.
        - intros [z c] Hc. cbn [snd] in Hc. subst c. cbn [negb]. apply SO_ret. }
      destruct (width (p_outer (grid_pre s i))); [|exact Hmain]. destruct (height (p_outer (grid_pre s i))); [apply SO_ret|exact Hmain].
    Qed.
  End WithChildren.
End Visits.

(* ------------------------------------------------------------------------------------------------ NS does not hold in general *)

Definition xq (z : Z) : XQ := Fin (inject_Z z).

(* a child of fixed size 10 x h *)
Definition gns_child (h : Z) : GStyle XQ :=
  let d := default_gstyle (T := XQ) DBlock Relative in
  mkGStyle (mkStyle DBlock Relative BorderBox (mkPoint Visible Visible) (xq 0) (mkSize (Length (xq 10)) (Length (xq h))) dim_auto_size dim_auto_size None
                    lpa_zero_rect lp_zero_rect lp_zero_rect)
           (gs_inset d) [] [] [] [] PB.FRow (gs_gap d) None None None None auto_ln auto_ln None None false.

(* display:grid; grid-template-columns: auto auto; align-items: baseline *)
Definition gns_container : GStyle XQ :=
  let d := default_gstyle (T := XQ) DGrid Relative in
  mkGStyle (gs_core d) (gs_inset d) [TSingle (SAuto, SAuto); TSingle (SAuto, SAuto)] [] [] [] PB.FRow (gs_gap d)
           (Some AE.AI_Baseline) None None None auto_ln auto_ln None None false.

Definition gns_input_mode (mode : RunMode) : GIn XQ :=
  mkGIn mode InherentSize AxBoth size_NONE size_NONE (mkSize MaxContent MaxContent) (mkLine false false).
Definition gns_input : GIn XQ := gns_input_mode ComputeSize.

Definition gns_answer : LayoutOutput XQ :=
  mkOutput (mkSize (xq 10) (xq 20)) size_ZERO point_NONE margin_set_ZERO margin_set_ZERO false.

(* the first event that is not a ComputeSize query, every query being answered with `gns_answer`: (child, run mode is PerformLayout) *)
Fixpoint first_non_size (fuel : nat) (a : Engine.Alg (GIn XQ) (LayoutOutput XQ) (GLay XQ)) : option (nat * bool) :=
  match fuel with
  | O => None
  | S f =>
      match a with
      | Engine.Ret _ _ _ _ => None
      | Engine.Query _ _ _ c i k =>
          match gi_mode i with
          | ComputeSize => first_non_size f (k gns_answer)
          | PerformLayout => Some (c, true)
          | PerformHiddenLayout => Some (c, false)
          end
      | Engine.SetLayout _ _ _ c _ _ => Some (c, false)
      end
  end.

Theorem grid_alg_NS_refuted :
  gi_mode gns_input = ComputeSize /\
  ~ SizeOnly (GIn XQ) (LayoutOutput XQ) (GLay XQ) (@FlexAlgBase.qi_mode XQ) (grid_alg gns_container [gns_child 20; gns_child 30] gns_input) /\
  (* the very first event is a PerformLayout query to child 0: resolve_item_baselines *)
  first_non_size 4 (grid_alg gns_container [gns_child 20; gns_child 30] gns_input) = Some (0%nat, true).
Proof.
  split; [reflexivity|]. split.
  - intros Hs. pose proof (FlexAlgIface.size_only_run_sound _ Hs 4 [] gns_answer) as E. vm_compute in E. discriminate.
  - vm_compute. reflexivity.
Qed.
