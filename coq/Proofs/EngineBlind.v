(* Hidden blindness of the engine skeleton (C05, second clause).

   HiddenBlind algo: the algorithm reads its children's styles only through a view that sends every display:none
   style to the same value.  (The other half of the design's interface lemma -- "the resumption does not depend on the
   results of queries to a display:none child" -- needs no hypothesis here: such a query ALWAYS returns hidden_out,
   whatever is below the child: plain_none.)

   Then a display:none subtree cannot be told from any other display:none subtree:
     hsim k k' -> plain f k i = plain f k' i                                    (cache-free evaluation)
     tsim t t' -> memo f t i and memo f t' i fail together or return the same output and tsim trees,
   where tsim relates trees that are identical (styles, caches, stored layouts) outside display:none regions and on
   the display:none nodes' own caches and layouts -- in particular replacing the subtree of a display:none node by a
   bare display:none leaf (sk_replace) changes no output, no cache and no stored layout anywhere else. *)
From Coq Require Import List Bool Arith Lia.
From TV Require Import Model.Engine Proofs.EngineMemo.
Import ListNotations.

Section ListRel.
  Context {A B : Type} (R : A -> B -> Prop).

  Lemma Forall2_nth_error_rel l l' n : Forall2 R l l' ->
    match nth_error l n, nth_error l' n with
    | Some a, Some b => R a b
    | None, None => True
    | _, _ => False
    end.
  Proof.
    intros H. revert n. induction H as [|a b l l' Hab Hl IH]; intros [|n]; cbn; auto. apply IH.
  Qed.

  Lemma replace_nth_cons_S n (a x : A) l : replace_nth (Datatypes.S n) a (x :: l) = x :: replace_nth n a l.
  Proof. reflexivity. Qed.

  Lemma Forall2_replace_nth l l' n a b : Forall2 R l l' -> R a b -> Forall2 R (replace_nth n a l) (replace_nth n b l').
  Proof.
    intros H Hab. revert n. induction H as [|x y l l' Hxy Hl IH]; intros n.
    - unfold replace_nth. rewrite !firstn_nil, !skipn_nil. cbn. constructor; [exact Hab|constructor].
    - destruct n as [|n].
      + unfold replace_nth. cbn. constructor; assumption.
      + unfold replace_nth in *. cbn. constructor; [exact Hxy|]. apply IH.
  Qed.
End ListRel.

Section HiddenBlind.
  Variables (S In Out Lay : Type).
  Variable mode : In -> RunMode.
  Variable in_eqb : In -> In -> bool.
  Variable is_none : S -> bool.
  Variable hidden_out : Out.
  Variable zero_lay : Lay.
  Variable algo : S -> list S -> In -> Alg In Out Lay.

  Notation tree := (tree S In Out Lay).
  Notation sk := (sk S).
  Notation Alg := (Alg In Out Lay).
  Notation Node := (Node S In Out Lay).
  Notation SNode := (SNode S).
  Notation plain := (plain S In Out Lay mode is_none hidden_out algo).
  Notation memo := (memo S In Out Lay mode in_eqb is_none hidden_out zero_lay algo).
  Notation run_plain := (run_plain S In Out Lay).
  Notation run_memo := (run_memo S In Out Lay).
  Notation hide := (hide S In Out Lay zero_lay).
  Notation fresh := (fresh S In Out Lay zero_lay).
  Notation cget := (cget In Out mode in_eqb).
  Notation cstore := (cstore In Out mode).
  Notation cempty := (cempty In Out).
  Notation cache_of := (cache_of S In Out Lay).
  Notation lay_of := (lay_of S In Out Lay).
  Notation style_of := (style_of S In Out Lay).
  Notation sstyle := (sstyle S).
  Notation set_lay := (set_lay S In Out Lay).
  Notation subtree := (subtree S In Out Lay).

  (* ---------------------------------------------------------------------------- the unconditional part *)

  (* a query to a display:none node returns hidden_out without looking at anything below it or at its other styles *)
  Lemma plain_none f s kids i : is_none s = true -> plain (Datatypes.S f) (SNode s kids) i = Some hidden_out.
  Proof. intros En. cbn. rewrite En. destruct (mode i); reflexivity. Qed.

  Theorem plain_ignores_hidden_subtree f s s' kids kids' i :
    is_none s = true -> is_none s' = true -> plain f (SNode s kids) i = plain f (SNode s' kids') i.
  Proof. intros E E'. destruct f as [|f]; [reflexivity|]. rewrite !plain_none by assumption. reflexivity. Qed.

  (* ---------------------------------------------------------------------------- the interface hypothesis *)

  Definition HiddenBlind : Prop :=
    exists (V : Type) (view : S -> V) (algo' : S -> list V -> In -> Alg),
      (forall a b, is_none a = true -> is_none b = true -> view a = view b) /\
      (forall s st i, algo s st i = algo' s (map view st) i).

  (* two styles an algorithm may not distinguish on a child *)
  Definition srel (a b : S) : Prop := a = b \/ (is_none a = true /\ is_none b = true).

  Lemma blind_algo : HiddenBlind -> forall s st st' i, Forall2 srel st st' -> algo s st i = algo s st' i.
  Proof.
    intros [V [view [algo' [Hv Ha]]]] s st st' i H. rewrite !Ha. f_equal.
    induction H as [|a b l l' Hab Hl IH]; cbn; [reflexivity|]. f_equal; [|exact IH].
    destruct Hab as [->|[E1 E2]]; [reflexivity|apply Hv; assumption].
  Qed.

  (* ---------------------------------------------------------------------------- skeletons *)

  (* k' is k with some display:none subtrees replaced by other display:none subtrees *)
  Inductive hsim : sk -> sk -> Prop :=
  | hsim_hidden s s' kids kids' : is_none s = true -> is_none s' = true -> hsim (SNode s kids) (SNode s' kids')
  | hsim_node s kids kids' : Forall2 hsim kids kids' -> hsim (SNode s kids) (SNode s kids').

  Lemma sk_ind2 (P : sk -> Prop) :
    (forall s kids, Forall P kids -> P (SNode s kids)) -> forall t, P t.
  Proof.
    intros H. fix IH 1. intros [s kids]. apply H.
    induction kids as [|k kids IHk]; constructor; [apply IH | exact IHk].
  Qed.

  Lemma hsim_refl k : hsim k k.
  Proof.
    induction k as [s kids IH] using sk_ind2. apply hsim_node.
    induction IH as [|x l Hx Hl IHl]; constructor; assumption.
  Qed.

  Lemma hsim_srel a b : hsim a b -> srel (sstyle a) (sstyle b).
  Proof. intros H. destruct H; cbn; [right; split; assumption|left; reflexivity]. Qed.

  Lemma Forall2_hsim_srel kids kids' : Forall2 hsim kids kids' -> Forall2 srel (map sstyle kids) (map sstyle kids').
  Proof. intros H. induction H; cbn; constructor; [apply hsim_srel; assumption|assumption]. Qed.

  Lemma run_plain_sim (ev : sk -> In -> option Out) :
    (forall t t' i, hsim t t' -> ev t i = ev t' i) ->
    forall a kids kids', Forall2 hsim kids kids' -> run_plain ev kids a = run_plain ev kids' a.
  Proof.
    intros Hev a. induction a as [o0|c i k IH|c l k IH]; intros kids kids' HK; cbn.
    - reflexivity.
    - pose proof (Forall2_nth_error_rel hsim kids kids' c HK) as Hn.
      destruct (nth_error kids c) as [t|], (nth_error kids' c) as [t'|]; try contradiction; [|reflexivity].
      rewrite (Hev t t' i Hn). destruct (ev t' i); [apply IH; exact HK|reflexivity].
    - pose proof (Forall2_nth_error_rel hsim kids kids' c HK) as Hn.
      destruct (nth_error kids c) as [t|], (nth_error kids' c) as [t'|]; try contradiction; [|reflexivity].
      apply IH. exact HK.
  Qed.

  Theorem plain_hsim : HiddenBlind -> forall f k k' i, hsim k k' -> plain f k i = plain f k' i.
  Proof.
    intros HB. induction f as [|f IH]; intros k k' i H; [reflexivity|].
    destruct H as [s s' kids kids' E E'|s kids kids' HK].
    - rewrite !plain_none by assumption. reflexivity.
    - cbn [Engine.plain]. rewrite (blind_algo HB s _ _ i (Forall2_hsim_srel _ _ HK)).
      rewrite (run_plain_sim (plain f) IH _ kids kids' HK). reflexivity.
  Qed.

  (* replacing the subtree at a path *)
  Definition skids (k : sk) : list sk := match k with Engine.SNode _ _ kids => kids end.
  Fixpoint sk_subtree (k : sk) (p : list nat) : option sk :=
    match p with
    | [] => Some k
    | x :: p' => match nth_error (skids k) x with Some ch => sk_subtree ch p' | None => None end
    end.
  Fixpoint sk_replace (k : sk) (p : list nat) (r : sk) : sk :=
    match p with
    | [] => r
    | x :: p' =>
        match k with
        | Engine.SNode _ s kids =>
            match nth_error kids x with
            | Some ch => SNode s (replace_nth x (sk_replace ch p' r) kids)
            | None => k
            end
        end
    end.

  Lemma Forall2_hsim_refl kids : Forall2 hsim kids kids.
  Proof. induction kids; constructor; [apply hsim_refl|assumption]. Qed.

  Lemma replace_nth_self {A} n (x : A) l : nth_error l n = Some x -> replace_nth n x l = l.
  Proof.
    revert l; induction n as [|n IH]; intros [|a l] H; try discriminate; cbn in *.
    - injection H as ->. reflexivity.
    - unfold replace_nth in *. cbn. f_equal. apply IH. exact H.
  Qed.

  (* the oracle's operation: the node at p is display:none and is replaced by a display:none node (a bare leaf, say) *)
  Lemma hsim_replace : forall p k h r,
    sk_subtree k p = Some h -> is_none (sstyle h) = true -> is_none (sstyle r) = true -> hsim k (sk_replace k p r).
  Proof.
    induction p as [|x p IH]; intros k h r Hs Eh Er.
    - cbn in Hs. injection Hs as <-. cbn. destruct k, r. cbn in *. apply hsim_hidden; assumption.
    - destruct k as [s kids]. cbn in Hs |- *.
      destruct (nth_error kids x) as [ch|] eqn:Ex; [|discriminate].
      apply hsim_node.
      rewrite <- (replace_nth_self x ch kids Ex) at 1.
      apply Forall2_replace_nth; [apply Forall2_hsim_refl|]. eapply IH; eauto.
  Qed.

  (* ---------------------------------------------------------------------------- concrete trees *)

  (* identical outside display:none regions; a display:none node may differ in its style and in everything below it,
     but not in its own cache and stored layout *)
  Inductive tsim : tree -> tree -> Prop :=
  | tsim_hidden s s' c l kids kids' :
      is_none s = true -> is_none s' = true -> tsim (Node s c l kids) (Node s' c l kids')
  | tsim_node s c l kids kids' : Forall2 tsim kids kids' -> tsim (Node s c l kids) (Node s c l kids').

  Lemma tree_ind4 (P : tree -> Prop) :
    (forall s c l kids, Forall P kids -> P (Node s c l kids)) -> forall t, P t.
  Proof.
    intros H. fix IH 1. intros [s c l kids]. apply H.
    induction kids as [|k kids IHk]; constructor; [apply IH | exact IHk].
  Qed.

  Lemma tsim_refl t : tsim t t.
  Proof.
    induction t as [s c l kids IH] using tree_ind4. apply tsim_node.
    induction IH as [|x r Hx Hl IHl]; constructor; assumption.
  Qed.

  Lemma tsim_srel a b : tsim a b -> srel (style_of a) (style_of b).
  Proof. intros H. destruct H; cbn; [right; split; assumption|left; reflexivity]. Qed.

  Lemma Forall2_tsim_srel kids kids' : Forall2 tsim kids kids' -> Forall2 srel (map style_of kids) (map style_of kids').
  Proof. intros H. induction H; cbn; constructor; [apply tsim_srel; assumption|assumption]. Qed.

  Lemma tsim_set_lay a b l : tsim a b -> tsim (set_lay a l) (set_lay b l).
  Proof. intros H. destruct H; cbn; [apply tsim_hidden; assumption|apply tsim_node; assumption]. Qed.

  Lemma tsim_hide : forall a b, tsim a b -> tsim (hide a) (hide b).
  Proof.
    induction a as [s c l kids IH] using tree_ind4. intros b H.
    inversion H as [s0 s' c0 l0 k0 kids' E E'|s0 c0 l0 k0 kids' HK]; subst; cbn.
    - apply tsim_hidden; assumption.
    - apply tsim_node. clear H. induction HK as [|x y r r' Hxy Hr IHr]; cbn; constructor.
      + inversion IH; subst. auto.
      + apply IHr. inversion IH; subst. assumption.
  Qed.

  Lemma tsim_fresh : forall k k', hsim k k' -> tsim (fresh k) (fresh k').
  Proof.
    induction k as [s kids IH] using sk_ind2. intros k' H.
    inversion H as [s0 s' k0 kids' E E'|s0 k0 kids' HK]; subst; cbn.
    - apply tsim_hidden; assumption.
    - apply tsim_node. clear H. induction HK as [|x y r r' Hxy Hr IHr]; cbn; constructor.
      + inversion IH; subst. auto.
      + apply IHr. inversion IH; subst. assumption.
  Qed.

  (* results of two evaluations: fail together, or same output and related trees *)
  Definition orel (x y : option (Out * tree)) : Prop :=
    match x, y with
    | Some (o, a), Some (o', b) => o = o' /\ tsim a b
    | None, None => True
    | _, _ => False
    end.
  Definition orelL (x y : option (Out * list tree)) : Prop :=
    match x, y with
    | Some (o, a), Some (o', b) => o = o' /\ Forall2 tsim a b
    | None, None => True
    | _, _ => False
    end.

  Lemma run_memo_sim (ev : tree -> In -> option (Out * tree)) :
    (forall t t' i, tsim t t' -> orel (ev t i) (ev t' i)) ->
    forall a kids kids', Forall2 tsim kids kids' -> orelL (run_memo ev kids a) (run_memo ev kids' a).
  Proof.
    intros Hev a. induction a as [o0|c i k IH|c l k IH]; intros kids kids' HK; cbn.
    - split; [reflexivity|exact HK].
    - pose proof (Forall2_nth_error_rel tsim kids kids' c HK) as Hn.
      destruct (nth_error kids c) as [t|], (nth_error kids' c) as [t'|]; try contradiction; [|exact I].
      specialize (Hev t t' i Hn). unfold orel in Hev.
      destruct (ev t i) as [[o1 t1]|], (ev t' i) as [[o1' t1']|]; try contradiction; [|exact I].
      destruct Hev as [<- Ht]. apply IH. apply Forall2_replace_nth; assumption.
    - pose proof (Forall2_nth_error_rel tsim kids kids' c HK) as Hn.
      destruct (nth_error kids c) as [t|], (nth_error kids' c) as [t'|]; try contradiction; [|exact I].
      apply IH. apply Forall2_replace_nth; [exact HK|]. apply tsim_set_lay. exact Hn.
  Qed.

  Theorem memo_tsim : HiddenBlind -> forall f t t' i, tsim t t' -> orel (memo f t i) (memo f t' i).
  Proof.
    intros HB. induction f as [|f IH]; intros t t' i H; [exact I|].
    destruct H as [s s' c l kids kids' E E'|s c l kids kids' HK]; cbn [Engine.memo].
    - (* a display:none node: hidden mode / hit / miss all ignore the children *)
      assert (Hbody : orel
                (match cget c i with
                 | Some o0 => Some (o0, Node s c l kids)
                 | None => if is_none s then Some (hidden_out, Node s (cstore cempty i hidden_out) zero_lay (map hide kids))
                           else match run_memo (memo f) kids (algo s (map style_of kids) i) with
                                | Some (o0, kids1) => Some (o0, Node s (cstore c i o0) l kids1)
                                | None => None end
                 end)
                (match cget c i with
                 | Some o0 => Some (o0, Node s' c l kids')
                 | None => if is_none s' then Some (hidden_out, Node s' (cstore cempty i hidden_out) zero_lay (map hide kids'))
                           else match run_memo (memo f) kids' (algo s' (map style_of kids') i) with
                                | Some (o0, kids1) => Some (o0, Node s' (cstore c i o0) l kids1)
                                | None => None end
                 end)).
      { destruct (cget c i) as [o1|].
        - split; [reflexivity|apply tsim_hidden; assumption].
        - rewrite E, E'. split; [reflexivity|apply tsim_hidden; assumption]. }
      destruct (mode i); try exact Hbody.
      split; [reflexivity|]. cbn. apply tsim_hidden; assumption.
    - assert (Hbody : orel
                (match cget c i with
                 | Some o0 => Some (o0, Node s c l kids)
                 | None => if is_none s then Some (hidden_out, Node s (cstore cempty i hidden_out) zero_lay (map hide kids))
                           else match run_memo (memo f) kids (algo s (map style_of kids) i) with
                                | Some (o0, kids1) => Some (o0, Node s (cstore c i o0) l kids1)
                                | None => None end
                 end)
                (match cget c i with
                 | Some o0 => Some (o0, Node s c l kids')
                 | None => if is_none s then Some (hidden_out, Node s (cstore cempty i hidden_out) zero_lay (map hide kids'))
                           else match run_memo (memo f) kids' (algo s (map style_of kids') i) with
                                | Some (o0, kids1) => Some (o0, Node s (cstore c i o0) l kids1)
                                | None => None end
                 end)).
      { destruct (cget c i) as [o1|].
        - split; [reflexivity|apply tsim_node; exact HK].
        - destruct (is_none s) eqn:En.
          + split; [reflexivity|]. apply tsim_hidden; exact En.
          + rewrite (blind_algo HB s _ _ i (Forall2_tsim_srel _ _ HK)).
            pose proof (run_memo_sim (memo f) IH (algo s (map style_of kids') i) kids kids' HK) as Hr.
            unfold orelL in Hr.
            destruct (run_memo (memo f) kids _) as [[o1 k1]|], (run_memo (memo f) kids' _) as [[o1' k1']|]; try contradiction; [|exact I].
            destruct Hr as [<- Hk1]. split; [reflexivity|apply tsim_node; exact Hk1]. }
      destruct (mode i); try exact Hbody.
      split; [reflexivity|]. apply (tsim_hide (Node s c l kids) (Node s c l kids')). apply tsim_node. exact HK.
  Qed.

  (* reading tsim pointwise: at every path without a display:none node strictly above its end, the two trees have a node
     there together, with the same stored layout and cache (and, unless it is display:none itself, the same style) *)
  Fixpoint visible (t : tree) (p : list nat) : Prop :=
    match p with
    | [] => True
    | x :: p' =>
        is_none (style_of t) = false /\
        match nth_error (Engine.kids_of S In Out Lay t) x with Some ch => visible ch p' | None => False end
    end.

  Lemma tsim_at : forall p t t' u, tsim t t' -> visible t p -> subtree t p = Some u ->
    exists u', subtree t' p = Some u' /\ lay_of u' = lay_of u /\ cache_of u' = cache_of u /\ srel (style_of u) (style_of u').
  Proof.
    induction p as [|x p IH]; intros t t' u H Hv Hs.
    - cbn in Hs. injection Hs as <-. exists t'. split; [reflexivity|].
      destruct H; cbn; repeat split; try reflexivity; [right; split; assumption|left; reflexivity].
    - destruct H as [s s' c l kids kids' E E'|s c l kids kids' HK]; cbn in Hv, Hs.
      + destruct Hv as [Hn _]. congruence.
      + destruct Hv as [_ Hv].
        pose proof (Forall2_nth_error_rel tsim kids kids' x HK) as Hn.
        destruct (nth_error kids x) as [ch|] eqn:Ex; [|discriminate].
        cbn. destruct (nth_error kids' x) as [ch'|] eqn:Ex'; [|contradiction].
        eapply IH; eauto.
  Qed.
End HiddenBlind.
