(* Concrete trees of the COMPLETE engine over XQ for the computed non-vacuity Examples of the taffy-engine theorems of Props/C05.v and
   Props/C06.v (audit, wave 7b: no grid or taffy-engine theorem of C05 / C06 had a computed instance).  Definitions only.

     ex_tree'   Model/TaffyExample.v ex_tree (block root 200 > [flex row > 2 leaves; GRID 50px 50px > [leaf 20 x 10; display:none leaf; text
                leaf]; absolute leaf]) with the grid's hidden leaf replaced by a LOUD display:none node: 70 x 70, grid_row 5 / span 2,
                grid_column -3, a template, two children
     ak / ak'   block root 200 > [GRID 50px 50px > [leaf 20 x 10; ABS; text leaf]; leaf 10 x 10]; ABS sits on grid_row 1 / span 1,
                grid_column 2; in ak it is a 40 x 15 flex container with a 33 x 44 child, in ak' a bare 99 x 77 block leaf *)
From Coq Require Import ZArith QArith Bool List.
From TV Require Import Num.Num Num.QNum Model.Common Model.Leaf Gen.GridTracksGen Model.GridTracks.
From TV Require Import Model.FlexAlgBase Model.BlockFlexEngine Model.GridAlgBase Model.GridAlg Model.TaffyEngine Model.TaffyRoot Model.TaffyKey Model.TaffyExample.
From TV Require Import Model.Engine Model.EngineRel.
From TV Require Model.MeasureFamily.
Import ListNotations.
Close Scope Q_scope.
Close Scope Z_scope.

Definition set_lines (s : TStyle XQ) (r c : PB.Ln PB.GP) : TStyle XQ :=
  mkTS (ts_bf s) (ts_template_columns s) (ts_template_rows s) (ts_auto_columns s) (ts_auto_rows s) (ts_flow s)
       (ts_justify_items s) (ts_justify_self s) r c (ts_replaced s) (ts_measure s).
Fixpoint sk_size (k : Engine.sk (TStyle XQ)) : nat :=
  match k with Engine.SNode _ _ kids => S (fold_right (fun c n => sk_size c + n) 0 kids) end.
Notation ttree := (Engine.tree (TStyle XQ) (FIn XQ) (LayoutOutput XQ) (FLay XQ)).
(* (x, y, width, height) of every node's stored layout, pre-order *)
Definition bxz (t : ttree) : list (XQ * XQ * XQ * XQ) :=
  map (fun l => (px (fl_location l), py (fl_location l), width (fl_size l), height (fl_size l))) (lays _ _ _ _ t).
Definition xq_is (v : XQ) (z : Z) : bool := match v with Fin q => Qeq_bool q (inject_Z z) | _ => false end.
Fixpoint boxes_are (l : list (XQ * XQ * XQ * XQ)) (e : list (Z * Z * Z * Z)) : bool :=
  match l, e with
  | [], [] => true
  | (a, b, c, d) :: l', (x, y, z, w) :: e' => xq_is a x && xq_is b y && xq_is c z && xq_is d w && boxes_are l' e'
  | _, _ => false
  end.

(* ---- C05 *)
Definition hid_big : Engine.sk (TStyle XQ) :=
  Engine.SNode _ (set_lines (ex_style DNone Relative (len 70) (len 70) true [px_track 9] MeasureFamily.MNone)
                            (PB.mkLn (PB.Line 5%Z) (PB.Span 2%Z)) (PB.mkLn (PB.Line (-3)%Z) PB.Auto))
               [ex_leaf DFlex Relative 33 44; ex_text].

(* ---- C06 *)
Definition r1 : PB.Ln PB.GP := PB.mkLn (PB.Line 1%Z) (PB.Span 1%Z).
Definition c2 : PB.Ln PB.GP := PB.mkLn (PB.Line 2%Z) PB.Auto.
Definition s_root := ex_style DBlock Relative (len 200) Auto true [] MeasureFamily.MNone.
Definition s_grid := ex_style DGrid Relative Auto Auto true [px_track 50; px_track 50] MeasureFamily.MNone.
Definition s_l1 := ex_style DFlex Relative (len 20) (len 10) true [] MeasureFamily.MNone.
Definition s_txt := ex_style DFlex Relative Auto Auto true [] (MeasureFamily.MText 10 (xq 4)).
Definition s_l2 := ex_style DFlex Relative (len 10) (len 10) true [] MeasureFamily.MNone.
Definition s_absa := set_lines (ex_style DFlex Absolute (len 40) (len 15) true [] MeasureFamily.MNone) r1 c2.
Definition s_absb := set_lines (ex_style DBlock Absolute (len 99) (len 77) true [] MeasureFamily.MNone) r1 c2.
Definition s_in := ex_style DFlex Relative (len 33) (len 44) true [] MeasureFamily.MNone.
Definition TL (s : TStyle XQ) := Engine.SNode (TStyle XQ) s [].
Definition ak : Engine.sk (TStyle XQ) :=
  Engine.SNode _ s_root [Engine.SNode _ s_grid [TL s_l1; Engine.SNode _ s_absa [TL s_in]; TL s_txt]; TL s_l2].
Definition ak' : Engine.sk (TStyle XQ) :=
  Engine.SNode _ s_root [Engine.SNode _ s_grid [TL s_l1; TL s_absb; TL s_txt]; TL s_l2].
Definition a_in : FIn XQ := taffy_root_input s_root (ex_avail 300).

(* ex_tree with the hidden leaf of its grid (path [1; 1]) replaced by hid_big *)
Definition ex_tree' : Engine.sk (TStyle XQ) :=
  Engine.SNode _ (ex_style DBlock Relative (len 200) Auto true [] MeasureFamily.MNone)
               [ex_flex_row;
                Engine.SNode _ (ex_style DGrid Relative Auto Auto true [px_track 50; px_track 50] MeasureFamily.MNone)
                             [ex_leaf DFlex Relative 20 10; hid_big; ex_text];
                ex_leaf DFlex Absolute 10 10].
