(* C12 for the three absolute-positioning kernels (Gen/AbsPosGen.v, vocabulary of Model/AbsPosBase.v): the rewrite
   content-box -> border-box on an AbsStyle and the class of eligible styles.  Definitions only. *)
From Coq Require Import Bool List.
From TV Require Import Num.Num Gen.AbsPosEnums Model.AbsPosBase.

Section BoxSizingAbs.
  Context {T : Type} `{Num T}.

  Definition abs_grow_dim (pb : T) (d : Dim T) : Dim T := match d with DLength l => DLength (add l pb) | other => other end.
  Definition abs_grow_size (pb : Size T) (s : Size (Dim T)) : Size (Dim T) :=
    mkSize (abs_grow_dim (s_width pb) (s_width s)) (abs_grow_dim (s_height pb) (s_height s)).
  (* `(padding + border).sum_axes()`; the percentage basis is irrelevant for lengths *)
  Definition abs_style_pb (st : AbsStyle T) : Size T :=
    rect_sum_axes (rect_add (rect_map (fun d => dim_resolve_or_zero d None) (st_padding st))
                            (rect_map (fun d => dim_resolve_or_zero d None) (st_border st))).
  Definition abs_to_border_box (st : AbsStyle T) : AbsStyle T :=
    mkAbsStyle (abs_grow_size (abs_style_pb st) (st_size st)) (abs_grow_size (abs_style_pb st) (st_min_size st))
               (abs_grow_size (abs_style_pb st) (st_max_size st))
               (st_inset st) (st_margin st) (st_padding st) (st_border st) (st_aspect_ratio st) BS_BorderBox
               (st_align_self st) (st_justify_self st) (st_position st).

  Definition dim_is_length (d : Dim T) : bool := match d with DLength _ => true | _ => false end.
  Definition abs_dim_not_percent (d : Dim T) : bool := match d with DPercent _ => false | _ => true end.
  Definition abs_rect_forallb {A} (p : A -> bool) (r : Rect A) : bool :=
    p (r_left r) && p (r_right r) && p (r_top r) && p (r_bottom r).
  Definition abs_size_forallb {A} (p : A -> bool) (s : Size A) : bool := p (s_width s) && p (s_height s).
  Definition abs_eligibleb (st : AbsStyle T) : bool :=
    BoxSizing_eqb (st_box_sizing st) BS_ContentBox
    && abs_rect_forallb dim_is_length (st_padding st) && abs_rect_forallb dim_is_length (st_border st)
    && opt_is_none (st_aspect_ratio st)
    && abs_size_forallb abs_dim_not_percent (st_size st) && abs_size_forallb abs_dim_not_percent (st_min_size st)
    && abs_size_forallb abs_dim_not_percent (st_max_size st).
  Definition abs_eligible (st : AbsStyle T) : Prop := abs_eligibleb st = true.
End BoxSizingAbs.
