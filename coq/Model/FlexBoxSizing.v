(* C12 on the style the flexbox algorithm reads (Model/FlexAlgBase.v `FStyle`): the rewrite content-box -> border-box and the class of
   eligible styles.  Definitions only, generic over `Num`.

     f_to_border_box_in row s    box_sizing := BorderBox; every LENGTH among size / min_size / max_size increased by padding + border of its
                                 axis (Model/BoxSizing.v to_border_box on the CoreStyle part) and a length flex_basis increased by the
                                 MAIN-axis component -- `row` is the flex direction (is_row) of the node's PARENT, the only reader of
                                 flex_basis (flexbox.rs determine_flex_base_size l.689-702)
     f_eligibleb s               the class of C12_leaf (content-box, length-valued padding / border, no aspect ratio, no percentage in
                                 size / min / max) and no percentage flex_basis *)
From Coq Require Import Bool List.
From TV Require Import Model.Common Model.Leaf Model.Root Model.BoxSizing Model.FlexAlgBase.

Section FlexBoxSizing.
  Context {T : Type} `{Num T}.

  Definition f_to_border_box_in (row : bool) (s : FStyle T) : FStyle T :=
    mkFStyle (to_border_box (fs_core s)) (fs_inset s) (fs_row s) (fs_reverse s) (fs_wrap s) (fs_wrap_reverse s)
             (fs_align_items s) (fs_align_self s) (fs_align_content s) (fs_justify_content s) (fs_gap s)
             (flex_basis_to_border_box (style_pb (fs_core s)) row (fs_flex_basis s)) (fs_grow s) (fs_shrink s).

  Definition f_eligibleb (s : FStyle T) : bool := eligibleb (fs_core s) && dim_not_percent (fs_flex_basis s).

  (* a node and its rewrite, for a parent of direction `row` *)
  Definition fbb_rel (row : bool) (s s' : FStyle T) : Prop := s' = s \/ (f_eligibleb s = true /\ s' = f_to_border_box_in row s).

  (* the direction-free class: the rewrite does not depend on the parent's direction when flex_basis is not a length *)
  Definition basis_is_length (d : Dimension T) : bool := match d with Length _ => true | _ => false end.
  Definition f_eligible_anyb (s : FStyle T) : bool := f_eligibleb s && negb (basis_is_length (fs_flex_basis s)).
  Definition f_to_border_box (s : FStyle T) : FStyle T := f_to_border_box_in true s.
End FlexBoxSizing.
