(* Non-vacuity of the whole-tree theorems of C04 / C12 over the block + flex engine (Model/BlockFlexK.v) on the concrete trees of
   Model/BlockFlexExample.v: the premises hold (fx_scaled_rel, fx_all_ok, the floor-insensitivity of the scaled tree), both sides are evaluated
   with vm_compute -- and the known finding at engine level (the fw definitions): the two-node tree whose root width is 1/2, and 0 instead of 2 after x 4. *)
From Coq Require Import QArith Qabs Lqa Bool List ZArith Lia.
From TV Require Import Num.Num Num.QNum Model.Common Model.Leaf Model.FlexAlgBase Model.FlexAlg Model.FlexAlgT Model.BoxSizing Model.FlexBoxSizing.
From TV Require Import Model.Scale Model.Engine Model.EngineRel Model.FlexAlgRel Model.BlockFlexEngine Model.BlockFlexK Model.BlockFlexExample.
From TV Require Model.BlockEngineExample Proofs.EngineExamples.
From TV Require Import Proofs.ScaleProofs Proofs.ScaleKit Proofs.BoxSizingProofs Proofs.EngineRelProofs Proofs.FlexHomog Proofs.FlexBoxSizing Proofs.BlockFlexRel.
Import ListNotations.
Close Scope Z_scope.

(* ---- C04: the scaled tree is related to the tree *)
Lemma fx_node_rel k p : 0 < k -> bfnode_rel k (fx_node p) (fx_node (fx_spec_scale k p)).
Proof.
  intros Hk. split; cbn [fx_node fx_spec_scale bfn_style bfn_measure fst snd].
  - split; [apply fstyle_rel_scale|split; reflexivity].
  - apply EngineExamples.ex_measure_homog. exact Hk.
Qed.
Lemma fx_scaled_rel k : 0 < k -> forall t : sk FxSpec,
  skrel (BFNode XQ) (bfnode_rel k) (sk_map fx_node t) (sk_map fx_node (sk_map (fx_spec_scale k) t)).
Proof.
  intros Hk. induction t as [s kids IH] using sk_ind3. cbn [sk_map].
  constructor; [apply fx_node_rel; exact Hk|]. induction IH as [|x l Hx Hl IHl]; cbn [map]; constructor; assumption.
Qed.

(* ---- C12: the measure functions of the tree respect the equality of rationals *)
Lemma fx_all_ok (t : sk FxSpec) : sk_all (BFNode XQ) bfn_ok (sk_map fx_node t).
Proof.
  induction t as [s kids IH] using sk_ind3. cbn [sk_map]. constructor; [apply EngineExamples.ex_measure_respects|].
  induction IH as [|x l Hx Hl IHl]; cbn [map]; constructor; assumption.
Qed.

(* ---- computed *)
Lemma fx_boxes_ok :
  fx_boxes fx_tree fx_input
    [fbox 0 0 0 0; fbox 4 4 300 10; fbox 4 14 300 42; fbox 3 3 188 36; fbox 202 3 64 36; fbox 272 3 25 36; fbox 0 0 25 8; fbox 0 10 25 8;
     fbox 0 0 0 0; fbox 2 3 10 10] = true.
Proof. vm_compute. reflexivity. Qed.
Lemma fx_scaled_ok_52 : fx_scaled_ok (5#2) fx_tree (fx_tree_scaled (5#2)) fx_input = true.
Proof. vm_compute. reflexivity. Qed.
Lemma fx_insensitive_52 :
  bf_memo_t (Fin (5#2)) fx_fuel (bfk_fresh (fx_tree_scaled (5#2))) (fin_scale (5#2) fx_input)
  = bf_memo fx_fuel (bfk_fresh (fx_tree_scaled (5#2))) (fin_scale (5#2) fx_input).
Proof. vm_compute. reflexivity. Qed.

(* every eligible node rewritten / only the flex row container / everything but the root *)
Definition w_all : list nat -> bool := fun _ => true.
Definition w_only_F : list nat -> bool := fun p => match p with [1%nat] => true | _ => false end.
Definition w_not_root : list nat -> bool := fun p => match p with [] => false | _ => true end.
Definition fx_rewritten (w : list nat -> bool) : sk (BFNode XQ) := sk_map_where (BFNode XQ) bfn_to_border_box w fx_tree.
Lemma fx_same_all : fx_same_ok fx_tree (fx_rewritten w_all) fx_input = true.
Proof. vm_compute. reflexivity. Qed.
Lemma fx_same_F : fx_same_ok fx_tree (fx_rewritten w_only_F) fx_input = true.
Proof. vm_compute. reflexivity. Qed.
Lemma fx_same_not_root : fx_same_ok fx_tree (fx_rewritten w_not_root) fx_input = true.
Proof. vm_compute. reflexivity. Qed.
(* the rewrite does change the tree: the root's width 300 becomes 308, the flex container F becomes border-box, the item b 60 -> 64 *)
Lemma fx_rewrite_changes :
  match fx_rewritten w_all with
  | SNode _ r [_; SNode _ f [_; SNode _ b _; _; _; _]] =>
      Some (width (size (bfn_core r)), box_sizing (bfn_core f), width (size (bfn_core b)))
  | _ => None
  end = Some (Length (qz 300 + (qz 4 + qz 0 + (qz 4 + qz 0)))%num, BorderBox, Length (qz 60 + (qz 2 + qz 0 + (qz 2 + qz 0)))%num).
Proof. vm_compute. reflexivity. Qed.

(* ---- the known finding at engine level: widths 1/2, and 0 (expected 2) after x 4; with the floor scaled too: 2 *)
Lemma fw_widths :
  fx_root_width one fw_tree fw_input = Some (Fin (1#2)) /\ fx_root_width one (fw_tree_scaled 4) (fin_scale 4 fw_input) = Some (Fin 0) /\
  fx_root_width (Fin 4) (fw_tree_scaled 4) (fin_scale 4 fw_input) = Some (Fin 2).
Proof. vm_compute. repeat split. Qed.

(* hence the engine of the implementation (floor 1.0) is NOT homogeneous on this tree: the evaluations of the tree and of the scaled tree are not related *)
Notation fw_res := (bf_memo fx_fuel (bfk_fresh fw_tree) fw_input).
Notation fw_res4 := (bf_memo fx_fuel (bfk_fresh (fw_tree_scaled 4)) (fin_scale 4 fw_input)).
Lemma fw_w1 : option_map (fun r : LayoutOutput XQ * _ => x_red (width (out_size (fst r)))) fw_res = Some (Fin (1#2)).
Proof. vm_compute. reflexivity. Qed.
Lemma fw_w4 : option_map (fun r : LayoutOutput XQ * _ => x_red (width (out_size (fst r)))) fw_res4 = Some (Fin 0).
Proof. vm_compute. reflexivity. Qed.
Lemma fw_not_related :
  ~ oprel (res_rel (BFNode XQ) (FIn XQ) (LayoutOutput XQ) (FLay XQ) (bfnode_rel 4) (fin_rel 4) (output_rel 4) (flay_rel 4)) fw_res fw_res4.
Proof.
  intros H. pose proof fw_w1 as E1. pose proof fw_w4 as E4.
  destruct fw_res as [[o t1]|]; [|discriminate E1]. destruct fw_res4 as [[o' t1']|]; [|discriminate E4].
  cbn [oprel] in H. destruct H as [([Hw _] & _) _]. cbn [fst option_map] in Hw, E1, E4. injection E1 as E1. injection E4 as E4.
  destruct (out_size o) as [w h], (out_size o') as [w' h']. cbn [width] in *.
  destruct w as [q| | |]; cbn in E1; try discriminate E1. destruct w' as [q'| | |]; cbn in E4; try discriminate E4.
  injection E1 as E1. injection E4 as E4. unfold sc, x_scale, xeq in Hw.
  assert (Hq : q == 1#2) by (rewrite <- (Qred_correct q), E1; reflexivity).
  assert (Hq' : q' == 0) by (rewrite <- (Qred_correct q'), E4; reflexivity). rewrite Hq, Hq' in Hw. discriminate Hw.
Qed.
