(* The cache functions TRANSLATED from the Rust source on every run (Gen/CacheBodyGen.v: gen_new / gen_get / gen_store /
   gen_clear / gen_is_empty / gen_is_roughly_equal, from the bodies of Cache::new / get / store / clear / is_empty in
   src/tree/cache.rs and AvailableSpace::is_roughly_equal in src/style/available_space.rs) are extensionally equal to the
   hand-written functions of Model/Cache.v, for every instance of Num.  Hence every theorem about Model/Cache.v is a theorem
   about the translated code; `gen_get_sound` restates the main soundness theorem that way.  A change of the Rust bodies that
   changes the translation breaks these proofs (they are by computation / one induction over the measure entries). *)
From Coq Require Import NArith Bool List.
From TV Require Import Num.Num Gen.CacheGen Model.Cache Gen.CacheBodyGen Proofs.CacheProofs.
Import ListNotations.

Section Generic.
  Context {T : Type} `{Num T}.

  Lemma gen_is_roughly_equal_eq : forall a b : avail T, gen_is_roughly_equal a b = is_roughly_equal a b.
  Proof. intros [| |x] [| |y]; reflexivity. Qed.

  (* the lookup predicate as the translation spells it out (twice: in the filter closure and in the loop) *)
  Lemma gen_compat_eq : forall (k ek : key T) (cs : size T),
    ((opt_eqb (kd_w k) (kd_w ek) || opt_eqb (kd_w k) (Some (width cs)))
     && (opt_eqb (kd_h k) (kd_h ek) || opt_eqb (kd_h k) (Some (height cs)))
     && (is_some (kd_w k) || gen_is_roughly_equal (av_w ek) (av_w k))
     && (is_some (kd_h k) || gen_is_roughly_equal (av_h ek) (av_h k)))%bool = compat k ek cs.
  Proof. intros. unfold compat. rewrite !gen_is_roughly_equal_eq. reflexivity. Qed.

  Lemma gen_new_eq : gen_new = (new : cache T).
  Proof. reflexivity. Qed.

  Lemma gen_get_eq : forall (c : cache T) k m, gen_get c k m = get c k m.
  Proof.
    intros c k [| |]; unfold gen_get, get; cbv beta; [| |reflexivity].
    - destruct (final c) as [e|]; [|reflexivity].
      rewrite gen_compat_eq. destruct (compat k (e_key e) (o_size (e_content e))); reflexivity.
    - induction (meas c) as [|[e|] r IH]; [reflexivity| |exact IH].
      cbn [find_compat option_map]. rewrite gen_compat_eq.
      destruct (compat k (e_key e) (e_content e)); [reflexivity | exact IH].
  Qed.

  Lemma gen_store_eq : forall (c : cache T) k m o, gen_store c k m o = store c k m o.
  Proof. intros c k [| |] o; reflexivity. Qed.

  Lemma gen_clear_eq : forall c : cache T, gen_clear c = clear c.
  Proof. intro c. unfold gen_clear, clear. destruct (is_empty_flag c); reflexivity. Qed.

  Lemma gen_is_empty_eq : forall c : cache T, gen_is_empty c = is_empty c.
  Proof. intro c. unfold gen_is_empty, is_empty. reflexivity. Qed.

  (* ---- histories over the translated functions *)
  Definition gen_step (c : cache T) (o : op T) : cache T :=
    match o with
    | OGet _ _ => c
    | OStore k m out => gen_store c k m out
    | OClear => fst (gen_clear c)
    end.
  Definition gen_run (ops : list (op T)) : cache T := fold_left gen_step ops gen_new.

  Lemma gen_run_eq : forall ops : list (op T), gen_run ops = run ops.
  Proof.
    intro ops. unfold gen_run, run, run_from. change (@gen_new T) with (new : cache T). generalize (new : cache T) as c.
    induction ops as [|o r IH]; intro c; [reflexivity|]. cbn [fold_left].
    replace (gen_step c o) with (step c o); [apply IH|].
    destruct o; cbn [step gen_step]; [reflexivity | symmetry; apply gen_store_eq | f_equal; symmetry; apply gen_clear_eq].
  Qed.

  (* C02_get_sound about the translated get / store / clear / new *)
  Lemma gen_get_sound : forall (ops : list (op T)) k m o, gen_get (gen_run ops) k m = Some o ->
    m <> PerformHiddenLayout /\
    exists ek so, stored_live ops ek m so /\
      ((opt_eqb (kd_w k) (kd_w ek) || opt_eqb (kd_w k) (Some (width (o_size so))))
       && (opt_eqb (kd_h k) (kd_h ek) || opt_eqb (kd_h k) (Some (height (o_size so))))
       && (is_some (kd_w k) || gen_is_roughly_equal (av_w ek) (av_w k))
       && (is_some (kd_h k) || gen_is_roughly_equal (av_h ek) (av_h k)))%bool = true /\
      o = out_of m so.
  Proof.
    intros ops k m o E. rewrite gen_run_eq, gen_get_eq in E. destruct (get_sound ops k m o E) as [Hm [ek [so [L [C O]]]]].
    split; [exact Hm|]. exists ek, so. rewrite gen_compat_eq. auto.
  Qed.

  (* after the translated clear every translated lookup misses and the translated is_empty holds *)
  Lemma gen_clear_spec : forall ops : list (op T),
    (forall k m, gen_get (fst (gen_clear (gen_run ops))) k m = None) /\
    gen_is_empty (fst (gen_clear (gen_run ops))) = true.
  Proof.
    intro ops. rewrite gen_run_eq, gen_clear_eq. destruct (clear_spec ops) as [G [E _]].
    split; [intros; rewrite gen_get_eq; apply G | rewrite gen_is_empty_eq; exact E].
  Qed.
End Generic.
