(* Totality of the real-cache WRAPPERS (compute_root_layout, sequences of passes) over Proofs/TaffyRealTotal.v `trl_memo_total` /
   `blr_memo_total`: one more "a pass keeps the skeleton" step each (`gmemo_skel`, `gskel_set_lay`, `gskel_reset`):
     trl_compute_root_total, trl_passes_total, trl_layout_passes_total     Model/TaffyEngineReal.v (complete engine)
     blr_compute_root_total, blr_passes_total, blr_layout_passes_total     Model/BlockEngineReal.v (block containers + leaves)
   for every ghost equality, every cache content / counters / stored layouts, every list of available spaces: fuel >= height suffices. *)
From Coq Require Import ZArith Bool List Arith Lia.
From TV Require Import Num.Num.
From TV Require Import Model.Engine Model.EngineReal Proofs.EngineTotal Proofs.EngineRealTotal Proofs.TaffyTotal Proofs.TaffyRealTotal.
From TV Require Model.Common Model.Leaf Model.FlexAlgBase Model.BlockFlexEngine Model.TaffyEngine Model.TaffyRoot Model.TaffyEngineReal.
From TV Require Model.Block Model.BlockAlg Model.BlockEngine Model.BlockEngineReal Model.BlockAbs Proofs.BlockAbsLocal Model.BlockChainReal.
Import ListNotations.

Section Generic.
  Lemma gskel_reset (S Lay C : Type) (t : gtree S Lay C) : gskel S Lay C (greset S Lay C t) = gskel S Lay C t.
  Proof.
    revert t. fix IH 1. intros [s c l n kids]. cbn. f_equal. rewrite map_map.
    induction kids as [|x r IHr]; cbn; [reflexivity|]. rewrite IH, IHr. reflexivity.
  Qed.

  Lemma gheight_reset (S Lay C : Type) (t : gtree S Lay C) : gheight S Lay C (greset S Lay C t) = gheight S Lay C t.
  Proof. unfold gheight. rewrite gskel_reset. reflexivity. Qed.

  Lemma gheight_set_lay (S Lay C : Type) (t : gtree S Lay C) l : gheight S Lay C (gset_lay S Lay C t l) = gheight S Lay C t.
  Proof. unfold gheight. rewrite gskel_set_lay. reflexivity. Qed.

  Lemma gskel_fresh (S Lay C : Type) zero_lay cempty (k : sk S) : gskel S Lay C (gfresh S Lay zero_lay C cempty k) = k.
  Proof.
    revert k. fix IH 1. intros [s kids]. cbn. f_equal. rewrite map_map.
    induction kids as [|x r IHr]; cbn; [reflexivity|]. rewrite IH, IHr. reflexivity.
  Qed.
End Generic.

Section TaffyReal.
  Import Model.Common Model.Leaf Model.FlexAlgBase Model.BlockFlexEngine Model.TaffyEngine Model.TaffyRoot Model.TaffyEngineReal.
  Context {T : Type} `{Num T}.
  Notation th := (gheight (TStyle T) (FLay T) (rcache (FIn T) (LayoutOutput T))).

  Lemma trl_memo_height teq fuel (t : @trtree T) i o t' : trl_memo teq fuel t i = Some (o, t') -> th t' = th t.
  Proof.
    unfold trl_memo, memo_real. intros E. unfold gheight. f_equal.
    eapply (gmemo_skel (TStyle T) (FIn T) (LayoutOutput T) (FLay T)). exact E.
  Qed.

  Theorem trl_compute_root_total teq fuel (t : @trtree T) avail :
    th t <= fuel -> exists t', trl_compute_root teq fuel t avail = Some t' /\ th t' = th t.
  Proof.
    intros Hh. unfold trl_compute_root.
    destruct (trl_memo_total teq fuel t (taffy_root_input (gstyle _ _ _ t) avail) Hh) as (o & t' & E). rewrite E.
    eexists. split; [reflexivity|]. rewrite gheight_set_lay. eapply trl_memo_height; eauto.
  Qed.

  Theorem trl_passes_total teq fuel avails : forall (t : @trtree T), th t <= fuel ->
    exists ls t', trl_passes teq fuel t avails = Some (ls, t').
  Proof.
    induction avails as [|a rest IH]; intros t Hh; cbn [trl_passes]; [eauto|].
    destruct (trl_compute_root_total teq fuel (greset _ _ _ t) a) as (t1 & E1 & H1); [rewrite gheight_reset; exact Hh|].
    rewrite E1. destruct (IH t1) as (ls & t2 & E2); [rewrite H1, gheight_reset; exact Hh|]. rewrite E2. eauto.
  Qed.

  Theorem trl_layout_passes_total teq fuel (k : Engine.sk (TStyle T)) avails : sheight (TStyle T) k <= fuel ->
    exists ls t', trl_layout_passes teq fuel k avails = Some (ls, t').
  Proof.
    intros Hh. unfold trl_layout_passes. apply trl_passes_total. unfold trl_fresh, fresh_real, gheight. rewrite gskel_fresh. exact Hh.
  Qed.
End TaffyReal.

Section BlockReal.
  Import Model.Block Model.BlockAlg Model.BlockEngine Model.BlockEngineReal.
  Context {T : Type} `{Num T}.
  Notation bh := (gheight (BNode T) (BLayout T) (rcache (BIn T) (ChildOut T))).

  Lemma blr_memo_height teq pre abs_child fuel (t : @brtree T) i o t' : blr_memo teq pre abs_child fuel t i = Some (o, t') -> bh t' = bh t.
  Proof.
    unfold blr_memo, memo_real. intros E. unfold gheight. f_equal.
    eapply (gmemo_skel (BNode T) (BIn T) (ChildOut T) (BLayout T)). exact E.
  Qed.

  Theorem blr_compute_root_total teq pre abs_child (Hloc : AbsChildLocal abs_child) fuel (t : @brtree T) avail :
    bh t <= fuel -> exists t', blr_compute_root teq pre abs_child fuel t avail = Some t' /\ bh t' = bh t.
  Proof.
    intros Hh. unfold blr_compute_root.
    destruct (blr_memo_total teq pre abs_child Hloc fuel t
                (root_bin (BlockRoot.block_root_known (bn_style (gstyle _ _ _ t)) avail) avail) Hh) as (o & t' & E).
    rewrite E. eexists. split; [reflexivity|]. rewrite gheight_set_lay. eapply blr_memo_height; eauto.
  Qed.

  Theorem blr_passes_total teq pre abs_child (Hloc : AbsChildLocal abs_child) fuel avails : forall (t : @brtree T), bh t <= fuel ->
    exists ls, blr_passes teq pre abs_child fuel t avails = Some ls.
  Proof.
    induction avails as [|a rest IH]; intros t Hh; cbn [blr_passes]; [eauto|].
    destruct (blr_compute_root_total teq pre abs_child Hloc fuel (greset _ _ _ t) a) as (t1 & E1 & H1); [rewrite gheight_reset; exact Hh|].
    rewrite E1. destruct (IH t1) as (ls & E2); [rewrite H1, gheight_reset; exact Hh|]. rewrite E2. eauto.
  Qed.

  Theorem blr_layout_passes_total teq pre abs_child (Hloc : AbsChildLocal abs_child) fuel (k : Engine.sk (BNode T)) avails :
    sheight (BNode T) k <= fuel -> exists ls, blr_layout_passes teq pre abs_child fuel k avails = Some ls.
  Proof.
    intros Hh. unfold blr_layout_passes. apply blr_passes_total; [exact Hloc|]. unfold blr_fresh, fresh_real, gheight. rewrite gskel_fresh. exact Hh.
  Qed.

  (* the chains of C16 (Model/BlockChainReal.v): depth d = d + 1 levels, so the fuel `depth + 4` of `chain_counts` always suffices *)
  Lemma chain_sheight mix d : sheight (BNode T) (BlockChainReal.chain mix d) = Datatypes.S d.
  Proof.
    induction d as [|d IH]; [reflexivity|]. cbn [BlockChainReal.chain sheight map]. rewrite IH. cbn [list_max fold_right].
    rewrite Nat.max_0_r. reflexivity.
  Qed.

  Theorem chain_layout_passes_total teq mix d avails :
    exists ls, blr_layout_passes teq block_pre BlockAbs.abs_child_block (d + 4) (BlockChainReal.chain mix d) avails = Some ls.
  Proof.
    apply blr_layout_passes_total; [apply BlockAbsLocal.abs_child_block_local|]. rewrite chain_sheight. lia.
  Qed.
End BlockReal.
